#!/usr/bin/env python3
"""Generates /verif/MANIFEST.json from the table below (keeps it schema-valid)."""
import json, os
HERE = os.path.dirname(os.path.dirname(os.path.abspath(__file__)))
CLAIMS = json.load(open(os.path.join(HERE, 'tools', 'claims.json')))
props = [json.loads(l) for l in open(os.path.join(HERE, 'properties.jsonl'))]
ids = [p['id'] for p in props]
checks, na = [], []
for pid in ids:
    c = CLAIMS.get(pid)
    if not c or c.get('not_applicable'):
        na.append({"property_id": pid, "reason": (c or {}).get('not_applicable', 'no check built yet for this property (static analysis); see DESIGN.md')})
        continue
    checks.append({
        "property_id": pid,
        "quick_cmd": f"./check {pid} quick",
        "thorough_cmd": f"./check {pid} thorough",
        "evidence_file": f"evidence/{pid}.json",
        "replay_cmd_template": f"./check {pid} quick  # replay file {{path}} names rule+construct; the rule is re-evaluated on the current tree",
        "engine": "pprofcheck",
        "level_claimed": {"category": "other", "text": c['text'], "design_ref": c.get('design_ref', 'DESIGN.md §2 ' + pid)},
        "level_note": c['note'],
        "technique": c['technique'],
    })
m = {
    "version": 1,
    "setup_cmd": "cd checker && GOFLAGS=-mod=mod GOPROXY=off GOSUMDB=off GOTOOLCHAIN=local go build -o ../bin/pprofcheck .",
    "hooks": {
        "guard": "verif",
        "enable": "none needed: the checks are static analyses of /repo's working tree; no instrumentation is compiled into pprof",
        "baseline_off_cmd": "cd /repo && GOFLAGS=-mod=mod go test -vet=off -count=1 ./... && cd browsertests && GOFLAGS=-mod=mod go test -vet=off -count=1 ./...",
        "source_commits": [],
        "add_only": True,
    },
    "engines": [{"name": "pprofcheck", "path": "checker/", "serves_properties": [c['property_id'] for c in checks],
                 "kind_free_text": "repository-specific static analyser: go/packages + go/types + go/ssa + module call graph (VTA for dynamic sites), x/tools v0.29.0"}],
    "checks": checks,
    "not_applicable": na,
    "notes": "All checks decide structural necessary conditions of the properties from the source (level 'other'); see DESIGN.md for which clause of each property is decided and which is not. Genuine defects found: known_findings.json.",
}
json.dump(m, open(os.path.join(HERE, 'MANIFEST.json'), 'w'), indent=1)
print(len(checks), "checks,", len(na), "not applicable")
