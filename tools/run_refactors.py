#!/usr/bin/env python3
"""Behaviour-preserving refactorings produced by sub-agents: confirm that the suite passes with each
(parallel, scratch worktrees /tmp/wtpN), then apply each to /repo, run every check, undo, and report
which checks raise an alarm (= false alarms to be looked at).
usage: run_refactors.py <dir-prefix> [prop ...]     e.g. run_refactors.py /tmp/refR-  C01 C02"""
import glob, os, re, subprocess, sys, concurrent.futures as cf
ENV = dict(os.environ, GOFLAGS="-mod=mod", GOPROXY="off", GOSUMDB="off", GOTOOLCHAIN="local")
ENV.pop("GOWORK", None)
def sh(cmd, cwd=None, timeout=1800):
    r = subprocess.run(cmd, shell=True, cwd=cwd, env=ENV, capture_output=True, text=True, timeout=timeout)
    return r.returncode, r.stdout + r.stderr
args = [a for a in sys.argv[1:] if not a.startswith("--")]
NOSUITE = "--no-suite" in sys.argv
prefix = args[0]
props = args[1:]
items = []
for d in sorted(glob.glob(prefix + "C*/refactor*/patch.diff")) + sorted(glob.glob(os.path.join(prefix, "C*-r*/patch.diff"))):
    prop = re.search(r"(C\d\d)[/-]r", d).group(1)
    if props and prop not in props and os.path.basename(os.path.dirname(d)) not in props: continue
    if os.path.getsize(d) == 0: continue
    items.append((prop, os.path.basename(os.path.dirname(d)), d))
NW = 5
REPO = os.environ.get("REPO", "/repo")   # tree the checks are run on (a scratch worktree while /repo is busy)
buckets = [[] for _ in range(NW)]
for i, it in enumerate(items): buckets[i % NW].append(it)
def work(w):
    wt = f"/tmp/wtp{w}"
    if not os.path.isdir(wt): sh(f"git -C /repo worktree add --detach {wt} HEAD")
    out = {}
    for prop, name, patch in buckets[w]:
        sh("git checkout -q -- . ; git clean -qfd", cwd=wt)
        rc, o = sh(f"git apply {patch}", cwd=wt)
        if rc != 0:
            out[(prop, name)] = "PATCH DOES NOT APPLY"; continue
        rc, o = sh("go build ./... 2>&1 | head -3; go test -count=1 ./... 2>&1 | grep -v 'no test files' | grep -v '^ok' | head -5", cwd=wt)
        out[(prop, name)] = "suite ok" if not o.strip() else "SUITE NOT OK: " + o.strip()[:200]
        sh("git checkout -q -- .", cwd=wt)
    return out
res = {}
if NOSUITE:
    res = {(p, n): "suite ok" for p, n, _ in items}
else:
    with cf.ThreadPoolExecutor(NW) as ex:
        for o in ex.map(work, range(NW)): res.update(o)
if not os.environ.get("NOBUILD"):
    sh("cd /verif/checker && go build -o ../bin/pprofcheck .")
alarms = 0
for prop, name, patch in items:
    st = res[(prop, name)]
    if st != "suite ok":
        print(f"=== {prop} {name}: {st} (skipped)"); continue
    rc, o = sh(f"git -C {REPO} apply {patch}")
    if rc != 0:
        print(f"=== {prop} {name}: does not apply to /repo"); continue
    try:
        rc, out = sh(f"/verif/bin/pprofcheck -property {os.environ.get('ONLYPROP', 'all')} -no-evidence -repo {REPO}")
    finally:
        sh(f"git -C {REPO} checkout -- .")
    lines = [l.strip()[:420] for l in out.splitlines() if re.match(r"\s*(VIOLATION C|UNDECIDED)", l)]
    if "cannot analyse" in out: lines.append(out[:300])
    print(f"=== {prop} {name}: suite ok; checks: {'SILENT' if not lines else 'ALARM (' + str(len(lines)) + ')'}")
    for l in lines[:8]: print("    " + l)
    alarms += bool(lines)
print(f"{len(items)} refactorings, {alarms} with alarms")
if not NOSUITE:
    for w in range(NW): sh(f"git -C /repo worktree remove --force /tmp/wtp{w}")
    sh("git -C /repo worktree prune")
