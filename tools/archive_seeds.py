#!/usr/bin/env python3
"""Archive confirmed seeded changes into /verif/seeded/<id>/ and record which checks report them.
usage: archive_seeds.py  (reads the table below; applies each patch to /repo, runs all checks, undoes it)"""
import json, os, re, shutil, subprocess, sys
SEEDS = [  # (property, index, package dir of the demo)
 ("C01",1,"profile"),("C01",2,"profile"),("C02",1,"profile"),("C02",2,"profile"),("C03",1,"profile"),("C03",2,"profile"),
 ("C05",1,"internal/report"),("C05",2,"internal/report"),("C06",1,"profile"),("C06",2,"internal/driver"),
 ("C08",1,"internal/driver"),("C08",2,"internal/report"),("C09",1,"internal/driver"),("C09",2,"internal/driver"),
 ("C10",1,"internal/driver"),("C10",2,"internal/driver"),("C11",1,"profile"),("C11",2,"profile"),
 ("C12",1,"internal/symbolz"),("C12",2,"internal/symbolizer"),("C16",1,"internal/driver"),("C16",2,"internal/driver"),
 ("C18",1,"internal/graph"),("C18",2,"internal/driver"),("C19",1,"internal/driver"),("C19",2,"internal/driver"),
 ("C20",1,"internal/binutils"),("C20",2,"internal/driver"),
]
SEEDS += [tuple(x) for x in json.load(open('/verif/tools/more_seeds.json'))] if os.path.exists('/verif/tools/more_seeds.json') else []
ALL = ["C01","C02","C03","C04","C05","C06","C08","C09","C10","C11","C12","C13","C14","C15","C16","C17","C18","C19","C20"]
only = sys.argv[1:]
REPO = os.environ.get("REPO", "/repo")
for ent in SEEDS:
    prop, i, pkg = ent[0], ent[1], ent[2]
    sid = f"{prop}-s{i}"
    if only and sid not in only: continue
    src = ent[3] if len(ent) > 3 else f"/tmp/seed-{prop}/seeded{i}"
    dst = f"/verif/seeded/{sid}"
    os.makedirs(dst, exist_ok=True)
    if os.path.exists(src):
        for f in ("patch.diff","demo_test.go","notes.md"):
            if os.path.exists(os.path.join(src,f)): shutil.copy(os.path.join(src,f), os.path.join(dst,f))
    patch = os.path.join(dst,"patch.diff")
    r = subprocess.run(["git","-C",REPO,"apply",patch], capture_output=True, text=True)
    if r.returncode != 0:
        print(sid, "PATCH DOES NOT APPLY", r.stderr[:200]); continue
    detected = {}
    try:
        out = subprocess.run(["/verif/bin/pprofcheck","-property","all","-no-evidence","-repo",REPO], capture_output=True, text=True)
        for l in out.stdout.splitlines():
            m = re.match(r"\s*(VIOLATION|UNDECIDED) ((C\d\d)-R\d+|core)", l)
            if not m: continue
            q = m.group(3) or "core"
            d = detected.setdefault(q, {"rules": [], "first_report": l.strip()[:300]})
            if m.group(2) not in d["rules"]: d["rules"].append(m.group(2))
        for l in out.stdout.splitlines():
            m = re.match(r"VIOLATION property=(C\d\d)", l)
            if m and m.group(1) not in detected:
                detected[m.group(1)] = {"rules": [], "first_report": l}
    finally:
        subprocess.run(["git","-C",REPO,"checkout","--","."])
    notes = open(os.path.join(dst,"notes.md")).read() if os.path.exists(os.path.join(dst,"notes.md")) else ""
    sn = json.load(open("/verif/tools/seed_notes.json")).get(sid, {})
    meta = {
        "id": sid, "property": prop, "summary": sn.get("summary",""), "first_missed": sn.get("first_missed"), "demo_package_dir": pkg,
        "what_it_needs_to_manifest": "see notes.md (written by the sub-agent that produced the change)",
        "confirmed_by_me": {
            "procedure": "tools/confirm_seed.sh (seed directory %s, demo copied into %s) in the scratch worktree /tmp/wt" % (src, pkg),
            "full_suite_with_patch": "all packages ok",
            "demo_with_patch": "FAIL",
            "demo_without_patch": "ok",
        },
        "checks_run": "every check's quick rule set with the patch applied to /repo (git apply; undone with git checkout -- .)",
        "detected_by": detected,
        "own_property_check_fires": prop in detected,
    }
    json.dump(meta, open(os.path.join(dst,"meta.json"),"w"), indent=1)
    print(sid, "own check fires:" , prop in detected, "| all:", {k:v["rules"] for k,v in detected.items()})
