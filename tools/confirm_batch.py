#!/usr/bin/env python3
"""Confirm a batch of seeded changes.
usage: confirm_batch.py <spec-file>      spec lines:  <prop> <index> <demo package dir> <seed dir>
Part A (parallel, one scratch worktree of /repo per worker under /tmp/wtN): the full suite passes with the
patch, the demonstration fails with it and passes without it.
Part B (serial, on /repo itself): git apply, run every check's quick rule set in one process, undo.
Scratch worktrees are removed at the end."""
import os, re, subprocess, sys, shutil, concurrent.futures as cf
ENV = dict(os.environ, GOFLAGS="-mod=mod", GOPROXY="off", GOSUMDB="off", GOTOOLCHAIN="local")
ENV.pop("GOWORK", None)
def sh(cmd, cwd=None, timeout=1800):
    r = subprocess.run(cmd, shell=True, cwd=cwd, env=ENV, capture_output=True, text=True, timeout=timeout)
    return r.returncode, r.stdout + r.stderr
specs = [l.split() for l in open(sys.argv[1]) if l.strip() and not l.startswith('#')]
NW = 5
REPO = os.environ.get("REPO", "/repo")   # tree used for part B (a scratch worktree while /repo is busy)
def partA(args):
    w, (prop, idx, pkg, sd) = args
    wt = f"/tmp/wtp{w}"
    if not os.path.isdir(wt):
        sh(f"git -C /repo worktree add --detach {wt} HEAD")
    sh("git checkout -q -- . ; git clean -qfd", cwd=wt)
    rc, out = sh(f"git apply {sd}/patch.diff", cwd=wt)
    if rc != 0:
        return (prop, idx, "PATCH DOES NOT APPLY: " + out[:200], None, None)
    rc, out = sh("go test -count=1 ./... 2>&1 | grep -v 'no test files' | grep -v '^ok' | head -5", cwd=wt)
    suite = "all ok" if not out.strip() else "NOT OK: " + out.strip()[:300]
    dst = os.path.join(wt, pkg, "zz_seed_demo_test.go")
    shutil.copy(os.path.join(sd, "demo_test.go"), dst)
    rc1, out1 = sh(f"go test -count=1 -run 'Seed|seed|Demo|C[0-9][0-9]' ./{pkg}/ 2>&1 | grep -- '--- FAIL\\|^ok\\|^FAIL\\|panic:' | head -4", cwd=wt, timeout=900)
    sh("git checkout -q -- .", cwd=wt)
    rc2, out2 = sh(f"go test -count=1 -run 'Seed|seed|Demo|C[0-9][0-9]' ./{pkg}/ 2>&1 | grep -- '--- FAIL\\|^ok\\|^FAIL\\|panic:' | head -4", cwd=wt, timeout=900)
    os.remove(dst)
    withp = "FAIL" if ("FAIL" in out1 or "panic" in out1) else "passes?! " + out1.strip()[:100]
    without = "ok" if (out2.strip().startswith("ok") and "FAIL" not in out2) else "NOT OK: " + out2.strip()[:200]
    return (prop, idx, suite, withp, without)
# static assignment of specs to workers so that a worktree is used by one job at a time
buckets = [[] for _ in range(NW)]
for i, s in enumerate(specs):
    buckets[i % NW].append(s)
def runBucket(w):
    return [partA((w, s)) for s in buckets[w]]
resA = {}
with cf.ThreadPoolExecutor(NW) as ex:
    for lst in ex.map(runBucket, range(NW)):
        for prop, idx, suite, withp, without in lst:
            resA[(prop, idx)] = (suite, withp, without)
if not os.environ.get("NOBUILD"):
    sh("cd /verif/checker && go build -o ../bin/pprofcheck .")
for prop, idx, pkg, sd in specs:
    suite, withp, without = resA[(prop, idx)]
    print(f"=== {prop} #{idx} ({sd})  suite with patch: {suite} | demo with patch: {withp} | demo without: {without}")
    rc, out = sh(f"git -C {REPO} apply {sd}/patch.diff")
    if rc != 0:
        print("    PATCH DOES NOT APPLY TO /repo"); continue
    try:
        rc, out = sh(f"/verif/bin/pprofcheck -property all -no-evidence -repo {REPO}")
    finally:
        sh(f"git -C {REPO} checkout -- .")
    lines = [l.strip()[:330] for l in out.splitlines() if re.match(r"\s*(VIOLATION C|UNDECIDED)", l)]
    own = [l for l in lines if re.match(rf"(VIOLATION|UNDECIDED) {prop}-", l)]
    print(f"    own check ({prop}): {'REPORTS' if own else 'SILENT'}")
    for l in lines[:6]:
        print("    " + l)
for w in range(NW):
    sh(f"git -C /repo worktree remove --force /tmp/wtp{w}")
sh("git -C /repo worktree prune")
