#!/bin/bash
# usage: confirm_seed.sh <prop> <i> <pkgdir>   (seed dir /tmp/seed-<prop>/seeded<i>)
# Confirms in the scratch worktree /tmp/wt: suite passes with the patch, demo fails with it and passes without it.
# Then applies the patch to /repo, runs the property's check (and all others), and undoes it.
export GOFLAGS=-mod=mod GOPROXY=off GOSUMDB=off GOTOOLCHAIN=local; unset GOWORK
P=$1; I=$2; PKG=$3; SD=${SEEDROOT:-/tmp/seed-$P}/seeded$I
cd /tmp/wt || exit 2
git checkout -q -- . ; git clean -qfd; git checkout -q --detach main
git apply $SD/patch.diff || { echo "PATCH DOES NOT APPLY"; exit 2; }
echo "--- suite with patch:"; go test -count=1 ./... 2>&1 | grep -v "no test files" | grep -v "^ok" | head -5; echo "(end non-ok lines)"
cp $SD/demo_test.go $PKG/zz_seed_demo_test.go
echo "--- demo with patch:"; go test -count=1 -run 'Seed|seed|Demo|C[0-9][0-9]' ./$PKG/ 2>&1 | grep -- "--- FAIL\|^ok\|^FAIL\|panic:" | head -5
git checkout -q -- .
echo "--- demo without patch:"; go test -count=1 -run 'Seed|seed|Demo|C[0-9][0-9]' ./$PKG/ 2>&1 | grep -- "--- FAIL\|^ok\|^FAIL" | head -5
rm -f $PKG/zz_seed_demo_test.go
echo "--- checks on /repo with patch:"
cd /repo && git apply $SD/patch.diff || { echo "PATCH DOES NOT APPLY TO /repo"; exit 2; }
/verif/bin/pprofcheck -property all -no-evidence 2>&1 | grep "^ *VIOLATION C\|^ *UNDECIDED" | cut -c1-330 | head -12
git -C /repo checkout -- . ; git -C /repo status --short | head -3
echo "--- done"
