#!/bin/bash
# usage: try_seed.sh <patch> <prop>...   applies a patch to /repo, runs the named checks without evidence, undoes it
export GOFLAGS=-mod=mod GOPROXY=off GOSUMDB=off GOTOOLCHAIN=local; unset GOWORK
P=$1; shift
(cd /verif/checker && go build -o ../bin/pprofcheck .) || exit 2
git -C /repo apply $P || { echo "PATCH DOES NOT APPLY"; exit 2; }
for q in "$@"; do
  out=$(/verif/bin/pprofcheck -property $q -no-evidence 2>&1); rc=$?
  echo "$q rc=$rc"; echo "$out" | grep "VIOLATION\|UNDECIDED" | grep -v "^VIOLATION property" | cut -c1-400 | head -6
done
git -C /repo checkout -- .
