#!/bin/bash
# usage: tr.sh <refactor-or-seed id|patch> [property ...]   apply, run checks (default all), undo; prints alarm lines
export GOFLAGS=-mod=mod GOPROXY=off GOSUMDB=off GOTOOLCHAIN=local; unset GOWORK
P=$1; shift; R=${REPO:-/repo}
[ -f "$P" ] || { [ -f /verif/refactors/$P/patch.diff ] && P=/verif/refactors/$P/patch.diff || P=/verif/seeded/$P/patch.diff; }
(cd /verif/checker && go build -o ../bin/pprofcheck .) || exit 2
git -C $R apply $P || { echo "PATCH DOES NOT APPLY"; exit 2; }
for q in ${@:-all}; do
  /verif/bin/pprofcheck -property $q -no-evidence -repo $R 2>&1 | grep -E "^\s+(VIOLATION|UNDECIDED)|cannot analyse|panic" | cut -c1-${W:-500}
done
git -C $R checkout -- .
