#!/usr/bin/env python3
"""Run one property's check on an in-memory single-edit variant of /repo (overlay; no scratch copy).
usage: mutate.py <prop> <repo-relative file> <old text> <new text> [more file old new ...]"""
import json, os, subprocess, sys, tempfile
prop = sys.argv[1]
ov = {}
args = sys.argv[2:]
for i in range(0, len(args), 3):
    f, old, new = args[i:i+3]
    path = os.path.join('/repo', f)
    src = ov.get(path) or open(path).read()
    if src.count(old) != 1:
        print(f"pattern occurs {src.count(old)} times in {f}", file=sys.stderr); sys.exit(3)
    ov[path] = src.replace(old, new)
with tempfile.NamedTemporaryFile('w', suffix='.json', delete=False) as t:
    json.dump(ov, t)
r = subprocess.run(['/verif/bin/pprofcheck', '-property', prop, '-overlay', t.name, '-no-evidence'])
os.unlink(t.name)
sys.exit(r.returncode)
