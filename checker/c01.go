package main

import (
	"fmt"
	"go/token"
	"go/types"
	"sort"
	"strings"

	"golang.org/x/tools/go/ssa"
)

func init() { register("C01", true, runC01) }

type codecEntry struct {
	kind   string // int64 | uint64 | bool | int64s | uint64s | strings | message
	field  string // target field of the message struct
	fn     string // encode*/decode* function used
	pos    token.Pos
	assert string // decoder side: the type asserted on m
}

var encodeKinds = map[string]string{
	"encodeInt64": "int64", "encodeInt64Opt": "int64", "encodeUint64": "uint64", "encodeUint64Opt": "uint64",
	"encodeBool": "bool", "encodeBoolOpt": "bool", "encodeInt64s": "int64s", "encodeUint64s": "uint64s",
	"encodeStrings": "strings", "encodeString": "string", "encodeStringOpt": "string", "encodeMessage": "message",
}
var decodeKinds = map[string]string{
	"decodeInt64": "int64", "decodeUint64": "uint64", "decodeBool": "bool", "decodeInt64s": "int64s",
	"decodeUint64s": "uint64s", "decodeStrings": "strings", "decodeString": "string", "decodeMessage": "message",
}

func runC01(c *Check) {
	c.Explanation = "Decides the table-agreement part of C01 for every profile: for each of the eight wire messages the writer's encode method and the reader's decoder table agree tag by tag on kind and on the struct field they carry (no field written but not read, read but not written, read into the neighbouring field, or asserted as the wrong message type) (R1); every string-index and id scratch field that encode writes is filled by preEncode from the exported attribute that postDecode resolves it back into (intern/resolve symmetry) (R2); every exported attribute of the eight message structs is carried by one of those paths (R3); the scratch fields are produced only inside serialize (R4); the varint and tag constants of encoder and decoder describe the same radix and the same tag/wire-type split (R5). Also: unit lists are padded before NumUnit is published (R6); every scalar scratch field assigned in a loop of preEncode is assigned on every path through the iteration, so no value of an earlier serialization survives (R7); a conditional sub-message is written whenever any field its own encode method writes is set (R8); preEncode and marshal run in one critical section of serialize (R4). Also: nothing is interned after the string table was built (R10); a sub-message is framed with tag and length on every path after its encode call (R11); no map-order effect in the serializer's call tree (R12). Round-I additions: the decoder's table lookup skips a field number equal to the table length; nothing on the parse path reads through a bounded reader (io.LimitReader/CopyN). Not decided: the varint/packed arithmetic itself, packed thresholds, id-table resolution for sparse ids, byte-identical re-serialization, gzip."
	p := c.P
	sp := p.SSAPkg("profile")
	if sp == nil {
		c.undecided("C01-R1", "anchor:profile", "", "package profile not loaded")
		return
	}
	// message types: named types with both encode and decoder methods
	var msgs []*types.Named
	for _, t := range p.moduleNamedTypes() {
		if t.Obj().Pkg().Path() != modPath+"/profile" {
			continue
		}
		if _, isIface := t.Underlying().(*types.Interface); isIface {
			continue
		}
		has := map[string]bool{}
		for _, tt := range []types.Type{t, types.NewPointer(t)} {
			ms := p.SSA.MethodSets.MethodSet(tt)
			for i := 0; i < ms.Len(); i++ {
				has[ms.At(i).Obj().Name()] = true
			}
		}
		if has["encode"] && has["decoder"] {
			msgs = append(msgs, t)
		}
	}
	sort.Slice(msgs, func(i, j int) bool { return msgs[i].Obj().Name() < msgs[j].Obj().Name() })
	if len(msgs) < 8 {
		c.undecided("C01-R1", "anchor:messages", "", fmt.Sprintf("only %d message types found (expected 8)", len(msgs)))
		return
	}
	tables := decoderTables(p, sp)
	encTargets := map[string]map[string]bool{} // type → fields carried by encode
	for _, t := range msgs {
		tn := t.Obj().Name()
		enc := methodOf(p, t, "encode")
		dec := methodOf(p, t, "decoder")
		if enc == nil || dec == nil {
			c.undecided("C01-R1", "anchor:"+tn, "", "encode/decoder method of "+tn+" not found")
			continue
		}
		encs := encodeEntries(c, enc)
		// decoder(): returns *G
		var tab map[int]*ssa.Function
		for _, b := range dec.Blocks {
			for _, ins := range b.Instrs {
				if ret, ok := ins.(*ssa.Return); ok && len(ret.Results) == 1 {
					if ld, ok := ret.Results[0].(*ssa.UnOp); ok {
						if g, ok := ld.X.(*ssa.Global); ok {
							tab = tables[g]
						}
					}
				}
			}
		}
		if tab == nil {
			c.undecided("C01-R1", "table:"+tn, p.relFile(dec.Pos()), "decoder table of "+tn+" not resolved")
			continue
		}
		decs := map[int]codecEntry{}
		for slot, fn := range tab {
			decs[slot] = decodeEntry(fn)
		}
		encTargets[tn] = map[string]bool{}
		tags := map[int]bool{}
		for tag := range encs {
			tags[tag] = true
		}
		for tag := range decs {
			tags[tag] = true
		}
		var order []int
		for tag := range tags {
			order = append(order, tag)
		}
		sort.Ints(order)
		seenField := map[string]int{}
		for _, tag := range order {
			key := fmt.Sprintf("tag:%s:%d", tn, tag)
			es, okE := encs[tag]
			d, okD := decs[tag]
			switch {
			case !okD:
				c.bad("C01-R1", key, p.relFile(es[0].pos), fmt.Sprintf("%s.encode writes tag %d (%s of %s) but the decoder table has no entry for it: the attribute is lost on re-parse", tn, tag, es[0].kind, es[0].field))
				continue
			case !okE:
				c.bad("C01-R1", key, p.relFile(d.pos), fmt.Sprintf("the decoder table of %s reads tag %d into %s but %s.encode never writes it: the attribute is lost on write", tn, tag, d.field, tn))
				continue
			}
			if len(es) > 1 {
				c.bad("C01-R1", key, p.relFile(es[1].pos), fmt.Sprintf("%s.encode writes tag %d more than once", tn, tag))
				continue
			}
			e := es[0]
			encTargets[tn][e.field] = true
			switch {
			case e.field == "?" || d.field == "?":
				c.undecided("C01-R1", key, p.relFile(e.pos), fmt.Sprintf("cannot resolve the field carried by tag %d of %s (encode: %s via %s, decode: %s via %s)", tag, tn, e.field, e.fn, d.field, d.fn))
			case e.kind != d.kind:
				c.bad("C01-R1", key, p.relFile(d.pos), fmt.Sprintf("tag %d of %s is written as %s (%s) but read as %s (%s)", tag, tn, e.kind, e.fn, d.kind, d.fn))
			case e.field != d.field:
				c.bad("C01-R1", key, p.relFile(d.pos), fmt.Sprintf("tag %d of %s is written from field %s but read into field %s", tag, tn, e.field, d.field))
			case d.assert != "" && d.assert != tn:
				c.bad("C01-R1", key, p.relFile(d.pos), fmt.Sprintf("decoder slot %d of %s asserts its message as *%s: it panics on every input that carries the field", tag, tn, d.assert))
			default:
				c.ok("C01-R1", key, p.relFile(e.pos), fmt.Sprintf("%s tag %d ↔ field %s (%s)", tn, tag, e.field, e.kind), e.fn+" ↔ "+d.fn+" on the same field, message type asserted correctly")
			}
			if prev, dup := seenField[d.field]; dup && d.field != "?" {
				c.bad("C01-R1", key+":dup", p.relFile(d.pos), fmt.Sprintf("tags %d and %d of %s are both read into field %s", prev, tag, tn, d.field))
			}
			seenField[d.field] = tag
		}
	}
	c.Floor("C01-R1", 40)

	c.internSymmetry(encTargets)
	c.scratchProducers()
	c.wireConstants()
	c.scratchReset("C01-R2")
	c.unitPadding("C01-R6")
	c.scratchAssignedOnEveryPath("C01-R7")
	// ids of any size resolve without an out-of-range access (sparse and huge ids round-trip)
	c.guardRule("C01-R9", func(f *ssa.Function) bool {
		top := f
		for top.Parent() != nil {
			top = top.Parent()
		}
		n := fnName(top)
		// ... and the table-driven decoder itself: a field number the table does not have is skipped
		return n == "(*profile.Profile).postDecode" || n == "(*profile.Profile).preEncode" || n == "profile.decodeMessage"
	}, false, c02GuardExceptions, c02ExceptionHooks)
	c.parseReadsWholeInput()
	c.subMessageOmission()
	c.internBeforeFreeze()
	c.repeatedMessageAlwaysFramed()
	c.serializerMapOrder()
}

// scratchAssignedOnEveryPath (R7): the scratch fields survive between serializations, so
// preEncode must give each of them a value on every path: a scalar scratch field that is
// assigned inside a loop over its owners is assigned on every path through an iteration
// (the "no reference: write 0" arm may not be dropped, or a reference removed after an
// earlier Write/Copy is still written).
func (c *Check) scratchAssignedOnEveryPath(rule string) {
	p := c.P
	pre := c.anchorFn(rule, "profile", "(*Profile).preEncode")
	if pre == nil {
		return
	}
	type grp struct {
		T, F string
		hdr  *ssa.BasicBlock
	}
	groups := map[grp][]*ssa.BasicBlock{}
	pos := map[grp]token.Pos{}
	for _, b := range pre.Blocks {
		for _, ins := range b.Instrs {
			st, ok := ins.(*ssa.Store)
			if !ok {
				continue
			}
			fa, ok := st.Addr.(*ssa.FieldAddr)
			if !ok {
				continue
			}
			T, F := fieldOf(fa.X.Type(), fa.Field)
			if !strings.HasPrefix(T, "profile.") || F == "" || !(F[0] >= 'a' && F[0] <= 'z') || !strings.HasSuffix(F, "X") {
				continue
			}
			if _, isBasic := st.Val.Type().Underlying().(*types.Basic); !isBasic {
				continue // slices are covered by the reset rule (R2)
			}
			if _, fresh := fa.X.(*ssa.Alloc); fresh {
				continue // a label value under construction
			}
			// innermost loop containing the store
			var hdr *ssa.BasicBlock
			for d := b; d != nil && hdr == nil; d = d.Idom() {
				isHdr := false
				for _, pred := range d.Preds {
					if d.Dominates(pred) {
						isHdr = true
					}
				}
				if isHdr && naturalLoop(d)[b] {
					hdr = d
				}
			}
			if hdr == nil {
				continue
			}
			g := grp{T, F, hdr}
			groups[g] = append(groups[g], b)
			if _, ok := pos[g]; !ok {
				pos[g] = st.Pos()
			}
		}
	}
	var gs []grp
	for g := range groups {
		gs = append(gs, g)
	}
	sort.Slice(gs, func(i, j int) bool { return gs[i].T+gs[i].F < gs[j].T+gs[j].F })
	for _, g := range gs {
		blocks := map[*ssa.BasicBlock]bool{}
		for _, b := range groups[g] {
			blocks[b] = true
		}
		loop := naturalLoop(g.hdr)
		skipped := false
		seen := map[*ssa.BasicBlock]bool{}
		var walk func(b *ssa.BasicBlock)
		walk = func(b *ssa.BasicBlock) {
			if skipped || blocks[b] || seen[b] || !loop[b] {
				return
			}
			seen[b] = true
			for _, sc := range b.Succs {
				if sc == g.hdr {
					skipped = true
					return
				}
				walk(sc)
			}
		}
		for _, sc := range g.hdr.Succs {
			if loop[sc] {
				walk(sc)
			}
		}
		key := "assigned:" + g.T + "." + g.F
		if skipped {
			c.bad(rule, key, p.relFile(pos[g]), "preEncode leaves "+g.T+"."+g.F+" untouched on some path through its loop: the value written by an earlier serialization of the same profile is written again (a mapping or function reference cleared after a Write/Copy comes back on the next one)")
		} else {
			c.ok(rule, key, p.relFile(pos[g]), g.T+"."+g.F+" is assigned on every path through its loop in preEncode", "no path through one iteration avoids all stores to it")
		}
	}
	if len(gs) < 8 {
		c.undecided(rule, "assigned:count", p.relFile(pre.Pos()), fmt.Sprintf("expected at least 8 scalar scratch fields assigned in loops of preEncode, found %d", len(gs)))
	}
}

// subMessageOmission (R8): an optional sub-message may be left out only when it carries
// nothing.  For a conditional encodeMessage call in an encode method, assuming the
// message present and any one of the scratch fields its own encode method writes to be
// non-zero, no path avoids the call.
func (c *Check) subMessageOmission() {
	p := c.P
	n := 0
	forAllPkgFuncs(p, "profile", func(f *ssa.Function) {
		if f.Name() != "encode" || f.Signature.Recv() == nil {
			return
		}
		for _, b := range f.Blocks {
			for _, ins := range b.Instrs {
				call, ok := ins.(*ssa.Call)
				if !ok || call.Call.StaticCallee() == nil || call.Call.StaticCallee().Name() != "encodeMessage" || len(call.Call.Args) != 3 {
					continue
				}
				if nestingDepth(b) > 0 {
					continue
				}
				uncond := true
				for _, rb := range f.Blocks {
					if _, isRet := rb.Instrs[len(rb.Instrs)-1].(*ssa.Return); isRet && !b.Dominates(rb) {
						uncond = false
					}
				}
				if uncond {
					continue
				}
				mi, ok := call.Call.Args[2].(*ssa.MakeInterface)
				if !ok {
					continue
				}
				msg := mi.X
				T := structName(msg.Type())
				var menc *ssa.Function
				forAllPkgFuncs(p, "profile", func(g *ssa.Function) {
					if g.Name() == "encode" && g.Signature.Recv() != nil && structName(g.Signature.Recv().Type()) == T {
						menc = g
					}
				})
				if menc == nil {
					c.undecided("C01-R8", "omit:"+T, p.relFile(call.Pos()), "encode method of "+T+" not found")
					continue
				}
				fields := fieldsReadOf(menc, T)
				for _, F := range sortedBoolKeys(fields) {
					n++
					key := "omit:" + T + "." + F
					assume := func(cond ssa.Value) int {
						cmp, ok := cond.(*ssa.BinOp)
						if !ok || (cmp.Op != token.NEQ && cmp.Op != token.EQL) {
							return 0
						}
						res := 0
						if (cmp.X == msg || sameLoad(cmp.X, msg)) && isNilConst(cmp.Y) {
							res = 1 // msg != nil
						} else if isFieldLoad(cmp.X, T, F) {
							if k, ok := constInt(cmp.Y); ok && k == 0 {
								res = 1 // field != 0
							}
						}
						if cmp.Op == token.EQL {
							res = -res
						}
						return res
					}
					// a path from entry to a return that avoids the call block
					avoid := false
					seen := map[*ssa.BasicBlock]bool{}
					var walk func(x *ssa.BasicBlock)
					walk = func(x *ssa.BasicBlock) {
						if avoid || seen[x] || x == b {
							return
						}
						seen[x] = true
						if _, isRet := x.Instrs[len(x.Instrs)-1].(*ssa.Return); isRet {
							avoid = true
							return
						}
						succs := x.Succs
						if iff, ok := x.Instrs[len(x.Instrs)-1].(*ssa.If); ok {
							switch assume(iff.Cond) {
							case 1:
								succs = x.Succs[:1]
							case -1:
								succs = x.Succs[1:]
							}
						}
						for _, sc := range succs {
							walk(sc)
						}
					}
					walk(f.Blocks[0])
					if avoid {
						c.bad("C01-R8", key, p.relFile(call.Pos()), fmt.Sprintf("%s can omit its %s sub-message although %s.%s is set: %s.encode writes that field, so a value that has only it (a period type with a unit but no type) is lost on write and the re-serialized bytes differ", fnName(f), T, T, F, T))
					} else {
						c.ok("C01-R8", key, p.relFile(call.Pos()), fmt.Sprintf("%s writes its %s sub-message whenever %s is set", fnName(f), T, F), "assuming the message present and the field non-zero, no path avoids the encodeMessage call")
					}
				}
			}
		}
	})
	if n < 2 {
		c.undecided("C01-R8", "omit:count", "", fmt.Sprintf("expected the conditional period-type sub-message with two fields, found %d obligations", n))
	}
}

func isNilConst(v ssa.Value) bool { k, ok := v.(*ssa.Const); return ok && k.IsNil() }

// sameLoad: both values load the same field of the same object.
func sameLoad(a, b ssa.Value) bool {
	la, ok1 := a.(*ssa.UnOp)
	lb, ok2 := b.(*ssa.UnOp)
	if !ok1 || !ok2 || la.Op != token.MUL || lb.Op != token.MUL {
		return false
	}
	fa, ok1 := la.X.(*ssa.FieldAddr)
	fb, ok2 := lb.X.(*ssa.FieldAddr)
	return ok1 && ok2 && fa.Field == fb.Field && sameNode(fa.X, fb.X)
}

// scratchReset (R2b): a scratch slice that preEncode rebuilds with append must be reset
// first, otherwise a second serialization of the same profile repeats its contents.
func (c *Check) scratchReset(rule string) {
	p := c.P
	pre := c.anchorFn(rule, "profile", "(*Profile).preEncode")
	if pre == nil {
		return
	}
	n := 0
	for _, b := range helperBlocks(pre, 3) {
		for _, ins := range b.Instrs {
			st, ok := ins.(*ssa.Store)
			if !ok {
				continue
			}
			fa, ok := st.Addr.(*ssa.FieldAddr)
			if !ok {
				continue
			}
			T, F := fieldOf(fa.X.Type(), fa.Field)
			if !isMessageStruct(p, fa.X.Type()) {
				continue // a helper object built for this serialization (e.g. the string table), not part of the profile
			}
			call, ok := st.Val.(*ssa.Call)
			var bi *ssa.Builtin
			if ok {
				bi, ok = call.Call.Value.(*ssa.Builtin)
			}
			if !ok || bi.Name() != "append" || !isLoadOfField(call.Call.Args[0], fa.X, fa.Field) {
				// the field assigned as a whole from a list built elsewhere: fine when that
				// list does not start from the field's old contents
				if _, isSlice := st.Val.Type().Underlying().(*types.Slice); isSlice && token.IsExported(F) == false {
					if k, isConst := st.Val.(*ssa.Const); isConst && k.IsNil() {
						continue // the reset itself
					}
					if _, isMake := st.Val.(*ssa.MakeSlice); isMake {
						continue // the reset itself (filled by index afterwards)
					}
					extends := false
					seenV := map[ssa.Value]bool{}
					var origin func(v ssa.Value, d int)
					origin = func(v ssa.Value, d int) {
						if seenV[v] || d > 8 {
							return
						}
						seenV[v] = true
						switch x := v.(type) {
						case *ssa.Phi:
							for _, e := range x.Edges {
								origin(e, d+1)
							}
						case *ssa.Slice:
							origin(x.X, d+1)
						case *ssa.Call:
							if b2, ok := x.Call.Value.(*ssa.Builtin); ok && b2.Name() == "append" {
								origin(x.Call.Args[0], d+1)
							}
						case *ssa.UnOp:
							if isLoadOfField(x, fa.X, fa.Field) {
								extends = true
							}
						}
					}
					origin(st.Val, 0)
					n++
					key := "reset:" + T + "." + F
					if extends {
						c.bad(rule, key, p.relFile(st.Pos()), T+"."+F+" is assigned a list that starts from its own old contents: serializing the same profile twice writes its contents twice")
					} else {
						c.ok(rule, key, p.relFile(st.Pos()), T+"."+F+" is rebuilt from scratch on every serialization", "the field is assigned a list built from nil/make in this call")
					}
				}
				continue
			}
			n++
			key := "reset:" + T + "." + F
			// a store of nil / a fresh slice into the same field of the same object dominates
			ok2 := false
			for _, b2 := range helperBlocks(pre, 3) {
				for _, i2 := range b2.Instrs {
					st2, isSt := i2.(*ssa.Store)
					if !isSt || st2 == st || st2.Parent() != st.Parent() {
						continue
					}
					fa2, isFA := st2.Addr.(*ssa.FieldAddr)
					if !isFA || fa2.Field != fa.Field || !sameNode(fa2.X, fa.X) && fa2.X != fa.X {
						continue
					}
					fresh := false
					switch v := st2.Val.(type) {
					case *ssa.Const:
						fresh = v.IsNil()
					case *ssa.MakeSlice:
						fresh = true
					}
					if fresh && instrDominates(st2, st) {
						ok2 = true
					}
				}
			}
			if ok2 {
				c.ok(rule, key, p.relFile(st.Pos()), T+"."+F+" is rebuilt from scratch on every serialization", "a reset (nil or make) of the field dominates the appending loop in preEncode")
			} else {
				c.bad(rule, key, p.relFile(st.Pos()), T+"."+F+" is extended with append in preEncode without being reset first: serializing the same profile twice writes its contents twice, so Write/Copy are not idempotent and the bytes differ")
			}
		}
	}
	if n < 2 {
		c.undecided(rule, "reset:count", p.relFile(pre.Pos()), "fewer append-built scratch fields than expected in preEncode")
	}
}

// unitPadding (R6): before postDecode publishes a sample's NumUnit map, every unit list is
// padded to the number of values of its key.
func (c *Check) unitPadding(rule string) {
	p := c.P
	post := c.anchorFn(rule, "profile", "(*Profile).postDecode")
	if post == nil {
		return
	}
	var publish *ssa.Store
	for _, b := range helperBlocks(post, 3) {
		for _, ins := range b.Instrs {
			if st, ok := ins.(*ssa.Store); ok {
				if fa, ok := st.Addr.(*ssa.FieldAddr); ok {
					if T, F := fieldOf(fa.X.Type(), fa.Field); T == "profile.Sample" && F == "NumUnit" {
						publish = st
					}
				}
			}
		}
	}
	if publish == nil {
		c.undecided(rule, "padding", p.relFile(post.Pos()), "postDecode does not assign Sample.NumUnit")
		return
	}
	units := publish.Val
	// the value lists the units must match: the map published as Sample.NumLabel
	var labels ssa.Value
	for _, b := range helperBlocks(post, 3) {
		for _, ins := range b.Instrs {
			if st, ok := ins.(*ssa.Store); ok {
				if fa, ok := st.Addr.(*ssa.FieldAddr); ok {
					if T, F := fieldOf(fa.X.Type(), fa.Field); T == "profile.Sample" && F == "NumLabel" {
						labels = st.Val
					}
				}
			}
		}
	}
	found := false
	for _, b := range helperBlocks(post, 3) {
		for _, ins := range b.Instrs {
			mu, ok := ins.(*ssa.MapUpdate)
			if !ok || mu.Map != units {
				continue
			}
			call, ok := mu.Value.(*ssa.Call)
			if !ok || call.Call.StaticCallee() == nil || call.Call.StaticCallee().Name() != "padStringArray" {
				continue
			}
			// second argument: len(numLabels[key]) with the same key, inside a range over the units map
			lx := lenArg(call.Call.Args[1])
			lk, isLk := lx.(*ssa.Lookup)
			if lx == nil || !isLk || lk.Index != mu.Key || labels == nil || lk.X != labels {
				continue
			}
			inRange := false
			if ex, ok := mu.Key.(*ssa.Extract); ok {
				if nx, ok := ex.Tuple.(*ssa.Next); ok {
					if rg, ok := nx.Iter.(*ssa.Range); ok && rg.X == units {
						inRange = true
					}
				}
			}
			if inRange && blockReachesPlain(b, publish.Block()) {
				found = true
			}
		}
	}
	if found {
		c.ok(rule, "padding", p.relFile(publish.Pos()), "unit lists are padded to the value count before NumUnit is published", "a range over the unit map stores padStringArray(units, len(numLabels[key])) under each key on the way to the assignment of Sample.NumUnit")
	} else {
		c.bad(rule, "padding", p.relFile(publish.Pos()), "postDecode publishes Sample.NumUnit without padding every unit list to len(NumLabel[key]): a key whose last values carry no unit keeps a short list, and re-serializing the parsed profile indexes past its end")
	}
}

func methodOf(p *Program, t *types.Named, name string) *ssa.Function {
	for _, tt := range []types.Type{t, types.NewPointer(t)} {
		ms := p.SSA.MethodSets.MethodSet(tt)
		for i := 0; i < ms.Len(); i++ {
			if ms.At(i).Obj().Name() == name {
				f := p.SSA.MethodValue(ms.At(i))
				if f != nil && f.Synthetic == "" {
					return f
				}
			}
		}
	}
	return nil
}

// decoderTables maps each package-level []decoder variable to slot → function.
func decoderTables(p *Program, sp *ssa.Package) map[*ssa.Global]map[int]*ssa.Function {
	out := map[*ssa.Global]map[int]*ssa.Function{}
	init := sp.Func("init")
	if init == nil {
		return out
	}
	arrays := map[*ssa.Alloc]map[int]*ssa.Function{}
	for _, b := range init.Blocks {
		for _, ins := range b.Instrs {
			st, ok := ins.(*ssa.Store)
			if !ok {
				continue
			}
			if ia, ok := st.Addr.(*ssa.IndexAddr); ok {
				al, ok := ia.X.(*ssa.Alloc)
				if !ok {
					continue
				}
				idx, ok := constInt(ia.Index)
				if !ok {
					continue
				}
				var fn *ssa.Function
				switch v := st.Val.(type) {
				case *ssa.Function:
					fn = v
				case *ssa.MakeClosure:
					fn, _ = v.Fn.(*ssa.Function)
				case *ssa.ChangeType:
					if f, ok := v.X.(*ssa.Function); ok {
						fn = f
					}
				}
				if fn == nil {
					continue
				}
				if arrays[al] == nil {
					arrays[al] = map[int]*ssa.Function{}
				}
				arrays[al][int(idx)] = fn
			}
			if g, ok := st.Addr.(*ssa.Global); ok {
				if sl, ok := st.Val.(*ssa.Slice); ok {
					if al, ok := sl.X.(*ssa.Alloc); ok && arrays[al] != nil {
						out[g] = arrays[al]
					}
				}
			}
		}
	}
	return out
}

// fieldCarried: which field of the receiver does value v come from?
func fieldCarried(v ssa.Value, recv ssa.Value, depth int) string {
	if depth > 6 {
		return "?"
	}
	switch x := v.(type) {
	case *ssa.UnOp:
		if x.Op == token.MUL {
			switch a := x.X.(type) {
			case *ssa.FieldAddr:
				if a.X == recv {
					_, f := fieldOf(a.X.Type(), a.Field)
					return f
				}
			case *ssa.IndexAddr:
				// element of a slice field (range loop)
				return fieldCarried(a.X, recv, depth+1)
			}
		}
	case *ssa.Field:
		if ld, ok := x.X.(*ssa.UnOp); ok && ld.X == recv {
			_, f := fieldOf(x.X.Type(), x.Field)
			return f
		}
		if x.X == recv {
			_, f := fieldOf(x.X.Type(), x.Field)
			return f
		}
	case *ssa.IndexAddr:
		return fieldCarried(x.X, recv, depth+1)
	case *ssa.FieldAddr:
		if x.X == recv {
			_, f := fieldOf(x.X.Type(), x.Field)
			return f
		}
	case *ssa.MakeInterface:
		return fieldCarried(x.X, recv, depth+1)
	case *ssa.ChangeType:
		return fieldCarried(x.X, recv, depth+1)
	case *ssa.Convert:
		return fieldCarried(x.X, recv, depth+1)
	case *ssa.Phi:
		out := ""
		for _, e := range x.Edges {
			f := fieldCarried(e, recv, depth+1)
			if out != "" && f != out {
				return "?"
			}
			out = f
		}
		return out
	}
	return "?"
}

func encodeEntries(c *Check, enc *ssa.Function) map[int][]codecEntry {
	out := map[int][]codecEntry{}
	if len(enc.Params) == 0 {
		return out
	}
	recv := ssa.Value(enc.Params[0])
	// a value receiver is spilled into a local: use that local as the receiver object
	for _, ins := range enc.Blocks[0].Instrs {
		if st, ok := ins.(*ssa.Store); ok && st.Val == recv {
			if al, ok := st.Addr.(*ssa.Alloc); ok {
				recv = al
			}
		}
	}
	for _, b := range enc.Blocks {
		for _, ins := range b.Instrs {
			call, ok := ins.(*ssa.Call)
			if !ok || call.Call.StaticCallee() == nil {
				continue
			}
			kind, ok := encodeKinds[call.Call.StaticCallee().Name()]
			if !ok || len(call.Call.Args) < 3 {
				continue
			}
			tag, ok := constInt(call.Call.Args[1])
			if !ok {
				continue
			}
			out[int(tag)] = append(out[int(tag)], codecEntry{kind: kind, field: fieldCarried(call.Call.Args[2], recv, 0), fn: call.Call.StaticCallee().Name(), pos: call.Pos()})
		}
	}
	return out
}

func decodeEntry(fn *ssa.Function) codecEntry {
	e := codecEntry{kind: "?", field: "?", fn: "?", pos: fn.Pos()}
	if len(fn.Params) < 2 {
		return e
	}
	m := fn.Params[1]
	// the asserted message
	var asserted ssa.Value
	for _, b := range fn.Blocks {
		for _, ins := range b.Instrs {
			if ta, ok := ins.(*ssa.TypeAssert); ok && ta.X == ssa.Value(m) {
				if n := namedOf(ta.AssertedType); n != nil {
					if e.assert != "" && e.assert != n.Obj().Name() {
						e.assert = "(mixed)"
					} else {
						e.assert = n.Obj().Name()
					}
				}
				asserted = ta
			}
		}
	}
	_ = asserted
	isMsg := func(v ssa.Value) bool {
		ta, ok := v.(*ssa.TypeAssert)
		return ok && ta.X == ssa.Value(m)
	}
	for _, b := range fn.Blocks {
		for _, ins := range b.Instrs {
			call, ok := ins.(*ssa.Call)
			if !ok || call.Call.StaticCallee() == nil {
				continue
			}
			kind, ok := decodeKinds[call.Call.StaticCallee().Name()]
			if !ok || len(call.Call.Args) < 2 {
				continue
			}
			e.kind, e.fn = kind, call.Call.StaticCallee().Name()
			arg := call.Call.Args[1]
			if mi, ok := arg.(*ssa.MakeInterface); ok {
				arg = mi.X
			}
			switch a := arg.(type) {
			case *ssa.FieldAddr:
				if isMsg(a.X) {
					_, e.field = fieldOf(a.X.Type(), a.Field)
				}
			case *ssa.IndexAddr:
				// &pp.F[n]
				if ld, ok := a.X.(*ssa.UnOp); ok {
					if fa, ok := ld.X.(*ssa.FieldAddr); ok && isMsg(fa.X) {
						_, e.field = fieldOf(fa.X.Type(), fa.Field)
					}
				}
			case *ssa.Alloc:
				// x := new(U); pp.F = append(pp.F, x)  or pp.F = x
				for _, b2 := range fn.Blocks {
					for _, i2 := range b2.Instrs {
						st, ok := i2.(*ssa.Store)
						if !ok {
							continue
						}
						fa, ok := st.Addr.(*ssa.FieldAddr)
						if !ok || !isMsg(fa.X) {
							continue
						}
						if st.Val == ssa.Value(a) {
							_, e.field = fieldOf(fa.X.Type(), fa.Field)
						}
						if ap, ok := st.Val.(*ssa.Call); ok {
							if bi, ok := ap.Call.Value.(*ssa.Builtin); ok && bi.Name() == "append" {
								for _, v := range variadicValues(ap.Call.Args[1]) {
									if v == ssa.Value(a) {
										_, e.field = fieldOf(fa.X.Type(), fa.Field)
									}
								}
							}
						}
					}
				}
			}
		}
	}
	return e
}

// internSymmetry (R2, R3)
func (c *Check) internSymmetry(encTargets map[string]map[string]bool) {
	p := c.P
	pre := c.anchorFn("C01-R2", "profile", "(*Profile).preEncode")
	post := c.anchorFn("C01-R2", "profile", "(*Profile).postDecode")
	if pre == nil || post == nil {
		return
	}
	// preEncode: X := addString(_, S)
	preMap := map[string]string{} // "T.X" → "T.S"
	idPre := map[string]string{}  // "T.X" → "U.ID"
	for _, b := range helperBlocks(pre, 3) {
		for _, ins := range b.Instrs {
			st, ok := ins.(*ssa.Store)
			if !ok {
				continue
			}
			fa, ok := st.Addr.(*ssa.FieldAddr)
			if !ok {
				continue
			}
			T, X := fieldOf(fa.X.Type(), fa.Field)
			if call, ok := st.Val.(*ssa.Call); ok && internStringArg(call) != nil {
				src := internStringArg(call)
				if ld, ok := src.(*ssa.UnOp); ok {
					if sfa, ok := ld.X.(*ssa.FieldAddr); ok {
						ST, S := fieldOf(sfa.X.Type(), sfa.Field)
						preMap[T+"."+X] = ST + "." + S
					}
				}
				if fld, ok := src.(*ssa.Field); ok {
					ST, S := fieldOf(fld.X.Type(), fld.Field)
					preMap[T+"."+X] = ST + "." + S
				}
				continue
			}
			// id references: X := y.ID (possibly through a phi with 0)
			if id := idSource(st.Val, map[ssa.Value]bool{}); id != "" {
				idPre[T+"."+X] = id
			}
		}
	}
	// element stores: s.locationIDX[i] = loc.ID
	for _, b := range helperBlocks(pre, 3) {
		for _, ins := range b.Instrs {
			st, ok := ins.(*ssa.Store)
			if !ok {
				continue
			}
			ia, ok := st.Addr.(*ssa.IndexAddr)
			if !ok {
				continue
			}
			if ld, ok := ia.X.(*ssa.UnOp); ok {
				if fa, ok := ld.X.(*ssa.FieldAddr); ok {
					T, X := fieldOf(fa.X.Type(), fa.Field)
					if id := idSource(st.Val, map[ssa.Value]bool{}); id != "" {
						idPre[T+"."+X] = id
					}
				}
			}
		}
	}
	// postDecode: S, err = getString(table, &X, err)
	postMap := map[string]string{}
	for _, b := range helperBlocks(post, 3) {
		for _, ins := range b.Instrs {
			st, ok := ins.(*ssa.Store)
			if !ok {
				continue
			}
			fa, ok := st.Addr.(*ssa.FieldAddr)
			if !ok {
				continue
			}
			ST, S := fieldOf(fa.X.Type(), fa.Field)
			var call *ssa.Call
			if ex, ok := st.Val.(*ssa.Extract); ok && ex.Index == 0 {
				call, _ = ex.Tuple.(*ssa.Call)
			} else {
				call, _ = st.Val.(*ssa.Call)
			}
			if call == nil {
				continue
			}
			if xa, ok := resolveIndexArg(call).(*ssa.FieldAddr); ok {
				T, X := fieldOf(xa.X.Type(), xa.Field)
				postMap[T+"."+X] = ST + "." + S
			}
		}
	}
	var xs []string
	seen := map[string]bool{}
	for x := range preMap {
		seen[x] = true
		xs = append(xs, x)
	}
	for x := range postMap {
		if !seen[x] {
			xs = append(xs, x)
		}
	}
	sort.Strings(xs)
	covered := map[string]bool{} // exported attributes carried through a scratch field
	for _, x := range xs {
		if strings.HasPrefix(x, "profile.label.") {
			continue // label entries are regrouped into maps, checked below
		}
		key := "string:" + x
		a, okA := preMap[x]
		b, okB := postMap[x]
		switch {
		case !okA:
			c.bad("C01-R2", key, p.relFile(post.Pos()), x+" is resolved by postDecode into "+b+" but preEncode never fills it: the attribute is written as the empty string")
		case !okB:
			c.bad("C01-R2", key, p.relFile(pre.Pos()), x+" is filled by preEncode from "+a+" but postDecode never resolves it: the attribute is lost on parse")
		case a != b:
			c.bad("C01-R2", key, p.relFile(post.Pos()), x+" is filled from "+a+" but resolved into "+b)
		default:
			covered[a] = true
			// the scratch field must be what encode writes
			T := strings.TrimPrefix(x[:strings.LastIndex(x, ".")], "profile.")
			X := x[strings.LastIndex(x, ".")+1:]
			if T != "Profile" || X != "stringTable" {
				if !encTargets[T][X] {
					c.bad("C01-R2", key, p.relFile(pre.Pos()), x+" is interned and resolved but "+T+".encode does not write it")
					continue
				}
			}
			c.ok("C01-R2", key, p.relFile(pre.Pos()), a+" ↔ "+x, "interned by preEncode (addString), written by encode, resolved by postDecode (getString) into the same attribute")
		}
	}
	// label scratch fields
	for _, lx := range []string{"keyX", "strX", "unitX"} {
		key := "string:profile.label." + lx
		inPre := false
		for _, b := range helperBlocks(pre, 3) {
			for _, ins := range b.Instrs {
				if st, ok := ins.(*ssa.Store); ok {
					if fa, ok := st.Addr.(*ssa.FieldAddr); ok {
						if T, F := fieldOf(fa.X.Type(), fa.Field); T == "profile.label" && F == lx {
							inPre = true
						}
					}
				}
			}
		}
		inPost := false
		for _, b := range helperBlocks(post, 3) {
			for _, ins := range b.Instrs {
				if call, ok := ins.(*ssa.Call); ok && resolveIndexArg(call) != nil {
					if xa, ok := resolveIndexArg(call).(*ssa.FieldAddr); ok {
						if T, F := fieldOf(xa.X.Type(), xa.Field); T == "profile.label" && F == lx {
							inPost = true
						}
					}
				}
			}
		}
		if inPre && inPost {
			c.ok("C01-R2", key, p.relFile(pre.Pos()), "label."+lx, "filled by preEncode and resolved through getString by postDecode")
		} else {
			c.bad("C01-R2", key, p.relFile(pre.Pos()), fmt.Sprintf("label.%s: filled by preEncode: %v, resolved by postDecode: %v", lx, inPre, inPost))
		}
	}
	// id references
	wantID := map[string]string{
		"profile.Sample.locationIDX":  "profile.Location.ID",
		"profile.Location.mappingIDX": "profile.Mapping.ID",
		"profile.Line.functionIDX":    "profile.Function.ID",
	}
	resolved := map[string]string{
		"profile.Sample.locationIDX":  "profile.Sample.Location",
		"profile.Location.mappingIDX": "profile.Location.Mapping",
		"profile.Line.functionIDX":    "profile.Line.Function",
	}
	for _, x := range sortedMapKeys2(wantID) {
		key := "idref:" + x
		if idPre[x] != wantID[x] {
			c.bad("C01-R2", key, p.relFile(pre.Pos()), fmt.Sprintf("%s must be filled from %s in preEncode but is filled from %q", x, wantID[x], idPre[x]))
			continue
		}
		// postDecode stores into the pointer attribute a value looked up by the scratch id
		okPost := false
		want := resolved[x]
		for _, b := range helperBlocks(post, 3) {
			for _, ins := range b.Instrs {
				st, ok := ins.(*ssa.Store)
				if !ok {
					continue
				}
				tgt := ""
				switch a := st.Addr.(type) {
				case *ssa.FieldAddr:
					T, F := fieldOf(a.X.Type(), a.Field)
					tgt = T + "." + F
				case *ssa.IndexAddr:
					if ld, ok := a.X.(*ssa.UnOp); ok {
						if fa, ok := ld.X.(*ssa.FieldAddr); ok {
							T, F := fieldOf(fa.X.Type(), fa.Field)
							tgt = T + "." + F
						}
					}
				}
				if tgt != want {
					continue
				}
				if keyedBy(st.Val, x, map[ssa.Value]bool{}) {
					okPost = true
				}
			}
		}
		if okPost {
			covered[want] = true
			c.ok("C01-R2", key, p.relFile(post.Pos()), x+" ↔ "+want, "filled from "+wantID[x]+" by preEncode; postDecode looks the id up and stores the object into "+want)
		} else {
			c.bad("C01-R2", key, p.relFile(post.Pos()), "postDecode does not resolve "+x+" into "+want)
		}
	}
	c.Floor("C01-R2", 15)

	// R3: coverage of exported attributes
	special := map[string]string{
		"profile.Sample.Label":     "regrouped from labelX entries (keyX/strX)",
		"profile.Sample.NumLabel":  "regrouped from labelX entries (keyX/numX)",
		"profile.Sample.NumUnit":   "regrouped from labelX entries (unitX)",
		"profile.Profile.Comments": "carried by commentX (string indices)",
	}
	for _, t := range p.structsOf("profile", "Profile", "ValueType", "Sample", "Mapping", "Location", "Line", "Function") {
		tn := t.Obj().Name()
		st := t.Underlying().(*types.Struct)
		for i := 0; i < st.NumFields(); i++ {
			f := st.Field(i)
			if !f.Exported() {
				continue
			}
			full := "profile." + tn + "." + f.Name()
			key := "covered:" + tn + "." + f.Name()
			switch {
			case encTargets[tn][f.Name()]:
				c.ok("C01-R3", key, "", full+" is serialized", "written directly by "+tn+".encode")
			case covered[full]:
				c.ok("C01-R3", key, "", full+" is serialized", "through its scratch field (R2)")
			case special[full] != "":
				if full == "profile.Profile.Comments" && !encTargets["Profile"]["commentX"] {
					c.bad("C01-R3", key, "", full+" is not serialized: commentX is not written by encode")
					continue
				}
				if strings.HasPrefix(full, "profile.Sample.") && !encTargets["Sample"]["labelX"] {
					c.bad("C01-R3", key, "", full+" is not serialized: labelX is not written by encode")
					continue
				}
				c.ok("C01-R3", key, "", full+" is serialized", special[full])
			case full == "profile.Mapping.KernelRelocationSymbol":
				// derived from File in postDecode
				derived := false
				for _, b := range helperBlocks(post, 3) {
					for _, ins := range b.Instrs {
						if stt, ok := ins.(*ssa.Store); ok {
							if fa, ok := stt.Addr.(*ssa.FieldAddr); ok {
								if T, F := fieldOf(fa.X.Type(), fa.Field); T == "profile.Mapping" && F == "KernelRelocationSymbol" {
									derived = true
								}
							}
						}
					}
				}
				if derived {
					c.ok("C01-R3", key, "", full+" is recomputed on parse", "derived from Mapping.File in postDecode (it is a suffix of the serialized file name)")
				} else {
					c.bad("C01-R3", key, "", full+" is neither serialized nor recomputed by postDecode")
				}
			default:
				c.bad("C01-R3", key, p.relFile(f.Pos()), full+" is an exported attribute that no encode method, scratch field or derivation carries: it is lost by write-then-parse")
			}
		}
	}
	c.Floor("C01-R3", 35)
}

func sortedMapKeys2(m map[string]string) []string {
	var out []string
	for k := range m {
		out = append(out, k)
	}
	sort.Strings(out)
	return out
}

// idSource: v is (a phi of 0 and) a load of some object's ID field.
func idSource(v ssa.Value, seen map[ssa.Value]bool) string {
	if seen[v] {
		return ""
	}
	seen[v] = true
	switch x := v.(type) {
	case *ssa.UnOp:
		if fa, ok := x.X.(*ssa.FieldAddr); ok {
			if T, F := fieldOf(fa.X.Type(), fa.Field); F == "ID" {
				return T + ".ID"
			}
		}
	case *ssa.Call:
		// a list of ids built by append: the ids appended
		if bi, ok := x.Call.Value.(*ssa.Builtin); ok && bi.Name() == "append" && len(x.Call.Args) == 2 {
			out := ""
			for _, e := range variadicValues(x.Call.Args[1]) {
				if e == nil {
					return ""
				}
				s := idSource(e, seen)
				if s == "" || (out != "" && s != out) {
					return ""
				}
				out = s
			}
			if base := idSource(x.Call.Args[0], seen); base != "" && base != out {
				return ""
			}
			return out
		}
	case *ssa.Phi:
		out := ""
		for _, e := range x.Edges {
			if k, ok := e.(*ssa.Const); ok && (safeInt64(k) == 0 || k.IsNil()) {
				continue
			}
			if _, isMake := e.(*ssa.MakeSlice); isMake {
				continue
			}
			if seen[e] {
				continue // loop-carried
			}
			s := idSource(e, seen)
			if s == "" || (out != "" && s != out) {
				return ""
			}
			out = s
		}
		return out
	}
	return ""
}

// keyedBy: v is obtained by indexing/looking up with a key loaded from scratch field x.
func keyedBy(v ssa.Value, x string, seen map[ssa.Value]bool) bool {
	if seen[v] {
		return false
	}
	seen[v] = true
	fromScratch := func(k ssa.Value) bool {
		// k is a load of field x, or a range element of the slice field x
		for depth := 0; depth < 4; depth++ {
			switch y := k.(type) {
			case *ssa.UnOp:
				switch a := y.X.(type) {
				case *ssa.FieldAddr:
					T, F := fieldOf(a.X.Type(), a.Field)
					return T+"."+F == x
				case *ssa.IndexAddr:
					k = a.X
					continue
				}
				return false
			case *ssa.Field:
				T, F := fieldOf(y.X.Type(), y.Field)
				return T+"."+F == x
			case *ssa.Convert:
				k = y.X
				continue
			}
			return false
		}
		return false
	}
	switch y := v.(type) {
	case *ssa.Phi:
		for _, e := range y.Edges {
			if keyedBy(e, x, seen) {
				return true
			}
		}
	case *ssa.Lookup:
		return fromScratch(y.Index)
	case *ssa.UnOp:
		if ia, ok := y.X.(*ssa.IndexAddr); ok {
			return fromScratch(ia.Index)
		}
	case *ssa.Extract:
		return keyedBy(y.Tuple, x, seen)
	}
	return false
}

// scratchProducers (R4)
func (c *Check) scratchProducers() {
	p := c.P
	sers := c.serializers("C01-R4")
	if len(sers) == 0 {
		return
	}
	pre := c.anchorFn("C01-R4", "profile", "(*Profile).preEncode")
	enc := c.anchorFn("C01-R4", "profile", "(*Profile).encode")
	if pre == nil || enc == nil {
		return
	}
	// who fills and who reads the scratch fields does so inside a serializer's critical section
	for _, tgt := range []*ssa.Function{pre, enc} {
		key := "caller:" + fnName(tgt)
		if bad := c.outsideEncodeLock(tgt, sers); bad == "" {
			c.ok("C01-R4", key, "", fnName(tgt)+" runs only under Profile.encodeMu", "every call chain reaching it passes through a call made by a serializer (a function that locks encodeMu) while the lock is held")
		} else {
			c.bad("C01-R4", key, "", "scratch state is produced or read outside the serializer's critical section: "+bad)
		}
	}
	// the scratch fields are filled and read inside one critical section
	for _, ser := range sers {
		var fill, read ssa.Instruction
		for _, b := range ser.Blocks {
			for _, ins := range b.Instrs {
				call, ok := ins.(*ssa.Call)
				if !ok {
					continue
				}
				if fill == nil && callReaches(p, ser, call, pre) {
					fill = call
				}
				if callReaches(p, ser, call, enc) {
					read = call
				}
			}
		}
		key := "one-section"
		if len(sers) > 1 {
			key += ":" + fnName(ser)
		}
		switch {
		case fill == nil || read == nil:
			c.undecided("C01-R4", key, p.relFile(ser.Pos()), fnName(ser)+" locks encodeMu but does not both fill (preEncode) and write (encode) the scratch fields")
		case sameLockSection(ser, fill, read):
			c.ok("C01-R4", key, p.relFile(read.Pos()), "the scratch fields are read by the encoder in the critical section in which preEncode filled them", "both calls follow one Lock with no Unlock between them")
		default:
			c.bad("C01-R4", key, p.relFile(read.Pos()), fnName(ser)+" fills the scratch fields (preEncode) and reads them (encode) in different critical sections: a concurrent Write/Copy of the same profile rebuilds label, id and string tables while they are being written, so the bytes no longer describe the profile")
		}
	}
}

// serializers: the functions of package profile that lock Profile.encodeMu.
func (c *Check) serializers(rule string) []*ssa.Function {
	var out []*ssa.Function
	forAllPkgFuncs(c.P, "profile", func(f *ssa.Function) {
		for _, b := range f.Blocks {
			for _, ins := range b.Instrs {
				call, ok := ins.(*ssa.Call)
				if !ok || call.Call.StaticCallee() == nil || call.Call.StaticCallee().String() != "(*sync.Mutex).Lock" {
					continue
				}
				if fa, ok := call.Call.Args[0].(*ssa.FieldAddr); ok {
					if T, F := fieldOf(fa.X.Type(), fa.Field); T == "profile.Profile" && F == "encodeMu" {
						out = append(out, f)
						return
					}
				}
			}
		}
	})
	out = dedupFns(out)
	sortFns(out)
	if len(out) == 0 {
		c.undecided(rule, "serializer", "", "no function of package profile locks Profile.encodeMu: the serializer was not found")
	}
	return out
}

// callReaches: the call instruction (in f) calls target or a module function from which
// target is reachable in the module call graph.
func callReaches(p *Program, f *ssa.Function, call *ssa.Call, target *ssa.Function) bool {
	var roots []*ssa.Function
	if sc := call.Call.StaticCallee(); sc != nil {
		if sc == target {
			return true
		}
		if !fnInModule(sc) {
			return false
		}
		roots = []*ssa.Function{sc}
	} else {
		return false
	}
	reach, _ := p.MG().Reach(roots, func(g *ssa.Function) bool { return fnPkgPath(g) != fnPkgPath(target) })
	_, ok := reach[target]
	return ok
}

// outsideEncodeLock: "" when every call chain that reaches tgt passes through a call made by
// one of the serializers while encodeMu is held; else a description of an offending chain.
func (c *Check) outsideEncodeLock(tgt *ssa.Function, sers []*ssa.Function) string {
	p := c.P
	isSer := map[*ssa.Function]bool{}
	locked := map[*ssa.Function]bool{} // callees of calls made by a serializer under the lock
	unlocked := map[*ssa.Function]bool{}
	for _, ser := range sers {
		isSer[ser] = true
		for _, b := range ser.Blocks {
			for _, ins := range b.Instrs {
				call, ok := ins.(*ssa.Call)
				if !ok || call.Call.StaticCallee() == nil || !fnInModule(call.Call.StaticCallee()) {
					continue
				}
				held := false
				for id := range heldAt(ser, call) {
					if strings.HasSuffix(id, ".encodeMu") {
						held = true
					}
				}
				if held {
					locked[call.Call.StaticCallee()] = true
				} else {
					unlocked[call.Call.StaticCallee()] = true
				}
			}
		}
	}
	callers := map[*ssa.Function][]*ssa.Function{}
	for f := range p.AllFns {
		if !fnInModule(f) || f.Blocks == nil {
			continue
		}
		for _, callee := range p.MG().Callees(f) {
			callers[callee] = append(callers[callee], f)
		}
	}
	bad := ""
	seen := map[*ssa.Function]bool{}
	var up func(f *ssa.Function)
	up = func(f *ssa.Function) {
		if seen[f] || bad != "" {
			return
		}
		seen[f] = true
		if locked[f] && !unlocked[f] {
			// reached from the serializer under the lock; other callers are still followed
		}
		cs := callers[f]
		if len(cs) == 0 && !locked[f] {
			bad = fnName(tgt) + " is reachable from " + fnName(f) + ", which no serializer calls under the lock"
			return
		}
		for _, cf := range cs {
			if isSer[cf] {
				if unlocked[f] {
					bad = fnName(f) + " is called from " + fnName(cf) + " outside its critical section"
				}
				continue
			}
			up(cf)
		}
	}
	up(tgt)
	return bad
}

// wireConstants (R5)
func (c *Check) wireConstants() {
	p := c.P
	consts := func(name string) (map[string][]int64, *ssa.Function) {
		f := p.Func("profile", name)
		out := map[string][]int64{}
		if f == nil {
			return nil, nil
		}
		for _, b := range f.Blocks {
			for _, ins := range b.Instrs {
				if call, ok := ins.(*ssa.Call); ok {
					if sc := call.Call.StaticCallee(); sc != nil && fnPkgPath(sc) == "encoding/binary" && strings.Contains(sc.Name(), "varint") {
						out["stdlib"] = append(out["stdlib"], 1) // the standard base-128 codec
					}
					if bi, ok := call.Call.Value.(*ssa.Builtin); ok && bi.Name() == "min" {
						for _, a := range call.Call.Args {
							if k, ok := constInt(a); ok {
								out["min"] = append(out["min"], k)
							}
						}
					}
				}
				bo, ok := ins.(*ssa.BinOp)
				if !ok {
					continue
				}
				for _, side := range []ssa.Value{bo.X, bo.Y} {
					if k, ok := constInt(side); ok {
						out[bo.Op.String()] = append(out[bo.Op.String()], k)
					}
				}
			}
		}
		return out, f
	}
	has := func(m map[string][]int64, op string, v int64) bool {
		for _, x := range m[op] {
			if x == v {
				return true
			}
		}
		return false
	}
	enc, ef := consts("encodeVarint")
	dec, df := consts("decodeVarint")
	if ef == nil || df == nil {
		c.undecided("C01-R5", "varint", "", "encodeVarint/decodeVarint not found")
	} else {
		encOK := has(enc, ">=", 128) && has(enc, "|", 128) && has(enc, ">>", 7) || has(enc, "<", 128) && has(enc, "|", 128) && has(enc, ">>", 7) || has(enc, "stdlib", 1)
		// the group limit may be written as a bail-out (i >= 10) or as a loop bound (i < 10)
		// (i < 10), or as a cap on the bytes looked at (min(len(data), 10), if n > 10 { n = 10 })
		limit := has(dec, ">=", 10) || has(dec, "<", 10) || has(dec, ">", 9) || has(dec, "<=", 9) || has(dec, "==", 10) || has(dec, ">", 10) || has(dec, "min", 10)
		decOK := has(dec, "&", 127) && has(dec, "&", 128) && (has(dec, "*", 7) || has(dec, "+", 7)) && limit || has(dec, "stdlib", 1)
		if encOK {
			c.ok("C01-R5", "varint:encode", p.relFile(ef.Pos()), "encodeVarint emits 7-bit groups with continuation bit 0x80", "constants: threshold 128, |0x80, >>7")
		} else {
			c.bad("C01-R5", "varint:encode", p.relFile(ef.Pos()), fmt.Sprintf("encodeVarint constants do not describe base-128 groups: %v", enc))
		}
		if decOK {
			c.ok("C01-R5", "varint:decode", p.relFile(df.Pos()), "decodeVarint reads 7-bit groups with continuation bit 0x80, at most 10 groups", "constants: &0x7f, &0x80, shift 7*i, i >= 10")
		} else {
			c.bad("C01-R5", "varint:decode", p.relFile(df.Pos()), fmt.Sprintf("decodeVarint constants do not mirror encodeVarint (expected &0x7f, &0x80, 7*i, i>=10): %v", dec))
		}
	}
	// tag / wire type split
	el, elf := consts("encodeLength")
	eu, euf := consts("encodeUint64")
	dfc, dff := consts("decodeField")
	if elf == nil || euf == nil || dff == nil {
		c.undecided("C01-R5", "tag", "", "encodeLength/encodeUint64/decodeField not found")
		return
	}
	if has(el, "<<", 3) && has(el, "|", 2) && has(eu, "<<", 3) && has(dfc, ">>", 3) && has(dfc, "&", 7) {
		c.ok("C01-R5", "tag", p.relFile(dff.Pos()), "field keys are (tag<<3 | wiretype) on both sides", "encode: <<3 with |2 for length-delimited and no type bits for varint; decode: >>3 and &7")
	} else {
		c.bad("C01-R5", "tag", p.relFile(dff.Pos()), fmt.Sprintf("tag/wire-type constants disagree: encodeLength %v, encodeUint64 %v, decodeField %v", el, eu, dfc))
	}
	// every decode* checks the wire type its encoder produces
	for _, d := range []struct {
		fn   string
		typ  int64
		also int64
	}{{"decodeInt64", 0, -1}, {"decodeUint64", 0, -1}, {"decodeBool", 0, -1}, {"decodeString", 2, -1}, {"decodeMessage", 2, -1}, {"decodeInt64s", 0, 2}, {"decodeUint64s", 0, 2}} {
		f := p.Func("profile", d.fn)
		if f == nil {
			continue
		}
		got := map[int64]bool{}
		for _, b := range helperBlocks(f, 2) {
			for _, ins := range b.Instrs {
				if call, ok := ins.(*ssa.Call); ok && call.Call.StaticCallee() != nil && call.Call.StaticCallee().Name() == "checkType" {
					if k, ok := constInt(call.Call.Args[1]); ok {
						got[k] = true
					}
				}
				// the unpacked form is delegated to the scalar decoder, which checks type 0
				if call, ok := ins.(*ssa.Call); ok && call.Call.StaticCallee() != nil && (call.Call.StaticCallee().Name() == "decodeInt64" || call.Call.StaticCallee().Name() == "decodeUint64") && call.Call.StaticCallee() != f {
					got[0] = true
				}
				if cmp, ok := ins.(*ssa.BinOp); ok && (cmp.Op == token.EQL || cmp.Op == token.NEQ) {
					if isFieldLoad(cmp.X, "profile.buffer", "typ") {
						if k, ok := constInt(cmp.Y); ok {
							got[k] = true
						}
					}
				}
			}
		}
		key := "wiretype:" + d.fn
		if got[d.typ] && (d.also < 0 || got[d.also]) {
			c.ok("C01-R5", key, p.relFile(f.Pos()), d.fn+" checks the wire type its encoder emits", fmt.Sprintf("types checked: %v", got))
		} else {
			c.bad("C01-R5", key, p.relFile(f.Pos()), fmt.Sprintf("%s does not check wire type %d (checked: %v)", d.fn, d.typ, got))
		}
	}
}

// isMessageStruct: t is (a pointer to) one of the profile's message structs, i.e. a named
// struct with an encode method.
func isMessageStruct(p *Program, t types.Type) bool {
	if pt, ok := t.Underlying().(*types.Pointer); ok {
		t = pt.Elem()
	}
	named, ok := t.(*types.Named)
	if !ok {
		return false
	}
	return methodOf(p, named, "encode") != nil
}

// internStringArg: call is a call of the string interner of package profile - a function
// (or method of an interner object) that takes one string among its parameters and returns
// one integer, the index - and the result is the string argument; else nil.
func internStringArg(call *ssa.Call) ssa.Value {
	callee := call.Call.StaticCallee()
	if callee == nil || fnPkgPath(callee) != modPath+"/profile" || callee.Signature.Results().Len() != 1 {
		return nil
	}
	if bt, ok := callee.Signature.Results().At(0).Type().Underlying().(*types.Basic); !ok || bt.Info()&types.IsInteger == 0 {
		return nil
	}
	var arg ssa.Value
	n := 0
	for i, pr := range callee.Params {
		if bt, ok := pr.Type().Underlying().(*types.Basic); ok && bt.Kind() == types.String && i < len(call.Call.Args) {
			arg = call.Call.Args[i]
			n++
		}
	}
	if n != 1 {
		return nil
	}
	return arg
}

// resolveIndexArg: call is a call of the string resolver of package profile - a function (or
// method of a resolver object) that takes the address of an integer index among its
// parameters and returns the string as its first result - and the result is that address
// argument; else nil.
func resolveIndexArg(call *ssa.Call) ssa.Value {
	callee := call.Call.StaticCallee()
	if callee == nil || fnPkgPath(callee) != modPath+"/profile" || callee.Signature.Results().Len() < 1 {
		return nil
	}
	if bt, ok := callee.Signature.Results().At(0).Type().Underlying().(*types.Basic); !ok || bt.Kind() != types.String {
		return nil
	}
	var arg ssa.Value
	n := 0
	for i, pr := range callee.Params {
		if pt, ok := pr.Type().Underlying().(*types.Pointer); ok && i < len(call.Call.Args) {
			if bt, ok := pt.Elem().Underlying().(*types.Basic); ok && bt.Info()&types.IsInteger != 0 {
				arg = call.Call.Args[i]
				n++
			}
		}
	}
	if n != 1 {
		return nil
	}
	return arg
}
