package main

import (
	"fmt"
	"go/token"
	"go/types"
	"strings"

	"golang.org/x/tools/go/ssa"
)

func init() { register("C06", true, runC06) }

func runC06(c *Check) {
	c.Explanation = "Decides the frame, order and wiring clauses of C06 for every profile and filter expression: each filter entry point can write only the fields it is documented to change (FilterSamplesByName/ShowFrom: Location.Line, Sample.Location, Profile.Sample re-assigned; FilterSamplesByTag: Profile.Sample; FilterTagsByName: only delete on Sample.Label/NumLabel; applyFocus: the union plus PruneFrom) and never Sample.Value, label values, addresses, ids, functions or mappings, including through the tag-match closures (R1); every slice assigned to Sample.Location, Location.Line or Profile.Sample is an order-preserving sub-sequence of the previous value of the same field of the same object (re-slice, or append of range elements in iteration order), so relative frame and sample order are kept (R2); each option reaches the filter parameter of the same name exactly once, and focus is applied exactly once per report, before report construction iff relative_percentages (R3). Also: show/hide are applied to every location when given (R4), the matches that select samples are evaluated before a location's lines are rewritten (R5), and a tag filter's key is split off at the first '=' only (R3). Also: hide marks a location wholly hidden only after it matched (R7); keyed tag predicates match the label's values (R8); each range bound is scaled from its own unit (R9). Round-I additions: numeric range predicates compare non-strictly (a bound belongs to its range); an early return on empty options names every option read afterwards. Not decided: which samples/frames match (regexp and range semantics), the partition law's arithmetic."
	p := c.P
	m := newModAnalyzer(p)
	tracked := p.structsOf("profile", "Profile", "Sample", "Location", "Line", "Function", "Mapping", "ValueType", "Label")
	byName := c.anchorFn("C06-R1", "profile", "(*Profile).FilterSamplesByName")
	showFrom := c.anchorFn("C06-R1", "profile", "(*Profile).ShowFrom")
	byTag := c.anchorFn("C06-R1", "profile", "(*Profile).FilterSamplesByTag")
	tagsByName := c.anchorFn("C06-R1", "profile", "(*Profile).FilterTagsByName")
	applyFocus := c.anchorFn("C06-R1", "internal/driver", "applyFocus")
	compileTag := c.anchorFn("C06-R1", "internal/driver", "compileTagFilter")
	if byName == nil || showFrom == nil || byTag == nil || tagsByName == nil || applyFocus == nil || compileTag == nil {
		return
	}
	nameSet := map[string]bool{"profile.Location.Line": true, "profile.Sample.Location": true, "profile.Profile.Sample": true}
	tagSet := map[string]bool{"profile.Sample.Label[]": true, "profile.Sample.NumLabel[]": true}
	delOnly := map[string]string{"profile.Sample.Label[]": "delete", "profile.Sample.NumLabel[]": "delete"}
	union := map[string]bool{}
	for k := range nameSet {
		union[k] = true
	}
	for k := range tagSet {
		union[k] = true
	}
	type ent struct {
		name    string
		roots   []*ssa.Function
		allowed map[string]bool
	}
	// the tag-match closures built by compileTagFilter run inside FilterSamplesByTag
	tagRoots := append([]*ssa.Function{byTag}, allAnon(compileTag)...)
	var allEffects []Effect
	for _, e := range []ent{
		{"FilterSamplesByName", []*ssa.Function{byName}, nameSet},
		{"ShowFrom", []*ssa.Function{showFrom}, nameSet},
		{"FilterSamplesByTag", tagRoots, map[string]bool{"profile.Profile.Sample": true}},
		{"FilterTagsByName", []*ssa.Function{tagsByName}, tagSet},
		{"applyFocus", []*ssa.Function{applyFocus}, union},
	} {
		effects, nfn := c.checkFrame(m, frameSpec{rule: "C06-R1", name: e.name, roots: e.roots, tracked: tracked, allowed: e.allowed, elemSensitive: true, opsOnly: delOnly})
		c.Extra["reachable_from_"+e.name] = nfn
		if e.name == "applyFocus" {
			allEffects = effects
		}
	}
	c.Floor("C06-R1", 300)

	// R2: order-preserving sub-sequences
	n := 0
	seenStore := map[*ssa.Store]bool{}
	for _, e := range allEffects {
		if e.What != "store" || e.Elem || e.Root == rFresh {
			continue
		}
		k := e.T + "." + e.F
		if !nameSet[k] {
			continue
		}
		st := storeAt(e)
		if st == nil || seenStore[st] {
			continue
		}
		seenStore[st] = true
		n++
		key := fmt.Sprintf("subseq:%s:%s", fnName(e.Fn), k)
		fa, ok := st.Addr.(*ssa.FieldAddr)
		if !ok {
			c.undecided("C06-R2", key, p.relFile(e.Pos), "store destination is not a field address")
			continue
		}
		sc := &subseqChecker{prog: p}
		if why := sc.check(st.Val, fa.X, fa.Field, 0, map[ssa.Value]bool{}); why != "" {
			c.bad("C06-R2", key, p.relFile(e.Pos), fmt.Sprintf("%s assigned in %s is not provably an order-preserving sub-sequence of its previous value: %s", k, fnName(e.Fn), why))
		} else {
			c.ok("C06-R2", key, p.relFile(e.Pos), fmt.Sprintf("%s assigned in %s keeps relative order", k, fnName(e.Fn)), "value is built only from re-slices of the same field and appends of its range elements in iteration order: "+strings.Join(sc.how, "; "))
		}
	}
	c.Floor("C06-R2", 7)

	c.focusWiring(applyFocus)
	c.focusOnce()
	c.filterOrder(applyFocus)
	c.perLocationFilters(byName)
	c.tagKeySplit(compileTag)
	c.selectOnOriginalStack(byName)
	c.rangeComparesScaledValues()
	c.pseudoFramesBeforeFilters()
	c.hideOnlyMatched(byName)
	c.keyedTagMatchesValue(compileTag)
	c.rangeBoundUnits()
	c.emptyOptionGuardCoversReads("C06-R10", "internal/driver", "applyFocus")
}

// pseudoFramesBeforeFilters (R3e): tagroot/tagleaf pseudo frames are ordinary frames for
// the name filters, with and without relative_percentages: generateTagRootsLeaves
// dominates every applyFocus call of generateRawReport.
func (c *Check) pseudoFramesBeforeFilters() {
	p := c.P
	f := c.anchorFn("C06-R3", "internal/driver", "generateRawReport")
	if f == nil {
		return
	}
	var gen ssa.Instruction
	var focus []ssa.Instruction
	for _, es := range effectiveSites(f, func(ins ssa.Instruction) bool { return calleeNamed(ins, "generateTagRootsLeaves") }, 2) {
		gen = es.at
	}
	for _, es := range effectiveSites(f, func(ins ssa.Instruction) bool { return calleeNamed(ins, "applyFocus") }, 2) {
		focus = append(focus, es.at)
	}
	key := "order:generateTagRootsLeaves<applyFocus"
	switch {
	case gen == nil || len(focus) == 0:
		c.undecided("C06-R3", key, p.relFile(f.Pos()), "generateRawReport no longer calls generateTagRootsLeaves and applyFocus")
	default:
		for _, fc := range focus {
			if !instrDominates(gen, fc) {
				c.bad("C06-R3", key, p.relFile(fc.Pos()), "applyFocus can run before the tagroot/tagleaf pseudo frames exist: focus, ignore, hide and show_from on such a frame then behave differently with and without relative_percentages")
				return
			}
		}
		c.ok("C06-R3", key, p.relFile(gen.Pos()), "pseudo frames from tagroot/tagleaf are created before any filter runs", "generateTagRootsLeaves dominates both applyFocus calls")
	}
}

// selectOnOriginalStack (R5b): whether a sample is kept is decided on the stack it came
// with: focusedAndNotIgnored receives the sample's own Location field (not a list from
// which hidden frames were already removed), and is evaluated before that field is
// re-assigned in the same iteration.
func (c *Check) selectOnOriginalStack(byName *ssa.Function) {
	p := c.P
	n := 0
	for _, b := range byName.Blocks {
		for _, ins := range b.Instrs {
			call, ok := ins.(*ssa.Call)
			if !ok || call.Call.StaticCallee() == nil || call.Call.StaticCallee().Name() != "focusedAndNotIgnored" {
				continue
			}
			n++
			key := "select-on-original"
			arg := call.Call.Args[0]
			ld, isLoad := arg.(*ssa.UnOp)
			var fa *ssa.FieldAddr
			if isLoad && ld.Op == token.MUL {
				fa, _ = ld.X.(*ssa.FieldAddr)
			}
			if fa == nil {
				c.bad("C06-R5", key, p.relFile(call.Pos()), "FilterSamplesByName decides whether a sample is kept on "+describeValue(arg)+" instead of the sample's own Location list: when hide/show removed a whole location first, focus drops samples it should keep and ignore keeps samples it should drop")
				continue
			}
			if T, F := fieldOf(fa.X.Type(), fa.Field); T != "profile.Sample" || F != "Location" {
				c.bad("C06-R5", key, p.relFile(call.Pos()), "focusedAndNotIgnored is not given Sample.Location")
				continue
			}
			// no store to that field reaches the call within the iteration
			var hdr *ssa.BasicBlock
			for d := b; d != nil && hdr == nil; d = d.Idom() {
				for _, pred := range d.Preds {
					if d.Dominates(pred) && naturalLoop(d)[b] {
						hdr = d
					}
				}
			}
			bad := ""
			for _, b2 := range byName.Blocks {
				for _, i2 := range b2.Instrs {
					st, ok := i2.(*ssa.Store)
					if !ok {
						continue
					}
					fa2, ok := st.Addr.(*ssa.FieldAddr)
					if !ok || fa2.Field != fa.Field || !sameNode(fa2.X, fa.X) {
						continue
					}
					if b2 == b && instrIndex(st) < instrIndex(call) || b2 != b && hdr != nil && blockReachesAvoid(b2, b, hdr) {
						bad = p.relFile(st.Pos())
					}
				}
			}
			if bad == "" {
				c.ok("C06-R5", key, p.relFile(call.Pos()), "samples are selected on their original stacks", "focusedAndNotIgnored reads Sample.Location before any re-assignment of it in the iteration")
			} else {
				c.bad("C06-R5", key, p.relFile(call.Pos()), "Sample.Location is re-assigned ("+bad+") before focusedAndNotIgnored looks at it")
			}
		}
	}
	if n == 0 {
		c.undecided("C06-R5", "select-on-original", p.relFile(byName.Pos()), "FilterSamplesByName no longer calls focusedAndNotIgnored")
	}
}

// rangeComparesScaledValues (R6): numeric tag ranges compare the label value scaled to the
// expression's unit with the expression's value as they are (floating point).  A
// conversion to an integer in such a comparison truncates: with tagfocus=1kb every value
// from 1024 to 2047 bytes would count as equal to 1kb.
func (c *Check) rangeComparesScaledValues() {
	p := c.P
	f := c.anchorFn("C06-R6", "internal/driver", "parseTagFilterRange")
	if f == nil {
		return
	}
	n := 0
	// the predicates: the function literals of parseTagFilterRange, and the functions or
	// methods whose values it returns (a range type with a contains method)
	var preds []*ssa.Function
	seenPred := map[*ssa.Function]bool{f: true}
	addPred := func(g *ssa.Function) {
		for i := 0; i < 3 && g != nil; i++ {
			if g.Synthetic == "" {
				break
			}
			// bound-method / thunk wrapper: the method it forwards to
			var fwd *ssa.Function
			for _, b := range g.Blocks {
				for _, ins := range b.Instrs {
					if call, ok := ins.(*ssa.Call); ok && call.Call.StaticCallee() != nil {
						fwd = call.Call.StaticCallee()
					}
				}
			}
			g = fwd
		}
		if g != nil && !seenPred[g] && fnInModule(g) && len(g.Blocks) > 0 {
			seenPred[g] = true
			preds = append(preds, g)
		}
	}
	for _, h := range withHelpers(f, 1) {
		forEachFuncAndAnon(h, func(g *ssa.Function) {
			if g.Parent() != nil {
				addPred(g)
			}
		})
		for _, b := range h.Blocks {
			if ret, ok := b.Instrs[len(b.Instrs)-1].(*ssa.Return); ok && h == f {
				for _, r := range ret.Results {
					fns, _ := p.MG().funcValues(r, map[ssa.Value]bool{})
					for _, g := range fns {
						addPred(g)
					}
				}
			}
		}
	}
	for _, g := range preds {
		for _, b := range g.Blocks {
			for _, ins := range b.Instrs {
				cmp, ok := ins.(*ssa.BinOp)
				if !ok {
					continue
				}
				switch cmp.Op {
				case token.EQL, token.NEQ, token.LSS, token.LEQ, token.GTR, token.GEQ:
				default:
					continue
				}
				isNum := func(v ssa.Value) bool {
					bt, ok := v.Type().Underlying().(*types.Basic)
					return ok && bt.Info()&types.IsNumeric != 0
				}
				if !isNum(cmp.X) {
					continue
				}
				n++
				key := "range-compare:" + fnName(g) + ":" + cmp.Op.String()
				trunc := false
				for _, side := range []ssa.Value{cmp.X, cmp.Y} {
					if cv, ok := side.(*ssa.Convert); ok {
						from, ok1 := cv.X.Type().Underlying().(*types.Basic)
						to, ok2 := cv.Type().Underlying().(*types.Basic)
						if ok1 && ok2 && from.Info()&types.IsFloat != 0 && to.Info()&types.IsInteger != 0 {
							trunc = true
						}
					}
				}
				// a bound belongs to its range: the two-sided form a:b, the open forms a: and :b
				// and the single value all accept the value written in the expression
				strict := cmp.Op == token.LSS || cmp.Op == token.GTR
				if refs := cmp.Referrers(); strict && refs != nil && len(*refs) > 0 {
					negated := true
					for _, r := range *refs {
						if u, ok := r.(*ssa.UnOp); !ok || u.Op != token.NOT {
							negated = false
						}
					}
					if negated {
						strict = false
					}
				}
				isFloat := func(v ssa.Value) bool {
					bt, ok := v.Type().Underlying().(*types.Basic)
					return ok && bt.Info()&types.IsFloat != 0
				}
				if strict && isFloat(cmp.X) && isFloat(cmp.Y) {
					c.bad("C06-R6", key+":strict", p.relFile(cmp.Pos()), "a numeric tag range predicate compares with a strict "+cmp.Op.String()+": the bound written in the expression is excluded from its own range (tagfocus=:1mb drops the samples of exactly 1mb that tagfocus=1mb keeps)")
					continue
				}
				if trunc {
					c.bad("C06-R6", key, p.relFile(cmp.Pos()), "a numeric tag range predicate compares values after truncating them to integers: values that differ by less than one unit of the expression (1500 bytes against 1kb) compare as equal or fall on the wrong side of a bound")
				} else {
					c.ok("C06-R6", key, p.relFile(cmp.Pos()), "numeric tag range predicate compares the scaled values directly", "no float-to-integer conversion on either operand")
				}
			}
		}
	}
	if n == 0 {
		c.undecided("C06-R6", "range-compare", p.relFile(f.Pos()), "no numeric comparison found in the predicates parseTagFilterRange returns")
	}
}

// tagKeySplit (R3d): a tag filter "key=expr" is split at the first '=' only, so that the
// expression itself may contain '='.  The separating call in compileTagFilter must be one
// that yields at most two pieces (SplitN with n=2, Cut, Index); an unbounded Split makes
// every expression with a second '=' lose its key restriction.
func (c *Check) tagKeySplit(compileTag *ssa.Function) {
	p := c.P
	n := 0
	for _, b := range compileTag.Blocks {
		for _, ins := range b.Instrs {
			call, ok := ins.(*ssa.Call)
			if !ok || call.Call.StaticCallee() == nil || fnPkgPath(call.Call.StaticCallee()) != "strings" {
				continue
			}
			name := call.Call.StaticCallee().Name()
			sepIdx := 1
			if len(call.Call.Args) < 2 {
				continue
			}
			sep, isStr := constString(call.Call.Args[sepIdx])
			if !isStr {
				if k, ok := constInt(call.Call.Args[sepIdx]); ok && k == '=' {
					sep, isStr = "=", true
				}
			}
			if !isStr || sep != "=" {
				continue
			}
			n++
			key := "tagkey-split"
			pos := p.relFile(call.Pos())
			switch name {
			case "SplitN", "SplitAfterN":
				if k, ok := constInt(call.Call.Args[2]); ok && k == 2 {
					c.ok("C06-R3", key, pos, "key and expression of a tag filter are separated at the first '='", "strings."+name+"(value, \"=\", 2)")
				} else {
					c.bad("C06-R3", key, pos, "compileTagFilter splits key=expr into a number of pieces other than two: an expression containing '=' is not matched against its key")
				}
			case "Cut", "Index", "IndexByte", "IndexRune":
				c.ok("C06-R3", key, pos, "key and expression of a tag filter are separated at the first '='", "strings."+name)
			case "Split", "SplitAfter", "LastIndex", "LastIndexByte", "Fields", "FieldsFunc":
				c.bad("C06-R3", key, pos, "compileTagFilter separates key from expression with strings."+name+", which does not stop at the first '=': for key=a=b the filter is no longer restricted to the key (tagfocus keeps nothing, tagignore drops nothing)")
			default:
				c.undecided("C06-R3", key, pos, "unrecognised way of separating key from expression: strings."+name)
			}
		}
	}
	if n == 0 {
		c.undecided("C06-R3", "tagkey-split", p.relFile(compileTag.Pos()), "compileTagFilter no longer separates an optional key at '='")
	}
}

// filterOrder (R3c): samples are selected on their labels before labels are hidden.
func (c *Check) filterOrder(applyFocus *ssa.Function) {
	p := c.P
	// the point of applyFocus at which the filter runs: its own call of it, or its call of a
	// helper that applies it
	find := func(name string) *effSite {
		for _, es := range effectiveSites(applyFocus, func(ins ssa.Instruction) bool {
			call, ok := ins.(*ssa.Call)
			return ok && call.Call.StaticCallee() != nil && call.Call.StaticCallee().Name() == name && fnPkgPath(call.Call.StaticCallee()) == modPath+"/profile"
		}, 2) {
			e := es
			return &e
		}
		return nil
	}
	before := func(a, b *effSite) bool {
		if a.at == b.at {
			// both inside the same helper call: ordered there
			return a.actual.Parent() == b.actual.Parent() && instrDominates(a.actual, b.actual)
		}
		return instrDominates(a.at, b.at)
	}
	for _, pair := range [][2]string{{"FilterSamplesByTag", "FilterTagsByName"}, {"FilterSamplesByName", "PruneFrom"}, {"FilterSamplesByName", "ShowFrom"}} {
		a, b := find(pair[0]), find(pair[1])
		key := "order:" + pair[0] + "<" + pair[1]
		if a == nil || b == nil {
			c.undecided("C06-R3", key, p.relFile(applyFocus.Pos()), "calls not found in applyFocus")
			continue
		}
		if before(a, b) {
			c.ok("C06-R3", key, p.relFile(b.at.Pos()), pair[0]+" runs before "+pair[1], "the first call dominates the second in applyFocus")
		} else {
			why := "frames would be removed before the name filters select samples on them"
			if pair[0] == "FilterSamplesByTag" {
				why = "tagfocus/tagignore would select on labels that taghide/tagshow already removed, so hiding a label changes which samples are kept"
			}
			c.bad("C06-R3", key, p.relFile(b.at.Pos()), pair[1]+" is not preceded by "+pair[0]+" in applyFocus: "+why)
		}
	}
}

// perLocationFilters (R4): in FilterSamplesByName, when a show (resp. hide) expression is
// given it is applied to every location of the profile: no path through one iteration of
// the location loop skips it.
func (c *Check) perLocationFilters(byName *ssa.Function) {
	p := c.P
	for _, flt := range []struct{ param, callee string }{{"show", "matchedLines"}, {"hide", "unmatchedLines"}} {
		var par *ssa.Parameter
		for _, pr := range byName.Params {
			if pr.Name() == flt.param {
				par = pr
			}
		}
		var call *ssa.Call
		for _, b := range byName.Blocks {
			for _, ins := range b.Instrs {
				if cl, ok := ins.(*ssa.Call); ok && cl.Call.StaticCallee() != nil && cl.Call.StaticCallee().Name() == flt.callee {
					call = cl
				}
			}
		}
		key := "each-location:" + flt.param
		if par == nil || call == nil {
			c.undecided("C06-R4", key, p.relFile(byName.Pos()), "parameter "+flt.param+" or call of "+flt.callee+" not found in FilterSamplesByName")
			continue
		}
		// loop header of the location loop: nearest dominator that is the target of a back edge from the call's block
		var hdr *ssa.BasicBlock
		for d := call.Block(); d != nil && hdr == nil; d = d.Idom() {
			for _, pred := range d.Preds {
				if d.Dominates(pred) && (pred == call.Block() || blockReachesPlain(call.Block(), pred)) {
					hdr = d
				}
			}
		}
		if hdr == nil {
			c.undecided("C06-R4", key, p.relFile(call.Pos()), flt.callee+" is not called inside a loop")
			continue
		}
		assume := func(cond ssa.Value) int {
			// the expression is given …
			if cmp, ok := cond.(*ssa.BinOp); ok && (cmp.X == ssa.Value(par) || cmp.Y == ssa.Value(par)) {
				if cmp.Op == token.NEQ {
					return 1
				}
				if cmp.Op == token.EQL {
					return -1
				}
			}
			// … and (for hide) it matches this location
			if flt.param == "hide" {
				if cl, ok := cond.(*ssa.Call); ok && cl.Call.StaticCallee() != nil && cl.Call.StaticCallee().Name() == "matchesName" && len(cl.Call.Args) == 2 && cl.Call.Args[1] == ssa.Value(par) {
					return 1
				}
			}
			return 0
		}
		// can one iteration (body entry → back to the header) avoid the call's block?
		skipped := false
		body := hdr.Succs[0]
		loop := naturalLoop(hdr)
		seen := map[*ssa.BasicBlock]bool{}
		var walk func(b *ssa.BasicBlock)
		walk = func(b *ssa.BasicBlock) {
			if b == call.Block() || seen[b] || skipped {
				return
			}
			if b == hdr {
				skipped = true
				return
			}
			if !loop[b] {
				return
			}
			seen[b] = true
			succs := b.Succs
			if iff, ok := b.Instrs[len(b.Instrs)-1].(*ssa.If); ok {
				switch assume(iff.Cond) {
				case 1:
					succs = b.Succs[:1]
				case -1:
					succs = b.Succs[1:]
				}
			}
			for _, sc := range succs {
				walk(sc)
			}
		}
		walk(body)
		if skipped {
			c.bad("C06-R4", key, p.relFile(call.Pos()), "FilterSamplesByName can finish a location without applying "+flt.param+" although the expression is given: the result depends on what the other filters matched on that location")
		} else {
			c.ok("C06-R4", key, p.relFile(call.Pos()), flt.param+" is applied to every location when it is given", "no path through one iteration of the location loop avoids the "+flt.callee+" call under "+flt.param+" != nil")
		}
	}
	c.selectBeforeRewrite(byName)
}

// selectBeforeRewrite (R5): focus and ignore select samples by the frames the location
// really has.  The name matches whose outcome is recorded in the selection table (the map
// later handed to focusedAndNotIgnored) must therefore be evaluated before show/hide
// rewrite the location's lines in the same iteration.
func (c *Check) selectBeforeRewrite(byName *ssa.Function) {
	p := c.P
	// the selection table
	var sel ssa.Value
	for _, b := range byName.Blocks {
		for _, ins := range b.Instrs {
			if cl, ok := ins.(*ssa.Call); ok && cl.Call.StaticCallee() != nil && cl.Call.StaticCallee().Name() == "focusedAndNotIgnored" && len(cl.Call.Args) == 2 {
				sel = cl.Call.Args[1]
			}
		}
	}
	if sel == nil {
		c.undecided("C06-R5", "select-first", p.relFile(byName.Pos()), "FilterSamplesByName no longer passes a selection table to focusedAndNotIgnored")
		return
	}
	updatesSel := func(b *ssa.BasicBlock) bool {
		for _, ins := range b.Instrs {
			if mu, ok := ins.(*ssa.MapUpdate); ok && mu.Map == sel {
				return true
			}
		}
		return false
	}
	var selCalls []*ssa.Call
	var rewrites []*ssa.Store
	for _, b := range byName.Blocks {
		for _, ins := range b.Instrs {
			switch x := ins.(type) {
			case *ssa.Call:
				if x.Call.StaticCallee() == nil || x.Call.StaticCallee().Name() != "matchesName" {
					continue
				}
				if iff := branchOn(x); iff != nil {
					for _, sc := range iff.Block().Succs {
						if updatesSel(sc) {
							selCalls = append(selCalls, x)
							break
						}
					}
				}
			case *ssa.Store:
				if fa, ok := x.Addr.(*ssa.FieldAddr); ok {
					if T, F := fieldOf(fa.X.Type(), fa.Field); T == "profile.Location" && F == "Line" {
						rewrites = append(rewrites, x)
					}
				}
			}
		}
	}
	if len(selCalls) < 2 || len(rewrites) < 2 {
		c.undecided("C06-R5", "select-first", p.relFile(byName.Pos()), fmt.Sprintf("expected the focus and ignore matches and the show and hide rewrites in FilterSamplesByName, found %d selecting matches and %d line rewrites", len(selCalls), len(rewrites)))
		return
	}
	for _, call := range selCalls {
		var hdr *ssa.BasicBlock
		for d := call.Block(); d != nil && hdr == nil; d = d.Idom() {
			for _, pred := range d.Preds {
				if d.Dominates(pred) && (pred == call.Block() || blockReachesPlain(call.Block(), pred)) {
					hdr = d
				}
			}
		}
		key := fmt.Sprintf("select-first:%s", argName(call.Call.Args[len(call.Call.Args)-1]))
		if hdr == nil {
			c.undecided("C06-R5", key, p.relFile(call.Pos()), "selecting match is not inside the location loop")
			continue
		}
		bad := ""
		for _, st := range rewrites {
			if st.Block() == call.Block() {
				if instrIndex(st) < instrIndex(call) {
					bad = p.relFile(st.Pos())
				}
				continue
			}
			if blockReachesAvoid(st.Block(), call.Block(), hdr) {
				bad = p.relFile(st.Pos())
			}
		}
		if bad == "" {
			c.ok("C06-R5", key, p.relFile(call.Pos()), "the match that selects samples sees the location's original lines", "no store to Location.Line reaches it within one iteration of the location loop")
		} else {
			c.bad("C06-R5", key, p.relFile(call.Pos()), "the match that decides whether samples are kept is evaluated after the location's lines were rewritten by show/hide ("+bad+"): a frame that is both selected and hidden no longer counts, so focus drops and ignore keeps samples it should not")
		}
	}
}

func argName(v ssa.Value) string {
	if pr, ok := v.(*ssa.Parameter); ok {
		return pr.Name()
	}
	return v.Name()
}

func allAnon(f *ssa.Function) []*ssa.Function {
	var out []*ssa.Function
	forEachFuncAndAnon(f, func(g *ssa.Function) {
		if g != f {
			out = append(out, g)
		}
	})
	return out
}

type subseqChecker struct {
	prog  *Program
	how   []string
	param *ssa.Parameter // when set, the source sequence is this parameter instead of a field
}

// isSource: v is the sequence the result must be a sub-sequence of.
func (s *subseqChecker) isSource(v ssa.Value, obj ssa.Value, field int) bool {
	if s.param != nil {
		return v == ssa.Value(s.param)
	}
	return isLoadOfField(v, obj, field)
}

func (s *subseqChecker) note(h string) {
	for _, x := range s.how {
		if x == h {
			return
		}
	}
	s.how = append(s.how, h)
}

func isLoadOfField(v ssa.Value, obj ssa.Value, field int) bool {
	ld, ok := v.(*ssa.UnOp)
	if !ok || ld.Op != token.MUL {
		return false
	}
	fa, ok := ld.X.(*ssa.FieldAddr)
	return ok && fa.Field == field && fa.X == obj
}

// rangeIndex reports whether idx is the index of a forward range loop (…-1, +1 each turn).
func rangeIndex(idx ssa.Value) bool {
	add, ok := idx.(*ssa.BinOp)
	if !ok || add.Op != token.ADD {
		return false
	}
	phi, ok := add.X.(*ssa.Phi)
	if !ok {
		return false
	}
	one, ok := add.Y.(*ssa.Const)
	if !ok || safeInt64(one) != 1 {
		return false
	}
	for _, e := range phi.Edges {
		if e == idx {
			continue
		}
		if k, ok := e.(*ssa.Const); ok && safeInt64(k) == -1 {
			continue
		}
		return false
	}
	return true
}

// check: v is an order-preserving sub-sequence of obj.field (as it was on entry).
func (s *subseqChecker) check(v ssa.Value, obj ssa.Value, field int, depth int, seen map[ssa.Value]bool) string {
	if seen[v] {
		return ""
	}
	seen[v] = true
	if depth > 30 {
		return "value too deep to classify"
	}
	switch x := v.(type) {
	case *ssa.Const:
		if x.IsNil() {
			s.note("nil")
			return ""
		}
	case *ssa.MakeSlice:
		if k, ok := x.Len.(*ssa.Const); ok && safeInt64(k) == 0 {
			s.note("make(_, 0, _)")
			return ""
		}
		return "make with non-zero length"
	case *ssa.Slice:
		if s.isSource(x.X, obj, field) {
			s.note("re-slice of the field")
			return ""
		}
		return s.check(x.X, obj, field, depth+1, seen)
	case *ssa.UnOp:
		if s.isSource(x, obj, field) {
			s.note("the field itself")
			return ""
		}
		if vals, ok := cellValues(x.X); ok {
			for _, e := range vals {
				if why := s.check(e, obj, field, depth+1, seen); why != "" {
					return why
				}
			}
			return ""
		}
	case *ssa.Phi:
		for _, e := range x.Edges {
			if why := s.check(e, obj, field, depth+1, seen); why != "" {
				return why
			}
		}
		return ""
	case *ssa.Call:
		if b, ok := x.Call.Value.(*ssa.Builtin); ok && b.Name() == "append" {
			if why := s.check(x.Call.Args[0], obj, field, depth+1, seen); why != "" {
				return why
			}
			// the appended elements: a one-element backing array whose element is a range element
			return s.appendedInOrder(x.Call.Args[1], obj, field)
		}
		if callee := x.Call.StaticCallee(); callee != nil && fnInModule(callee) && callee.Signature.Recv() != nil && len(x.Call.Args) > 0 && x.Call.Args[0] == obj {
			// a method on the same object: every returned value must be a sub-sequence of recv.field
			recv := callee.Params[0]
			for _, b := range callee.Blocks {
				for _, ins := range b.Instrs {
					if ret, ok := ins.(*ssa.Return); ok && len(ret.Results) == 1 {
						if why := s.check(ret.Results[0], recv, field, depth+1, map[ssa.Value]bool{}); why != "" {
							return "in " + fnName(callee) + ": " + why
						}
					}
				}
			}
			s.note("result of " + fnName(callee) + " (checked)")
			return ""
		}
		// a helper that filters one of its slice parameters: every returned value must be a
		// sub-sequence of that parameter, and the argument for it must be the field itself
		if callee := x.Call.StaticCallee(); callee != nil && fnInModule(callee) && len(callee.Blocks) > 0 {
			for pi, a := range x.Call.Args {
				if pi >= len(callee.Params) || !isLoadOfField(a, obj, field) {
					continue
				}
				okAll, nret := true, 0
				why := ""
				for _, b := range callee.Blocks {
					if ret, ok := b.Instrs[len(b.Instrs)-1].(*ssa.Return); ok && len(ret.Results) >= 1 {
						nret++
						sub := &subseqChecker{prog: s.prog, param: callee.Params[pi]}
						if w := sub.check(ret.Results[0], nil, -1, depth+1, map[ssa.Value]bool{}); w != "" {
							okAll, why = false, w
						}
					}
				}
				if okAll && nret > 0 {
					s.note("result of " + fnName(callee) + ", which returns a sub-sequence of the field it is given")
					return ""
				}
				return "in " + fnName(callee) + ": " + why
			}
		}
		return "result of call " + x.Call.Value.Name()
	case *ssa.Parameter:
		if s.param != nil && x == s.param {
			s.note("the parameter itself")
			return ""
		}
	}
	return "unclassified value " + describeValue(v)
}

func (s *subseqChecker) appendedInOrder(arg ssa.Value, obj ssa.Value, field int) string {
	sl, ok := arg.(*ssa.Slice)
	if !ok {
		return "append of a whole slice (concatenation)"
	}
	al, ok := sl.X.(*ssa.Alloc)
	if !ok {
		return "append of a non-literal slice"
	}
	n := 0
	for _, ref := range *al.Referrers() {
		ia, ok := ref.(*ssa.IndexAddr)
		if !ok {
			continue
		}
		for _, r2 := range *ia.Referrers() {
			st, ok := r2.(*ssa.Store)
			if !ok || st.Addr != ia {
				continue
			}
			n++
			if !s.rangeElem(st.Val, obj, field) {
				return "appended element " + describeValue(st.Val) + " is not the range element of the source field"
			}
		}
	}
	if n == 0 {
		return "append with no recognisable element"
	}
	s.note("append of range elements in iteration order")
	return ""
}

// rangeElem: v is obj.field[i] with i the index of a forward range loop over obj.field.
func (s *subseqChecker) rangeElem(v ssa.Value, obj ssa.Value, field int) bool {
	ld, ok := v.(*ssa.UnOp)
	if !ok || ld.Op != token.MUL {
		return false
	}
	vals, ok := cellValues(ld.X)
	if !ok {
		vals, ok = structCellValues(ld.X)
	}
	if ok && len(vals) > 0 {
		// the range variable is kept in a local cell
		for _, e := range vals {
			if !s.rangeElem(e, obj, field) {
				return false
			}
		}
		return true
	}
	ia, ok := ld.X.(*ssa.IndexAddr)
	if !ok {
		return false
	}
	if !s.isSource(ia.X, obj, field) {
		return false
	}
	return rangeIndex(ia.Index)
}

// wiringProg: the program optionSources may consult to follow parameters to their arguments.
var wiringProg *Program

// focusWiring (R3a): in applyFocus every filter parameter receives the option of the same name.
func (c *Check) focusWiring(applyFocus *ssa.Function) {
	wiringProg = c.P
	want := map[string][]string{
		"FilterSamplesByName": {"Focus", "Ignore", "Hide", "Show"},
		"ShowFrom":            {"ShowFrom"},
		"FilterSamplesByTag":  {"TagFocus", "TagIgnore"},
		"FilterTagsByName":    {"TagShow", "TagHide"},
		"PruneFrom":           {"PruneFrom"},
	}
	count := map[string]int{}
	for _, b := range helperBlocks(applyFocus, 2) {
		for _, ins := range b.Instrs {
			call, ok := ins.(*ssa.Call)
			if !ok {
				continue
			}
			sc := call.Call.StaticCallee()
			if sc == nil {
				continue
			}
			opts, ok := want[sc.Name()]
			if !ok || fnPkgPath(sc) != modPath+"/profile" {
				continue
			}
			count[sc.Name()]++
			if h := b.Parent(); h != applyFocus && h.Parent() == nil {
				// applied by a helper: the helper runs as often as it is called
				if sites, asValue := directCallSites(c.P, h); asValue || len(sites) != 1 {
					count[sc.Name()] += len(sites) - 1
					if asValue {
						count[sc.Name()]++
					}
				}
			}
			for i, opt := range opts {
				key := "wiring:" + sc.Name() + ":" + opt
				if i+1 >= len(call.Call.Args) {
					c.undecided("C06-R3", key, c.P.relFile(call.Pos()), "unexpected arity")
					continue
				}
				got := optionSources(argOfParam(c.P, call.Call.Args[i+1], 0), map[ssa.Value]bool{})
				if len(got) == 1 && got[0] == opt {
					c.ok("C06-R3", key, c.P.relFile(call.Pos()), fmt.Sprintf("parameter %d of %s is compiled from option %s", i, sc.Name(), opt), "value flows from compile*(…, cfg."+opt+", …)")
				} else {
					c.bad("C06-R3", key, c.P.relFile(call.Pos()), fmt.Sprintf("parameter %d of %s should be compiled from cfg.%s but flows from %v", i, sc.Name(), opt, got))
				}
			}
		}
	}
	for name := range want {
		key := "once:" + name
		if count[name] == 1 {
			c.ok("C06-R3", key, "", name+" is applied exactly once by applyFocus", "one static call site")
		} else {
			c.bad("C06-R3", key, "", fmt.Sprintf("%s has %d call sites in applyFocus, expected exactly one", name, count[name]))
		}
	}
	c.Floor("C06-R3", 15)
}

// optionSources: the config field names whose compiled form flows into v.
func optionSources(v ssa.Value, seen map[ssa.Value]bool) []string {
	if seen[v] {
		return nil
	}
	seen[v] = true
	switch x := v.(type) {
	case *ssa.Extract:
		return optionSources(x.Tuple, seen)
	case *ssa.Phi:
		var out []string
		for _, e := range x.Edges {
			out = append(out, optionSources(e, seen)...)
		}
		return dedup(out)
	case *ssa.UnOp:
		if vals, ok := cellValues(x.X); ok {
			var out []string
			for _, e := range vals {
				out = append(out, optionSources(e, seen)...)
			}
			return dedup(out)
		}
		if fa, ok := x.X.(*ssa.FieldAddr); ok && x.Op == token.MUL {
			if al, ok := fa.X.(*ssa.Alloc); ok {
				if vals, ok := fieldValues(&ssa.UnOp{Op: token.MUL, X: al}, fa.Field, 0); ok && len(vals) > 0 {
					var out []string
					for _, e := range vals {
						out = append(out, optionSources(e, seen)...)
					}
					return dedup(out)
				}
			}
		}
	case *ssa.ChangeType:
		return optionSources(x.X, seen)
	case *ssa.Parameter:
		// handed in by the one caller of a helper
		if wiringProg != nil {
			if a := argOfParam(wiringProg, x, 0); a != ssa.Value(x) {
				return optionSources(a, seen)
			}
		}
	case *ssa.Field:
		// the compiled filters are kept in a struct (built here or by a helper)
		if vals, ok := fieldValues(x.X, x.Field, 0); ok && len(vals) > 0 {
			var out []string
			for _, e := range vals {
				out = append(out, optionSources(e, seen)...)
			}
			return dedup(out)
		}
	case *ssa.Call:
		if sc := x.Call.StaticCallee(); sc != nil && (sc.Name() == "compileRegexOption" || sc.Name() == "compileTagFilter") && len(x.Call.Args) > 1 {
			val := x.Call.Args[1]
			if wiringProg != nil {
				val = argOfParam(wiringProg, val, 0) // the option value may be a parameter of a helper
			}
			if f := configFieldOf(val); f != "" {
				return []string{f}
			}
			return []string{"?" + describeValue(x.Call.Args[1])}
		}
		// a wrapper (function or method) around the compile functions: it returns what one of
		// them produced for one of its own parameters
		if sc := x.Call.StaticCallee(); sc != nil && fnInModule(sc) && len(sc.Blocks) > 0 {
			var out []string
			okAll := true
			for _, b := range sc.Blocks {
				ret, isRet := b.Instrs[len(b.Instrs)-1].(*ssa.Return)
				if !isRet || len(ret.Results) == 0 {
					continue
				}
				if k, isConst := ret.Results[0].(*ssa.Const); isConst && k.IsNil() {
					continue // "option not set" / error path
				}
				inner := compileCallBehind(ret.Results[0], map[ssa.Value]bool{})
				if inner == nil {
					okAll = false
					continue
				}
				vi := 1 // compileRegexOption(name, value, …), compileTagFilter(name, value, …)
				if strings.HasPrefix(inner.Call.StaticCallee().String(), "regexp.") {
					vi = 0 // regexp.Compile(value)
				}
				par, isPar := inner.Call.Args[vi].(*ssa.Parameter)
				if !isPar {
					okAll = false
					continue
				}
				for i, q := range sc.Params {
					if q == par && i < len(x.Call.Args) {
						if f := configFieldOf(x.Call.Args[i]); f != "" {
							out = append(out, f)
						} else {
							out = append(out, "?"+describeValue(x.Call.Args[i]))
						}
					}
				}
			}
			if okAll && len(out) > 0 {
				return dedup(out)
			}
		}
		return []string{"?call " + x.Call.Value.Name()}
	case *ssa.Const:
		return []string{"<const>"}
	}
	return []string{"?" + describeValue(v)}
}

func dedup(s []string) []string {
	m := map[string]bool{}
	var out []string
	for _, x := range s {
		if !m[x] {
			m[x] = true
			out = append(out, x)
		}
	}
	return out
}

// configFieldOf returns the name of the driver.config field that v is read from.
func configFieldOf(v ssa.Value) string {
	switch x := v.(type) {
	case *ssa.Field:
		if T, F := fieldOf(x.X.Type(), x.Field); T == "driver.config" {
			return F
		}
	case *ssa.UnOp:
		if fa, ok := x.X.(*ssa.FieldAddr); ok && x.Op == token.MUL {
			if T, F := fieldOf(fa.X.Type(), fa.Field); T == "driver.config" {
				return F
			}
		}
	}
	return ""
}

// focusOnce (R3b): generateRawReport applies focus exactly once on every successful path:
// before report.New iff RelativePercentages.
func (c *Check) focusOnce() {
	f := c.anchorFn("C06-R3", "internal/driver", "generateRawReport")
	if f == nil {
		return
	}
	// the part of generateRawReport that builds the report may have been split out: work in
	// the function (generateRawReport or a helper it calls) that calls report.New
	isNew := func(ins ssa.Instruction) bool {
		call, ok := ins.(*ssa.Call)
		if !ok {
			return false
		}
		sc := call.Call.StaticCallee()
		return sc != nil && sc.Name() == "New" && fnPkgPath(sc) == modPath+"/internal/report"
	}
	for _, g := range withHelpers(f, 2) {
		for _, b := range g.Blocks {
			for _, ins := range b.Instrs {
				if isNew(ins) && g.Parent() == nil {
					f = g
				}
			}
		}
	}
	var focusCalls []*ssa.Call
	viaHelper := map[*ssa.Call]effSite{}
	var newCall *ssa.Call
	// applyFocus may be called directly or through a local closure / helper
	for _, es := range effectiveSites(f, func(ins ssa.Instruction) bool {
		call, ok := ins.(*ssa.Call)
		return ok && call.Call.StaticCallee() != nil && call.Call.StaticCallee().Name() == "applyFocus" && fnInModule(call.Call.StaticCallee())
	}, 2) {
		if call, ok := es.at.(*ssa.Call); ok {
			focusCalls = append(focusCalls, call)
			if es.via != nil {
				viaHelper[call] = es
			}
		}
	}
	for _, b := range f.Blocks {
		for _, ins := range b.Instrs {
			if call, ok := ins.(*ssa.Call); ok {
				if sc := call.Call.StaticCallee(); sc != nil && sc.Name() == "New" && fnPkgPath(sc) == modPath+"/internal/report" {
					newCall = call
				}
			}
		}
	}
	if len(focusCalls) == 0 || newCall == nil {
		c.undecided("C06-R3", "focus-once", "", "generateRawReport: applyFocus or report.New call not found")
		return
	}
	relVal := func(cond ssa.Value) ssa.Value { return cond }
	_ = relVal
	for _, rel := range []bool{true, false} {
		key := fmt.Sprintf("focus-once:relative=%v", rel)
		assume := func(cond ssa.Value) int {
			// the condition is (a copy of) cfg.RelativePercentages
			v := cond
			neg := 1
			if u, ok := v.(*ssa.UnOp); ok && u.Op == token.NOT {
				v, neg = u.X, -1
			}
			if isRelativeFlag(v, map[ssa.Value]bool{}) {
				if rel {
					return neg
				}
				return -neg
			}
			return 0
		}
		reach, eval := reachUnderEval(f, assume)
		var reached []*ssa.Call
		for _, fc := range focusCalls {
			if !reach[fc.Block()] {
				continue
			}
			// focus applied by a helper that is told whether to apply it: decide the helper's own
			// tests with the boolean arguments of this call evaluated under the assumption
			if es, ok := viaHelper[fc]; ok && es.via == fc.Call.StaticCallee() && len(es.via.Params) == len(fc.Call.Args) {
				known := map[ssa.Value]int{}
				for i, a := range fc.Call.Args {
					if bt, ok := a.Type().Underlying().(*types.Basic); ok && bt.Kind() == types.Bool {
						if d := eval(a); d != 0 {
							known[es.via.Params[i]] = d
						} else if d := assume(a); d != 0 {
							known[es.via.Params[i]] = d
						}
					}
				}
				hreach := reachUnder(es.via, func(cond ssa.Value) int {
					if d, ok := known[cond]; ok {
						return d
					}
					if u, ok := cond.(*ssa.UnOp); ok && u.Op == token.NOT {
						return -known[u.X]
					}
					return 0
				})
				if !hreach[es.actual.Block()] {
					continue
				}
			}
			reached = append(reached, fc)
		}
		if len(reached) != 1 {
			c.bad("C06-R3", key, c.P.relFile(f.Pos()), fmt.Sprintf("with relative_percentages=%v, %d applyFocus call sites are reachable in generateRawReport (expected exactly one)", rel, len(reached)))
			continue
		}
		fc := reached[0]
		// must-pass: removing the call block makes every successful return unreachable
		okRet := successReturnsReachableAvoiding(f, assume, fc.Block())
		before := blockReaches(fc.Block(), newCall.Block(), assume) && !blockReaches(newCall.Block(), fc.Block(), assume)
		if fc.Block() == newCall.Block() {
			before = instrIndex(fc) < instrIndex(newCall)
		}
		switch {
		case okRet:
			c.bad("C06-R3", key, c.P.relFile(fc.Pos()), fmt.Sprintf("with relative_percentages=%v a successful return of generateRawReport is reachable without applying focus", rel))
		case before != rel:
			c.bad("C06-R3", key, c.P.relFile(fc.Pos()), fmt.Sprintf("with relative_percentages=%v focus is applied on the wrong side of report.New", rel))
		default:
			c.ok("C06-R3", key, c.P.relFile(fc.Pos()), fmt.Sprintf("with relative_percentages=%v focus is applied exactly once, %s report.New", rel, map[bool]string{true: "before", false: "after"}[rel]), "single reachable call site that every successful return passes through (restricted CFG)")
		}
	}
}

func isRelativeFlag(v ssa.Value, seen map[ssa.Value]bool) bool {
	if seen[v] {
		return false
	}
	seen[v] = true
	if configFieldOf(v) == "RelativePercentages" {
		return true
	}
	switch x := v.(type) {
	case *ssa.UnOp:
		if vals, ok := cellValues(x.X); ok && len(vals) > 0 {
			for _, e := range vals {
				if !isRelativeFlag(e, seen) {
					return false
				}
			}
			return true
		}
	case *ssa.Phi:
		for _, e := range x.Edges {
			if !isRelativeFlag(e, seen) {
				return false
			}
		}
		return len(x.Edges) > 0
	}
	return false
}

func instrIndex(i ssa.Instruction) int {
	for k, x := range i.Block().Instrs {
		if x == i {
			return k
		}
	}
	return -1
}

// successReturnsReachableAvoiding: is a Return whose error result is the nil constant
// reachable (under assume) without entering block avoid?
func successReturnsReachableAvoiding(f *ssa.Function, assume func(ssa.Value) int, avoid *ssa.BasicBlock) bool {
	reach := map[*ssa.BasicBlock]bool{}
	found := false
	var walk func(b *ssa.BasicBlock)
	walk = func(b *ssa.BasicBlock) {
		if reach[b] || b == avoid {
			return
		}
		reach[b] = true
		if len(b.Instrs) > 0 {
			switch last := b.Instrs[len(b.Instrs)-1].(type) {
			case *ssa.Return:
				if n := len(last.Results); n > 0 {
					if k, ok := last.Results[n-1].(*ssa.Const); ok && k.IsNil() && types.Identical(k.Type(), types.Universe.Lookup("error").Type()) {
						found = true
					}
				}
			case *ssa.If:
				switch assume(last.Cond) {
				case 1:
					walk(b.Succs[0])
					return
				case -1:
					walk(b.Succs[1])
					return
				}
			}
		}
		for _, s := range b.Succs {
			walk(s)
		}
	}
	walk(f.Blocks[0])
	return found
}

// blockReaches: is block to reachable from block from (following assume-restricted edges)?
func blockReaches(from, to *ssa.BasicBlock, assume func(ssa.Value) int) bool {
	seen := map[*ssa.BasicBlock]bool{}
	var walk func(b *ssa.BasicBlock) bool
	walk = func(b *ssa.BasicBlock) bool {
		if b == to {
			return true
		}
		if seen[b] {
			return false
		}
		seen[b] = true
		succs := b.Succs
		if len(b.Instrs) > 0 {
			if iff, ok := b.Instrs[len(b.Instrs)-1].(*ssa.If); ok {
				switch assume(iff.Cond) {
				case 1:
					succs = b.Succs[:1]
				case -1:
					succs = b.Succs[1:]
				}
			}
		}
		for _, s := range succs {
			if walk(s) {
				return true
			}
		}
		return false
	}
	for _, s := range from.Succs {
		if walk(s) {
			return true
		}
	}
	return false
}

// branchOn: the If that branches on the boolean v: directly, or through the phi that a
// short-circuit `a && v` / `a || v` evaluated as a value produces (its other edges are
// constants).
func branchOn(v ssa.Value) *ssa.If {
	if v.Referrers() == nil {
		return nil
	}
	for _, r := range *v.Referrers() {
		switch x := r.(type) {
		case *ssa.If:
			return x
		case *ssa.Phi:
			onlyConst := true
			for _, e := range x.Edges {
				if e == v {
					continue
				}
				if _, isConst := e.(*ssa.Const); !isConst {
					onlyConst = false
				}
			}
			if onlyConst {
				if iff := branchOn(x); iff != nil {
					return iff
				}
			}
		}
	}
	return nil
}

// compileCallBehind: the compileRegexOption / compileTagFilter call whose first result v is
// (through tuple extraction, local variables and phis of one call).
func compileCallBehind(v ssa.Value, seen map[ssa.Value]bool) *ssa.Call {
	if seen[v] {
		return nil
	}
	seen[v] = true
	switch x := v.(type) {
	case *ssa.Extract:
		if x.Index != 0 {
			return nil
		}
		return compileCallBehind(x.Tuple, seen)
	case *ssa.Call:
		if sc := x.Call.StaticCallee(); sc != nil && (sc.Name() == "compileRegexOption" || sc.Name() == "compileTagFilter") && len(x.Call.Args) > 1 {
			return x
		}
		if sc := x.Call.StaticCallee(); sc != nil && (sc.String() == "regexp.Compile" || sc.String() == "regexp.MustCompile") {
			return x
		}
	case *ssa.UnOp:
		if vals, ok := cellValues(x.X); ok && len(vals) > 0 {
			var res *ssa.Call
			for _, e := range vals {
				if k, isConst := e.(*ssa.Const); isConst && k.IsNil() {
					continue // the variable's zero value before the assignment
				}
				c := compileCallBehind(e, seen)
				if c == nil || (res != nil && res != c) {
					return nil
				}
				res = c
			}
			return res
		}
	case *ssa.Phi:
		var res *ssa.Call
		for _, e := range x.Edges {
			if k, isConst := e.(*ssa.Const); isConst && k.IsNil() {
				continue
			}
			c := compileCallBehind(e, seen)
			if c == nil || (res != nil && res != c) {
				return nil
			}
			res = c
		}
		return res
	}
	return nil
}
