package main

import (
	"fmt"
	"go/token"
	"strings"

	"golang.org/x/tools/go/ssa"
)

// serializerTree: the serializers and the functions of package profile they call
// statically (closures included), to the given depth.
func (c *Check) serializerTree(rule string, depth int) []*ssa.Function {
	seen := map[*ssa.Function]bool{}
	var out []*ssa.Function
	for _, s := range c.serializers(rule) {
		for _, g := range withHelpers(s, depth) {
			if !seen[g] {
				seen[g] = true
				out = append(out, g)
			}
		}
	}
	return out
}

// internBeforeFreeze (R10): the string table is a snapshot of the intern map.  Every string
// interned after the snapshot was taken gets an index that is not in the table written with
// the profile, so the written bytes do not parse (or name another string once the table is
// re-built).  No call of the intern function may be reachable after the string table field
// was assigned.
func (c *Check) internBeforeFreeze() {
	p := c.P
	n := 0
	for _, g := range c.serializerTree("C01-R10", 4) {
		var freeze []ssa.Instruction
		var interns []*ssa.Call
		for _, b := range g.Blocks {
			for _, ins := range b.Instrs {
				switch x := ins.(type) {
				case *ssa.Store:
					if fa, ok := x.Addr.(*ssa.FieldAddr); ok {
						if T, F := fieldOf(fa.X.Type(), fa.Field); T == "profile.Profile" && F == "stringTable" {
							freeze = append(freeze, x)
						}
					}
				case *ssa.Call:
					if internStringArg(x) != nil {
						interns = append(interns, x)
					}
				}
			}
		}
		if len(freeze) == 0 {
			continue
		}
		n++
		bad := ""
		for _, fz := range freeze {
			for _, in := range interns {
				after := (in.Block() == fz.Block() && instrIndex(in) > instrIndex(fz)) || (in.Block() != fz.Block() && blockReachesPlain(fz.Block(), in.Block())) || (in.Block() == fz.Block() && cycleAvoiding(fz.Block(), nil))
				if after && bad == "" {
					bad = p.relFile(in.Pos())
				}
			}
		}
		key := "intern-before-freeze:" + fnName(g)
		if bad != "" {
			c.bad("C01-R10", key, bad, fnName(g)+" interns a string after Profile.stringTable was built from the intern map: its index is not in the table that is written, so the bytes just produced do not parse (a DefaultSampleType, comment or name used nowhere else in the profile is enough)")
		} else {
			c.ok("C01-R10", key, p.relFile(freeze[0].Pos()), fmt.Sprintf("all %d intern calls of %s precede the construction of the string table", len(interns), fnName(g)), "no call of the intern function is reachable from the store to Profile.stringTable")
		}
	}
	if n == 0 {
		c.undecided("C01-R10", "intern-before-freeze", "", "no assignment of Profile.stringTable found in the serializer's call tree")
	}
}

// repeatedMessageAlwaysFramed (R11): the message helper is used for repeated fields, where
// an element that encodes to zero bytes (a sample type with empty type and unit, a label
// with defaults) still has to appear as tag + length 0, or the list read back is shorter
// and every later column shifts.  In the function that calls a message's encode method and
// then writes its length prefix, the length prefix is written on every path that follows
// the encode call.
func (c *Check) repeatedMessageAlwaysFramed() {
	p := c.P
	n := 0
	forAllPkgFuncs(p, "profile", func(f *ssa.Function) {
		var enc, frame ssa.Instruction
		for _, b := range f.Blocks {
			for _, ins := range b.Instrs {
				call, ok := ins.(*ssa.Call)
				if !ok {
					continue
				}
				if call.Call.IsInvoke() && call.Call.Method.Name() == "encode" {
					enc = call
				}
				if sc := call.Call.StaticCallee(); sc != nil && enc != nil && frame == nil && fnPkgPath(sc) == modPath+"/profile" && len(call.Call.Args) == 3 {
					// the length prefix: (buffer, tag, length) with the tag parameter forwarded
					if _, isPar := call.Call.Args[1].(*ssa.Parameter); isPar && instrDominates(enc, call) {
						frame = call
					}
				}
			}
		}
		if enc == nil || frame == nil {
			return // the top-level message is written without a frame
		}
		n++
		key := "framed:" + fnName(f)
		skipped := false
		for _, b := range f.Blocks {
			if _, ok := b.Instrs[len(b.Instrs)-1].(*ssa.Return); !ok {
				continue
			}
			if b == frame.Block() || b == enc.Block() && frame.Block() == enc.Block() {
				continue
			}
			if enc.Block() != frame.Block() && (b == enc.Block() || blockReachesAvoid(enc.Block(), b, frame.Block())) {
				skipped = true
			}
		}
		if skipped {
			c.bad("C01-R11", key, p.relFile(frame.Pos()), fnName(f)+" can return after encoding a sub-message without writing its tag and length: an element of a repeated field that encodes to zero bytes disappears from the list (a sample type with empty type and unit: one type fewer, values shifted)")
		} else {
			c.ok("C01-R11", key, p.relFile(frame.Pos()), fnName(f)+" frames every sub-message it encodes", "no return is reachable from the encode call without passing the call that writes tag and length")
		}
	})
	if n == 0 {
		c.undecided("C01-R11", "framed", "", "no function of package profile calls a message's encode method through the interface and then writes its tag and length")
	}
}

// serializerMapOrder (R12): the bytes written for a profile do not depend on map iteration
// order.  The map-range classifier of C08-R2 is applied to the serializer's call tree; every
// range over a map there must have order-insensitive effects or sort what it collected
// before use.
func (c *Check) serializerMapOrder() {
	p := c.P
	tree := c.serializerTree("C01-R12", 4)
	inTree := func(pos token.Pos) bool {
		for _, g := range tree {
			if syn := g.Syntax(); syn != nil && syn.Pos() <= pos && pos <= syn.End() {
				return true
			}
		}
		return false
	}
	before := len(c.Obls)
	nf := len(c.floors)
	c.mapRules()
	c.floors = c.floors[:nf]
	delete(c.Extra, "map_range_sites")
	kept := c.Obls[:before]
	n := 0
	sitePos := map[string]token.Pos{}
	for _, s := range collectMapSites(p) {
		sitePos[s.key()] = s.rng.Pos()
	}
	for _, o := range c.Obls[before:] {
		pos, ok := sitePos[o.Key]
		if !ok || !inTree(pos) {
			continue
		}
		o.Rule = strings.Replace(o.Rule, "C08-R2", "C01-R12", 1)
		kept = append(kept, o)
		n++
	}
	c.Obls = kept
	if n == 0 {
		// for _, k := range slices.Sorted(maps.Keys(m)): the keys are taken in sorted order and
		// there is no range over the map itself
		for _, g := range tree {
			for _, b := range g.Blocks {
				for _, ins := range b.Instrs {
					call, ok := ins.(*ssa.Call)
					if !ok || call.Call.StaticCallee() == nil || fnPkgPath(call.Call.StaticCallee()) != "slices" || !strings.HasPrefix(call.Call.StaticCallee().Name(), "Sorted") || len(call.Call.Args) == 0 {
						continue
					}
					if in, ok := call.Call.Args[0].(*ssa.Call); ok && in.Call.StaticCallee() != nil && fnPkgPath(in.Call.StaticCallee()) == "maps" && strings.HasPrefix(in.Call.StaticCallee().Name(), "Keys") {
						n++
						c.ok("C01-R12", fmt.Sprintf("map-order:sorted-keys:%s#%d", fnName(g), n), p.relFile(call.Pos()), "the keys of a map are taken in sorted order in "+fnName(g), "slices.Sorted(maps.Keys(m)): no iteration in map order")
					}
				}
			}
		}
	}
	if n == 0 {
		c.undecided("C01-R12", "map-order", "", "no range over a map found in the serializer's call tree (label keys are collected from maps)")
	}
}
