package main

import (
	"fmt"
	"go/token"
	"go/types"

	"golang.org/x/tools/go/ssa"
)

// iterationSkipsAll: like iterationSkips with several blocks any one of which satisfies the
// iteration.
func iterationSkipsAll(hdr *ssa.BasicBlock, musts map[*ssa.BasicBlock]bool, assume func(ssa.Value) int) bool {
	loop := naturalLoop(hdr)
	skipped := false
	seen := map[*ssa.BasicBlock]bool{}
	var walk func(b *ssa.BasicBlock)
	walk = func(b *ssa.BasicBlock) {
		if musts[b] || seen[b] || skipped {
			return
		}
		if b == hdr {
			skipped = true
			return
		}
		if !loop[b] {
			return
		}
		seen[b] = true
		succs := b.Succs
		if iff, ok := b.Instrs[len(b.Instrs)-1].(*ssa.If); ok {
			switch assume(iff.Cond) {
			case 1:
				succs = b.Succs[:1]
			case -1:
				succs = b.Succs[1:]
			}
		}
		for _, sc := range succs {
			walk(sc)
		}
	}
	for _, sc := range hdr.Succs {
		if loop[sc] && sc != hdr {
			walk(sc)
		}
	}
	return skipped
}

// factorListFilledPerColumn (C15-R10, C07-R11): harmonising units preserves each profile's
// physical totals only if every column of every profile gets its own factor.  In
// ScaleProfiles each iteration of the loop over a profile's sample types stores into the
// corresponding slot of the list that is handed to ScaleN: a slot that is skipped keeps what
// an earlier profile (or the allocator) left there.
func (c *Check) factorListFilledPerColumn(rule string) {
	p := c.P
	sp := c.anchorFn(rule, "internal/measurement", "ScaleProfiles")
	if sp == nil {
		return
	}
	n := 0
	for _, g := range withHelpers(sp, 2) {
		for _, b := range g.Blocks {
			for _, ins := range b.Instrs {
				call, ok := ins.(*ssa.Call)
				if !ok || call.Call.StaticCallee() == nil || call.Call.StaticCallee().Name() != "ScaleN" || len(call.Call.Args) != 2 {
					continue
				}
				list := call.Call.Args[1]
				// the stores into elements of the list, grouped by their innermost loop
				byLoop := map[*ssa.BasicBlock]map[*ssa.BasicBlock]bool{}
				var anyStore *ssa.Store
				for _, b2 := range g.Blocks {
					for _, i2 := range b2.Instrs {
						st, ok := i2.(*ssa.Store)
						if !ok {
							continue
						}
						ia, ok := st.Addr.(*ssa.IndexAddr)
						if !ok || !(ia.X == list || sameCellOrValue(ia.X, list)) {
							continue
						}
						if _, isConst := ia.Index.(*ssa.Const); isConst {
							continue
						}
						h := loopHeaderAround(b2)
						if h == nil {
							continue
						}
						if byLoop[h] == nil {
							byLoop[h] = map[*ssa.BasicBlock]bool{}
						}
						byLoop[h][b2] = true
						anyStore = st
					}
				}
				// … or grown by one append per column
				var anyApp *ssa.Call
				for _, hs := range harvestSites(g) {
					if app, isCall := hs.ins.(*ssa.Call); isCall && (ssa.Value(app) == list || phiReaches(list, app, map[ssa.Value]bool{})) {
						if h := loopHeaderAround(app.Block()); h != nil {
							if byLoop[h] == nil {
								byLoop[h] = map[*ssa.BasicBlock]bool{}
							}
							byLoop[h][app.Block()] = true
							anyApp = app
						}
					}
				}
				if anyStore == nil && anyApp == nil {
					continue
				}
				var anyPos token.Pos
				if anyStore != nil {
					anyPos = anyStore.Pos()
				} else {
					anyPos = anyApp.Pos()
				}
				n++
				key := "factor-per-column:" + fnName(g)
				// the column loop: nested in the loop around the ScaleN call (the loop over the
				// profiles) when there is one, else the only loop with stores
				outer := loopHeaderAround(b)
				var hdr *ssa.BasicBlock
				for h := range byLoop {
					if outer != nil && (h == outer || !naturalLoop(outer)[h]) {
						continue
					}
					if hdr == nil || len(naturalLoop(h)) < len(naturalLoop(hdr)) {
						hdr = h
					}
				}
				if hdr == nil {
					c.bad(rule, key, p.relFile(anyPos), fnName(g)+" fills the factor list outside the loop over the profiles: the list handed to ScaleN is not computed per profile")
					continue
				}
				inLoop := byLoop[hdr]
				if iterationSkipsAll(hdr, inLoop, func(ssa.Value) int { return 0 }) {
					c.bad(rule, key, p.relFile(anyPos), fnName(g)+" can finish a column without storing its factor in the list handed to ScaleN: the slot keeps the factor computed for an earlier profile (or zero), so a profile that needed no conversion is scaled by another profile's ratio")
				} else {
					c.ok(rule, key, p.relFile(anyPos), "every column's factor slot is assigned in every iteration", "no path through an iteration of the column loop avoids the stores into the list handed to ScaleN")
				}
			}
		}
	}
	if n == 0 {
		c.undecided(rule, "factor-per-column", p.relFile(sp.Pos()), "no ScaleN call with a list filled by indexed stores found in ScaleProfiles")
	}
}

// labelWithoutIntegerDetour (R11): a label is produced from the scaled floating-point value
// directly.  ScaledLabel and the functions it is built from never convert a float to an
// integer type: for magnitudes of 2^63 and above that conversion does not saturate, and
// every such label would read the same.
func (c *Check) labelWithoutIntegerDetour() {
	p := c.P
	f := c.anchorFn("C15-R11", "internal/measurement", "ScaledLabel")
	if f == nil {
		return
	}
	bad := ""
	n := 0
	for _, g := range withHelpers(f, 2) {
		if g != f && g.Name() == "Scale" {
			continue // the conversion engine itself is covered by R3/R6
		}
		n++
		for _, b := range g.Blocks {
			for _, ins := range b.Instrs {
				cv, ok := ins.(*ssa.Convert)
				if !ok {
					continue
				}
				from, ok1 := cv.X.Type().Underlying().(*types.Basic)
				to, ok2 := cv.Type().Underlying().(*types.Basic)
				if ok1 && ok2 && from.Info()&types.IsFloat != 0 && to.Info()&types.IsInteger != 0 {
					bad = p.relFile(cv.Pos())
				}
			}
		}
	}
	if bad != "" {
		c.bad("C15-R11", "label-float", bad, "ScaledLabel converts the scaled value to an integer type on its way to the label: from 2^63 upwards the conversion yields the same number for every value (and for its negation), so labels stop being monotone and do not read back within rounding")
	} else {
		c.ok("C15-R11", "label-float", p.relFile(f.Pos()), "labels are formatted from the floating-point value", fmt.Sprintf("no float-to-integer conversion in ScaledLabel and its %d helper(s)", n-1))
	}
}

// outputUnitFromDisplayedValues (R12): the automatic output unit is chosen from the values as
// they will be displayed.  In selectOutputUnit the values handed to measurement.Scale are
// treated alike: if one of them went through the divide_by ratio, all of them did.
func (c *Check) outputUnitFromDisplayedValues() {
	p := c.P
	f := c.anchorFn("C15-R12", "internal/report", "(*Report).selectOutputUnit")
	scale := p.Func("internal/measurement", "Scale")
	if f == nil || scale == nil {
		return
	}
	readsRatio := func(g *ssa.Function) bool {
		for _, b := range g.Blocks {
			for _, ins := range b.Instrs {
				if fa, ok := ins.(*ssa.FieldAddr); ok {
					if T, F := fieldOf(fa.X.Type(), fa.Field); T == "report.Options" && F == "Ratio" {
						return true
					}
				}
			}
		}
		return false
	}
	var dep func(v ssa.Value, seen map[ssa.Value]bool, d int) bool
	dep = func(v ssa.Value, seen map[ssa.Value]bool, d int) bool {
		if seen[v] || d > 8 {
			return false
		}
		seen[v] = true
		switch x := v.(type) {
		case *ssa.BinOp:
			return dep(x.X, seen, d+1) || dep(x.Y, seen, d+1)
		case *ssa.Convert:
			return dep(x.X, seen, d+1)
		case *ssa.Phi:
			for _, e := range x.Edges {
				if dep(e, seen, d+1) {
					return true
				}
			}
		case *ssa.UnOp:
			if x.Op == token.MUL {
				if fa, ok := x.X.(*ssa.FieldAddr); ok {
					if T, F := fieldOf(fa.X.Type(), fa.Field); T == "report.Options" && F == "Ratio" {
						return true
					}
				}
				return false
			}
			return dep(x.X, seen, d+1)
		case *ssa.Call:
			if h := helperCallee(x.Parent(), x); h != nil && readsRatio(h) {
				return true
			}
			for _, a := range x.Call.Args {
				if dep(a, seen, d+1) {
					return true
				}
			}
		case *ssa.Parameter:
			// a value handed to a helper of selectOutputUnit: what the callers pass
			g := x.Parent()
			if g == f {
				return false
			}
			idx := -1
			for k, q := range g.Params {
				if q == x {
					idx = k
				}
			}
			for _, g2 := range withHelpers(f, 2) {
				for _, b2 := range g2.Blocks {
					for _, i2 := range b2.Instrs {
						c2, ok := i2.(*ssa.Call)
						if ok && helperCallee(g2, c2) == g && idx >= 0 && idx < len(c2.Call.Args) && dep(c2.Call.Args[idx], seen, d+1) {
							return true
						}
					}
				}
			}
		}
		return false
	}
	var with, without []*ssa.Call
	classify := func(at *ssa.Call, v ssa.Value) {
		if dep(v, map[ssa.Value]bool{}, 0) {
			with = append(with, at)
		} else {
			without = append(without, at)
		}
	}
	tree := withHelpers(f, 2)
	for _, g := range tree {
		for _, b := range g.Blocks {
			for _, ins := range b.Instrs {
				call, ok := ins.(*ssa.Call)
				if !ok || call.Call.StaticCallee() != scale || len(call.Call.Args) != 3 {
					continue
				}
				// a look-up wrapped in a helper that receives the value: one look-up per call of the helper
				if par, isPar := call.Call.Args[0].(*ssa.Parameter); isPar && g != f {
					idx := -1
					for k, q := range g.Params {
						if q == par {
							idx = k
						}
					}
					for _, g2 := range tree {
						for _, b2 := range g2.Blocks {
							for _, i2 := range b2.Instrs {
								c2, ok := i2.(*ssa.Call)
								if ok && helperCallee(g2, c2) == g && idx >= 0 && idx < len(c2.Call.Args) {
									classify(c2, c2.Call.Args[idx])
								}
							}
						}
					}
					continue
				}
				classify(call, call.Call.Args[0])
			}
		}
	}
	switch {
	case len(with)+len(without) < 2:
		c.undecided("C15-R12", "displayed-values", p.relFile(f.Pos()), "fewer than two measurement.Scale calls found in selectOutputUnit")
	case len(with) > 0 && len(without) > 0:
		c.bad("C15-R12", "displayed-values", p.relFile(without[0].Pos()), fmt.Sprintf("selectOutputUnit looks up a unit for a value that did not go through the divide_by ratio while %d other look-up(s) use the displayed values: with unit=minimum and divide_by the unit is chosen for a magnitude that is never printed, and small entries print as 0", len(with)))
	default:
		c.ok("C15-R12", "displayed-values", p.relFile(f.Pos()), "all unit look-ups of selectOutputUnit use values treated alike with respect to divide_by", fmt.Sprintf("%d look-up(s) depend on Options.Ratio, %d do not", len(with), len(without)))
	}
}
