package main

import (
	"fmt"
	"go/token"
	"go/types"
	"sort"
	"strings"

	"golang.org/x/tools/go/ssa"
)

func init() { register("C03", true, runC03) }

func runC03(c *Check) {
	c.Explanation = "Decides three necessary conditions of C03 for every list of input profiles: each identity key (function, location incl. every inlined line, mapping, sample) reads every attribute that the corresponding constructor copies into the merged object, apart from the documented exceptions (ids, normalised mapping addresses, symbol flags, summed values) (R1); keys assembled by indexed stores use disjoint slots — the index expressions a·i+b of one loop use one stride a with distinct offsets 0 <= b < a — so no attribute is overwritten by another (R2); the result never aliases an input: no pointer, slice or map read out of an input profile is stored into the merged profile or copied element-wise into it (R3), and no store in the Merge call tree goes through an input object (R4); the per-input id translation tables are re-created inside the loop over inputs before any entity of that input is mapped (R5). Also: per-input id tables are re-created in the loop (R5), every successful return follows the zero-sample scan (R6), the merged time ignores inputs without one (R7), the merged sample list only grows by append so no entity is left behind by a later removal (R8), Mapping.key uses the file name only when the build id is empty (R9). Also: a by-value entry recorded in a memo table is the finished entry that is handed out (R10). Round-I additions: the set that de-duplicates the merged comment list lives across the loop over the inputs; Merge pins a mapping ahead of the samples only while the result has none. Round L: the sample key is self-delimiting — every variable-length list inside an entry and every section but the last has its length written ahead of it or a constant delimiter after it (R13). Not decided: value sums, order independence, idempotence of Compact, header arithmetic."
	p := c.P
	tree := map[string]*ssa.Function{}
	for _, n := range []string{"Merge", "combineHeaders", "(*profileMerger).mapSample", "(*profileMerger).sampleKey", "(*profileMerger).mapLocation", "(*profileMerger).mapMapping", "(*profileMerger).mapFunction", "(*Location).key", "(*Mapping).key", "(*Function).key"} {
		if f := c.anchorFn("C03-R1", "profile", n); f != nil {
			tree[n] = f
		}
	}
	if len(tree) < 10 {
		return
	}
	// the per-line copy may be a helper of its own or part of mapLocation
	if f := p.Func("profile", "(*profileMerger).mapLine"); f != nil {
		tree["(*profileMerger).mapLine"] = f
	} else {
		tree["(*profileMerger).mapLine"] = tree["(*profileMerger).mapLocation"]
	}

	// ---- R1 key completeness
	type ent struct {
		name, ctor, key string
		srcParam        int
		except          map[string]string
	}
	for _, e := range []ent{
		{"Function", "(*profileMerger).mapFunction", "(*Function).key", 1, map[string]string{"ID": "reassigned in the merged profile"}},
		{"Mapping", "(*profileMerger).mapMapping", "(*Mapping).key", 1, map[string]string{
			"ID": "reassigned in the merged profile", "HasFunctions": "symbolization status, not identity (first mapping wins)", "HasFilenames": "symbolization status, not identity",
			"HasLineNumbers": "symbolization status, not identity", "HasInlineFrames": "symbolization status, not identity",
			"KernelRelocationSymbol": "derived from File, which is in the key when there is no build id"}},
		{"Location", "(*profileMerger).mapLocation", "(*Location).key", 1, map[string]string{"ID": "reassigned in the merged profile"}},
		{"Line", "(*profileMerger).mapLine", "(*Location).key", 1, nil},
		{"Sample", "(*profileMerger).mapSample", "(*profileMerger).sampleKey", 1, map[string]string{"Value": "values are summed, not part of identity"}},
	} {
		ctor, key := tree[e.ctor], tree[e.key]
		copied := fieldsReadOf(ctor, "profile."+e.name)
		keyed := fieldsReadOf(key, "profile."+e.name)
		if e.name == "Line" {
			// mapLine takes the Line by value
			copied = fieldsReadOf(ctor, "profile.Line")
		}
		if len(copied) == 0 {
			c.undecided("C03-R1", "key:"+e.name, p.relFile(ctor.Pos()), "no attribute reads found in "+e.ctor)
			continue
		}
		for _, f := range sortedBoolKeys(copied) {
			k := "key:" + e.name + "." + f
			switch {
			case keyed[f]:
				c.ok("C03-R1", k, p.relFile(key.Pos()), e.name+"."+f+" is part of the identity key", "copied by "+e.ctor+" and read by "+e.key)
			case e.except[f] != "":
				o := c.ok("C03-R1", k, p.relFile(key.Pos()), e.name+"."+f+" is not part of identity", e.except[f])
				o.Trivial = true
			default:
				c.bad("C03-R1", k, p.relFile(key.Pos()), fmt.Sprintf("%s copies %s.%s into the merged object but %s does not read it: two entities that differ only in %s are merged into one", e.ctor, e.name, f, e.key, f))
			}
		}
	}
	c.Floor("C03-R1", 20)
	c.enumeratedMaps(tree["(*profileMerger).mapSample"], tree["(*profileMerger).sampleKey"])

	// ---- R2 slot disjointness
	for _, n := range []string{"(*Location).key", "(*Mapping).key", "(*Function).key", "(*profileMerger).sampleKey"} {
		c.slotDisjoint(tree[n])
		c.numericTokensSeparated(tree[n])
	}
	c.c03ListsLengthPrefixed(tree["(*profileMerger).sampleKey"], tree)

	// ---- R3 / R4 aliasing and input modification
	isSourceParam := func(pr *ssa.Parameter) bool {
		t := typeShort(pr.Type())
		if strings.Contains(t, "profileMerger") {
			return false
		}
		return strings.Contains(t, "profile.Profile") || strings.Contains(t, "profile.Sample") || strings.Contains(t, "profile.Location") || strings.Contains(t, "profile.Mapping") || strings.Contains(t, "profile.Function") || strings.Contains(t, "profile.Line")
	}
	var names []string
	for n := range tree {
		names = append(names, n)
	}
	sort.Strings(names)
	m := newModAnalyzer(p)
	for _, n := range names {
		f := tree[n]
		if strings.HasSuffix(n, ".key") {
			continue // key methods run on merged objects
		}
		nAlias := 0
		forEachFuncAndAnon(f, func(g *ssa.Function) {
			for _, b := range g.Blocks {
				for _, ins := range b.Instrs {
					switch x := ins.(type) {
					case *ssa.Store:
						if !isRefType(x.Val.Type()) {
							continue
						}
						if src := sourceDerived(x.Val, isSourceParam, map[ssa.Value]bool{}); src != "" {
							// storing into a local variable is not publication
							if rk, _ := rootOf(x.Addr, 0, map[ssa.Value]bool{}); rk == rFresh {
								if _, isAlloc := x.Addr.(*ssa.Alloc); isAlloc {
									continue
								}
							}
							nAlias++
							c.bad("C03-R3", fmt.Sprintf("alias:%s:%s", fnName(g), describeValue(x.Val)), p.relFile(x.Pos()), fmt.Sprintf("%s stores %s, a %s taken from input %s, into the result: the merged profile shares it with the input", fnName(g), describeValue(x.Val), typeShort(x.Val.Type()), src))
						}
					case *ssa.MapUpdate:
						if isRefType(x.Value.Type()) {
							if src := sourceDerived(x.Value, isSourceParam, map[ssa.Value]bool{}); src != "" {
								nAlias++
								c.bad("C03-R3", fmt.Sprintf("alias:%s:%s", fnName(g), describeValue(x.Value)), p.relFile(x.Pos()), fmt.Sprintf("%s stores a %s taken from input %s into a table of the merged profile", fnName(g), typeShort(x.Value.Type()), src))
							}
						}
					case *ssa.Call:
						bi, ok := x.Call.Value.(*ssa.Builtin)
						if !ok {
							continue
						}
						if bi.Name() == "copy" || bi.Name() == "append" {
							srcArg := x.Call.Args[1]
							et := elemTypeOf(srcArg.Type())
							if et == nil || !isRefType(et) {
								continue
							}
							if src := sourceDerived(srcArg, isSourceParam, map[ssa.Value]bool{}); src != "" {
								nAlias++
								c.bad("C03-R3", fmt.Sprintf("alias:%s:%s(%s)", fnName(g), bi.Name(), describeValue(srcArg)), p.relFile(x.Pos()), fmt.Sprintf("%s copies the %s elements of input %s into the result with %s: the merged profile shares those objects with the input", fnName(g), typeShort(et), src, bi.Name()))
							}
						}
					}
				}
			}
			// R4: effects rooted at a source parameter
			for _, e := range m.direct(g) {
				if e.Root != rParam || e.RootI >= len(g.Params) || !isSourceParam(g.Params[e.RootI]) {
					continue
				}
				c.bad("C03-R4", fmt.Sprintf("modify:%s:%s", fnName(g), e.Target()), p.relFile(e.Pos), fmt.Sprintf("%s writes %s (%s) through its input parameter %s: Merge modifies an input profile", fnName(g), e.Target(), e.What, g.Params[e.RootI].Name()))
			}
		})
		if nAlias == 0 {
			c.ok("C03-R3", "alias:"+n, p.relFile(f.Pos()), n+" stores no pointer, slice or map taken from an input into the result", "every reference-typed value stored or copied is freshly allocated, a merged object returned by a map* function, or comes from the merger's own tables")
		}
	}
	hasR4 := false
	for _, o := range c.Obls {
		if o.Rule == "C03-R4" {
			hasR4 = true
		}
	}
	if !hasR4 {
		c.ok("C03-R4", "modify:none", "", "no store in the Merge call tree goes through an input object", fmt.Sprintf("%d functions scanned; values are accumulated only into samples taken from the merger's own table", len(names)))
	}

	// ---- R10 memo tables hold the value that is handed out
	// A map* function that records a by-value entry (a struct, not a pointer) in one of the
	// merger's tables and goes on using it must record the finished entry: a field assigned
	// after the table was updated exists only in the local copy, so the first caller and every
	// later caller (served from the table) get different translations of the same input object.
	{
		nMemo := 0
		for _, n := range names {
			if strings.HasSuffix(n, ".key") {
				continue
			}
			forEachFuncAndAnon(tree[n], func(g *ssa.Function) {
				for _, b := range g.Blocks {
					for _, ins := range b.Instrs {
						mu, ok := ins.(*ssa.MapUpdate)
						if !ok {
							continue
						}
						if _, isStruct := mu.Value.Type().Underlying().(*types.Struct); !isStruct {
							continue
						}
						if base, _ := addrBase(mu.Map); base == nil || !strings.Contains(typeShort(base.Type()), "profileMerger") {
							continue
						}
						nMemo++
						key := fmt.Sprintf("memo:%s:%s#%d", fnName(g), describeValue(mu.Map), nMemo)
						var cell *ssa.Alloc
						if ld, ok := mu.Value.(*ssa.UnOp); ok && ld.Op == token.MUL {
							cell, _ = ld.X.(*ssa.Alloc)
						}
						var late ssa.Instruction
						if cell != nil {
							for _, b2 := range g.Blocks {
								for _, i2 := range b2.Instrs {
									st, ok := i2.(*ssa.Store)
									if !ok {
										continue
									}
									if ab, loads := addrBase(st.Addr); ab != ssa.Value(cell) || loads != 0 {
										continue
									}
									after := (b2 == b && instrIndex(st) > instrIndex(mu)) || (b2 != b && blockReachesPlain(b, b2)) || (b2 == b && cycleAvoiding(b, nil))
									if after && late == nil {
										late = st
									}
								}
							}
						}
						// the value returned on the paths that pass the update
						mismatch := ""
						if res := g.Signature.Results(); late == nil && res.Len() >= 1 && types.Identical(res.At(0).Type(), mu.Value.Type()) {
							for _, b2 := range g.Blocks {
								ret, ok := b2.Instrs[len(b2.Instrs)-1].(*ssa.Return)
								if !ok || !(b2 == b || blockReachesPlain(b, b2)) {
									continue
								}
								r := ret.Results[0]
								if r == mu.Value {
									continue
								}
								if ph, ok := r.(*ssa.Phi); ok {
									same := true
									for k, e := range ph.Edges {
										pred := ph.Block().Preds[k]
										if (pred == b || blockReachesPlain(b, pred)) && e != mu.Value {
											same = false
										}
									}
									if same {
										continue
									}
								}
								if rl, ok := r.(*ssa.UnOp); ok && rl.Op == token.MUL && cell != nil && rl.X == ssa.Value(cell) {
									continue // same variable, no store in between (checked above)
								}
								mismatch = p.relFile(ret.Pos())
							}
						}
						switch {
						case late != nil:
							c.bad("C03-R10", key, p.relFile(late.Pos()), fmt.Sprintf("%s records a %s in %s and assigns to the local copy afterwards: the recorded entry lacks the later assignment, so objects translated through the table and the one translated first disagree", fnName(g), typeShort(mu.Value.Type()), describeValue(mu.Map)))
						case mismatch != "":
							c.bad("C03-R10", key, mismatch, fmt.Sprintf("%s records one %s in %s and returns another", fnName(g), typeShort(mu.Value.Type()), describeValue(mu.Map)))
						default:
							c.ok("C03-R10", key, p.relFile(mu.Pos()), fnName(g)+" records in "+describeValue(mu.Map)+" the entry it hands out", "no store into the recorded variable is reachable after the table update; the value returned on the paths through the update is the recorded one")
						}
					}
				}
			})
		}
		if nMemo == 0 {
			c.ok("C03-R10", "memo:none", "", "no by-value entries are recorded in the merger's tables", "nothing to compare")
		}
	}

	// ---- R6 zero-sample scan before every successful return of Merge
	{
		mg := tree["Merge"]
		var scan ssa.Instruction
		viaHelper := false
		for _, es := range effectiveSites(mg, func(ins ssa.Instruction) bool {
			call, ok := ins.(*ssa.Call)
			return ok && calleeNamed(ins, "isZeroSample") && loopDepth(call.Block()) > 0
		}, 2) {
			if es.via == nil {
				// the scan over the merged profile's samples: its argument is an element of p.Sample
				if src := sourceDerived(es.actual.(*ssa.Call).Call.Args[0], isSourceParam, map[ssa.Value]bool{}); src == "" {
					scan = es.at
				}
			} else if call, ok := es.at.(*ssa.Call); ok {
				// a helper that scans the profile it is given: it must be given the merged profile
				fromInput := false
				for _, a := range call.Call.Args {
					if sourceDerived(a, isSourceParam, map[ssa.Value]bool{}) != "" {
						fromInput = true
					}
				}
				if !fromInput {
					scan, viaHelper = es.at, true
				}
			}
		}
		if scan == nil {
			// the scan written as a library search: slices.ContainsFunc(p.Sample, isZeroSample)
			zs := p.Func("profile", "isZeroSample")
			for _, es := range effectiveSites(mg, func(ins ssa.Instruction) bool {
				call, ok := ins.(*ssa.Call)
				if !ok || call.Call.StaticCallee() == nil || fnPkgPath(call.Call.StaticCallee()) != "slices" || len(call.Call.Args) != 2 {
					return false
				}
				fns, _ := p.MG().funcValues(call.Call.Args[1], map[ssa.Value]bool{})
				for _, fv := range fns {
					if fv == zs && zs != nil {
						return true
					}
				}
				return false
			}, 2) {
				if sourceDerived(es.actual.(*ssa.Call).Call.Args[0], isSourceParam, map[ssa.Value]bool{}) == "" {
					scan, viaHelper = es.at, true
				}
			}
		}
		if scan == nil {
			c.bad("C03-R6", "zero-scan", p.relFile(mg.Pos()), "Merge no longer scans the merged samples for all-zero values: stacks whose sum is zero stay in the result")
		} else {
			ok := true
			n := 0
			for _, b := range mg.Blocks {
				ret, isRet := b.Instrs[len(b.Instrs)-1].(*ssa.Return)
				if !isRet {
					continue
				}
				if k, isConst := ret.Results[0].(*ssa.Const); isConst && k.IsNil() {
					continue
				}
				if ex, isExtract := ret.Results[0].(*ssa.Extract); isExtract {
					if call, isCall := ex.Tuple.(*ssa.Call); isCall && call.Call.StaticCallee() == mg {
						continue // the re-merge: return Merge([]*Profile{p})
					}
				}
				n++
				// the header of the scan loop dominates the return (the loop ran to completion);
				// when the scan lives in a helper, the call of the helper does
				var hdr *ssa.BasicBlock
				if viaHelper {
					hdr = scan.Block()
				}
				for d := scan.Block(); d != nil && hdr == nil; d = d.Idom() {
					for _, pred := range d.Preds {
						if d.Dominates(pred) && (pred == scan.Block() || blockReachesPlain(scan.Block(), pred)) {
							hdr = d // target of a back edge from inside the scan loop
						}
					}
				}
				if hdr == nil || !hdr.Dominates(b) {
					ok = false
				}
			}
			if ok && n > 0 {
				c.ok("C03-R6", "zero-scan", p.relFile(scan.Pos()), "every successful return of Merge follows the scan for all-zero samples", "the scan loop dominates the return of the merged profile")
			} else {
				c.bad("C03-R6", "zero-scan", p.relFile(scan.Pos()), "Merge can return the merged profile without scanning it for all-zero samples: a stack whose values cancel stays in the result, and compacting twice differs from compacting once")
			}
		}
	}
	// ---- R2b: tokens appended to a key inside a loop are appended unconditionally
	for _, n := range []string{"(*Location).key", "(*Mapping).key", "(*Function).key", "(*profileMerger).sampleKey"} {
		f := tree[n]
		for _, b := range f.Blocks {
			for _, ins := range b.Instrs {
				call, ok := ins.(*ssa.Call)
				if !ok {
					continue
				}
				bi, ok := call.Call.Value.(*ssa.Builtin)
				if !ok || bi.Name() != "append" || loopDepth(b) == 0 {
					continue
				}
				// conditional on a value test other than a nil test → variable-width encoding
				cond := valueConditional(b)
				key := fmt.Sprintf("fixedwidth:%s@%d", n, len(c.Obls))
				if cond == "" {
					c.ok("C03-R2", key, p.relFile(call.Pos()), "key token appended in "+n, "not conditional on an attribute's value")
				} else {
					c.bad("C03-R2", key, p.relFile(call.Pos()), "a key token of "+n+" is appended only when "+cond+": the key of an element has a variable number of tokens and two different entities can produce the same token sequence")
				}
			}
		}
	}

	// ---- R7 header combination: the earliest collection time ignores inputs without one
	{
		ch := tree["combineHeaders"]
		// the running minimum is updated from s.TimeNanos; that update must be unreachable
		// when s.TimeNanos is 0 ("earliest non-zero one")
		var upd *ssa.BasicBlock
		// a TimeNanos read from one of the inputs (not from the profile being built)
		fromInput := func(v ssa.Value) bool {
			if !isFieldLoad(v, "profile.Profile", "TimeNanos") {
				return false
			}
			ld, ok := v.(*ssa.UnOp)
			if !ok {
				return false
			}
			rk, _ := rootOf(ld.X, 0, map[ssa.Value]bool{})
			return rk == rParam
		}
		for _, b := range helperBlocks(ch, 2) {
			for _, ins := range b.Instrs {
				switch x := ins.(type) {
				case *ssa.Phi:
					// accumulated in a local variable
					for _, e := range x.Edges {
						if fromInput(e) {
							upd = e.(*ssa.UnOp).Block()
						}
					}
				case *ssa.Store:
					// accumulated in the result's own field (or a variable cell)
					if fromInput(x.Val) {
						if rk, _ := rootOf(x.Addr, 0, map[ssa.Value]bool{}); rk == rFresh || rk == rFreshHeap {
							upd = x.Block()
						}
					}
				}
			}
		}
		if upd == nil {
			c.undecided("C03-R7", "timenanos", p.relFile(ch.Pos()), "the update of the merged TimeNanos was not found in combineHeaders")
		} else {
			reach := reachUnder(upd.Parent(), func(cond ssa.Value) int {
				cmp, ok := cond.(*ssa.BinOp)
				if !ok {
					return 0
				}
				// assume s.TimeNanos == 0
				if fromInput(cmp.X) {
					if k, isK := constInt(cmp.Y); isK && k == 0 {
						switch cmp.Op {
						case token.EQL:
							return 1
						case token.NEQ, token.GTR:
							return -1
						}
					}
				}
				return 0
			})
			if reach[upd] {
				c.bad("C03-R7", "timenanos", p.relFile(ch.Pos()), "combineHeaders can take TimeNanos from an input whose TimeNanos is 0: a later input without a collection time overwrites the earliest non-zero one (inputs [5, 0] give 0)")
			} else {
				c.ok("C03-R7", "timenanos", p.relFile(ch.Pos()), "the merged collection time ignores inputs without one", "the update from s.TimeNanos is unreachable when s.TimeNanos == 0")
			}
		}
	}

	// ---- R5 memo reset per source
	c.perInputTables("C03-R5", tree["Merge"])
	c.dedupSetOutlivesList()
	c.mainBinaryPinnedOnce()

	// ---- R8 the merged sample list only grows.  Locations, functions and mappings enter the
	// result when a sample that uses them is mapped; a sample removed from the list afterwards
	// would leave them behind ("nothing else is added").  Zero stacks are therefore dropped
	// by re-merging (R6), and every assignment of Profile.Sample in the merge tree appends to
	// the previous value of the same field.
	{
		n := 0
		var fns []*ssa.Function
		for _, f := range tree {
			fns = append(fns, f)
		}
		sortFns(fns)
		for _, f := range fns {
			for _, b := range f.Blocks {
				for _, ins := range b.Instrs {
					st, ok := ins.(*ssa.Store)
					if !ok {
						continue
					}
					fa, ok := st.Addr.(*ssa.FieldAddr)
					if !ok {
						continue
					}
					if T, F := fieldOf(fa.X.Type(), fa.Field); T != "profile.Profile" || F != "Sample" {
						continue
					}
					if _, fresh := fa.X.(*ssa.Alloc); fresh {
						continue // initialising a new profile
					}
					n++
					key := "append-only:" + fnName(f)
					okApp := false
					if call, ok := st.Val.(*ssa.Call); ok {
						if bi, ok := call.Call.Value.(*ssa.Builtin); ok && bi.Name() == "append" {
							if ld, ok := call.Call.Args[0].(*ssa.UnOp); ok && ld.Op == token.MUL {
								if fa2, ok := ld.X.(*ssa.FieldAddr); ok && fa2.Field == fa.Field && sameNode(fa2.X, fa.X) {
									okApp = true
								}
							}
						}
					}
					if okApp {
						c.ok("C03-R8", key, p.relFile(st.Pos()), "the merged sample list grows by appending in "+fnName(f), "Profile.Sample = append(Profile.Sample, …) on the same profile")
					} else {
						c.bad("C03-R8", key, p.relFile(st.Pos()), fnName(f)+" re-assigns the merged profile's sample list with something other than an append to it: samples dropped after their locations, functions and mappings were added leave those entities behind, so the result carries unreferenced entries and differs from its own compaction")
					}
				}
			}
		}
		if n == 0 {
			c.undecided("C03-R8", "append-only", "", "no assignment of Profile.Sample found in the merge tree")
		}
	}

	// ---- R9 binary identity: the file name stands in for the build id only when there is
	// no build id.  In Mapping.key the store of the file name into the key is unreachable
	// when BuildID is non-empty, and the build id is stored on that path.
	if mk := tree["(*Mapping).key"]; mk != nil {
		reach := reachUnder(mk, func(cond ssa.Value) int { return -strFieldEmptyCond(cond, "BuildID") })
		fileStore, idStore := 0, 0
		bad := ""
		isFile := func(v ssa.Value) bool { return fieldLoadOf(v, "profile.Mapping", "File") }
		isID := func(v ssa.Value) bool { return fieldLoadOf(v, "profile.Mapping", "BuildID") }
		// classify one value that ends up in the key: where it is taken from and whether that
		// happens only when the build id is empty
		var classify func(v ssa.Value, blk *ssa.BasicBlock, at token.Pos, seen map[ssa.Value]bool)
		classify = func(v ssa.Value, blk *ssa.BasicBlock, at token.Pos, seen map[ssa.Value]bool) {
			if seen[v] {
				return
			}
			seen[v] = true
			// the identity string computed by a helper: classify what each of its returns hands
			// back, under the same assumption, in the helper's own flow graph
			if call, ok := v.(*ssa.Call); ok {
				if h := call.Call.StaticCallee(); h != nil && fnInModule(h) && len(h.Blocks) > 0 && h.Signature.Results().Len() == 1 && reach[blk] {
					saved := reach
					reach = reachUnder(h, func(cond ssa.Value) int { return -strFieldEmptyCond(cond, "BuildID") })
					for _, hb := range h.Blocks {
						if ret, isRet := hb.Instrs[len(hb.Instrs)-1].(*ssa.Return); isRet {
							classify(ret.Results[0], hb, ret.Pos(), seen)
						}
					}
					reach = saved
					return
				}
			}
			if ph, ok := v.(*ssa.Phi); ok {
				for i, e := range ph.Edges {
					pred := ph.Block().Preds[i]
					if isFile(e) || mustDepend(e, isFile) {
						fileStore++
						// the edge may be taken only when BuildID == ""
						if !edgeDetermines(pred, ph.Block(), isID) {
							bad = p.relFile(at)
						}
						continue
					}
					if isID(e) || mustDepend(e, isID) {
						idStore++
						continue
					}
					classify(e, pred, at, seen)
				}
				return
			}
			switch {
			case mustDepend(v, isFile):
				fileStore++
				if reach[blk] {
					bad = p.relFile(at)
				}
			case mustDepend(v, isID):
				if reach[blk] {
					idStore++
				}
			}
		}
		for _, b := range mk.Blocks {
			for _, ins := range b.Instrs {
				st, ok := ins.(*ssa.Store)
				if !ok {
					continue
				}
				fa, ok := st.Addr.(*ssa.FieldAddr)
				if !ok {
					continue
				}
				if T, _ := fieldOf(fa.X.Type(), fa.Field); T != "profile.mappingKey" {
					continue
				}
				if bt, ok := st.Val.Type().Underlying().(*types.Basic); !ok || bt.Kind() != types.String {
					continue
				}
				classify(st.Val, b, st.Pos(), map[ssa.Value]bool{})
			}
		}
		switch {
		case fileStore == 0 || idStore == 0:
			c.undecided("C03-R9", "buildid-first", p.relFile(mk.Pos()), fmt.Sprintf("Mapping.key: expected a store of the build id (found %d on the BuildID != \"\" path) and of the file name (found %d)", idStore, fileStore))
		case bad != "":
			c.bad("C03-R9", "buildid-first", bad, "Mapping.key uses the file name for identity although the mapping has a build id: the same binary installed under two paths is no longer unified, and two different builds at one path are merged into one mapping (their stacks' weights are added together)")
		default:
			c.ok("C03-R9", "buildid-first", p.relFile(mk.Pos()), "the file name identifies a mapping only when it has no build id", "the store of Mapping.File into the key is unreachable when BuildID != \"\"; the build id is stored on that path")
		}
	}
}

func isRefType(t types.Type) bool {
	switch u := t.Underlying().(type) {
	case *types.Pointer, *types.Slice, *types.Map:
		return true
	case *types.Struct:
		for i := 0; i < u.NumFields(); i++ {
			if isRefType(u.Field(i).Type()) {
				return true
			}
		}
	}
	return false
}

func elemTypeOf(t types.Type) types.Type {
	switch u := t.Underlying().(type) {
	case *types.Slice:
		return u.Elem()
	case *types.Pointer:
		if a, ok := u.Elem().Underlying().(*types.Array); ok {
			return a.Elem()
		}
	}
	return nil
}

// sourceDerived: v is loaded (possibly through several loads, field and index steps) from a
// source parameter; returns the parameter name, or "".
func sourceDerived(v ssa.Value, isSource func(*ssa.Parameter) bool, seen map[ssa.Value]bool) string {
	if seen[v] {
		return ""
	}
	seen[v] = true
	switch x := v.(type) {
	case *ssa.Parameter:
		if isSource(x) {
			return x.Name()
		}
	case *ssa.UnOp:
		if x.Op == token.MUL {
			if vals, ok := cellValues(x.X); ok {
				for _, e := range vals {
					if s := sourceDerived(e, isSource, seen); s != "" {
						return s
					}
				}
				return ""
			}
			return sourceDerived(x.X, isSource, seen)
		}
	case *ssa.FieldAddr:
		return sourceDerived(x.X, isSource, seen)
	case *ssa.Field:
		return sourceDerived(x.X, isSource, seen)
	case *ssa.IndexAddr:
		return sourceDerived(x.X, isSource, seen)
	case *ssa.Index:
		return sourceDerived(x.X, isSource, seen)
	case *ssa.Lookup:
		return sourceDerived(x.X, isSource, seen)
	case *ssa.Slice:
		return sourceDerived(x.X, isSource, seen)
	case *ssa.Phi:
		for _, e := range x.Edges {
			if s := sourceDerived(e, isSource, seen); s != "" {
				return s
			}
		}
	case *ssa.Extract:
		if n, ok := x.Tuple.(*ssa.Next); ok {
			if r, ok := n.Iter.(*ssa.Range); ok {
				return sourceDerived(r.X, isSource, seen)
			}
		}
		if lk, ok := x.Tuple.(*ssa.Lookup); ok {
			return sourceDerived(lk.X, isSource, seen)
		}
	case *ssa.ChangeType:
		return sourceDerived(x.X, isSource, seen)
	case *ssa.MakeInterface:
		return sourceDerived(x.X, isSource, seen)
	}
	return ""
}

// fieldsReadOf: the fields of struct type T that f (and its closures) load.
func fieldsReadOf(f *ssa.Function, T string) map[string]bool {
	out := map[string]bool{}
	// the function, its closures and the same-package helpers it calls (a constructor or a
	// key may be split into several functions)
	for _, g := range withHelpers(f, 2) {
		for _, b := range g.Blocks {
			for _, ins := range b.Instrs {
				switch x := ins.(type) {
				case *ssa.FieldAddr:
					if t, fn := fieldOf(x.X.Type(), x.Field); t == T && usedAsLoad(x) {
						out[fn] = true
					}
				case *ssa.Field:
					if t, fn := fieldOf(x.X.Type(), x.Field); t == T {
						out[fn] = true
					}
				}
			}
		}
	}
	return out
}

func usedAsLoad(fa *ssa.FieldAddr) bool {
	if fa.Referrers() == nil {
		return false
	}
	for _, r := range *fa.Referrers() {
		switch x := r.(type) {
		case *ssa.UnOp:
			return true
		case *ssa.Store:
			if x.Addr != ssa.Value(fa) {
				return true
			}
		case *ssa.FieldAddr, *ssa.IndexAddr:
			return true
		}
	}
	return false
}

// slotDisjoint (R2): stores into a local slice indexed by a·i+b of one loop variable.
func (c *Check) slotDisjoint(f *ssa.Function) {
	p := c.P
	type slot struct {
		a, b int64
		pos  token.Pos
	}
	byBase := map[ssa.Value][]slot{}
	var bases []ssa.Value
	forEachFuncAndAnon(f, func(g *ssa.Function) {
		for _, b := range g.Blocks {
			for _, ins := range b.Instrs {
				st, ok := ins.(*ssa.Store)
				if !ok {
					continue
				}
				ia, ok := st.Addr.(*ssa.IndexAddr)
				if !ok {
					continue
				}
				a, bb, okAff := affineOfLoopVar(ia.Index)
				if !okAff {
					continue
				}
				if byBase[ia.X] == nil {
					bases = append(bases, ia.X)
				}
				byBase[ia.X] = append(byBase[ia.X], slot{a, bb, st.Pos()})
			}
		}
	})
	if len(bases) == 0 {
		o := c.ok("C03-R2", "slots:"+fnName(f), p.relFile(f.Pos()), fnName(f)+" does not assemble its key by indexed stores", "nothing to check")
		o.Trivial = true
		return
	}
	for _, base := range bases {
		slots := byBase[base]
		key := "slots:" + fnName(f) + ":" + describeValue(base)
		var stride int64 = -1
		bad := ""
		seen := map[int64]bool{}
		for _, s := range slots {
			if s.a <= 0 {
				continue
			}
			if stride < 0 {
				stride = s.a
			} else if stride != s.a {
				bad = fmt.Sprintf("mixed strides %d and %d", stride, s.a)
			}
		}
		for _, s := range slots {
			if s.a <= 0 {
				continue
			}
			if s.b < 0 || s.b >= stride {
				bad = fmt.Sprintf("offset %d is outside [0,%d): iteration i writes into the slots of iteration i+1, so an attribute of every line but the last is overwritten", s.b, stride)
			}
			if seen[s.b] {
				bad = fmt.Sprintf("offset %d is used twice", s.b)
			}
			seen[s.b] = true
		}
		// the slice must be sized len*stride
		if mk, ok := base.(*ssa.MakeSlice); ok && bad == "" && stride > 0 {
			if mul, ok := mk.Len.(*ssa.BinOp); ok && mul.Op == token.MUL {
				if k, ok := constInt(mul.Y); ok && k != int64(len(seen)) {
					bad = fmt.Sprintf("the slice has %d slots per element but %d attributes are stored", k, len(seen))
				}
			}
		}
		if bad != "" {
			c.bad("C03-R2", key, p.relFile(slots[0].pos), fmt.Sprintf("key slots in %s collide: %s", fnName(f), bad))
		} else {
			c.ok("C03-R2", key, p.relFile(slots[0].pos), fmt.Sprintf("key slots in %s are disjoint", fnName(f)), fmt.Sprintf("stride %d with %d distinct offsets below it", stride, len(seen)))
		}
	}
}

// affineOfLoopVar: idx = a*i + b for a range/loop index i (a, b constants).
func affineOfLoopVar(idx ssa.Value) (a, b int64, ok bool) {
	switch x := idx.(type) {
	case *ssa.BinOp:
		switch x.Op {
		case token.ADD:
			if k, isK := constInt(x.Y); isK {
				if a1, b1, ok1 := affineOfLoopVar(x.X); ok1 {
					return a1, b1 + k, true
				}
				if rangeIndex(idx) {
					return 1, 0, true
				}
			}
		case token.MUL:
			if k, isK := constInt(x.Y); isK && isLoopVar(x.X) {
				return k, 0, true
			}
			if k, isK := constInt(x.X); isK && isLoopVar(x.Y) {
				return k, 0, true
			}
		}
	}
	return 0, 0, false
}

func isLoopVar(v ssa.Value) bool {
	if rangeIndex(v) {
		return true
	}
	_, isPhi := v.(*ssa.Phi)
	return isPhi
}

// valueConditional: block b (inside a loop) is entered only under a comparison of a loaded
// attribute with a constant other than nil; returns a description of the condition.
func valueConditional(b *ssa.BasicBlock) string {
	for d := b; d != nil; d = d.Idom() {
		id := d.Idom()
		if id == nil || loopDepth(id) == 0 {
			break
		}
		if len(d.Preds) != 1 || d.Preds[0] != id {
			continue
		}
		iff, ok := id.Instrs[len(id.Instrs)-1].(*ssa.If)
		if !ok {
			continue
		}
		cmp, ok := iff.Cond.(*ssa.BinOp)
		if !ok {
			continue
		}
		if k, isK := cmp.Y.(*ssa.Const); isK && !k.IsNil() {
			if _, isLen := cmp.X.(*ssa.Call); isLen {
				continue
			}
			if rangeIndex(cmp.X) {
				continue
			}
			return describeValue(cmp.X) + " " + cmp.Op.String() + " " + k.String()
		}
	}
	return ""
}

// numericTokensSeparated (R2): a number rendered as text (strconv.Format*, Itoa) has no
// fixed width and no terminator, so in a key assembled by writing tokens into a buffer it
// must be followed by a constant separator before the next token; likewise two
// non-constant strings may not be concatenated directly when one of them is such a number.
// Otherwise (line 0x12, column 0x3) and (line 0x1, column 0x23) produce the same key.
func (c *Check) numericTokensSeparated(f *ssa.Function) {
	p := c.P
	isNumText := func(v ssa.Value) bool {
		call, ok := v.(*ssa.Call)
		if !ok || call.Call.StaticCallee() == nil {
			return false
		}
		switch call.Call.StaticCallee().String() {
		case "strconv.FormatInt", "strconv.FormatUint", "strconv.Itoa", "strconv.FormatFloat":
			return true
		}
		return false
	}
	writeKind := func(ins ssa.Instruction) (recv ssa.Value, kind string) {
		call, ok := ins.(*ssa.Call)
		if !ok || call.Call.StaticCallee() == nil || len(call.Call.Args) < 1 {
			return nil, ""
		}
		name := call.Call.StaticCallee().String()
		if !strings.HasPrefix(name, "(*strings.Builder).") && !strings.HasPrefix(name, "(*bytes.Buffer).") {
			return nil, ""
		}
		m := call.Call.StaticCallee().Name()
		switch m {
		case "WriteString", "WriteByte", "WriteRune", "Write":
			if len(call.Call.Args) < 2 {
				return nil, ""
			}
			a := call.Call.Args[1]
			if _, isConst := a.(*ssa.Const); isConst {
				return call.Call.Args[0], "sep"
			}
			if isNumText(a) {
				return call.Call.Args[0], "num"
			}
			return call.Call.Args[0], "var"
		case "String", "Len", "Grow", "Reset", "Bytes":
			return call.Call.Args[0], "end"
		}
		return nil, ""
	}
	n := 0
	forEachFuncAndAnon(f, func(g *ssa.Function) {
		for _, b := range g.Blocks {
			for i, ins := range b.Instrs {
				recv, kind := writeKind(ins)
				if kind == "num" {
					n++
					key := "encoding:" + fnName(g)
					// the next write to the same buffer on every path
					bad := ""
					type st struct {
						b      *ssa.BasicBlock
						looped *ssa.BasicBlock
					}
					seen := map[st]bool{}
					// looped: the header of a loop whose back edge the path has taken; its
					// forward index is then >= 1, which decides `if i > 0 { sep }` tests
					var walk func(x *ssa.BasicBlock, from int, looped *ssa.BasicBlock)
					walk = func(x *ssa.BasicBlock, from int, looped *ssa.BasicBlock) {
						for j := from; j < len(x.Instrs); j++ {
							r2, k2 := writeKind(x.Instrs[j])
							if k2 == "" || !sameCellOrValue(r2, recv) && r2 != recv {
								continue
							}
							if k2 == "num" || k2 == "var" {
								bad = p.relFile(x.Instrs[j].Pos())
							}
							if k2 == "end" && x.Instrs[j].(*ssa.Call).Call.StaticCallee().Name() != "String" {
								continue
							}
							return
						}
						succs := x.Succs
						if iff, ok := x.Instrs[len(x.Instrs)-1].(*ssa.If); ok && looped != nil && len(succs) == 2 {
							if pol, decided := positiveIndexTest(iff.Cond, looped); decided {
								if pol {
									succs = succs[:1]
								} else {
									succs = succs[1:]
								}
							}
						}
						for _, sc := range succs {
							l2 := looped
							if sc.Dominates(x) {
								l2 = sc // back edge
							} else if looped != nil && !naturalLoop(looped)[sc] {
								l2 = nil
							}
							if k := (st{sc, l2}); !seen[k] {
								seen[k] = true
								walk(sc, 0, l2)
							}
						}
					}
					walk(b, i+1, nil)
					if bad == "" {
						c.ok("C03-R2", key, p.relFile(ins.Pos()), "a number written into the key buffer of "+fnName(g)+" is followed by a separator", "the next write on every path is a constant")
					} else {
						c.bad("C03-R2", key, p.relFile(ins.Pos()), fnName(g)+" writes a number as text into its key and then another token ("+bad+") without a separator: the digits run together, so different (function, line, column) combinations produce the same key and distinct stacks are merged")
					}
				}
				// direct concatenation
				if add, ok := ins.(*ssa.BinOp); ok && add.Op == token.ADD {
					if bt, ok := add.Type().Underlying().(*types.Basic); ok && bt.Kind() == types.String {
						_, cx := add.X.(*ssa.Const)
						_, cy := add.Y.(*ssa.Const)
						if !cx && !cy && (isNumText(add.X) || isNumText(add.Y)) {
							n++
							c.bad("C03-R2", "encoding:"+fnName(g), p.relFile(add.Pos()), fnName(g)+" concatenates a number rendered as text with another variable token without a separator")
						}
					}
				}
			}
		}
	})
	_ = n
}

// positiveIndexTest: cond compares the forward index of the loop headed by hdr with zero;
// returns the outcome it has on every iteration after the first (index >= 1).
func positiveIndexTest(cond ssa.Value, hdr *ssa.BasicBlock) (outcome, decided bool) {
	cmp, ok := cond.(*ssa.BinOp)
	if !ok {
		return false, false
	}
	k, isK := constInt(cmp.Y)
	if !isK || !isForwardIndex(cmp.X) || loopHeaderOfIndex(cmp.X) != hdr {
		return false, false
	}
	switch {
	case cmp.Op == token.GTR && k == 0, cmp.Op == token.NEQ && k == 0, cmp.Op == token.GEQ && k == 1:
		return true, true
	case cmp.Op == token.EQL && k == 0, cmp.Op == token.LSS && k == 1, cmp.Op == token.LEQ && k == 0:
		return false, true
	}
	return false, false
}

// perInputTables (C03-R5, C07-R6): ids are local to one input, so the tables that translate
// them (locationsByID, functionsByID, mappingsByID) are emptied for every input before any of
// its entities is mapped: a fresh table is stored, or the table is cleared, inside the loop
// over the inputs at a point that dominates every mapSample/mapMapping call.
func (c *Check) perInputTables(rule string, mg *ssa.Function) {
	p := c.P
	var mapCalls []ssa.Instruction
	resets := map[string]ssa.Instruction{}
	fresh := map[string]bool{}
	for _, b := range mg.Blocks {
		for _, ins := range b.Instrs {
			if call, ok := ins.(*ssa.Call); ok {
				if sc := call.Call.StaticCallee(); sc != nil && (sc.Name() == "mapSample" || sc.Name() == "mapMapping") {
					mapCalls = append(mapCalls, call)
				}
			}
		}
	}
	for _, F := range []string{"locationsByID", "functionsByID", "mappingsByID"} {
		F := F
		for _, es := range effectiveSites(mg, func(ins ssa.Instruction) bool {
			st, ok := ins.(*ssa.Store)
			if !ok {
				return false
			}
			fa, ok := st.Addr.(*ssa.FieldAddr)
			if !ok {
				return false
			}
			T, G := fieldOf(fa.X.Type(), fa.Field)
			return T == "profile.profileMerger" && G == F
		}, 2) {
			if loopDepth(es.at.Block()) == 0 {
				continue
			}
			resets[F] = es.at
			switch v := es.actual.(*ssa.Store).Val.(type) {
			case *ssa.MakeMap:
				fresh[F] = true
			case *ssa.Call:
				fresh[F] = v.Call.StaticCallee() != nil && (strings.HasPrefix(v.Call.StaticCallee().Name(), "make") || returnsEmptied(v.Call.StaticCallee()))
			}
		}
	}
	for _, F := range []string{"locationsByID", "functionsByID", "mappingsByID"} {
		F := F
		if _, ok := resets[F]; ok {
			continue
		}
		for _, es := range effectiveSites(mg, func(ins ssa.Instruction) bool {
			call, ok := ins.(*ssa.Call)
			if !ok {
				return false
			}
			bi, ok := call.Call.Value.(*ssa.Builtin)
			if !ok || bi.Name() != "clear" || len(call.Call.Args) != 1 {
				return false
			}
			ld, ok := call.Call.Args[0].(*ssa.UnOp)
			if !ok {
				return false
			}
			fa, ok := ld.X.(*ssa.FieldAddr)
			if !ok {
				return false
			}
			T, G := fieldOf(fa.X.Type(), fa.Field)
			return T == "profile.profileMerger" && G == F
		}, 2) {
			if loopDepth(es.at.Block()) == 0 {
				continue
			}
			resets[F] = es.at
			fresh[F] = true
		}
	}
	for _, F := range []string{"locationsByID", "functionsByID", "mappingsByID"} {
		key := "reset:" + F
		r, ok := resets[F]
		if !ok {
			c.bad(rule, key, p.relFile(mg.Pos()), "Merge does not re-create pm."+F+" inside the loop over the inputs: ids of one input would be translated with the table of another")
			continue
		}
		dom := len(mapCalls) > 0
		for _, mc := range mapCalls {
			if !instrDominates(r, mc) {
				dom = false
			}
		}
		if !dom {
			// the per-input work lives in a helper: the reset and the mapping calls are both
			// behind the same call of Merge; decide the order inside the helper
			if call, ok := r.(ssa.CallInstruction); ok {
				if h := helperCallee(mg, r); h != nil && loopDepth(call.Block()) > 0 {
					dom = resetPrecedesMapping(h, F, 0)
				}
			}
		}
		// the stored value is a fresh table
		if dom && fresh[F] {
			c.ok(rule, key, p.relFile(r.Pos()), "pm."+F+" is re-created for every input", "a fresh table is stored inside the loop and dominates every mapSample/mapMapping call")
		} else {
			c.bad(rule, key, p.relFile(r.Pos()), fmt.Sprintf("pm.%s is not reset with a fresh table before the entities of each input are mapped (dominates: %v, fresh: %v)", F, dom, fresh[F]))
		}
	}

}

// returnsEmptied: h returns a table (a struct of slices and maps) every container field of
// which it has emptied or re-made: for each slice or map field of the result type, h clears
// that field of some value of the type or stores a fresh make into it.
func returnsEmptied(h *ssa.Function) bool {
	if h == nil || len(h.Blocks) == 0 || h.Signature.Results().Len() != 1 {
		return false
	}
	st, ok := h.Signature.Results().At(0).Type().Underlying().(*types.Struct)
	if !ok {
		return false
	}
	emptied := map[int]bool{}
	for _, b := range h.Blocks {
		for _, ins := range b.Instrs {
			switch x := ins.(type) {
			case *ssa.Call:
				if bi, ok := x.Call.Value.(*ssa.Builtin); ok && bi.Name() == "clear" && len(x.Call.Args) == 1 {
					if fa := fieldAddrOf(x.Call.Args[0]); fa != nil && types.Identical(fa.X.Type().Underlying().(*types.Pointer).Elem().Underlying(), st) {
						emptied[fa.Field] = true
					}
				}
			case *ssa.Store:
				if fa, ok := x.Addr.(*ssa.FieldAddr); ok && types.Identical(fa.X.Type().Underlying().(*types.Pointer).Elem().Underlying(), st) {
					switch x.Val.(type) {
					case *ssa.MakeSlice, *ssa.MakeMap:
						emptied[fa.Field] = true
					}
				}
			}
		}
	}
	n := 0
	for i := 0; i < st.NumFields(); i++ {
		switch st.Field(i).Type().Underlying().(type) {
		case *types.Slice, *types.Map:
			n++
			if !emptied[i] {
				return false
			}
		}
	}
	return n > 0
}

// resetPrecedesMapping: in helper h the table F of the merger is emptied or re-made by an
// instruction (possibly in a nested helper) that dominates every mapSample/mapMapping call
// reachable from h, and there is such a call.
func resetPrecedesMapping(h *ssa.Function, F string, depth int) bool {
	if depth > 2 {
		return false
	}
	isReset := func(ins ssa.Instruction) bool {
		switch x := ins.(type) {
		case *ssa.Store:
			if fa, ok := x.Addr.(*ssa.FieldAddr); ok {
				T, G := fieldOf(fa.X.Type(), fa.Field)
				return T == "profile.profileMerger" && G == F
			}
		case *ssa.Call:
			if bi, ok := x.Call.Value.(*ssa.Builtin); ok && bi.Name() == "clear" && len(x.Call.Args) == 1 {
				if ld, ok := x.Call.Args[0].(*ssa.UnOp); ok {
					if fa, ok := ld.X.(*ssa.FieldAddr); ok {
						T, G := fieldOf(fa.X.Type(), fa.Field)
						return T == "profile.profileMerger" && G == F
					}
				}
			}
		}
		return false
	}
	isMap := func(ins ssa.Instruction) bool {
		call, ok := ins.(*ssa.Call)
		if !ok {
			return false
		}
		sc := call.Call.StaticCallee()
		return sc != nil && (sc.Name() == "mapSample" || sc.Name() == "mapMapping")
	}
	rs := effectiveSites(h, isReset, 2)
	ms := effectiveSites(h, isMap, 2)
	if len(rs) == 0 || len(ms) == 0 {
		return false
	}
	for _, m := range ms {
		ok := false
		for _, r := range rs {
			if instrDominates(r.at, m.at) {
				ok = true
			}
			if r.at == m.at {
				if g := helperCallee(h, r.at); g != nil && resetPrecedesMapping(g, F, depth+1) {
					ok = true
				}
			}
		}
		if !ok {
			return false
		}
	}
	return true
}
