package main

import (
	"fmt"
	"go/ast"
	"go/token"
	"go/types"
	"sort"
	"strings"

	"golang.org/x/tools/go/packages"
	"golang.org/x/tools/go/ssa"
)

// flattenBin splits e into the operands of a chain of op (a op b op c ...).
func flattenBin(e ast.Expr, op token.Token) []ast.Expr {
	e = ast.Unparen(e)
	if b, ok := e.(*ast.BinaryExpr); ok && b.Op == op {
		return append(flattenBin(b.X, op), flattenBin(b.Y, op)...)
	}
	return []ast.Expr{e}
}

// negatedBoolParam returns the parameter object when e is !p for a bool parameter p of sig.
func negatedBoolParam(info *types.Info, e ast.Expr, params map[types.Object]bool) types.Object {
	u, ok := ast.Unparen(e).(*ast.UnaryExpr)
	if !ok || u.Op != token.NOT {
		return nil
	}
	id, ok := ast.Unparen(u.X).(*ast.Ident)
	if !ok {
		return nil
	}
	if o := info.Uses[id]; o != nil && params[o] {
		return o
	}
	return nil
}

// flagGuardCoversBody (C04-R12): Aggregate (and any function steered by several boolean
// parameters) does the work of a switched-off flag inside a block guarded by "some flag is
// off".  The guard names every flag whose negation the block tests: a flag tested inside but
// missing from the guard is ignored whenever the guard's own flags are all on (noinlines has
// no effect at address granularity).
func (c *Check) flagGuardCoversBody(rule string, rel string, names ...string) {
	p := c.P
	pk := p.Pkg(rel)
	if pk == nil {
		c.undecided(rule, "flag-guard:pkg", "", "package "+rel+" not loaded")
		return
	}
	want := map[string]bool{}
	for _, n := range names {
		want[n] = true
	}
	n := 0
	found := map[string]bool{}
	for _, file := range pk.Syntax {
		for _, d := range file.Decls {
			fd, ok := d.(*ast.FuncDecl)
			if !ok || fd.Body == nil || !want[fd.Name.Name] {
				continue
			}
			found[fd.Name.Name] = true
			params := map[types.Object]bool{}
			for _, fl := range fd.Type.Params.List {
				for _, id := range fl.Names {
					if o := pk.TypesInfo.Defs[id]; o != nil {
						if bt, ok := o.Type().Underlying().(*types.Basic); ok && bt.Kind() == types.Bool {
							params[o] = true
						}
					}
				}
			}
			if len(params) < 2 {
				continue
			}
			ast.Inspect(fd.Body, func(nd ast.Node) bool {
				ifs, ok := nd.(*ast.IfStmt)
				if !ok {
					return true
				}
				guard := map[types.Object]bool{}
				all := true
				for _, t := range flattenBin(ifs.Cond, token.LOR) {
					if o := negatedBoolParam(pk.TypesInfo, t, params); o != nil {
						guard[o] = true
					} else {
						all = false
					}
				}
				if !all || len(guard) < 2 {
					return true
				}
				n++
				var missing []string
				seen := map[types.Object]bool{}
				ast.Inspect(ifs.Body, func(in ast.Node) bool {
					e, ok := in.(ast.Expr)
					if !ok {
						return true
					}
					if o := negatedBoolParam(pk.TypesInfo, e, params); o != nil && !guard[o] && !seen[o] {
						seen[o] = true
						missing = append(missing, o.Name())
					}
					return true
				})
				sort.Strings(missing)
				key := fmt.Sprintf("flag-guard:%s#%d", fd.Name.Name, n)
				pos := p.relFile(ifs.Pos())
				if len(missing) > 0 {
					c.bad(rule, key, pos, fd.Name.Name+" tests !"+strings.Join(missing, ", !")+" inside a block that is only entered when one of the other flags is off: with those all on, switching "+strings.Join(missing, "/")+" off has no effect (its work is skipped)")
				} else {
					c.ok(rule, key, pos, "a block guarded by 'some flag is off' tests only flags that its guard names", fmt.Sprintf("%d flags in the guard", len(guard)))
				}
				return true
			})
		}
	}
	for _, nme := range names {
		if !found[nme] {
			c.undecided(rule, "flag-guard:"+nme, "", "function "+nme+" not found in "+rel)
		}
	}
}

// emptyOptionGuardCoversReads (C06-R10): a function that returns early because "no filter is
// set" lists every filter it goes on to read.  After an `if cfg.A == "" && cfg.B == "" ... {
// return }` the function reads no other string field of the same value: an option left out
// of the list (taghide) is silently ignored when it is the only one given.
func (c *Check) emptyOptionGuardCoversReads(rule, rel string, names ...string) {
	p := c.P
	pk := p.Pkg(rel)
	if pk == nil {
		c.undecided(rule, "option-guard:pkg", "", "package "+rel+" not loaded")
		return
	}
	want := map[string]bool{}
	for _, n := range names {
		want[n] = true
	}
	n := 0
	for _, file := range pk.Syntax {
		for _, d := range file.Decls {
			fd, ok := d.(*ast.FuncDecl)
			if !ok || fd.Body == nil || !want[fd.Name.Name] {
				continue
			}
			for i, st := range fd.Body.List {
				ifs, ok := st.(*ast.IfStmt)
				if !ok || ifs.Init != nil || ifs.Else != nil || len(ifs.Body.List) != 1 {
					continue
				}
				if _, isRet := ifs.Body.List[0].(*ast.ReturnStmt); !isRet {
					continue
				}
				var base types.Object
				set := map[string]bool{}
				ok = true
				for _, t := range flattenBin(ifs.Cond, token.LAND) {
					b, isB := ast.Unparen(t).(*ast.BinaryExpr)
					if !isB || b.Op != token.EQL {
						ok = false
						break
					}
					sel, isS := ast.Unparen(b.X).(*ast.SelectorExpr)
					lit, isL := ast.Unparen(b.Y).(*ast.BasicLit)
					if !isS || !isL || lit.Value != `""` {
						ok = false
						break
					}
					id, isI := sel.X.(*ast.Ident)
					if !isI {
						ok = false
						break
					}
					o := pk.TypesInfo.Uses[id]
					if base == nil {
						base = o
					}
					if o == nil || o != base {
						ok = false
						break
					}
					set[sel.Sel.Name] = true
				}
				if !ok || len(set) < 3 {
					continue
				}
				n++
				var missing []string
				seen := map[string]bool{}
				for _, later := range fd.Body.List[i+1:] {
					ast.Inspect(later, func(in ast.Node) bool {
						sel, ok := in.(*ast.SelectorExpr)
						if !ok {
							return true
						}
						id, ok := sel.X.(*ast.Ident)
						if !ok || pk.TypesInfo.Uses[id] != base || set[sel.Sel.Name] || seen[sel.Sel.Name] {
							return true
						}
						if tv, ok := pk.TypesInfo.Types[sel]; ok {
							if bt, ok := tv.Type.Underlying().(*types.Basic); ok && bt.Info()&types.IsString != 0 {
								seen[sel.Sel.Name] = true
								missing = append(missing, sel.Sel.Name)
							}
						}
						return true
					})
				}
				sort.Strings(missing)
				key := fmt.Sprintf("option-guard:%s#%d", fd.Name.Name, n)
				if len(missing) > 0 {
					c.bad(rule, key, p.relFile(ifs.Pos()), fd.Name.Name+" returns early when "+fmt.Sprint(len(set))+" options are empty but goes on to read "+base.Name()+"."+strings.Join(missing, ", "+base.Name()+".")+", which the test leaves out: given alone, that option is ignored")
				} else {
					c.ok(rule, key, p.relFile(ifs.Pos()), "an early return for 'no filter set' names every option read afterwards", fmt.Sprintf("%d fields tested", len(set)))
				}
			}
		}
	}
	if n == 0 {
		c.ok(rule, "option-guard:none", "", "no early return on a list of empty options in "+strings.Join(names, ", "), "every filter is compiled and applied unconditionally")
	}
}

var _ = packages.NeedName
var _ *ssa.Function
