package main

import (
	"fmt"
	"go/constant"
	"go/token"
	"go/types"
	"os"
	"strings"

	"golang.org/x/tools/go/ssa"
)

func init() { register("C12", true, runC12) }

func runC12(c *Check) {
	c.Explanation = "Decides the frame clause of C12 for every profile, mode and plug-in behaviour: in the call tree of (*Symbolizer).Symbolize (local, remote, demangle) no reachable pprof function can write any field of the profile data model other than Function.*, Line.*, Location.Line, Location.IsFolded, Mapping.Has* and Profile.Function (R1); Has* flags are only ever set to true and an already-symbolized mapping is skipped unless force (R2); every id given to a new function is derived from existing ids (max+1), never from the length of a possibly sparse table (R3); demangling never stores an empty name over a non-empty one structurally (R4); every pre-sized line is assigned (R5); a location's line list is only ever replaced by a list with at least one entry, so an empty answer erases nothing (R6). Also: force is turned on only by the options that ask for it (R7). Round-I additions: the result of the function interner is what the line refers to. Not decided: that the attached names are the right ones, CheckValid after symbolization, plug-in internals."
	p := c.P
	m := newModAnalyzer(p)
	roots := []*ssa.Function{
		c.anchorFn("C12-R1", "internal/symbolizer", "(*Symbolizer).Symbolize"),
		c.anchorFn("C12-R1", "internal/symbolizer", "doLocalSymbolize"),
		c.anchorFn("C12-R1", "internal/symbolizer", "Demangle"),
		c.anchorFn("C12-R1", "internal/symbolz", "Symbolize"),
	}
	for _, r := range roots {
		if r == nil {
			return
		}
	}
	tracked := p.structsOf("profile", "Profile", "Sample", "Location", "Line", "Function", "Mapping", "ValueType", "Label")
	if len(tracked) < 7 {
		c.undecided("C12-R1", "anchor:profile types", "", "profile data-model struct types not found")
		return
	}
	allowed := map[string]bool{
		"profile.Location.Line": true, "profile.Location.IsFolded": true,
		"profile.Mapping.HasFunctions": true, "profile.Mapping.HasFilenames": true,
		"profile.Mapping.HasLineNumbers": true, "profile.Mapping.HasInlineFrames": true,
		"profile.Profile.Function": true,
	}
	effects, nfn := c.checkFrame(m, frameSpec{
		rule: "C12-R1", name: "Symbolize", roots: roots, tracked: tracked,
		allowed: allowed, allowAll: map[string]bool{"profile.Function": true, "profile.Line": true},
	})
	c.Floor("C12-R1", 40)
	c.Extra["reachable_module_functions"] = nfn
	if nfn < 20 {
		c.undecided("C12-R1", "reach", "", fmt.Sprintf("only %d module functions reachable from Symbolize; expected the local, remote and demangle call trees", nfn))
	}

	// R2a: Has* flags are only ever assigned the constant true.
	for _, e := range effects {
		if e.T == "profile.Mapping" && strings.HasPrefix(e.F, "Has") && e.What == "store" {
			key := "hasflag:" + fnName(e.Fn) + ":" + e.F
			sticky, how := false, ""
			if st := storeAt(e); st != nil {
				if fa, ok := st.Addr.(*ssa.FieldAddr); ok {
					sticky, how = stickyValue(e.Val, fa, true)
				}
			} else if k, ok := e.Val.(*ssa.Const); ok && k.Value != nil && k.Value.Kind() == constant.Bool && constant.BoolVal(k.Value) {
				sticky, how = true, "constant true"
			}
			if sticky {
				c.ok("C12-R2", key, p.relFile(e.Pos), "Mapping."+e.F+" is only set, never cleared, in "+fnName(e.Fn), "stored value: "+how)
			} else {
				c.bad("C12-R2", key, p.relFile(e.Pos), "Mapping."+e.F+" is assigned a value other than the constant true in "+fnName(e.Fn))
			}
		}
	}
	// R2b: with force == false and the flag true, the per-mapping symbolization call is unreachable.
	c.skipGuard("internal/symbolizer", "doLocalSymbolize", "symbolizeOneMapping", 0, []string{"HasFunctions", "HasFilenames", "HasLineNumbers"})
	c.skipGuard("internal/symbolz", "Symbolize", "symbolizeMapping", 3, []string{"HasFunctions"})
	c.Floor("C12-R2", 6)

	// R3: ids of new entities.
	c.freshIDs(effects)
	c.Floor("C12-R3", 2)

	// R4: demangling never replaces a non-empty name by an empty one (structural part).
	c.demangleNames()

	// R2c: symbolz answers are attached only to locations of the mapping being symbolized
	if sm := c.anchorFn("C12-R2", "internal/symbolz", "symbolizeMapping"); sm != nil {
		var mp *ssa.Parameter
		for _, pr := range sm.Params {
			if structName(pr.Type()) == "profile.Mapping" {
				mp = pr
			}
		}
		n := 0
		for _, b := range sm.Blocks {
			for _, ins := range b.Instrs {
				st, ok := ins.(*ssa.Store)
				if !ok {
					continue
				}
				fa, ok := st.Addr.(*ssa.FieldAddr)
				if !ok {
					continue
				}
				if T, F := fieldOf(fa.X.Type(), fa.Field); T != "profile.Location" || F != "Line" {
					continue
				}
				n++
				reach := reachUnder(sm, func(cond ssa.Value) int {
					// assume the location belongs to another mapping: l.Mapping != m
					if cmp, ok := cond.(*ssa.BinOp); ok && mp != nil && (cmp.Op == token.NEQ || cmp.Op == token.EQL) {
						other := ssa.Value(nil)
						if cmp.X == ssa.Value(mp) {
							other = cmp.Y
						} else if cmp.Y == ssa.Value(mp) {
							other = cmp.X
						}
						if other != nil && isFieldLoad(other, "profile.Location", "Mapping") {
							if cmp.Op == token.NEQ {
								return 1
							}
							return -1
						}
					}
					return 0
				})
				if reach[st.Block()] {
					c.bad("C12-R2", "foreign-mapping:symbolizeMapping", p.relFile(st.Pos()), "symbolizeMapping can assign Location.Line for a location that belongs to a different mapping than the one being symbolized: a location of an already symbolized mapping with the same address is overwritten without force")
				} else {
					c.ok("C12-R2", "foreign-mapping:symbolizeMapping", p.relFile(st.Pos()), "symbolz answers are attached only to locations of the mapping being symbolized", "the store to Location.Line is unreachable when l.Mapping != m")
				}
			}
		}
		if n == 0 {
			c.undecided("C12-R2", "foreign-mapping:symbolizeMapping", p.relFile(sm.Pos()), "symbolizeMapping does not assign Location.Line")
		}
	}

	// R5: every element of a freshly made Location.Line gets its Function on every iteration
	if so := c.anchorFn("C12-R5", "internal/symbolizer", "symbolizeOneMapping"); so != nil {
		var elemStore *ssa.Store
		for _, b := range so.Blocks {
			for _, ins := range b.Instrs {
				st, ok := ins.(*ssa.Store)
				if !ok {
					continue
				}
				if ia, ok := st.Addr.(*ssa.IndexAddr); ok {
					if ld, ok := ia.X.(*ssa.UnOp); ok && isFieldLoad(ld, "profile.Location", "Line") && loopDirection(ia.Index) != "" {
						elemStore = st
					}
				}
			}
		}
		if elemStore == nil {
			// alternative shape: the list is grown with append, one Line per frame, and assigned
			// afterwards; there are no pre-sized slots that could stay empty
			grown := false
			for _, b := range so.Blocks {
				for _, ins := range b.Instrs {
					if st, ok := ins.(*ssa.Store); ok {
						if fa, ok := st.Addr.(*ssa.FieldAddr); ok {
							if T, F := fieldOf(fa.X.Type(), fa.Field); T == "profile.Location" && F == "Line" && len(appendsFeeding(st.Val, map[ssa.Value]bool{})) > 0 {
								grown = true
							}
						}
					}
				}
			}
			if grown {
				c.ok("C12-R5", "lines-filled", p.relFile(so.Pos()), "the new line list holds exactly the lines that were appended", "Location.Line is assigned a slice grown by append; no pre-sized element can remain unset")
			} else {
				c.undecided("C12-R5", "lines-filled", p.relFile(so.Pos()), "symbolizeOneMapping neither fills Location.Line element by element nor grows it by append")
			}
		} else if skippableInIteration(elemStore.Block()) {
			c.bad("C12-R5", "lines-filled", p.relFile(elemStore.Pos()), "a path through the frame loop of symbolizeOneMapping skips the assignment of l.Line[i]: the pre-sized slice keeps a zero Line with a nil Function and the profile is no longer valid")
		} else {
			c.ok("C12-R5", "lines-filled", p.relFile(elemStore.Pos()), "every element of the pre-sized Location.Line is assigned", "no path through one iteration of the frame loop avoids the store to l.Line[i]")
		}
	}

	// R6: symbolization only attaches.  A location's line list is replaced only by a list
	// with at least one entry: an empty answer from the object file or the symbolz service
	// must leave the names the profile already carries in place.
	{
		g := newGuardEngine(p)
		n := 0
		for _, rel := range []string{"internal/symbolizer", "internal/symbolz"} {
			forAllPkgFuncs(p, rel, func(f *ssa.Function) {
				for _, b := range f.Blocks {
					for _, ins := range b.Instrs {
						st, ok := ins.(*ssa.Store)
						if !ok {
							continue
						}
						fa, ok := st.Addr.(*ssa.FieldAddr)
						if !ok {
							continue
						}
						if T, F := fieldOf(fa.X.Type(), fa.Field); T != "profile.Location" || F != "Line" {
							continue
						}
						n++
						key := "non-empty-lines:" + fnName(f)
						min := g.minLenByConstruction(st.Val, 0)
						how := "the assigned list is built with at least one entry"
						if mk, ok := st.Val.(*ssa.MakeSlice); ok {
							if k, ok := constInt(mk.Len); ok && k > min {
								min = k
							}
							if la := lenArg(mk.Len); la != nil {
								if m := g.guardedMin(guardSite{fn: f, ins: st, x: la}, la); m > min {
									min = m
									how = "its length is len(" + describeValue(la) + "), which is at least 1 on every path to the assignment"
								}
							}
						}
						if min < 1 && appendedAtLeastOnce(g, f, st.Val) {
							min = 1
							how = "grown by an append that runs on every iteration of a loop over a list known to be non-empty"
						}
						if min >= 1 {
							c.ok("C12-R6", key, p.relFile(st.Pos()), "Location.Line is replaced only by a non-empty list in "+fnName(f), how)
						} else {
							c.bad("C12-R6", key, p.relFile(st.Pos()), fnName(f)+" can replace a location's lines by an empty list: when the object file or service answers with no frames (and no error) the function, file and line information already in the profile is erased while the mapping still claims to have it")
						}
					}
				}
			})
		}
		if n < 2 {
			c.undecided("C12-R6", "non-empty-lines", "", fmt.Sprintf("expected the local and the symbolz assignment of Location.Line, found %d", n))
		}
	}
	c.forceOnlyWhenRequested()
	c.internResultUsed()
}

// skippableInIteration: can control go once around the innermost loop containing block b
// without entering b?
func skippableInIteration(b *ssa.BasicBlock) bool {
	var hdr *ssa.BasicBlock
	for d := b; d != nil && hdr == nil; d = d.Idom() {
		for _, pred := range d.Preds {
			if d.Dominates(pred) && (pred == b || blockReachesPlain(b, pred)) && naturalLoop(d)[b] {
				hdr = d
			}
		}
	}
	if hdr == nil {
		return false
	}
	body := naturalLoop(hdr)
	seen := map[*ssa.BasicBlock]bool{}
	skipped := false
	var walk func(x *ssa.BasicBlock)
	walk = func(x *ssa.BasicBlock) {
		if x == b || seen[x] || skipped || !body[x] {
			return
		}
		seen[x] = true
		for _, s := range x.Succs {
			if s == hdr {
				skipped = true
				return
			}
			walk(s)
		}
	}
	for _, s := range hdr.Succs {
		if body[s] {
			walk(s)
		}
	}
	return skipped
}

// skipGuard: in function fn, on every CFG path consistent with force == false and
// m.<flag> == true (m being the mapping passed to callee), the call of callee is
// unreachable.
func (c *Check) skipGuard(rel, fn, callee string, argIdx int, flags []string) {
	f := c.anchorFn("C12-R2", rel, fn)
	if f == nil {
		return
	}
	var force *ssa.Parameter
	for _, pr := range f.Params {
		if pr.Name() == "force" && types.Identical(pr.Type(), types.Typ[types.Bool]) {
			force = pr
		}
	}
	if force == nil {
		c.undecided("C12-R2", "skip:"+fn, "", "no bool parameter named force in "+fn)
		return
	}
	findCalls := func(g *ssa.Function) []*ssa.Call {
		var calls []*ssa.Call
		for _, b := range g.Blocks {
			for _, ins := range b.Instrs {
				if call, ok := ins.(*ssa.Call); ok {
					if sc := call.Call.StaticCallee(); sc != nil && sc.Name() == callee && fnInModule(sc) {
						calls = append(calls, call)
					}
				}
			}
		}
		return calls
	}
	calls := findCalls(f)
	if len(calls) == 0 {
		// the per-mapping body may have been split out: a helper that fn calls with its own
		// force flag and that contains the call
		for _, b := range f.Blocks {
			for _, ins := range b.Instrs {
				h := helperCallee(f, ins)
				if h == nil || len(findCalls(h)) == 0 {
					continue
				}
				site := ins.(ssa.CallInstruction)
				for i, a := range site.Common().Args {
					if a == ssa.Value(force) && i < len(h.Params) {
						f, force, calls = h, h.Params[i], findCalls(h)
					}
				}
			}
		}
	}
	if len(calls) == 0 {
		c.undecided("C12-R2", "skip:"+fn, "", "no static call of "+callee+" in "+fn)
		return
	}
	for _, call := range calls {
		if argIdx >= len(call.Call.Args) {
			c.undecided("C12-R2", "skip:"+fn, c.P.relFile(call.Pos()), "unexpected arity of "+callee)
			continue
		}
		mv := call.Call.Args[argIdx]
		for _, flag := range flags {
			key := "skip:" + fn + ":" + flag
			// forward reachability under the assumptions
			reach := map[*ssa.BasicBlock]bool{}
			var walk func(b *ssa.BasicBlock)
			walk = func(b *ssa.BasicBlock) {
				if reach[b] {
					return
				}
				reach[b] = true
				if len(b.Instrs) > 0 {
					if iff, ok := b.Instrs[len(b.Instrs)-1].(*ssa.If); ok {
						d := condAssume(iff.Cond, force, mv, flag)
						if d == 0 {
							d = classifierAssume(iff.Cond, force, mv, flag)
						}
						switch d {
						case 1:
							walk(b.Succs[0])
							return
						case -1:
							walk(b.Succs[1])
							return
						}
					}
				}
				for _, s := range b.Succs {
					walk(s)
				}
			}
			walk(f.Blocks[0])
			if reach[call.Block()] {
				// the tests may be combined into values (a tagless switch with && cases) or sit
				// in a predicate helper that is handed the mapping: evaluate them
				assume := func(v ssa.Value) int {
					if d := condAssume(v, force, mv, flag); d != 0 {
						return d
					}
					if d := classifierAssume(v, force, mv, flag); d != 0 {
						return d
					}
					if hc, ok := v.(*ssa.Call); ok {
						if h := hc.Call.StaticCallee(); h != nil && fnInModule(h) && len(h.Blocks) > 0 && len(h.Params) == len(hc.Call.Args) {
							for i, a := range hc.Call.Args {
								if a == mv {
									par := h.Params[i]
									return boolResultUnder(h, func(c2 ssa.Value) int { return condAssume(c2, nil, par, flag) })
								}
							}
						}
					}
					return 0
				}
				reach = reachUnder(f, assume)
			}
			if reach[call.Block()] {
				c.bad("C12-R2", key, c.P.relFile(call.Pos()), fmt.Sprintf("%s is reachable in %s with force=false for a mapping whose %s is already set", callee, fn, flag))
			} else {
				c.ok("C12-R2", key, c.P.relFile(call.Pos()), fmt.Sprintf("a mapping with %s set is skipped by %s unless force", flag, fn), "call block unreachable in the CFG restricted to force=false ∧ m."+flag+"=true")
			}
		}
	}
}

// condAssume: 1 = condition is true under the assumptions, -1 = false, 0 = unknown.
func condAssume(cond ssa.Value, force ssa.Value, mv ssa.Value, flag string) int {
	switch x := cond.(type) {
	case *ssa.Parameter:
		if x == force {
			return -1
		}
	case *ssa.UnOp:
		if x.Op == token.NOT {
			return -condAssume(x.X, force, mv, flag)
		}
		if x.Op == token.MUL {
			if fa, ok := x.X.(*ssa.FieldAddr); ok && fa.X == mv {
				if _, fname := fieldOf(fa.X.Type(), fa.Field); fname == flag {
					return 1
				}
			}
		}
	}
	return 0
}

// freshIDs (R3): every value stored into Function.ID / Location.ID / Mapping.ID in the
// symbolization call tree must be derived from existing ids and constants only.
func (c *Check) freshIDs(effects []Effect) {
	idProg = c.P
	for _, e := range effects {
		if e.F != "ID" || e.What != "store" || e.Val == nil {
			continue
		}
		if e.T != "profile.Function" && e.T != "profile.Location" && e.T != "profile.Mapping" {
			continue
		}
		key := "id:" + fnName(e.Fn) + ":" + e.T
		leaves := map[string]bool{}
		idFieldSeen = map[string]bool{}
		classifyIDValue(e.Val, e.Fn, leaves, map[ssa.Value]bool{}, 0)
		var badLeaves, unk []string
		for l := range leaves {
			switch {
			case strings.HasPrefix(l, "len("), strings.HasPrefix(l, "stale counter"):
				badLeaves = append(badLeaves, l)
			case strings.HasPrefix(l, "?"):
				unk = append(unk, l)
			}
		}
		switch {
		case len(badLeaves) > 0:
			c.bad("C12-R3", key, c.P.relFile(e.Pos), fmt.Sprintf("new %s id in %s is computed from %s: this collides with an existing id (a sparse id table, or ids already handed out by an earlier call)", e.T, fnName(e.Fn), strings.Join(badLeaves, ",")))
		case len(unk) > 0:
			c.undecided("C12-R3", key, c.P.relFile(e.Pos), fmt.Sprintf("cannot classify the id value stored in %s (%s)", fnName(e.Fn), strings.Join(unk, ",")))
		default:
			c.ok("C12-R3", key, c.P.relFile(e.Pos), fmt.Sprintf("new %s id in %s", e.T, fnName(e.Fn)), "value derives only from existing .ID loads, constants and +: "+keys(leaves))
		}
	}
}

func keys(m map[string]bool) string {
	var s []string
	for k := range m {
		s = append(s, k)
	}
	sortStrings(s)
	return strings.Join(s, ",")
}

func classifyIDValue(v ssa.Value, fn *ssa.Function, leaves map[string]bool, seen map[ssa.Value]bool, depth int) {
	if seen[v] {
		return
	}
	seen[v] = true
	if depth > 40 {
		leaves["?depth"] = true
		return
	}
	switch x := v.(type) {
	case *ssa.Const:
		leaves["const"] = true
	case *ssa.BinOp:
		classifyIDValue(x.X, fn, leaves, seen, depth+1)
		classifyIDValue(x.Y, fn, leaves, seen, depth+1)
	case *ssa.Convert:
		classifyIDValue(x.X, fn, leaves, seen, depth+1)
	case *ssa.ChangeType:
		classifyIDValue(x.X, fn, leaves, seen, depth+1)
	case *ssa.Phi:
		for _, e := range x.Edges {
			classifyIDValue(e, fn, leaves, seen, depth+1)
		}
	case *ssa.Call:
		if b, ok := x.Call.Value.(*ssa.Builtin); ok && b.Name() == "len" {
			leaves["len("+describeValue(x.Call.Args[0])+")"] = true
			return
		}
		if b, ok := x.Call.Value.(*ssa.Builtin); ok && (b.Name() == "max" || b.Name() == "min") {
			for _, a := range x.Call.Args {
				classifyIDValue(a, fn, leaves, seen, depth+1)
			}
			return
		}
		// a helper of the module that computes the value (e.g. the largest id in use): classify
		// what it returns
		if callee := x.Call.StaticCallee(); callee != nil && fnInModule(callee) && len(callee.Blocks) > 0 && depth < 30 {
			nret := 0
			for _, b := range callee.Blocks {
				if ret, ok := b.Instrs[len(b.Instrs)-1].(*ssa.Return); ok && len(ret.Results) >= 1 {
					nret++
					classifyIDValue(ret.Results[0], callee, leaves, seen, depth+1)
				}
			}
			if nret > 0 {
				return
			}
		}
		leaves["?call "+x.Call.Value.Name()] = true
	case *ssa.UnOp:
		if x.Op != token.MUL {
			classifyIDValue(x.X, fn, leaves, seen, depth+1)
			return
		}
		switch a := x.X.(type) {
		case *ssa.FieldAddr:
			T, F := fieldOf(a.X.Type(), a.Field)
			if F == "ID" {
				leaves[T+".ID"] = true
				return
			}
			// a counter kept in a field of a module struct (an id allocator object): classify
			// everything that is ever stored into that field
			if idProg != nil && typeInModule(a.X.Type()) && !idFieldSeen[T+"."+F] {
				idFieldSeen[T+"."+F] = true
				n := 0
				for g := range idProg.AllFns {
					if !fnInModule(g) || g.Blocks == nil {
						continue
					}
					for _, b := range g.Blocks {
						for _, ins := range b.Instrs {
							st, ok := ins.(*ssa.Store)
							if !ok {
								continue
							}
							if fa2, ok := st.Addr.(*ssa.FieldAddr); ok {
								if t2, f2 := fieldOf(fa2.X.Type(), fa2.Field); t2 == T && f2 == F {
									n++
									classifyIDValue(st.Val, g, leaves, seen, depth+1)
								}
							}
						}
					}
				}
				if n > 0 {
					return
				}
			}
			if idFieldSeen[T+"."+F] {
				return // already being classified (the field is incremented from itself)
			}
			leaves["?field "+T+"."+F] = true
		case *ssa.Alloc, *ssa.FreeVar:
			// a local variable cell (possibly captured): follow every store to it
			cell, owner := resolveCell(a.(ssa.Value))
			if cell == nil {
				leaves["?cell"] = true
				return
			}
			n := 0
			forEachFuncAndAnon(owner, func(g *ssa.Function) {
				for _, b := range g.Blocks {
					for _, ins := range b.Instrs {
						if st, ok := ins.(*ssa.Store); ok {
							if cc, _ := resolveCell(st.Addr); cc == cell {
								n++
								classifyIDValue(st.Val, g, leaves, seen, depth+1)
							}
						}
					}
				}
			})
			if n == 0 {
				leaves["const"] = true // zero value
			}
		default:
			leaves["?load "+describeValue(x.X)] = true
		}
	case *ssa.Parameter:
		// a counter handed in by value: look at every call site.  When the call sits in a loop
		// and the argument is computed outside it, every iteration starts from the same value
		// and the ids handed out by earlier iterations are given out again.
		idx := -1
		for i, pr := range fn.Params {
			if pr == x {
				idx = i
			}
		}
		sites := 0
		if idProg != nil && idx >= 0 {
			for g := range idProg.AllFns {
				if !fnInModule(g) {
					continue
				}
				for _, b := range g.Blocks {
					for _, ins := range b.Instrs {
						call, ok := ins.(ssa.CallInstruction)
						if !ok || call.Common().StaticCallee() != fn || idx >= len(call.Common().Args) {
							continue
						}
						sites++
						arg := call.Common().Args[idx]
						if staleInLoop(arg, b) {
							leaves["stale counter "+x.Name()+" (passed by value from "+fnName(g)+" inside a loop, computed outside it)"] = true
							continue
						}
						classifyIDValue(arg, g, leaves, seen, depth+1)
					}
				}
			}
		}
		if sites == 0 {
			leaves["?param "+x.Name()] = true
		}
	default:
		leaves["?"+describeValue(v)] = true
	}
}

var idProg *Program

// staleInLoop: the block b lies in a loop and v is defined outside that loop.
func staleInLoop(v ssa.Value, b *ssa.BasicBlock) bool {
	var def *ssa.BasicBlock
	if ins, ok := v.(ssa.Instruction); ok {
		def = ins.Block()
	}
	for d := b; d != nil; d = d.Idom() {
		isHdr := false
		for _, pred := range d.Preds {
			if d.Dominates(pred) {
				isHdr = true
			}
		}
		if !isHdr {
			continue
		}
		loop := naturalLoop(d)
		if !loop[b] {
			continue
		}
		if def == nil || !loop[def] {
			return true
		}
	}
	return false
}

// resolveCell maps an address value to the Alloc it denotes, following closure bindings.
func resolveCell(a ssa.Value) (*ssa.Alloc, *ssa.Function) {
	switch x := a.(type) {
	case *ssa.Alloc:
		return x, x.Parent()
	case *ssa.FreeVar:
		fn := x.Parent()
		idx := -1
		for i, fv := range fn.FreeVars {
			if fv == x {
				idx = i
			}
		}
		par := fn.Parent()
		if par == nil || idx < 0 {
			return nil, nil
		}
		var res *ssa.Alloc
		var owner *ssa.Function
		forEachFuncAndAnon(par, func(g *ssa.Function) {
			for _, b := range g.Blocks {
				for _, ins := range b.Instrs {
					if mc, ok := ins.(*ssa.MakeClosure); ok && mc.Fn == fn && idx < len(mc.Bindings) {
						if r, o := resolveCell(mc.Bindings[idx]); r != nil {
							res, owner = r, o
						}
					}
				}
			}
		})
		return res, owner
	}
	return nil, nil
}

func forEachFuncAndAnon(f *ssa.Function, visit func(*ssa.Function)) {
	if f == nil {
		return
	}
	visit(f)
	for _, a := range f.AnonFuncs {
		forEachFuncAndAnon(a, visit)
	}
}

func describeValue(v ssa.Value) string {
	switch x := v.(type) {
	case *ssa.UnOp:
		if x.Op == token.MUL {
			if fa, ok := x.X.(*ssa.FieldAddr); ok {
				T, F := fieldOf(fa.X.Type(), fa.Field)
				return T + "." + F
			}
			return "*" + describeValue(x.X)
		}
	case *ssa.FieldAddr:
		T, F := fieldOf(x.X.Type(), x.Field)
		return "&" + T + "." + F
	case *ssa.Parameter:
		return "param " + x.Name()
	case *ssa.Const:
		return x.String()
	case *ssa.Slice:
		return describeValue(x.X) + "[:]"
	case *ssa.Call:
		return "call " + x.Call.Value.Name()
	case *ssa.FreeVar:
		return "captured " + x.Name()
	case *ssa.Alloc:
		return "local " + x.Comment
	case *ssa.IndexAddr:
		return "&" + describeValue(x.X) + "[…]"
	case *ssa.Extract:
		return describeValue(x.Tuple) + fmt.Sprintf("#%d", x.Index)
	case *ssa.Phi:
		if x.Comment != "" {
			return "var " + x.Comment
		}
	case *ssa.MakeSlice:
		return "make"
	case *ssa.Lookup:
		return describeValue(x.X) + "[…]"
	}
	return fmt.Sprintf("%T", v)
}

// demangleNames (R4): every store to Function.Name in Demangle / demangleSingleFunction
// stores (a) a load of SystemName guarded by SystemName != "", (b) a demangle.Filter
// result on the branch where it differs from its (non-empty by guard) input, or (c) a
// value derived from SystemName by removeMatching.  What can be decided structurally:
// a literal empty string (or any constant) is never stored.
func (c *Check) demangleNames() {
	for _, name := range []string{"Demangle", "demangleSingleFunction"} {
		f := c.anchorFn("C12-R4", "internal/symbolizer", name)
		if f == nil {
			continue
		}
		for _, b := range f.Blocks {
			for _, ins := range b.Instrs {
				st, ok := ins.(*ssa.Store)
				if !ok {
					continue
				}
				fa, ok := st.Addr.(*ssa.FieldAddr)
				if !ok {
					continue
				}
				T, F := fieldOf(fa.X.Type(), fa.Field)
				if T != "profile.Function" || F != "Name" {
					continue
				}
				key := "name:" + name + ":" + describeValue(st.Val)
				if _, isConst := st.Val.(*ssa.Const); isConst {
					c.bad("C12-R4", key, c.P.relFile(st.Pos()), "a constant string is stored into Function.Name in "+name)
					continue
				}
				// the stored value must be known non-empty at the store
				why := nonEmptyAtStore(f, st)
				if why != "" {
					c.ok("C12-R4", key, c.P.relFile(st.Pos()), "Function.Name assigned in "+name, why)
				} else {
					c.bad("C12-R4", key, c.P.relFile(st.Pos()), "Function.Name is assigned "+describeValue(st.Val)+" in "+name+" without a test that it is non-empty: simplifying a name that consists only of a bracketed group (\"<lambda>\") yields the empty string, which replaces the non-empty name")
				}
			}
		}
	}
	c.Floor("C12-R4", 3)
}

// naturalLoop: the blocks of the natural loop with header hdr (hdr included).
func naturalLoop(hdr *ssa.BasicBlock) map[*ssa.BasicBlock]bool {
	body := map[*ssa.BasicBlock]bool{hdr: true}
	var work []*ssa.BasicBlock
	for _, pred := range hdr.Preds {
		if hdr.Dominates(pred) {
			work = append(work, pred)
		}
	}
	for len(work) > 0 {
		x := work[len(work)-1]
		work = work[:len(work)-1]
		if body[x] {
			continue
		}
		body[x] = true
		work = append(work, x.Preds...)
	}
	return body
}

// nonEmptyAtStore: why the value stored into Function.Name cannot be "" (or "" if unknown).
func nonEmptyAtStore(f *ssa.Function, st *ssa.Store) string {
	v := st.Val
	// (a) v is fn.SystemName and SystemName != "" was tested on the way
	if isFieldLoad(v, "profile.Function", "SystemName") {
		reach := reachUnder(f, func(cond ssa.Value) int { return strFieldEmptyCond(cond, "SystemName") })
		if !reach[st.Block()] {
			return "the value is SystemName and the store is unreachable when SystemName is empty"
		}
	}
	// (b) a demangle.Filter result stored only when it differs from its input (non-empty input gives non-empty output; an empty input equals its output)
	if call, ok := v.(*ssa.Call); ok && call.Call.StaticCallee() != nil && call.Call.StaticCallee().Name() == "Filter" {
		for d := st.Block(); d != nil; d = d.Idom() {
			id := d.Idom()
			if id == nil {
				break
			}
			if iff, ok := id.Instrs[len(id.Instrs)-1].(*ssa.If); ok {
				if cmp, ok := iff.Cond.(*ssa.BinOp); ok && cmp.Op == token.NEQ && (cmp.X == v || cmp.Y == v) {
					return "a demangle.Filter result, stored only when it differs from the mangled input"
				}
			}
		}
	}
	// (b') the same through a helper returning (Filter(name, …), result != name), stored on
	// the branch where the flag is true
	if ex, ok := v.(*ssa.Extract); ok && ex.Index == 0 {
		if call, ok := ex.Tuple.(*ssa.Call); ok && call.Call.StaticCallee() != nil && fnInModule(call.Call.StaticCallee()) && len(call.Call.StaticCallee().Blocks) > 0 {
			h := call.Call.StaticCallee()
			shape := true
			nret := 0
			for _, b := range h.Blocks {
				ret, ok := b.Instrs[len(b.Instrs)-1].(*ssa.Return)
				if !ok {
					continue
				}
				nret++
				if len(ret.Results) != 2 {
					shape = false
					continue
				}
				fc, isCall := ret.Results[0].(*ssa.Call)
				cmp, isCmp := ret.Results[1].(*ssa.BinOp)
				if !isCall || fc.Call.StaticCallee() == nil || fc.Call.StaticCallee().Name() != "Filter" || !isCmp || cmp.Op != token.NEQ || !(cmp.X == ssa.Value(fc) || cmp.Y == ssa.Value(fc)) {
					shape = false
				}
			}
			if shape && nret > 0 {
				for d := st.Block(); d != nil; d = d.Idom() {
					id := d.Idom()
					if id == nil {
						break
					}
					if iff, ok := id.Instrs[len(id.Instrs)-1].(*ssa.If); ok && id.Succs[0] == d && len(d.Preds) == 1 {
						if fl, ok := iff.Cond.(*ssa.Extract); ok && fl.Tuple == ex.Tuple && fl.Index == 1 {
							return "a demangle.Filter result (through " + fnName(h) + "), stored only when it differs from the mangled input"
						}
					}
				}
			}
		}
	}
	// (c) any value under a dominating test v != "" (or len(v) != 0)
	for d := st.Block(); d != nil; d = d.Idom() {
		id := d.Idom()
		if id == nil {
			break
		}
		iff, ok := id.Instrs[len(id.Instrs)-1].(*ssa.If)
		if !ok {
			continue
		}
		cmp, ok := iff.Cond.(*ssa.BinOp)
		if !ok {
			continue
		}
		var other ssa.Value
		if cmp.X == v {
			other = cmp.Y
		} else if cmp.Y == v {
			other = cmp.X
		}
		if s, isStr := constString2(other); other != nil && isStr && s == "" {
			onTrue := id.Succs[0] == d || id.Succs[0].Dominates(d)
			onFalse := id.Succs[1] == d || id.Succs[1].Dominates(d)
			if cmp.Op == token.NEQ && onTrue && !onFalse || cmp.Op == token.EQL && onFalse && !onTrue {
				return "the store is on the branch where the value was tested to be non-empty"
			}
		}
	}
	// early exit form: if v == "" { return }
	reach := reachUnder(f, func(cond ssa.Value) int {
		if cmp, ok := cond.(*ssa.BinOp); ok && (cmp.X == v || cmp.Y == v) {
			var other ssa.Value = cmp.Y
			if cmp.Y == v {
				other = cmp.X
			}
			if s, isStr := constString2(other); isStr && s == "" {
				if cmp.Op == token.EQL {
					return 1
				}
				if cmp.Op == token.NEQ {
					return -1
				}
			}
		}
		return 0
	})
	if !reach[st.Block()] {
		return "the store is unreachable when the value is empty"
	}
	return ""
}

// appendsFeeding: the append calls whose result flows into v through phis and re-appends.
func appendsFeeding(v ssa.Value, seen map[ssa.Value]bool) []*ssa.Call {
	if seen[v] {
		return nil
	}
	seen[v] = true
	switch x := v.(type) {
	case *ssa.Phi:
		var out []*ssa.Call
		for _, e := range x.Edges {
			out = append(out, appendsFeeding(e, seen)...)
		}
		return out
	case *ssa.Call:
		if bi, ok := x.Call.Value.(*ssa.Builtin); ok && bi.Name() == "append" {
			return append([]*ssa.Call{x}, appendsFeeding(x.Call.Args[0], seen)...)
		}
	}
	return nil
}

// appendedAtLeastOnce: v is grown by an append that cannot be skipped within an iteration of
// a range loop over a list whose length is known to be at least 1 where the loop starts.
func appendedAtLeastOnce(g *guardEngine, f *ssa.Function, v ssa.Value) bool {
	for _, app := range appendsFeeding(v, map[ssa.Value]bool{}) {
		b := app.Block()
		if skippableInIteration(b) {
			continue
		}
		// the innermost loop containing the append and the list it ranges over
		for d := b; d != nil; d = d.Idom() {
			isHdr := false
			for _, pred := range d.Preds {
				if d.Dominates(pred) {
					isHdr = true
				}
			}
			if !isHdr || !naturalLoop(d)[b] {
				continue
			}
			for _, ins := range d.Instrs {
				cmp, ok := ins.(*ssa.BinOp)
				if !ok || cmp.Op != token.LSS || !rangeIndex(cmp.X) {
					continue
				}
				if lx := lenArg(cmp.Y); lx != nil {
					if g.guardedMin(guardSite{fn: f, ins: d.Instrs[0], x: lx}, lx) >= 1 {
						return true
					}
				}
			}
			break
		}
	}
	return false
}

// idFieldSeen: counter fields already expanded by the current classifyIDValue run.
var idFieldSeen = map[string]bool{}

// typeInModule: t is (a pointer to) a named type declared in the module.
func typeInModule(t types.Type) bool {
	if pt, ok := t.Underlying().(*types.Pointer); ok {
		t = pt.Elem()
	}
	named, ok := t.(*types.Named)
	return ok && named.Obj().Pkg() != nil && inModule(named.Obj().Pkg().Path())
}

// classifierAssume: the condition compares the result of a classifying helper (a module
// function that receives the mapping and the force flag and returns a constant per case)
// with a constant; decided from the constants the helper can return when force is false and
// the mapping's flag is set.
func classifierAssume(cond ssa.Value, force ssa.Value, mv ssa.Value, flag string) int {
	cmp, ok := cond.(*ssa.BinOp)
	if !ok || (cmp.Op != token.EQL && cmp.Op != token.NEQ) {
		return 0
	}
	var call *ssa.Call
	var k int64
	var isK bool
	if c1, ok := cmp.X.(*ssa.Call); ok {
		call = c1
		k, isK = constInt(cmp.Y)
	} else if c2, ok := cmp.Y.(*ssa.Call); ok {
		call = c2
		k, isK = constInt(cmp.X)
	}
	if call == nil || !isK {
		return 0
	}
	h := call.Call.StaticCallee()
	if h == nil || !fnInModule(h) || len(h.Blocks) == 0 || len(h.Params) != len(call.Call.Args) {
		return 0
	}
	var hf, hm ssa.Value
	for i, a := range call.Call.Args {
		if a == force {
			hf = h.Params[i]
		}
		if a == mv {
			hm = h.Params[i]
		}
	}
	if hf == nil || hm == nil {
		return 0
	}
	possible := map[int64]bool{}
	known := true
	// (conditions joined by && / || inside a tag-less switch arrive as merges of constants and
	// sub-conditions: reachUnderEval evaluates those over the live edges)
	reach, _ := reachUnderEval(h, func(cond ssa.Value) int { return condAssume(cond, hf, hm, flag) })
	for _, b := range h.Blocks {
		if !reach[b] {
			continue
		}
		last, ok := b.Instrs[len(b.Instrs)-1].(*ssa.Return)
		if !ok {
			continue
		}
		if len(last.Results) != 1 {
			known = false
			continue
		}
		var vals []ssa.Value
		if ph, isPhi := last.Results[0].(*ssa.Phi); isPhi {
			for i, e := range ph.Edges {
				if reach[ph.Block().Preds[i]] {
					vals = append(vals, e)
				}
			}
		} else {
			vals = []ssa.Value{last.Results[0]}
		}
		for _, v := range vals {
			if n, ok := constInt(v); ok {
				possible[n] = true
			} else {
				known = false
			}
		}
	}
	if os.Getenv("DEBUG_CL") != "" {
		fmt.Println("DEBUG_CL", flag, known, possible, k)
	}
	if !known || len(possible) == 0 {
		return 0
	}
	eq := 0
	if !possible[k] {
		eq = -1
	} else if len(possible) == 1 {
		eq = 1
	}
	if cmp.Op == token.NEQ {
		return -eq
	}
	return eq
}
