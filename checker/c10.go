package main

import (
	"fmt"
	"go/token"
	"go/types"
	"sort"
	"strings"

	"golang.org/x/tools/go/ssa"
)

func init() { register("C10", true, runC10) }

func runC10(c *Check) {
	c.Explanation = "Decides the ownership clauses of C10 for every history and interleaving of commands/requests: the session's original profile (interactive's p, serveWebInterface's p, webInterface.prof, the /download closure's p) only ever reaches functions whose whole call tree has an empty observable mod-set on the profile data model, and is never written directly (R1); every profile handed to a report generator that may mutate it (generateReport, generateRawReport, generateReportWrapper) is the direct result of profileCopier.newCopy() or is dead after the call (PProf's one-shot path) (R2); the process-wide option store currentCfg is referenced only by currentConfig (read), setCurrentConfig and configure (write), the writers are unreachable from parseCommandLine, the report generators and every web handler, per-command options are written into a value copy (config has no pointer, slice or map field, so the copy is deep), and (*config).set/applyURL are only applied to local copies outside configure (R3). Also: no package-level state is written on a report-generation path outside two reviewed registries (R5); the default Writer truncates its output file (R6). Round-I additions: package-level sync.Map/Pool/atomic state counts as hidden session state; (*config).set stores a parsed value only after its error was found nil; lazily initialised handler state is touched only inside its sync.Once (shared with C20-R1). Not decided: that equal options give equal output (C08), external visualizers."
	p := c.P
	m := newModAnalyzer(p)
	tracked := p.structsOf("profile", "Profile", "Sample", "Location", "Line", "Function", "Mapping", "ValueType", "Label")
	exported := func(f string) bool { return f != "" && f[0] >= 'A' && f[0] <= 'Z' }

	// ---- R1: pristine sources and their uses
	type source struct {
		v    ssa.Value
		fn   *ssa.Function
		what string
	}
	var sources []source
	addParam := func(fname string, idx int) {
		f := c.anchorFn("C10-R1", "internal/driver", fname)
		if f == nil {
			return
		}
		if idx >= len(f.Params) || structName(f.Params[idx].Type()) != "profile.Profile" {
			c.undecided("C10-R1", "anchor:"+fname+".p", "", fmt.Sprintf("parameter %d of %s is not a *profile.Profile", idx, fname))
			return
		}
		sources = append(sources, source{f.Params[idx], f, "parameter " + f.Params[idx].Name() + " of " + fname})
	}
	addParam("interactive", 0)
	addParam("serveWebInterface", 1)
	addParam("makeWebInterface", 0)
	forAllPkgFuncs(p, "internal/driver", func(f *ssa.Function) {
		for _, b := range f.Blocks {
			for _, ins := range b.Instrs {
				if ld, ok := ins.(*ssa.UnOp); ok && isFieldLoad(ld, "driver.webInterface", "prof") {
					sources = append(sources, source{ld, f, "webInterface.prof read in " + fnName(f)})
				}
			}
		}
	})
	if len(sources) < 4 {
		c.undecided("C10-R1", "sources", "", fmt.Sprintf("only %d pristine-profile sources found", len(sources)))
	}
	// memo of callee frame verdicts
	calleeVerdict := map[*ssa.Function]string{}
	calleeTree := func(callee *ssa.Function) string {
		if v, ok := calleeVerdict[callee]; ok {
			return v
		}
		effects, parent, nfn := m.ModSet([]*ssa.Function{callee}, nil)
		verdict := fmt.Sprintf("ok:%d", nfn)
		for _, e := range effects {
			if e.Root == rFresh || !strings.HasPrefix(e.T, "profile.") || !exported(e.F) && e.F != "*" {
				continue
			}
			isTracked := false
			for _, t := range tracked {
				if typeShort(t) == e.T {
					isTracked = true
				}
			}
			if !isTracked {
				continue
			}
			verdict = fmt.Sprintf("%s is written (%s) in %s at %s via %s", e.Target(), e.What, fnName(e.Fn), p.relFile(e.Pos), callPath(parent, e.Fn))
			break
		}
		calleeVerdict[callee] = verdict
		return verdict
	}
	seenVal := map[ssa.Value]bool{}
	var follow func(v ssa.Value, fn *ssa.Function, what string)
	follow = func(v ssa.Value, fn *ssa.Function, what string) {
		if seenVal[v] || v.Referrers() == nil {
			return
		}
		seenVal[v] = true
		for _, r := range *v.Referrers() {
			switch x := r.(type) {
			case *ssa.DebugRef:
			case *ssa.Phi:
				follow(x, fn, what)
			case *ssa.ChangeType:
				follow(x, fn, what)
			case *ssa.MakeInterface:
				follow(x, fn, what)
			case *ssa.FieldAddr, *ssa.BinOp:
				// reads and nil comparisons; writes through the profile show up as direct effects below
			case *ssa.UnOp:
			case *ssa.Store:
				if x.Val != v {
					continue
				}
				// storing the pristine pointer: only into webInterface.prof, or into a local cell
				if fa, ok := x.Addr.(*ssa.FieldAddr); ok {
					if T, F := fieldOf(fa.X.Type(), fa.Field); T == "driver.webInterface" && F == "prof" {
						c.ok("C10-R1", "store:"+fnName(fn)+":webInterface.prof", p.relFile(x.Pos()), what+" is kept in webInterface.prof", "every read of that field is itself a tracked pristine source")
						continue
					}
				}
				if vals, ok := cellValues(x.Addr); ok && len(vals) > 0 {
					// a local variable; find its loads
					cell, owner := resolveCell(x.Addr)
					forEachFuncAndAnon(owner, func(g *ssa.Function) {
						for _, b := range g.Blocks {
							for _, ins := range b.Instrs {
								if ld, ok := ins.(*ssa.UnOp); ok && ld.Op == token.MUL {
									if cc, _ := resolveCell(ld.X); cc == cell {
										follow(ld, g, what)
									}
								}
							}
						}
					})
					continue
				}
				c.undecided("C10-R1", "store:"+fnName(fn)+":"+describeValue(x.Addr), p.relFile(x.Pos()), what+" is stored into "+describeValue(x.Addr)+"; its later uses are not tracked")
			case *ssa.MakeClosure:
				cl := x.Fn.(*ssa.Function)
				for i, b := range x.Bindings {
					if b == v && i < len(cl.FreeVars) {
						follow(cl.FreeVars[i], cl, what+" captured by "+fnName(cl))
					}
				}
			case *ssa.Return:
				c.undecided("C10-R1", "return:"+fnName(fn), p.relFile(x.Pos()), what+" is returned from "+fnName(fn))
			case ssa.CallInstruction:
				cc := x.Common()
				var callees []*ssa.Function
				if sc := cc.StaticCallee(); sc != nil {
					callees = []*ssa.Function{sc}
				} else {
					callees = dynCallees(p.CG(), fn, x)
				}
				if len(callees) == 0 {
					c.undecided("C10-R1", "call:"+fnName(fn)+":unresolved", p.relFile(x.Pos()), what+" is passed to a call with no resolved callee")
				}
				for _, callee := range callees {
					key := "use:" + fnName(fn) + "→" + fnName(callee)
					if !fnInModule(callee) {
						c.undecided("C10-R1", key, p.relFile(x.Pos()), what+" is handed to non-module function "+callee.String())
						continue
					}
					if verdict := calleeTree(callee); strings.HasPrefix(verdict, "ok:") {
						c.ok("C10-R1", key, p.relFile(x.Pos()), what+" is passed to "+fnName(callee), "empty observable profile mod-set over the "+strings.TrimPrefix(verdict, "ok:")+" module functions reachable from it")
					} else {
						c.bad("C10-R1", key, p.relFile(x.Pos()), what+" is passed to "+fnName(callee)+", which may modify it: "+verdict)
					}
				}
			default:
				c.undecided("C10-R1", fmt.Sprintf("use:%s:%T", fnName(fn), r), p.relFile(r.Pos()), fmt.Sprintf("%s has an unclassified use (%T)", what, r))
			}
		}
	}
	holders := map[*ssa.Function]bool{}
	for _, s := range sources {
		follow(s.v, s.fn, s.what)
		holders[s.fn] = true
	}
	// direct writes through the pristine pointer inside the holder functions themselves
	for f := range holders {
		forEachFuncAndAnon(f, func(g *ssa.Function) {
			n := 0
			for _, e := range m.direct(g) {
				if e.Root == rFresh || !strings.HasPrefix(e.T, "profile.") {
					continue
				}
				n++
				c.bad("C10-R1", "direct:"+fnName(g)+":"+e.Target(), p.relFile(e.Pos), fmt.Sprintf("%s writes %s (%s) while holding the session's original profile", fnName(g), e.Target(), e.What))
			}
			if n == 0 {
				c.ok("C10-R1", "direct:"+fnName(g), "", fnName(g)+" holds the original profile", "no direct store to any profile field in its body")
			}
		})
	}
	c.Floor("C10-R1", 15)

	// ---- R2: mutating generators receive a fresh copy
	gens := map[string]bool{"generateReport": true, "generateRawReport": true}
	wrapper := p.SSAPkg("internal/driver").Var("generateReportWrapper")
	n2 := 0
	forAllPkgFuncs(p, "internal/driver", func(f *ssa.Function) {
		if gens[f.Name()] && f.Parent() == nil {
			// generateReport forwarding its own parameter to generateRawReport
		}
		for _, b := range f.Blocks {
			for _, ins := range b.Instrs {
				call, ok := ins.(ssa.CallInstruction)
				if !ok {
					continue
				}
				cc := call.Common()
				name := ""
				if sc := cc.StaticCallee(); sc != nil && gens[sc.Name()] && fnPkgPath(sc) == modPath+"/internal/driver" {
					name = sc.Name()
				} else if ld, ok := cc.Value.(*ssa.UnOp); ok && wrapper != nil && ld.X == wrapper {
					name = "generateReportWrapper"
				}
				if name == "" || len(cc.Args) == 0 {
					continue
				}
				n2++
				arg := cc.Args[0]
				key := "fresh:" + fnName(f) + "→" + name
				switch {
				case isNewCopy(arg):
					c.ok("C10-R2", key, p.relFile(call.Pos()), name+" called from "+fnName(f), "argument is the direct result of profileCopier.newCopy()")
				case gens[f.Name()] && isOwnParam(arg, f):
					c.ok("C10-R2", key, p.relFile(call.Pos()), name+" called from "+fnName(f), "forwards its own profile parameter, which callers must supply fresh (checked at those call sites)")
				case deadAfter(arg, call):
					c.ok("C10-R2", key, p.relFile(call.Pos()), name+" called from "+fnName(f), "one-shot path: no use of the profile is reachable after the call")
				default:
					c.bad("C10-R2", key, p.relFile(call.Pos()), fmt.Sprintf("%s receives %s in %s: not a fresh copy, and the value is used again afterwards", name, describeValue(arg), fnName(f)))
				}
			}
		}
	})
	if n2 < 4 {
		c.undecided("C10-R2", "sites", "", fmt.Sprintf("only %d generator call sites found (expected PProf, interactive, makeReport, generateReport)", n2))
	}
	// newCopy really parses from the serialized bytes
	if nc := c.anchorFn("C10-R2", "internal/driver", "profileCopier.newCopy"); nc != nil {
		// every value it returns is the profile handed back by profile.Parse*, directly or
		// through a helper of the package that does the decoding
		var fromParse func(v ssa.Value, depth int) bool
		fromParse = func(v ssa.Value, depth int) bool {
			if depth > 3 {
				return false
			}
			switch x := v.(type) {
			case *ssa.Extract:
				return fromParse(x.Tuple, depth)
			case *ssa.Phi:
				for _, e := range x.Edges {
					if !fromParse(e, depth+1) {
						return false
					}
				}
				return len(x.Edges) > 0
			case *ssa.Call:
				sc := x.Call.StaticCallee()
				if sc == nil {
					return false
				}
				if strings.HasPrefix(sc.Name(), "Parse") && fnPkgPath(sc) == modPath+"/profile" {
					return true
				}
				if fnPkgPath(sc) == fnPkgPath(nc) && len(sc.Blocks) > 0 {
					n := 0
					for _, b := range sc.Blocks {
						if ret, isRet := b.Instrs[len(b.Instrs)-1].(*ssa.Return); isRet && len(ret.Results) >= 1 {
							n++
							if !fromParse(ret.Results[0], depth+1) {
								return false
							}
						}
					}
					return n > 0
				}
			}
			return false
		}
		ok := false
		nret := 0
		for _, b := range nc.Blocks {
			if ret, isRet := b.Instrs[len(b.Instrs)-1].(*ssa.Return); isRet && len(ret.Results) == 1 {
				nret++
				ok = fromParse(ret.Results[0], 0) && (ok || nret == 1)
			}
		}
		if ok {
			c.ok("C10-R2", "newCopy", p.relFile(nc.Pos()), "profileCopier.newCopy returns a freshly parsed profile", "its only result is the profile returned by profile.Parse* on the copier's bytes")
		} else {
			c.bad("C10-R2", "newCopy", p.relFile(nc.Pos()), "profileCopier.newCopy does not return the result of profile.Parse*")
		}
	}

	c.optionStore()
	c.perRequestState("C10-R4")
	c.sharedTablesReadOnly()
	c.noHiddenSessionState()
	c.outputFileTruncated()
	c.parsedBeforeStored()
	c.lineValuesNotCarried()
	// an option assignment is one critical section of the store's mutex (shared with C20-R4)
	c.relabel(c.snapshotPublish, "C20-R4", "C10-R9", nil)
	// a request's page does not depend on the requests running beside it: state that the web
	// handlers initialise lazily is only touched inside its sync.Once (shared with C20-R1)
	c.relabel(c.onceFields, "C20-R1", "C10-R8", func(o *Obligation) bool {
		return strings.HasPrefix(o.Key, "once:") && strings.HasPrefix(o.Pos, "internal/driver/")
	})
}

func isNewCopy(v ssa.Value) bool {
	call, ok := v.(*ssa.Call)
	if !ok {
		return false
	}
	sc := call.Call.StaticCallee()
	return sc != nil && sc.Name() == "newCopy" && fnPkgPath(sc) == modPath+"/internal/driver"
}

func isOwnParam(v ssa.Value, f *ssa.Function) bool {
	for _, p := range f.Params {
		if p == v {
			return true
		}
	}
	return false
}

// deadAfter: no instruction reachable after call uses v.
func deadAfter(v ssa.Value, call ssa.CallInstruction) bool {
	if v.Referrers() == nil {
		return false
	}
	users := map[ssa.Instruction]bool{}
	for _, r := range *v.Referrers() {
		if r != call.(ssa.Instruction) {
			users[r] = true
		}
	}
	b := call.Block()
	idx := instrIndex(call.(ssa.Instruction))
	for _, ins := range b.Instrs[idx+1:] {
		if users[ins] {
			return false
		}
	}
	seen := map[*ssa.BasicBlock]bool{}
	var walk func(bb *ssa.BasicBlock) bool
	walk = func(bb *ssa.BasicBlock) bool {
		if seen[bb] {
			return true
		}
		seen[bb] = true
		for _, ins := range bb.Instrs {
			if users[ins] {
				return false
			}
		}
		for _, s := range bb.Succs {
			if !walk(s) {
				return false
			}
		}
		return true
	}
	for _, s := range b.Succs {
		if !walk(s) {
			return false
		}
	}
	return true
}

// optionStore (R3)
func (c *Check) optionStore() {
	p := c.P
	sp := p.SSAPkg("internal/driver")
	store := findOptionStore(p)
	if store == nil {
		c.undecided("C10-R3", "anchor:currentCfg", "", "the persistent option store of package driver (a package-level config, or a struct holding a config and its mutex) was not found")
		return
	}
	g := store.global
	allowedRefs := map[string]string{"currentConfig": "read", "setCurrentConfig": "write", "configure": "write", "init": "init"}
	for _, r := range globalRefs(p, g) {
		f := r.Parent()
		key := "ref:" + fnName(f)
		if role, ok := allowedRefs[f.Name()]; ok && f.Parent() == nil {
			c.ok("C10-R3", key, p.relFile(r.Pos()), "currentCfg referenced in "+fnName(f), "listed accessor ("+role+")")
		} else {
			c.bad("C10-R3", key, p.relFile(r.Pos()), "the option store currentCfg is accessed directly in "+fnName(f)+", outside currentConfig/setCurrentConfig/configure")
		}
	}
	// writers unreachable from per-command / per-request code
	writers := map[*ssa.Function]bool{}
	for _, n := range []string{"setCurrentConfig", "configure"} {
		if f := c.anchorFn("C10-R3", "internal/driver", n); f != nil {
			writers[f] = true
		}
	}
	var roots []*ssa.Function
	for _, n := range []string{"parseCommandLine", "generateReport", "generateRawReport"} {
		if f := c.anchorFn("C10-R3", "internal/driver", n); f != nil {
			roots = append(roots, f)
		}
	}
	// every method of the web interface (the request handlers and what they are built from),
	// with the function literals they create
	nWeb := 0
	forAllPkgFuncs(p, "internal/driver", func(f *ssa.Function) {
		if f.Parent() == nil && f.Signature.Recv() != nil && structName(f.Signature.Recv().Type()) == "driver.webInterface" && f.Synthetic == "" {
			roots = append(roots, f)
			nWeb++
			forEachFuncAndAnon(f, func(g *ssa.Function) {
				if g != f {
					roots = append(roots, g)
				}
			})
		}
	})
	if nWeb < 8 {
		c.undecided("C10-R3", "anchor:webInterface", "", fmt.Sprintf("only %d methods of webInterface found", nWeb))
	}
	if sw := c.anchorFn("C10-R3", "internal/driver", "serveWebInterface"); sw != nil {
		roots = append(roots, sw.AnonFuncs...)
	}
	for _, r := range roots {
		parent, _ := p.MG().Reach([]*ssa.Function{r}, nil)
		hit := ""
		for w := range writers {
			if _, ok := parent[w]; ok {
				hit = callPath(parent, w)
			}
		}
		key := "nowrite:" + fnName(r)
		if hit == "" {
			c.ok("C10-R3", key, "", fnName(r)+" cannot change persistent options", fmt.Sprintf("configure/setCurrentConfig not among the %d module functions reachable from it", len(parent)))
		} else {
			c.bad("C10-R3", key, p.relFile(r.Pos()), "a per-command/per-request path can change the persistent option store: "+hit)
		}
	}
	// config is deep-copied by assignment
	if tn := sp.Type("config"); tn != nil {
		st, _ := tn.Type().Underlying().(*types.Struct)
		for i := 0; st != nil && i < st.NumFields(); i++ {
			f := st.Field(i)
			key := "deepcopy:config." + f.Name()
			switch f.Type().Underlying().(type) {
			case *types.Basic:
				o := c.ok("C10-R3", key, "", "config."+f.Name()+" is copied by value", "basic type "+f.Type().String())
				o.Trivial = true
			default:
				c.bad("C10-R3", key, p.relFile(f.Pos()), "config."+f.Name()+" has reference type "+f.Type().String()+": a per-command copy of the options would share it with the persistent store")
			}
		}
	}
	// (*config).set / applyURL receivers
	forAllPkgFuncs(p, "internal/driver", func(f *ssa.Function) {
		for _, b := range f.Blocks {
			for _, ins := range b.Instrs {
				call, ok := ins.(ssa.CallInstruction)
				if !ok {
					continue
				}
				sc := call.Common().StaticCallee()
				if sc == nil || (sc.Name() != "set" && sc.Name() != "applyURL") || sc.Signature.Recv() == nil || structName(sc.Signature.Recv().Type()) != "driver.config" {
					continue
				}
				recv := call.Common().Args[0]
				key := "recv:" + fnName(f) + "→" + sc.Name()
				rk, _ := rootOf(recv, 0, map[ssa.Value]bool{})
				switch {
				case rk == rFresh:
					c.ok("C10-R3", key, p.relFile(call.Pos()), sc.Name()+" applied in "+fnName(f), "receiver is a local copy")
				case !store.direct && f.Signature.Recv() != nil && structName(f.Signature.Recv().Type()) == store.T && isStoreField(recv, store):
					c.ok("C10-R3", key, p.relFile(call.Pos()), sc.Name()+" applied to the option store in its own method "+fnName(f), "the designated writer, under the store's mutex (C20)")
				case rk == rGlobal && f.Name() == "configure":
					c.ok("C10-R3", key, p.relFile(call.Pos()), sc.Name()+" applied to the option store in configure", "the designated writer, under currentMu")
				case rk == rParam && f.Signature.Recv() != nil && structName(f.Signature.Recv().Type()) == "driver.config":
					c.ok("C10-R3", key, p.relFile(call.Pos()), sc.Name()+" applied in "+fnName(f), "receiver is the method's own receiver (checked at its call sites)")
				case rk == rParam && configParamOK(p, f, recv, 0):
					c.ok("C10-R3", key, p.relFile(call.Pos()), sc.Name()+" applied in "+fnName(f)+" to a config handed in by its callers", "every call site passes a local copy, or the option store from configure (the designated writer, under currentMu)")
				default:
					c.bad("C10-R3", key, p.relFile(call.Pos()), fmt.Sprintf("%s is applied to a %s-rooted config in %s", sc.Name(), rk, fnName(f)))
				}
			}
		}
	})
	c.Floor("C10-R3", 40)
}

// globalRefs lists the instructions of module functions that use global g as an operand.
func globalRefs(p *Program, g *ssa.Global) []ssa.Instruction {
	var out []ssa.Instruction
	var fns []*ssa.Function
	for f := range p.AllFns {
		if f.Blocks != nil && fnInModule(f) {
			fns = append(fns, f)
		}
	}
	sortFns(fns)
	for _, f := range fns {
		for _, b := range f.Blocks {
			for _, ins := range b.Instrs {
				var ops []*ssa.Value
				for _, op := range ins.Operands(ops) {
					if op != nil && *op == ssa.Value(g) {
						out = append(out, ins)
						break
					}
				}
			}
		}
	}
	return out
}

// configParamOK: v is (rooted at) a parameter of f, and at every static call site of f the
// corresponding argument is a local copy of the configuration, the option store passed by
// configure, or again such a parameter of the caller.
func configParamOK(p *Program, f *ssa.Function, v ssa.Value, depth int) bool {
	if depth > 3 {
		return false
	}
	var par *ssa.Parameter
	for x := v; x != nil && par == nil; {
		switch y := x.(type) {
		case *ssa.Parameter:
			par = y
		case *ssa.FieldAddr:
			x = y.X
		case *ssa.UnOp:
			x = y.X
		default:
			x = nil
		}
	}
	if par == nil {
		return false
	}
	idx := -1
	for i, q := range f.Params {
		if q == par {
			idx = i
		}
	}
	if idx < 0 {
		return false
	}
	sites := 0
	for g := range p.AllFns {
		if !fnInModule(g) || g.Blocks == nil {
			continue
		}
		for _, b := range g.Blocks {
			for _, ins := range b.Instrs {
				var ops []*ssa.Value
				uses := false
				for _, op := range ins.Operands(ops) {
					if op != nil && *op == ssa.Value(f) {
						uses = true
					}
				}
				if !uses {
					continue
				}
				call, ok := ins.(ssa.CallInstruction)
				if !ok || call.Common().StaticCallee() != f || idx >= len(call.Common().Args) {
					return false // used as a value
				}
				sites++
				arg := call.Common().Args[idx]
				rk, _ := rootOf(arg, 0, map[ssa.Value]bool{})
				switch {
				case rk == rFresh:
				case rk == rGlobal && g.Name() == "configure":
				case rk == rParam && configParamOK(p, g, arg, depth+1):
				default:
					return false
				}
			}
		}
	}
	return sites > 0
}

// optStore describes where package driver keeps the persistent options: a package-level
// config guarded by a package-level mutex (global of type config), or a package-level struct
// that holds the config next to its mutex.
type optStore struct {
	global   *ssa.Global
	direct   bool   // the global itself is the config
	muGlobal string // direct: lock identity of the guarding mutex ("global:<name>")
	T        string // struct form: type name, e.g. "driver.configStore"
	cfgField string
	muField  string
}

func findOptionStore(p *Program) *optStore {
	sp := p.SSAPkg("internal/driver")
	if sp == nil {
		return nil
	}
	var names []string
	for n := range sp.Members {
		names = append(names, n)
	}
	sort.Strings(names)
	for _, n := range names {
		g, ok := sp.Members[n].(*ssa.Global)
		if !ok {
			continue
		}
		et := g.Type().(*types.Pointer).Elem()
		if structName(et) == "driver.config" {
			st := &optStore{global: g, direct: true}
			// the mutex: a package-level sync.Mutex held where the global is accessed
			for _, ins := range globalRefs(p, g) {
				for id := range heldAt(ins.Parent(), ins) {
					if strings.HasPrefix(id, "global:") {
						st.muGlobal = id
					}
				}
			}
			return st
		}
		if sty, ok := et.Underlying().(*types.Struct); ok {
			st := &optStore{global: g, T: structName(et)}
			for i := 0; i < sty.NumFields(); i++ {
				ft := sty.Field(i).Type()
				switch {
				case structName(ft) == "driver.config":
					st.cfgField = sty.Field(i).Name()
				case ft.String() == "sync.Mutex" || ft.String() == "sync.RWMutex":
					st.muField = sty.Field(i).Name()
				}
			}
			if st.cfgField != "" && st.muField != "" && st.T != "" {
				return st
			}
		}
	}
	return nil
}

// storeName: how reports call the store.
func (s *optStore) storeName() string {
	if s.direct {
		return s.global.Name()
	}
	return s.global.Name() + "." + s.cfgField
}

// isStoreField: v is the address of the config field of the store's receiver.
func isStoreField(v ssa.Value, s *optStore) bool {
	fa, ok := v.(*ssa.FieldAddr)
	if !ok {
		return false
	}
	T, F := fieldOf(fa.X.Type(), fa.Field)
	_, isParam := fa.X.(*ssa.Parameter)
	return isParam && T == s.T && F == s.cfgField
}
