package main

import (
	"fmt"
	"go/types"
	"strings"

	"golang.org/x/tools/go/ssa"
)

// Round L.  C17-R12: the stack set is a cross-referenced index (Places hold positions in
// Stacks, Stacks hold positions in Sources); it is consistent as built by package report.
// Nothing outside that package may store into a StackSet, Stack, StackSource or Place, or
// hand a slice of them to an in-place mutator (slices.Delete*, sort.*): removing or
// reordering entries after the index is built leaves the positions pointing elsewhere.
func (c *Check) c17IndexOwnedByReport() {
	p := c.P
	owned := func(t types.Type) string {
		for {
			switch x := t.(type) {
			case *types.Pointer:
				t = x.Elem()
				continue
			case *types.Slice:
				t = x.Elem()
				continue
			}
			break
		}
		n, ok := t.(*types.Named)
		if !ok || n.Obj().Pkg() == nil || !strings.HasSuffix(n.Obj().Pkg().Path(), "internal/report") {
			return ""
		}
		switch n.Obj().Name() {
		case "StackSet", "Stack", "StackSource", "StackSlot":
			return n.Obj().Name()
		}
		return ""
	}
	pkgOf := func(f *ssa.Function) string {
		for g := f; g != nil; g = g.Parent() {
			h := g
			if h.Origin() != nil {
				h = h.Origin()
			}
			if h.Pkg != nil {
				return h.Pkg.Pkg.Path()
			}
		}
		return ""
	}
	var fns []*ssa.Function
	for f := range p.AllFns {
		if f.Blocks != nil && fnInModule(f) && !strings.HasSuffix(pkgOf(f), "internal/report") {
			fns = append(fns, f)
		}
	}
	sortFns(fns)
	readers, nbad := 0, 0
	for _, f := range fns {
		touches := false
		for _, b := range f.Blocks {
			for _, ins := range b.Instrs {
				switch x := ins.(type) {
				case *ssa.Store:
					var base ssa.Value
					switch a := x.Addr.(type) {
					case *ssa.FieldAddr:
						base = a.X
					case *ssa.IndexAddr:
						base = a.X
					}
					if base == nil {
						continue
					}
					if n := owned(base.Type()); n != "" {
						touches = true
						nbad++
						c.bad("C17-R12", "index-owner:"+fnName(f), p.relFile(x.Pos()), fmt.Sprintf("%s stores into a report.%s after package report built the stack index: Places and Stacks refer to each other by position, so an entry changed, removed or moved here leaves the index inconsistent (out-of-range or wrong stack on the page)", fnName(f), n))
					}
				case *ssa.Call:
					g := x.Call.StaticCallee()
					if g == nil {
						continue
					}
					gp := pkgOf(g)
					if gp != "slices" && gp != "sort" {
						continue
					}
					for _, a := range x.Call.Args {
						if _, isSlice := a.Type().Underlying().(*types.Slice); isSlice && owned(a.Type()) != "" {
							touches = true
							nbad++
							c.bad("C17-R12", "index-owner:"+fnName(f), p.relFile(x.Pos()), fmt.Sprintf("%s passes a []report.%s to %s: reordering or deleting entries of the stack index outside package report invalidates the positions stored in Places", fnName(f), owned(a.Type()), g.Name()))
						}
					}
				}
				if v, ok := ins.(ssa.Value); ok && owned(v.Type()) != "" {
					touches = true
				}
			}
		}
		if touches {
			readers++
		}
	}
	if nbad == 0 {
		c.ok("C17-R12", "index-owner", "internal/report/stacks.go", fmt.Sprintf("%d functions outside package report handle the stack set", readers), "none of them stores into it or passes its slices to a slices/sort function")
	}
}
