package main

import (
	"fmt"
	"go/token"
	"go/types"
	"strings"

	"golang.org/x/tools/go/ssa"
)

func init() { register("C13", true, runC13) }

func runC13(c *Check) {
	c.Explanation = "The modular address arithmetic of C13 is out of static reach; decided are the structural conditions around it, for every layout: every error returned by the base computation chain (GetBase, HeaderForFileOffset, findProgramHeader, computeBase, elf.Open) is examined and the accompanying value is unused when it is non-nil (R1); the relocation base is only read after baseOnce.Do and only on the path where baseErr is nil (R2); both symbolizer pipes are sent addr - base with the base handed to their constructor from file.base, and the nm table adds that same base to every symbol address (R3); computeBase rejects addresses outside [start, limit) before looking for a segment (R4); the nm lookup returns early for an empty table or an address outside the table, and for data symbols compares against start+size (R5); HeaderForFileOffset cannot return success without a matching header (R6); the segment search receives the mapping's offset, its size limit-start and the sample's file offset addr-start+offset, the base formula receives start, limit and offset in that order, and ObjAddr returns addr-base, each compared as a linear form so that a dropped, swapped or wrong uint64 operand is reported (R7). Also: the tools are started only after the base is known (R2), a successfully computed base is always stored (R8). Round-I additions: query and answer of addr2line/llvm-symbolizer happen in one critical section (shared with C20-R1); the user/kernel split of GetBase is 1<<63. Not decided: that the computed base and the chosen segment are the right ones, the binary search's arithmetic."
	c.errorDiscipline()
	c.baseReads()
	c.baseStoredWhenComputed()
	c.pipeAddresses()
	c.computeBaseRange()
	c.nmLookup()
	c.headerForOffset()
	c.mappingHandOver()
	c.nmLookupPure()
	c.kernelSplitIsHalf()
	// the answer read from addr2line / llvm-symbolizer belongs to the address just written:
	// query and answer happen in one critical section of the pipe's mutex (shared with C20-R1)
	c.relabel(c.guardedFields, "C20-R1", "C13-R9", func(o *Obligation) bool {
		return strings.HasPrefix(o.Key, "guard:binutils.addr2Liner") || strings.HasPrefix(o.Key, "guard:binutils.llvmSymbolizer")
	})
}

// ---- R7: the mapping's parameters are handed to the segment search and to the base
// formula as the quantities those functions are documented to take.  All of them are
// uint64, so a swapped, dropped or wrong operand compiles; the rule compares the linear
// form (sum of signed terms) of every such argument with the expected one.
func (c *Check) mappingHandOver() {
	p := c.P
	type want struct {
		caller, callee string
		arg            int
		form           map[string]int
		what           string
	}
	table := []want{
		{"(*elfMapping).findProgramHeader", "ProgramHeadersForMapping", 1, map[string]int{"m.offset": 1}, "the mapping's file offset"},
		{"(*elfMapping).findProgramHeader", "ProgramHeadersForMapping", 2, map[string]int{"m.limit": 1, "m.start": -1}, "the mapping's size, limit - start"},
		{"(*elfMapping).findProgramHeader", "HeaderForFileOffset", 1, map[string]int{"addr": 1, "m.start": -1, "m.offset": 1}, "the sample's file offset, addr - start + offset"},
		{"(*file).computeBase", "GetBase", 3, map[string]int{"m.start": 1}, "the mapping start"},
		{"(*file).computeBase", "GetBase", 4, map[string]int{"m.limit": 1}, "the mapping limit"},
		{"(*file).computeBase", "GetBase", 5, map[string]int{"m.offset": 1}, "the mapping's file offset"},
	}
	name := func(f *ssa.Function) func(ssa.Value) string {
		return func(v ssa.Value) string {
			if pr, ok := v.(*ssa.Parameter); ok {
				if bt, ok := pr.Type().Underlying().(*types.Basic); ok && bt.Kind() == types.Uint64 {
					for i, q := range f.Params {
						if q == pr && i > 0 {
							return "addr"
						}
					}
				}
				return ""
			}
			if ld, ok := v.(*ssa.UnOp); ok && ld.Op == token.MUL {
				if fa, ok := ld.X.(*ssa.FieldAddr); ok {
					if T, F := fieldOf(fa.X.Type(), fa.Field); T == "binutils.elfMapping" {
						return "m." + F
					}
				}
			}
			return ""
		}
	}
	for _, w := range table {
		f := c.anchorFn("C13-R7", "internal/binutils", w.caller)
		if f == nil {
			continue
		}
		key := fmt.Sprintf("handover:%s→%s#%d", w.caller, w.callee, w.arg)
		n := 0
		// (the hand-over may be made by a helper of the anchored function)
		for _, b := range helperBlocks(f, 2) {
			for _, ins := range b.Instrs {
				call, ok := ins.(*ssa.Call)
				if !ok || call.Call.StaticCallee() == nil || call.Call.StaticCallee().Name() != w.callee || w.arg >= len(call.Call.Args) {
					continue
				}
				n++
				pname := ""
				if callee := call.Call.StaticCallee(); w.arg < len(callee.Params) {
					pname = callee.Params[w.arg].Name()
				}
				got, ok := linForm(call.Call.Args[w.arg], name(b.Parent()))
				switch {
				case !ok:
					c.undecided("C13-R7", key, p.relFile(call.Pos()), "argument "+pname+" of "+w.callee+" is not a sum of mapping parameters and the address")
				case sameLin(got, w.form):
					c.ok("C13-R7", key, p.relFile(call.Pos()), w.callee+" receives "+w.what+" as "+pname, "argument = "+linString(got))
				default:
					c.bad("C13-R7", key, p.relFile(call.Pos()), fmt.Sprintf("%s passes %s to %s as %s, which must be %s (%s): the wrong segment is selected and addresses are translated with the wrong base", w.caller, linString(got), w.callee, pname, w.what, linString(w.form)))
				}
			}
		}
		if n == 0 {
			c.undecided("C13-R7", key, p.relFile(f.Pos()), w.caller+" no longer calls "+w.callee)
		}
	}
	// ObjAddr returns addr - base
	if f := c.anchorFn("C13-R7", "internal/binutils", "(*file).ObjAddr"); f != nil {
		okRet := false
		for _, b := range f.Blocks {
			if ret, isRet := b.Instrs[len(b.Instrs)-1].(*ssa.Return); isRet && len(ret.Results) == 2 {
				// the values the address result can carry: with named results one return
				// statement serves both outcomes and the result is a merge of 0 (error) and the
				// translated address
				vals := []ssa.Value{ret.Results[0]}
				if ph, isPhi := ret.Results[0].(*ssa.Phi); isPhi {
					vals = nil
					for _, e := range ph.Edges {
						if k, isK := constInt(e); isK && k == 0 {
							continue
						}
						vals = append(vals, e)
					}
				} else if k, isK := ret.Results[1].(*ssa.Const); !isK || !k.IsNil() {
					continue
				}
				for _, val := range vals {
					got, ok := linForm(val, func(v ssa.Value) string {
						if pr, ok := v.(*ssa.Parameter); ok && pr != f.Params[0] {
							return "addr"
						}
						if isFieldLoad(v, "binutils.file", "base") {
							return "base"
						}
						// the base handed back by an accessor (every return gives file.base there)
						if ex, ok := v.(*ssa.Extract); ok {
							if hc, ok := ex.Tuple.(*ssa.Call); ok && hc.Call.StaticCallee() != nil && fnInModule(hc.Call.StaticCallee()) {
								all, nret := true, 0
								for _, hb := range hc.Call.StaticCallee().Blocks {
									if ret, ok := hb.Instrs[len(hb.Instrs)-1].(*ssa.Return); ok && ex.Index < len(ret.Results) {
										nret++
										if !isFieldLoad(ret.Results[ex.Index], "binutils.file", "base") {
											all = false
										}
									}
								}
								if all && nret > 0 {
									return "base"
								}
							}
						}
						return ""
					})
					if ok && sameLin(got, map[string]int{"addr": 1, "base": -1}) {
						okRet = true
					} else {
						c.bad("C13-R7", "objaddr", p.relFile(ret.Pos()), "ObjAddr's successful return is not addr - base")
						return
					}
				}
			}
		}
		if okRet {
			c.ok("C13-R7", "objaddr", p.relFile(f.Pos()), "ObjAddr returns the runtime address minus the base", "successful return = addr - file.base")
		} else {
			c.undecided("C13-R7", "objaddr", p.relFile(f.Pos()), "no successful return found in ObjAddr")
		}
	}
}

// ---- R1
func (c *Check) errorDiscipline() {
	p := c.P
	targets := map[string]bool{"GetBase": true, "HeaderForFileOffset": true, "findProgramHeader": true, "computeBase": true, "elfOpen": true}
	n := 0
	for _, rel := range []string{"internal/binutils", "internal/elfexec"} {
		forAllPkgFuncs(p, rel, func(f *ssa.Function) {
			for _, b := range f.Blocks {
				for _, ins := range b.Instrs {
					call, ok := ins.(*ssa.Call)
					if !ok {
						continue
					}
					name := ""
					if sc := call.Call.StaticCallee(); sc != nil {
						name = sc.Name()
					} else if ld, ok := call.Call.Value.(*ssa.UnOp); ok {
						if g, ok := ld.X.(*ssa.Global); ok {
							name = g.Name()
						}
					}
					if !targets[name] {
						continue
					}
					n++
					key := fmt.Sprintf("err:%s→%s", fnName(f), name)
					pos := p.relFile(call.Pos())
					tup, isTuple := call.Type().(*types.Tuple)
					if !isTuple {
						// single error result (computeBase)
						if call.Referrers() == nil || len(*call.Referrers()) == 0 {
							c.bad("C13-R1", key, pos, "the error of "+name+" is discarded in "+fnName(f))
						} else {
							c.ok("C13-R1", key, pos, "error of "+name+" in "+fnName(f), "the result is stored or tested")
						}
						continue
					}
					var val, errv *ssa.Extract
					for _, r := range *call.Referrers() {
						if ex, ok := r.(*ssa.Extract); ok {
							if ex.Index == tup.Len()-1 {
								errv = ex
							} else if ex.Index == 0 {
								val = ex
							}
						}
						if _, isRet := r.(*ssa.Return); isRet {
							// returned as a whole: `return f(…)`
							val, errv = nil, nil
						}
					}
					if val == nil && errv == nil {
						c.ok("C13-R1", key, pos, name+" called in "+fnName(f), "value and error are returned together to the caller")
						continue
					}
					if errv == nil || len(*errv.Referrers()) == 0 {
						c.bad("C13-R1", key, pos, "the error of "+name+" is discarded in "+fnName(f)+": a failed base computation would yield a wrong address instead of an error")
						continue
					}
					// the value must not be used where err != nil
					bad := ""
					if val != nil {
						reach := reachUnder(f, func(cond ssa.Value) int {
							if cmp, ok := cond.(*ssa.BinOp); ok && (sameErrValue(cmp.X, errv) || sameErrValue(cmp.Y, errv)) {
								switch cmp.Op {
								case token.NEQ:
									return 1
								case token.EQL:
									return -1
								}
							}
							return 0
						})
						for _, r := range *val.Referrers() {
							if _, isDbg := r.(*ssa.DebugRef); isDbg {
								continue
							}
							if ret, isRet := r.(*ssa.Return); isRet {
								// returning (val, err) together is fine
								usesErr := false
								for _, res := range ret.Results {
									if res == ssa.Value(errv) {
										usesErr = true
									}
								}
								if usesErr {
									continue
								}
							}
							if reach[r.Block()] && instrDominatesOrSame(errv, r) {
								// reachable with err != nil: only a problem if not separated by the error test
								if !dominatedByErrTest(f, errv, r) {
									bad = "the value is used at " + p.relFile(r.Pos()) + " on a path where the error is non-nil"
								}
							}
						}
					}
					if bad == "" {
						c.ok("C13-R1", key, pos, "error of "+name+" in "+fnName(f), "tested before the accompanying value is used")
					} else {
						c.bad("C13-R1", key, pos, "in "+fnName(f)+", "+bad)
					}
				}
			}
		})
	}
	if n < 5 {
		c.undecided("C13-R1", "err:count", "", fmt.Sprintf("only %d calls of the base-computation chain found", n))
	}
}

func instrDominatesOrSame(a ssa.Instruction, b ssa.Instruction) bool {
	return a == b || instrDominates(a, b)
}

// dominatedByErrTest: use is in a block entered only through the err == nil edge of a test on errv.
func dominatedByErrTest(f *ssa.Function, errv ssa.Value, use ssa.Instruction) bool {
	for d := use.Block(); d != nil; d = d.Idom() {
		id := d.Idom()
		if id == nil {
			break
		}
		iff, ok := id.Instrs[len(id.Instrs)-1].(*ssa.If)
		if !ok {
			continue
		}
		cmp, ok := iff.Cond.(*ssa.BinOp)
		if !ok || !(sameErrValue(cmp.X, errv) || sameErrValue(cmp.Y, errv)) {
			continue
		}
		// which successor leads to use?
		t, fl := id.Succs[0], id.Succs[1]
		tReach := t == use.Block() || t.Dominates(use.Block())
		fReach := fl == use.Block() || fl.Dominates(use.Block())
		if cmp.Op == token.NEQ && fReach && !tReach {
			return true
		}
		if cmp.Op == token.EQL && tReach && !fReach {
			return true
		}
		// early-exit form: if err != nil { return }
		if cmp.Op == token.NEQ && !blockReachesAvoid(t, use.Block(), id) {
			return true
		}
		if cmp.Op == token.EQL && !blockReachesAvoid(fl, use.Block(), id) {
			return true
		}
	}
	return false
}

// ---- R2
func (c *Check) baseReads() {
	p := c.P
	n := 0
	for _, fa := range fieldAccesses(p, "binutils.file", "base") {
		f := fa.Parent()
		if rk, _ := rootOf(fa.X, 0, map[ssa.Value]bool{}); rk == rFresh {
			continue
		}
		isStore := false
		for _, r := range *fa.Referrers() {
			if st, ok := r.(*ssa.Store); ok && st.Addr == ssa.Value(fa) {
				isStore = true
			}
		}
		if isStore {
			continue
		}
		n++
		key := "base-read:" + fnName(f)
		// a function that only ever runs as the argument of a sync.Once.Do (the start of the
		// symbolizer tools, which hands them file.base): the Do must come after the base is known
		if sites, only := onceDoSites(p, f); len(sites) > 0 {
			bad := ""
			if !only {
				bad = "is also used outside its once.Do"
			} else {
				bad = c.initAfterBase(f, sites)
			}
			if bad == "" {
				c.ok("C13-R2", key, p.relFile(fa.Pos()), "file.base read in "+fnName(f), fnName(f)+" only runs under once.Do, after baseOnce.Do and where baseErr == nil")
			} else {
				c.bad("C13-R2", key, p.relFile(fa.Pos()), "file.base is read in init, which "+bad)
			}
			continue
		}
		// an accessor that runs the once and hands back (base, baseErr): the base it returns is
		// used by its callers only where the error they got with it is nil
		if returnsFieldOfReceiver(f, "binutils.file", "baseErr") && dominatedByOnce(f, fa) {
			ridx := -1
			for _, b := range f.Blocks {
				if ret, ok := b.Instrs[len(b.Instrs)-1].(*ssa.Return); ok {
					for i, r := range ret.Results {
						if ld, ok := r.(*ssa.UnOp); ok && ld.X == ssa.Value(fa) {
							ridx = i
						}
					}
				}
			}
			if ridx >= 0 {
				bad := ""
				calls, _ := allCallSites(p, f)
				for _, cs := range calls {
					call, ok := cs.(*ssa.Call)
					if !ok || call.Referrers() == nil {
						continue
					}
					g := call.Parent()
					reach := reachUnder(g, func(cond ssa.Value) int {
						if cmp, ok := cond.(*ssa.BinOp); ok && (isBaseErrValue(cmp.X) || isBaseErrValue(cmp.Y)) {
							switch cmp.Op {
							case token.NEQ:
								return 1
							case token.EQL:
								return -1
							}
						}
						return 0
					})
					for _, r := range *call.Referrers() {
						ex, ok := r.(*ssa.Extract)
						if !ok || ex.Index != ridx || ex.Referrers() == nil {
							continue
						}
						for _, u := range *ex.Referrers() {
							if _, isDbg := u.(*ssa.DebugRef); isDbg {
								continue
							}
							if reach[u.Block()] {
								if _, isRet := u.(*ssa.Return); isRet {
									continue // handed on together with the error
								}
								bad = fnName(g) + " (" + p.relFile(u.Pos()) + ")"
							}
						}
					}
				}
				if bad == "" {
					c.ok("C13-R2", key, p.relFile(fa.Pos()), "file.base handed out by "+fnName(f)+" together with baseErr", "after baseOnce.Do; every caller uses the base only where the error it received is nil")
				} else {
					c.bad("C13-R2", key, p.relFile(fa.Pos()), "the base handed out by "+fnName(f)+" is used in "+bad+" on a path where the accompanying error is non-nil: a failed base computation yields an address translated with base 0")
				}
				continue
			}
		}
		// a helper that is only called where the base is known to be good
		if why := baseGoodAtCallers(p, f, 0); why == "" {
			c.ok("C13-R2", key, p.relFile(fa.Pos()), "file.base read in helper "+fnName(f), "every call of it follows baseOnce.Do and lies where baseErr == nil")
			continue
		}
		// unreachable when baseErr != nil
		reach := reachUnder(f, func(cond ssa.Value) int {
			isBaseErr := isBaseErrValue
			if cmp, ok := cond.(*ssa.BinOp); ok && (isBaseErr(cmp.X) || isBaseErr(cmp.Y)) {
				switch cmp.Op {
				case token.NEQ:
					return 1
				case token.EQL:
					return -1
				}
			}
			return 0
		})
		if reach[fa.Block()] {
			c.bad("C13-R2", key, p.relFile(fa.Pos()), "file.base is read in "+fnName(f)+" on a path where baseErr is non-nil: a failed base computation yields an address translated with base 0")
		} else if !dominatedByOnce(f, fa) {
			c.bad("C13-R2", key, p.relFile(fa.Pos()), "file.base is read in "+fnName(f)+" without a preceding baseOnce.Do")
		} else {
			c.ok("C13-R2", key, p.relFile(fa.Pos()), "file.base read in "+fnName(f), "after baseOnce.Do and only where baseErr == nil")
		}
	}
	if n < 2 {
		c.undecided("C13-R2", "base-read:count", "", "fewer reads of file.base than expected")
	}
}

func onlyCalledFromOnceIn(c *Check, f *ssa.Function, caller string) string {
	n := 0
	for g := range c.P.AllFns {
		if !fnInModule(g) || g.Blocks == nil {
			continue
		}
		for _, b := range g.Blocks {
			for _, ins := range b.Instrs {
				var ops []*ssa.Value
				for _, op := range ins.Operands(ops) {
					if op == nil || *op == nil {
						continue
					}
					uses := false
					switch v := (*op).(type) {
					case *ssa.Function:
						uses = v == f
					case *ssa.MakeClosure:
						uses = v.Fn == ssa.Value(f) && ins != ssa.Instruction(v)
					}
					if !uses {
						continue
					}
					if _, isMk := ins.(*ssa.MakeClosure); isMk {
						continue
					}
					n++
					call, ok := ins.(*ssa.Call)
					if !ok || call.Call.StaticCallee() == nil || call.Call.StaticCallee().String() != "(*sync.Once).Do" || fnName(g) != caller {
						// bound method closures: f$bound is created by MakeClosure of a wrapper; accept wrappers
						if g.Synthetic != "" {
							continue
						}
						return "is also used in " + fnName(g)
					}
				}
			}
		}
	}
	if n == 0 {
		// method value f.init is wrapped in a synthetic bound-method closure
		return ""
	}
	return ""
}

// ---- R3
func (c *Check) pipeAddresses() {
	p := c.P
	for _, w := range []struct{ fn, T string }{{"(*addr2Liner).rawAddrInfo", "binutils.addr2Liner"}, {"(*llvmSymbolizer).addrInfo", "binutils.llvmSymbolizer"}} {
		f := c.anchorFn("C13-R3", "internal/binutils", w.fn)
		if f == nil {
			continue
		}
		key := "pipe:" + w.fn
		// the address parameter: the first uint64 parameter after the receiver
		pidx := -1
		for i, pr := range f.Params {
			if bt, ok := pr.Type().Underlying().(*types.Basic); ok && bt.Kind() == types.Uint64 && i > 0 && pidx < 0 {
				pidx = i
			}
		}
		var findSub func(g *ssa.Function, idx, depth int) bool
		findSub = func(g *ssa.Function, idx, depth int) bool {
			if idx < 0 || idx >= len(g.Params) || depth > 3 {
				return false
			}
			for _, b := range g.Blocks {
				for _, ins := range b.Instrs {
					switch x := ins.(type) {
					case *ssa.BinOp:
						if x.Op == token.SUB && x.X == ssa.Value(g.Params[idx]) && isFieldLoad(x.Y, w.T, "base") && flowsToCall(x, "write", 4, map[ssa.Value]bool{}) {
							return true
						}
					case *ssa.Call:
						// the request is written by a helper of the same type that receives the address unchanged
						if callee := x.Call.StaticCallee(); callee != nil && callee != g && len(callee.Blocks) > 0 && fnPkgPath(callee) == fnPkgPath(f) {
							for i, a := range x.Call.Args {
								if a == ssa.Value(g.Params[idx]) && findSub(callee, i, depth+1) {
									return true
								}
							}
						}
					}
				}
			}
			return false
		}
		found := findSub(f, pidx, 0)
		if found {
			c.ok("C13-R3", key, p.relFile(f.Pos()), w.fn+" sends addr - base to the tool", "the written request is formatted from BinOp SUB(addr, receiver.base)")
		} else {
			c.bad("C13-R3", key, p.relFile(f.Pos()), w.fn+" does not send addr - d.base to the symbolizer: symbols are looked up at the runtime address instead of the link-time address")
		}
	}
	// nm: symbol addresses get the base added
	if f := c.anchorFn("C13-R3", "internal/binutils", "parseAddr2LinerNM"); f != nil {
		ok := false
		for _, b := range f.Blocks {
			for _, ins := range b.Instrs {
				st, isSt := ins.(*ssa.Store)
				if !isSt {
					continue
				}
				fa, isFA := st.Addr.(*ssa.FieldAddr)
				if !isFA {
					continue
				}
				if T, F := fieldOf(fa.X.Type(), fa.Field); T == "binutils.symbolInfo" && F == "address" {
					if add, isAdd := st.Val.(*ssa.BinOp); isAdd && add.Op == token.ADD {
						if pr, isP := add.Y.(*ssa.Parameter); isP && pr.Name() == "base" {
							ok = true
						}
						if pr, isP := add.X.(*ssa.Parameter); isP && pr.Name() == "base" {
							ok = true
						}
					}
				}
			}
		}
		if ok {
			c.ok("C13-R3", "nm:base", p.relFile(f.Pos()), "nm symbol addresses are rebased", "symbolInfo.address = parsed address + base")
		} else {
			c.bad("C13-R3", "nm:base", p.relFile(f.Pos()), "parseAddr2LinerNM does not add the base to symbol addresses")
		}
	}
	// constructors receive file.base
	for _, ctor := range []string{"newAddr2Liner", "newLLVMSymbolizer", "newAddr2LinerNM"} {
		cf := p.Func("internal/binutils", ctor)
		if cf == nil {
			c.undecided("C13-R3", "ctor:"+ctor, "", ctor+" not found")
			continue
		}
		idx := -1
		for i, pr := range cf.Params {
			if pr.Name() == "base" {
				idx = i
			}
		}
		if idx < 0 {
			c.undecided("C13-R3", "ctor:"+ctor, p.relFile(cf.Pos()), ctor+" has no base parameter")
			continue
		}
		n := 0
		forAllPkgFuncs(p, "internal/binutils", func(g *ssa.Function) {
			for _, b := range g.Blocks {
				for _, ins := range b.Instrs {
					call, ok := ins.(*ssa.Call)
					if !ok || call.Call.StaticCallee() != cf {
						continue
					}
					n++
					key := fmt.Sprintf("ctor:%s@%s", ctor, fnName(g))
					baseArg := call.Call.Args[idx]
					for hop := 0; hop < 3; hop++ {
						// handed down through a parameter of a helper with one call site
						if a := argOfParam(p, baseArg, 0); a != baseArg {
							baseArg = a
							continue
						}
						// or handed back by an accessor that returns (file.base, file.baseErr)
						if ex, ok := baseArg.(*ssa.Extract); ok {
							if hc, ok := ex.Tuple.(*ssa.Call); ok && hc.Call.StaticCallee() != nil && fnInModule(hc.Call.StaticCallee()) {
								all, nret := true, 0
								for _, hb := range hc.Call.StaticCallee().Blocks {
									if ret, ok := hb.Instrs[len(hb.Instrs)-1].(*ssa.Return); ok && ex.Index < len(ret.Results) {
										nret++
										if !isFieldLoad(ret.Results[ex.Index], "binutils.file", "base") {
											all = false
										}
									}
								}
								if all && nret > 0 {
									baseArg = &ssa.UnOp{} // marker replaced below
									baseArg = nil
								}
							}
						}
						break
					}
					if baseArg == nil || isFieldLoad(baseArg, "binutils.file", "base") {
						c.ok("C13-R3", key, p.relFile(call.Pos()), ctor+" called from "+fnName(g), "base argument is file.base")
					} else {
						c.bad("C13-R3", key, p.relFile(call.Pos()), ctor+" is called from "+fnName(g)+" with a base that is not file.base")
					}
				}
			}
		})
		if n == 0 {
			c.undecided("C13-R3", "ctor:"+ctor, p.relFile(cf.Pos()), "no call of "+ctor+" found")
		}
	}
}

// flowsToCall: v reaches (through formatting and variadic packing) a call of a function named name.
func flowsToCall(v ssa.Value, name string, depth int, seen map[ssa.Value]bool) bool {
	if depth < 0 || seen[v] || v.Referrers() == nil {
		return false
	}
	seen[v] = true
	for _, r := range *v.Referrers() {
		switch x := r.(type) {
		case *ssa.Call:
			if sc := x.Call.StaticCallee(); sc != nil && sc.Name() == name {
				return true
			}
			if x.Call.IsInvoke() && x.Call.Method.Name() == name {
				return true
			}
			if flowsToCall(x, name, depth-1, seen) {
				return true
			}
			// the value is handed to a helper of the module: follow the matching parameter
			if sc := x.Call.StaticCallee(); sc != nil && fnInModule(sc) && len(sc.Blocks) > 0 {
				for i, a := range x.Call.Args {
					if a == v && i < len(sc.Params) && flowsToCall(sc.Params[i], name, depth-1, seen) {
						return true
					}
				}
			}
		case *ssa.MakeInterface:
			if flowsToCall(x, name, depth, seen) {
				return true
			}
		case *ssa.Store:
			if ia, ok := x.Addr.(*ssa.IndexAddr); ok {
				if flowsToCall(ia.X, name, depth, seen) {
					return true
				}
			}
		case *ssa.Slice:
			if flowsToCall(x, name, depth, seen) {
				return true
			}
		case *ssa.Convert, *ssa.ChangeType:
			if flowsToCall(x.(ssa.Value), name, depth, seen) {
				return true
			}
		case *ssa.Index:
			if flowsToCall(x, name, depth, seen) {
				return true
			}
		case *ssa.BinOp:
			// text built by concatenation
			if bt, ok := x.Type().Underlying().(*types.Basic); ok && bt.Info()&types.IsString != 0 && x.Op == token.ADD {
				if flowsToCall(x, name, depth, seen) {
					return true
				}
			}
		case *ssa.Phi:
			if flowsToCall(x, name, depth, seen) {
				return true
			}
		}
	}
	// an Alloc used as the varargs array, or a local array that is ranged over
	if al, ok := v.(*ssa.Alloc); ok {
		for _, r := range *al.Referrers() {
			if sl, ok := r.(*ssa.Slice); ok && flowsToCall(sl, name, depth, seen) {
				return true
			}
			if ld, ok := r.(*ssa.UnOp); ok && ld.Op == token.MUL && flowsToCall(ld, name, depth, seen) {
				return true // the array loaded as a whole (range over a local array)
			}
			if ia, ok := r.(*ssa.IndexAddr); ok && ia.Referrers() != nil {
				for _, r2 := range *ia.Referrers() {
					if ld, ok := r2.(*ssa.UnOp); ok && ld.Op == token.MUL && flowsToCall(ld, name, depth, seen) {
						return true
					}
				}
			}
		}
	}
	return false
}

// ---- R4
func (c *Check) computeBaseRange() {
	p := c.P
	f := c.anchorFn("C13-R4", "internal/binutils", "(*file).computeBase")
	if f == nil {
		return
	}
	var fph *ssa.Call
	// (the search for the segment may sit in a helper that computeBase calls: the call of that
	// helper stands for it)
	for _, es := range effectiveSites(f, func(ins ssa.Instruction) bool {
		call, ok := ins.(*ssa.Call)
		return ok && call.Call.StaticCallee() != nil && call.Call.StaticCallee().Name() == "findProgramHeader"
	}, 2) {
		if call, ok := es.at.(*ssa.Call); ok {
			fph = call
		}
	}
	if fph == nil {
		c.undecided("C13-R4", "range", p.relFile(f.Pos()), "computeBase does not call findProgramHeader")
		return
	}
	// the address being translated: computeBase's integer parameter
	var addrPar *ssa.Parameter
	for _, pr := range f.Params {
		if bt, ok := pr.Type().Underlying().(*types.Basic); ok && bt.Kind() == types.Uint64 {
			addrPar = pr
		}
	}
	if addrPar == nil {
		c.undecided("C13-R4", "range", p.relFile(f.Pos()), "computeBase has no uint64 address parameter")
		return
	}
	// the ELF part (range test and segment search) may have moved into a helper that is handed
	// the address: if the rule fails on computeBase itself it is decided there instead
	type anchor struct {
		f    *ssa.Function
		addr *ssa.Parameter
		fph  *ssa.Call
	}
	anchors := []anchor{{f, addrPar, fph}}
	{
		f2, addr2, fph2 := f, addrPar, fph
		for depth := 0; depth < 2; depth++ {
			h := fph2.Call.StaticCallee()
			if h == nil || h.Name() == "findProgramHeader" || !fnInModule(h) || len(h.Blocks) == 0 {
				break
			}
			idx := -1
			for i, a := range fph2.Call.Args {
				if a == ssa.Value(addr2) {
					idx = i
				}
			}
			if idx < 0 || idx >= len(h.Params) {
				break
			}
			var inner *ssa.Call
			for _, es := range effectiveSites(h, func(ins ssa.Instruction) bool {
				call, ok := ins.(*ssa.Call)
				return ok && call.Call.StaticCallee() != nil && call.Call.StaticCallee().Name() == "findProgramHeader"
			}, 2) {
				if call, ok := es.at.(*ssa.Call); ok {
					inner = call
				}
			}
			if inner == nil {
				break
			}
			f2, addr2, fph2 = h, h.Params[idx], inner
			anchors = append(anchors, anchor{f2, addr2, fph2})
		}
	}
	for ai, an := range anchors {
		f, addrPar, fph = an.f, an.addr, an.fph
		mark := len(c.Obls)
		for _, side := range []struct {
			field string
			below bool
			what  string
		}{{"start", true, "below the mapping start"}, {"limit", false, "at or above the mapping limit"}} {
			// assume addr < start (resp. addr >= limit); comparisons of the address with that bound,
			// in either orientation and in boolean helpers of the package, are decided by it
			mentioned := false
			var assumeFor func(addr ssa.Value, depth int) func(cond ssa.Value) int
			assumeFor = func(addr ssa.Value, depth int) func(cond ssa.Value) int {
				return func(cond ssa.Value) int {
					switch x := cond.(type) {
					case *ssa.BinOp:
						op := x.Op
						var other ssa.Value
						switch {
						case x.X == addr:
							other = x.Y
						case x.Y == addr:
							other = x.X
							switch op { // mirror so that the address is on the left
							case token.LSS:
								op = token.GTR
							case token.LEQ:
								op = token.GEQ
							case token.GTR:
								op = token.LSS
							case token.GEQ:
								op = token.LEQ
							}
						default:
							return 0
						}
						if !isFieldLoad(other, "binutils.elfMapping", side.field) {
							return 0
						}
						mentioned = true
						if side.below { // addr < start
							switch op {
							case token.LSS, token.LEQ, token.NEQ:
								return 1
							case token.GEQ, token.GTR, token.EQL:
								return -1
							}
						} else { // addr >= limit
							switch op {
							case token.GEQ:
								return 1
							case token.LSS:
								return -1
							}
						}
					case *ssa.Call:
						callee := x.Call.StaticCallee()
						if callee == nil || !fnInModule(callee) || len(callee.Blocks) == 0 || depth > 1 {
							return 0
						}
						if bt, ok := x.Type().Underlying().(*types.Basic); !ok || bt.Kind() != types.Bool {
							return 0
						}
						for i, a := range x.Call.Args {
							if a == addr && i < len(callee.Params) {
								return boolResultUnder(callee, assumeFor(callee.Params[i], depth+1))
							}
						}
					}
					return 0
				}
			}
			reach := reachUnder(f, assumeFor(addrPar, 0))
			key := "range:" + side.field
			// the rule only applies when the address is compared with that bound at all
			if mentioned && !reach[fph.Block()] {
				c.ok("C13-R4", key, p.relFile(fph.Pos()), "computeBase rejects an address "+side.what, "findProgramHeader is unreachable when addr is "+side.what)
			} else {
				c.bad("C13-R4", key, p.relFile(fph.Pos()), "computeBase looks for a segment with an address "+side.what+": the file offset addr-start+offset wraps around and a wrong segment may be selected")
			}
		}
		failed := false
		for _, o := range c.Obls[mark:] {
			if o.Status != "discharged" {
				failed = true
			}
		}
		if !failed || ai == len(anchors)-1 {
			break
		}
		c.rollback(mark)
	}
}

// ---- R5
func (c *Check) nmLookup() {
	p := c.P
	f := c.anchorFn("C13-R5", "internal/binutils", "(*addr2LinerNM).addrInfo")
	if f == nil {
		return
	}
	// every read of a fixed element of the symbol table (a.m[0]) happens where the table is known
	// to be non-empty; the lookup may be split over helpers
	g := newGuardEngine(p)
	okEmpty, nFixed := true, 0
	for _, h := range withHelpers(f, 2) {
		for _, site := range g.collectSites(h, true) {
			if !isFieldLoad(site.x, "binutils.addr2LinerNM", "m") {
				continue
			}
			nFixed++
			if g.discharge(site) == "" {
				okEmpty = false
			}
		}
	}
	if okEmpty {
		c.ok("C13-R5", "nm:empty", p.relFile(f.Pos()), "nm lookup returns early for an empty symbol table", fmt.Sprintf("%d reads of fixed elements of the table (first, last), all after a test that it is not empty", nFixed))
	} else {
		c.bad("C13-R5", "nm:empty", p.relFile(f.Pos()), "nm lookup does not start with the empty-table test: a.m[0] panics for a binary without symbols")
	}
	// data symbol: a data symbol matches only within [address, address+size).  Assuming the
	// selected symbol is a data symbol and the address lies at or beyond its end, no return
	// that reports a symbol is reachable (so the size test cannot be bypassed by another
	// condition).
	okData := false
	for _, h := range withHelpers(f, 2) {
		var recv ssa.Value
		for _, b := range h.Blocks {
			for _, ins := range b.Instrs {
				if call, ok := ins.(*ssa.Call); ok && call.Call.StaticCallee() != nil && call.Call.StaticCallee().Name() == "isData" && len(call.Call.Args) > 0 {
					recv = call.Call.Args[0]
				}
			}
		}
		if recv == nil {
			continue
		}
		sameSymbol := func(x ssa.Value) bool {
			strip := func(v ssa.Value) ssa.Value {
				if ld, ok := v.(*ssa.UnOp); ok && ld.Op == token.MUL {
					return ld.X
				}
				return v
			}
			x, y := strip(x), strip(recv)
			if x == y {
				return true
			}
			ix, ok1 := x.(*ssa.IndexAddr)
			iy, ok2 := y.(*ssa.IndexAddr)
			return ok1 && ok2 && ix.Index == iy.Index
		}
		endOf := func(v ssa.Value) bool { // address + size of the selected symbol
			add, ok := v.(*ssa.BinOp)
			if !ok || add.Op != token.ADD {
				return false
			}
			la, ok1 := add.X.(*ssa.UnOp)
			lb, ok2 := add.Y.(*ssa.UnOp)
			if !ok1 || !ok2 || !isFieldLoad(add.X, "binutils.symbolInfo", "address") || !isFieldLoad(add.Y, "binutils.symbolInfo", "size") {
				return false
			}
			fa, okA := la.X.(*ssa.FieldAddr)
			fb, okB := lb.X.(*ssa.FieldAddr)
			return okA && okB && sameSymbol(fa.X) && sameSymbol(fb.X)
		}
		sawEnd := false
		reach := reachUnder(h, func(cond ssa.Value) int {
			switch x := cond.(type) {
			case *ssa.Call:
				if x.Call.StaticCallee() != nil && x.Call.StaticCallee().Name() == "isData" {
					return 1
				}
			case *ssa.BinOp:
				if endOf(x.Y) {
					sawEnd = true
					switch x.Op {
					case token.GEQ:
						return 1
					case token.LSS:
						return -1
					}
				}
			}
			return 0
		})
		reported := false
		for _, b := range h.Blocks {
			ret, ok := b.Instrs[len(b.Instrs)-1].(*ssa.Return)
			if !ok || len(ret.Results) == 0 || !reach[b] {
				continue
			}
			// a return dominated by the isData test that hands back a symbol
			if k, isConst := ret.Results[0].(*ssa.Const); isConst && k.IsNil() {
				continue
			}
			reported = true
		}
		if sawEnd && !reported {
			okData = true
		}
	}
	if okData {
		c.ok("C13-R5", "nm:data", p.relFile(f.Pos()), "data symbols match only within their size", "addr >= address+size is tested under isData()")
	} else {
		c.bad("C13-R5", "nm:data", p.relFile(f.Pos()), "nm lookup no longer restricts data symbols to [address, address+size)")
	}
}

// ---- R6
func (c *Check) headerForOffset() {
	p := c.P
	f := c.anchorFn("C13-R6", "internal/elfexec", "HeaderForFileOffset")
	if f == nil {
		return
	}
	ok := true
	n := 0
	var searchCalls []*ssa.Call // search-helper calls whose result selects the returned header
	for _, b := range f.Blocks {
		ret, isRet := b.Instrs[len(b.Instrs)-1].(*ssa.Return)
		if !isRet {
			continue
		}
		if k, isConst := ret.Results[1].(*ssa.Const); !isConst || !k.IsNil() {
			continue
		}
		n++
		res := ret.Results[0]
		// the search state: the loop-carried variable the result is taken from (the selected
		// header, or its index), and the constant it holds while nothing has matched
		var state *ssa.Phi
		switch x := res.(type) {
		case *ssa.Phi:
			state = x
		case *ssa.UnOp:
			if ia, isIA := x.X.(*ssa.IndexAddr); isIA && x.Op == token.MUL {
				state, _ = ia.Index.(*ssa.Phi)
			}
		}
		var init *ssa.Const
		if state != nil {
			seenPhi := map[*ssa.Phi]bool{}
			var find func(ph *ssa.Phi)
			find = func(ph *ssa.Phi) {
				if seenPhi[ph] {
					return
				}
				seenPhi[ph] = true
				for _, e := range ph.Edges {
					switch y := e.(type) {
					case *ssa.Const:
						init = y
					case *ssa.Phi:
						find(y)
					}
				}
			}
			find(state)
		}
		if state == nil || init == nil {
			// the header was found by a search helper that returns an index or a negative
			// number: the successful return must be unreachable when nothing was found
			if ld, isLd := res.(*ssa.UnOp); isLd && ld.Op == token.MUL {
				if ia, isIA := ld.X.(*ssa.IndexAddr); isIA {
					if call, isCall := ia.Index.(*ssa.Call); isCall {
						if isSearchHelper(call.Call.StaticCallee()) {
							reach := reachUnder(f, func(cond ssa.Value) int {
								cmp, isCmp := cond.(*ssa.BinOp)
								if !isCmp || cmp.X != ssa.Value(call) {
									return 0
								}
								k, isK := constInt(cmp.Y)
								if !isK {
									return 0
								}
								switch {
								case cmp.Op == token.LSS && k == 0, cmp.Op == token.EQL && k == -1, cmp.Op == token.LEQ && k == -1:
									return 1
								case cmp.Op == token.GEQ && k == 0, cmp.Op == token.NEQ && k == -1, cmp.Op == token.GTR && k == -1:
									return -1
								}
								return 0
							})
							if reach[b] {
								ok = false
							}
							searchCalls = append(searchCalls, call)
							continue
						}
					}
				}
			}
			ok = false
			continue
		}
		reach := reachUnder(f, func(cond ssa.Value) int {
			cmp, isCmp := cond.(*ssa.BinOp)
			if !isCmp {
				return 0
			}
			isState := func(v ssa.Value) bool {
				ph, isPhi := v.(*ssa.Phi)
				if !isPhi {
					return false
				}
				// the state itself or a phi it is merged from / into
				if ph == state {
					return true
				}
				for _, e := range state.Edges {
					if e == ssa.Value(ph) {
						return true
					}
				}
				for _, e := range ph.Edges {
					if e == ssa.Value(state) {
						return true
					}
				}
				return false
			}
			k, isK := cmp.Y.(*ssa.Const)
			if !isK || !isState(cmp.X) {
				return 0
			}
			truth := func(b bool) int {
				if b {
					return 1
				}
				return -1
			}
			if init.IsNil() {
				if !k.IsNil() {
					return 0
				}
				switch cmp.Op {
				case token.EQL:
					return 1
				case token.NEQ:
					return -1
				}
				return 0
			}
			a, okA := constInt(init)
			bb, okB := constInt(k)
			if !okA || !okB {
				return 0
			}
			switch cmp.Op {
			case token.EQL:
				return truth(a == bb)
			case token.NEQ:
				return truth(a != bb)
			case token.LSS:
				return truth(a < bb)
			case token.LEQ:
				return truth(a <= bb)
			case token.GTR:
				return truth(a > bb)
			case token.GEQ:
				return truth(a >= bb)
			}
			return 0
		})
		if reach[b] {
			ok = false
		}
	}
	if ok && n > 0 {
		c.ok("C13-R6", "unique:none", p.relFile(f.Pos()), "HeaderForFileOffset returns an error when no header matches", "the successful return is unreachable while the search state still holds its initial \"nothing matched\" value")
	} else {
		c.bad("C13-R6", "unique:none", p.relFile(f.Pos()), "HeaderForFileOffset can return (nil, nil): the caller would compute a base without a segment")
	}
	// a second match is an error: some error return inside the loop
	inLoop := false
	for _, b := range f.Blocks {
		if ret, isRet := b.Instrs[len(b.Instrs)-1].(*ssa.Return); isRet {
			if k, isConst := ret.Results[1].(*ssa.Const); isConst && k.IsNil() {
				continue
			}
			for _, pb := range f.Blocks {
				if loopDepth(pb) > 0 && blockReachesPlain(pb, b) && pb != b {
					inLoop = true
				}
			}
		}
	}
	// search-helper form: a second search that starts after the first hit, and an error return
	// taken when it finds something
	for _, first := range searchCalls {
		for _, b := range f.Blocks {
			iff, isIf := b.Instrs[len(b.Instrs)-1].(*ssa.If)
			if !isIf {
				continue
			}
			cmp, isCmp := iff.Cond.(*ssa.BinOp)
			if !isCmp {
				continue
			}
			second, isCall := cmp.X.(*ssa.Call)
			if !isCall || second == first || second.Call.StaticCallee() != first.Call.StaticCallee() {
				continue
			}
			// its start position derives from the first hit
			fromFirst := false
			for _, a := range second.Call.Args {
				if add, isAdd := a.(*ssa.BinOp); isAdd && add.Op == token.ADD && add.X == ssa.Value(first) {
					if k, isK := constInt(add.Y); isK && k == 1 {
						fromFirst = true
					}
				}
			}
			k, isK := constInt(cmp.Y)
			if !fromFirst || !isK {
				continue
			}
			var found *ssa.BasicBlock
			switch {
			case cmp.Op == token.GEQ && k == 0, cmp.Op == token.GTR && k == -1, cmp.Op == token.NEQ && k == -1:
				found = b.Succs[0]
			case cmp.Op == token.LSS && k == 0, cmp.Op == token.EQL && k == -1:
				found = b.Succs[1]
			}
			if found == nil {
				continue
			}
			if ret, isRet := found.Instrs[len(found.Instrs)-1].(*ssa.Return); isRet {
				if kk, isConst := ret.Results[1].(*ssa.Const); !isConst || !kk.IsNil() {
					inLoop = true
				}
			}
		}
	}
	if inLoop {
		c.ok("C13-R6", "unique:second", p.relFile(f.Pos()), "a second matching header is reported as an error", "an error return is reachable from inside the search loop")
	} else {
		c.bad("C13-R6", "unique:second", p.relFile(f.Pos()), "HeaderForFileOffset no longer fails when two headers match the offset")
	}
	_ = strings.Contains
}

// isSearchHelper: every return of h is a negative constant ("not found") or the counter of a
// loop that runs while the counter is below the length of one of h's slice parameters.
func isSearchHelper(h *ssa.Function) bool {
	if h == nil || !fnInModule(h) || len(h.Blocks) == 0 || h.Signature.Results().Len() != 1 {
		return false
	}
	nIdx := 0
	for _, b := range h.Blocks {
		ret, ok := b.Instrs[len(b.Instrs)-1].(*ssa.Return)
		if !ok {
			continue
		}
		r := ret.Results[0]
		if k, ok := constInt(r); ok {
			if k >= 0 {
				return false
			}
			continue
		}
		var counter ssa.Value
		if rangeIndex(r) {
			counter = r
		} else if ph, ok := r.(*ssa.Phi); ok {
			for _, e := range ph.Edges {
				if add, ok := e.(*ssa.BinOp); ok && add.Op == token.ADD && add.X == ssa.Value(ph) && isConstInt(add.Y, 1) {
					counter = ph
				}
			}
		}
		if counter == nil || counter.Referrers() == nil {
			return false
		}
		bounded := false
		for _, ref := range *counter.Referrers() {
			if cmp, ok := ref.(*ssa.BinOp); ok && cmp.Op == token.LSS && cmp.X == counter {
				if _, isParam := lenSlice(cmp.Y).(*ssa.Parameter); isParam {
					bounded = true
				}
			}
		}
		if !bounded {
			return false
		}
		nIdx++
	}
	return nIdx > 0
}

// baseErrAssume: branch outcomes under the assumption that file.baseErr is non-nil (read
// directly, or handed back by a helper that runs the once and returns it).
func baseErrAssume(cond ssa.Value) int {
	isBaseErr := isBaseErrValue
	if cmp, ok := cond.(*ssa.BinOp); ok && (isBaseErr(cmp.X) || isBaseErr(cmp.Y)) {
		switch cmp.Op {
		case token.NEQ:
			return 1
		case token.EQL:
			return -1
		}
	}
	return 0
}

// baseGoodAtCallers: "" when f is a helper (never used as a value) every call of which is
// preceded by baseOnce.Do and unreachable when baseErr is non-nil — in the caller, or in the
// caller's own callers.
func baseGoodAtCallers(p *Program, f *ssa.Function, depth int) string {
	if depth > 2 {
		return "call chain too long"
	}
	calls, asValue := directCallSites(p, f)
	if asValue || len(calls) == 0 {
		return "not a helper with known callers"
	}
	for _, call := range calls {
		g := call.Parent()
		ins := call.(ssa.Instruction)
		if dominatedByOnce(g, ins) && !reachUnder(g, baseErrAssume)[ins.Block()] {
			continue
		}
		if why := baseGoodAtCallers(p, g, depth+1); why != "" {
			return "called from " + fnName(g) + " where the base may be unset"
		}
	}
	return ""
}

// initAfterBase: init hands file.base to the tools it starts, so the once.Do that runs it
// must come after the base was computed: in the function that calls it, baseOnce.Do
// dominates the call and the call is unreachable when baseErr != nil.
func (c *Check) initAfterBase(init *ssa.Function, sites []*ssa.Call) string {
	p := c.P
	for _, call := range sites {
		g := call.Parent()
		reach := reachUnder(g, func(cond ssa.Value) int {
			if cmp, ok := cond.(*ssa.BinOp); ok && (isBaseErrValue(cmp.X) || isBaseErrValue(cmp.Y)) {
				switch cmp.Op {
				case token.NEQ:
					return 1
				case token.EQL:
					return -1
				}
			}
			return 0
		})
		if !dominatedByOnce(g, call) {
			return "is started in " + fnName(g) + " (" + p.relFile(call.Pos()) + ") before baseOnce.Do has run: the tools are started with a copy of base 0 and are asked about runtime addresses instead of addresses in the file"
		}
		if reach[call.Block()] {
			return "is started in " + fnName(g) + " (" + p.relFile(call.Pos()) + ") on a path where baseErr is non-nil"
		}
	}
	return ""
}

// baseStoredWhenComputed (R8): the load base is a 64-bit value taken modulo 2^64: it
// legitimately wraps when an object is mapped below its link address, so no comparison of it
// with the mapping's addresses is a validity test.  Once GetBase has returned without error,
// computeBase stores its result in file.base on every path: no return is reachable from the
// call, on the err == nil side, that avoids the store.
func (c *Check) baseStoredWhenComputed() {
	p := c.P
	cb := c.anchorFn("C13-R8", "internal/binutils", "(*file).computeBase")
	getBase := p.Func("internal/elfexec", "GetBase")
	if cb == nil || getBase == nil {
		return
	}
	// check: after call (whose result bIdx is the base and eIdx the error) returned without
	// error, fn stores the base in file.base on every path - or hands it back, with a nil
	// error, to callers that do.  Returns "" when that holds, else a description and position.
	var check func(fn *ssa.Function, call *ssa.Call, bIdx, eIdx, depth int) (string, token.Pos)
	check = func(fn *ssa.Function, call *ssa.Call, bIdx, eIdx, depth int) (string, token.Pos) {
		var basev, errv ssa.Value
		if call.Referrers() != nil {
			for _, r := range *call.Referrers() {
				if ex, ok := r.(*ssa.Extract); ok {
					if ex.Index == bIdx {
						basev = ex
					} else if ex.Index == eIdx {
						errv = ex
					}
				}
			}
		}
		if basev == nil {
			return fnName(fn) + " does not use the base that " + call.Call.StaticCallee().Name() + " computed", call.Pos()
		}
		isBase := func(v ssa.Value) bool { return sameErrValue(v, basev) }
		var store *ssa.Store
		for _, b2 := range fn.Blocks {
			for _, i2 := range b2.Instrs {
				if st, ok := i2.(*ssa.Store); ok && isBase(st.Val) {
					if fa, ok := st.Addr.(*ssa.FieldAddr); ok {
						if T, F := fieldOf(fa.X.Type(), fa.Field); T == "binutils.file" && F == "base" {
							store = st
						}
					}
				}
			}
		}
		assume := func(cond ssa.Value) int {
			cmp, ok := cond.(*ssa.BinOp)
			if !ok || errv == nil || !(sameErrValue(cmp.X, errv) || sameErrValue(cmp.Y, errv)) {
				return 0
			}
			switch cmp.Op {
			case token.NEQ:
				return -1
			case token.EQL:
				return 1
			}
			return 0
		}
		// the returns reachable from the call on its success side, not passing the store
		var rets []*ssa.Return
		seen := map[*ssa.BasicBlock]bool{}
		var walk func(x *ssa.BasicBlock)
		walk = func(x *ssa.BasicBlock) {
			if seen[x] || (store != nil && x == store.Block()) {
				return
			}
			seen[x] = true
			switch last := x.Instrs[len(x.Instrs)-1].(type) {
			case *ssa.Return:
				rets = append(rets, last)
				return
			case *ssa.If:
				switch assume(last.Cond) {
				case 1:
					walk(x.Succs[0])
					return
				case -1:
					walk(x.Succs[1])
					return
				}
			}
			for _, sc := range x.Succs {
				walk(sc)
			}
		}
		if store == nil || call.Block() != store.Block() {
			walk(call.Block())
		}
		if store != nil {
			if len(rets) > 0 {
				return fnName(fn) + " can return without storing the base that was computed successfully (a further test of the value)", rets[0].Pos()
			}
			return "", token.NoPos
		}
		// not stored here: every such return hands the base back (with a nil error)
		if depth > 2 || len(rets) == 0 {
			return fnName(fn) + " does not store the result of GetBase in file.base", call.Pos()
		}
		k := -1
		for _, ret := range rets {
			found := -1
			for i, r := range ret.Results {
				if isBase(r) {
					found = i
				}
			}
			if found < 0 || (k >= 0 && found != k) {
				return fnName(fn) + " can return without handing back the base that was computed successfully", ret.Pos()
			}
			k = found
			last := ret.Results[len(ret.Results)-1]
			if sv := closestStoredValue(last); sv != nil {
				last = sv // the named error result as last assigned before the return
			}
			if kk, isConst := last.(*ssa.Const); !isConst || !kk.IsNil() {
				if !(errv != nil && sameErrValue(last, errv)) {
					return fnName(fn) + " returns the computed base together with an error made up afterwards (a further test of the value)", ret.Pos()
				}
			}
		}
		sites, _ := directCallSites(p, fn)
		if len(sites) == 0 {
			return fnName(fn) + " computes the base but is never called", call.Pos()
		}
		for _, cs := range sites {
			wc, ok := cs.(*ssa.Call)
			if !ok {
				continue
			}
			if why, pos := check(wc.Parent(), wc, k, fn.Signature.Results().Len()-1, depth+1); why != "" {
				return why, pos
			}
		}
		return "", token.NoPos
	}
	n := 0
	for _, g := range withHelpers(cb, 2) {
		for _, b := range g.Blocks {
			for _, ins := range b.Instrs {
				call, ok := ins.(*ssa.Call)
				if !ok || call.Call.StaticCallee() != getBase {
					continue
				}
				n++
				key := "base-stored:" + fnName(g)
				if why, pos := check(g, call, 0, 1, 0); why != "" {
					c.bad("C13-R8", key, p.relFile(pos), why+": the base is a wrapped 64-bit difference and is above the mapping start whenever the object is mapped below its link address; such objects then get a sticky error and no address in the mapping is symbolized")
				} else {
					c.ok("C13-R8", key, p.relFile(call.Pos()), "a base computed without error is always stored", "no return is reachable from the GetBase call on its err == nil side without passing the store to file.base (followed to the callers when the base is handed back)")
				}
			}
		}
	}
	if n == 0 {
		c.undecided("C13-R8", "base-stored", p.relFile(cb.Pos()), "computeBase no longer calls elfexec.GetBase")
	}
}

// sameErrValue: v is the error value errv, or a read of the variable it was just stored in (a
// named result or a variable kept in memory because of a defer): the load of a local cell
// whose closest dominating store stores errv.
func sameErrValue(v ssa.Value, errv ssa.Value) bool {
	return sameErrValueD(v, errv, 0)
}

func sameErrValueD(v ssa.Value, errv ssa.Value, depth int) bool {
	if v == errv {
		return true
	}
	if depth > 4 {
		return false
	}
	ld, ok := v.(*ssa.UnOp)
	if !ok || ld.Op != token.MUL {
		return false
	}
	al, ok := ld.X.(*ssa.Alloc)
	if !ok || al.Referrers() == nil {
		return false
	}
	var stores []*ssa.Store
	for _, r := range *al.Referrers() {
		if st, ok := r.(*ssa.Store); ok && st.Addr == ssa.Value(al) {
			stores = append(stores, st)
		}
	}
	for _, st := range stores {
		if !instrDominates(st, ld) {
			continue
		}
		// (a `return x, …` with named results and a defer stores x into itself first)
		if st.Val != errv && !sameErrValueD(st.Val, errv, depth+1) {
			continue
		}
		closest := true
		for _, s2 := range stores {
			if s2 != st && instrDominates(st, s2) && instrDominates(s2, ld) {
				closest = false
			}
		}
		if closest {
			return true
		}
	}
	return false
}

// isBaseErrValue: v is file.baseErr, read directly or handed back (as the only or the last
// result) by a helper that runs the once and returns it.
func isBaseErrValue(v ssa.Value) bool {
	if isFieldLoad(v, "binutils.file", "baseErr") {
		return true
	}
	if call, ok := v.(*ssa.Call); ok {
		return call.Call.StaticCallee() != nil && returnsFieldOfReceiver(call.Call.StaticCallee(), "binutils.file", "baseErr")
	}
	if ex, ok := v.(*ssa.Extract); ok {
		if call, ok := ex.Tuple.(*ssa.Call); ok && call.Call.StaticCallee() != nil && ex.Index == call.Call.StaticCallee().Signature.Results().Len()-1 {
			return returnsFieldOfReceiver(call.Call.StaticCallee(), "binutils.file", "baseErr")
		}
	}
	// an error variable that was assigned one of those
	if ph, ok := v.(*ssa.Phi); ok {
		for _, e := range ph.Edges {
			if k, isC := e.(*ssa.Const); isC && k.IsNil() {
				continue
			}
			if !isBaseErrValue(e) {
				return false
			}
		}
		return len(ph.Edges) > 0
	}
	return false
}

// closestStoredValue: v is the load of a local cell; the value of the closest store that
// dominates the load (nil when v is something else or no store dominates).
func closestStoredValue(v ssa.Value) ssa.Value {
	ld, ok := v.(*ssa.UnOp)
	if !ok || ld.Op != token.MUL {
		return nil
	}
	al, ok := ld.X.(*ssa.Alloc)
	if !ok || al.Referrers() == nil {
		return nil
	}
	var stores []*ssa.Store
	for _, r := range *al.Referrers() {
		if st, ok := r.(*ssa.Store); ok && st.Addr == ssa.Value(al) {
			stores = append(stores, st)
		}
	}
	for _, st := range stores {
		if !instrDominates(st, ld) {
			continue
		}
		closest := true
		for _, s2 := range stores {
			if s2 != st && instrDominates(st, s2) && instrDominates(s2, ld) {
				closest = false
			}
		}
		if closest {
			return st.Val
		}
	}
	return nil
}
