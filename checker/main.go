package main

import (
	"flag"
	"fmt"
	"go/printer"
	"go/token"
	"io"
	"os"
	"path/filepath"
	"runtime/debug"
	"sort"
	"strconv"
	"time"
)

func printerFprint(w io.Writer, fset *token.FileSet, n interface{}) { printer.Fprint(w, fset, n) }

type propDef struct {
	needSSA bool
	run     func(c *Check)
}

var props = map[string]propDef{}

func register(id string, needSSA bool, run func(c *Check)) { props[id] = propDef{needSSA, run} }

func main() {
	prop := flag.String("property", "", "property id (C01..C20) or 'all'")
	tier := flag.String("tier", "quick", "quick|thorough")
	repo := flag.String("repo", "/repo", "repository working tree to analyse")
	verif := flag.String("verif", "", "verif directory (default: parent of the binary's directory)")
	overlayFile := flag.String("overlay", "", "JSON file {path: replacement source} used for checker self-tests")
	quiet := flag.Bool("no-evidence", false, "do not write evidence (self-test subprocesses)")
	flag.Parse()
	if t := os.Getenv("VERIF_TIER"); t != "" && !isFlagSet("tier") {
		*tier = t
	}
	var seed int64
	if s := os.Getenv("VERIF_SEED"); s != "" {
		seed, _ = strconv.ParseInt(s, 10, 64)
	}
	if *verif == "" {
		exe, _ := os.Executable()
		*verif = filepath.Dir(filepath.Dir(exe))
	}
	ids := []string{*prop}
	if *prop == "all" {
		ids = nil
		for id := range props {
			ids = append(ids, id)
		}
		sort.Strings(ids)
	}
	needSSA := false
	for _, id := range ids {
		d, ok := props[id]
		if !ok {
			fmt.Fprintf(os.Stderr, "unknown property %q\n", id)
			os.Exit(2)
		}
		needSSA = needSSA || d.needSSA
	}
	var overlay map[string][]byte
	if *overlayFile != "" {
		var err error
		overlay, err = readOverlay(*overlayFile)
		if err != nil {
			fmt.Fprintln(os.Stderr, err)
			os.Exit(2)
		}
	}
	start := time.Now()
	p, err := Load(*repo, needSSA, overlay)
	if err != nil {
		// A tree that does not load or type-check cannot be verified: fail, never pass.
		fmt.Printf("checker cannot analyse the tree: %v\n", err)
		for _, id := range ids {
			fmt.Printf("VIOLATION property=%s replay=%s\n", id, filepath.Join(*verif, "replays", id+"-load-failure.json"))
		}
		os.Exit(1)
	}
	exit := 0
	for _, id := range ids {
		c := &Check{Prop: id, Tier: *tier, Seed: seed, P: p, start: start, VerifDir: *verif, Extra: map[string]interface{}{}, noEvidence: *quiet}
		c.Assumptions = []string{
			"no use of package unsafe in the module; reflect is used only by driver.(*config).fieldPtr",
			"standard-library functions behave as documented (sort, regexp, html/template, encoding/json, os, sync)",
			"plug-ins supplied from outside the module (plugin.ObjTool, Fetcher, UI, Sym) are opaque and do not write pprof's data structures",
		}
		func() {
			defer func() {
				if r := recover(); r != nil {
					c.undecided("core", "panic", "", fmt.Sprintf("checker panic: %v\n%s", r, debug.Stack()))
				}
			}()
			props[id].run(c)
			if *tier == "thorough" && overlay == nil {
				c.runSelfTests()
			}
		}()
		if rc := c.Finish(); rc > exit {
			exit = rc
		}
		start = time.Now()
	}
	os.Exit(exit)
}

func isFlagSet(name string) bool {
	set := false
	flag.Visit(func(f *flag.Flag) {
		if f.Name == name {
			set = true
		}
	})
	return set
}
