package main

import (
	"fmt"
	"go/token"
	"go/types"
	"strings"

	"golang.org/x/tools/go/ssa"
)

// hideOnlyMatched (R7): hide removes only the frames it describes.  A location may be put
// into the set of wholly hidden locations on account of hide only when the hide expression
// matched it.  Decided by reachability: assume hide is given, show is not, and every test of
// the hide expression against the location reports "no match" (a boolean call that takes the
// expression answers false; a filtered copy made with the expression has the length of what
// it was made from).  Under these assumptions no update of a location set other than the
// selection table may be reachable, in FilterSamplesByName or in the helpers it calls on
// such a path.
func (c *Check) hideOnlyMatched(byName *ssa.Function) {
	p := c.P
	if len(byName.Params) != 5 {
		c.undecided("C06-R7", "hide-only-matched", p.relFile(byName.Pos()), "FilterSamplesByName no longer has the (focus, ignore, hide, show) parameters")
		return
	}
	// the selection table handed to focusedAndNotIgnored
	var sel ssa.Value
	for _, g := range withHelpers(byName, 2) {
		for _, b := range g.Blocks {
			for _, ins := range b.Instrs {
				if cl, ok := ins.(*ssa.Call); ok && cl.Call.StaticCallee() != nil && cl.Call.StaticCallee().Name() == "focusedAndNotIgnored" && len(cl.Call.Args) == 2 {
					sel = argOfParam(p, cl.Call.Args[1], 0)
				}
			}
		}
	}
	bad := ""
	visited := 0
	var analyse func(g *ssa.Function, hide, show ssa.Value, depth int)
	analyse = func(g *ssa.Function, hide, show ssa.Value, depth int) {
		visited++
		takesHide := func(cl *ssa.Call) bool {
			if hide == nil {
				return false
			}
			for _, a := range cl.Call.Args {
				if a == hide {
					return true
				}
			}
			return false
		}
		lenOfHideCopy := func(v ssa.Value) bool {
			cl, ok := v.(*ssa.Call)
			if !ok {
				return false
			}
			if bi, ok := cl.Call.Value.(*ssa.Builtin); !ok || bi.Name() != "len" || len(cl.Call.Args) != 1 {
				return false
			}
			src, ok := cl.Call.Args[0].(*ssa.Call)
			return ok && takesHide(src)
		}
		assume := func(cond ssa.Value) int {
			switch x := cond.(type) {
			case *ssa.BinOp:
				if x.Op != token.NEQ && x.Op != token.EQL {
					return 0
				}
				sign := 1
				if x.Op == token.EQL {
					sign = -1
				}
				for _, side := range []ssa.Value{x.X, x.Y} {
					if hide != nil && side == hide {
						return sign // hide != nil
					}
					if show != nil && side == show {
						return -sign // show == nil
					}
				}
				if lenOfHideCopy(x.X) || lenOfHideCopy(x.Y) {
					return -sign // nothing was filtered out
				}
			case *ssa.Call:
				if bt, ok := x.Type().Underlying().(*types.Basic); ok && bt.Kind() == types.Bool && takesHide(x) {
					return -1 // no match
				}
			}
			return 0
		}
		reach := reachUnder(g, assume)
		for _, b := range g.Blocks {
			if !reach[b] {
				continue
			}
			for _, ins := range b.Instrs {
				switch x := ins.(type) {
				case *ssa.MapUpdate:
					mt, ok := x.Map.Type().Underlying().(*types.Map)
					if !ok {
						continue
					}
					if bt, isB := mt.Elem().Underlying().(*types.Basic); isB && bt.Kind() == types.Bool {
						if k, isC := x.Value.(*ssa.Const); !isC || k.Value == nil || k.Value.String() != "true" {
							continue
						}
					} else if st, isS := mt.Elem().Underlying().(*types.Struct); !isS || st.NumFields() != 0 {
						continue
					}
					if sel != nil && argOfParam(p, x.Map, 0) == sel {
						continue
					}
					if bad == "" {
						bad = p.relFile(x.Pos())
					}
				case *ssa.Call:
					if depth >= 3 {
						continue
					}
					callee := helperCallee(g, x)
					if callee == nil || len(callee.Params) != len(x.Call.Args) {
						continue
					}
					var h2, s2 ssa.Value
					for i, a := range x.Call.Args {
						if hide != nil && a == hide {
							h2 = callee.Params[i]
						}
						if show != nil && a == show {
							s2 = callee.Params[i]
						}
					}
					for i, fv := range callee.FreeVars {
						if mc, ok := x.Call.Value.(*ssa.MakeClosure); ok && i < len(mc.Bindings) {
							if hide != nil && mc.Bindings[i] == hide {
								h2 = fv
							}
							if show != nil && mc.Bindings[i] == show {
								s2 = fv
							}
						}
					}
					analyse(callee, h2, s2, depth+1)
				}
			}
		}
	}
	analyse(byName, byName.Params[3], byName.Params[4], 0)
	if bad != "" {
		c.bad("C06-R7", "hide-only-matched", bad, "FilterSamplesByName can mark a location as wholly hidden although the hide expression is the only one given and did not match it: hide removes frames it does not describe (a location without symbol lines disappears from every stack as soon as any hide expression is set)")
	} else {
		c.ok("C06-R7", "hide-only-matched", p.relFile(byName.Pos()), "a location is hidden on account of hide only after hide matched it", fmt.Sprintf("with hide given, show absent and every test of hide against the location negative, no update of a location set other than the selection table is reachable (%d functions followed)", visited))
	}
}

// keyedTagMatchesValue (R8): a tag filter restricted to a key ("key=regexp") applies its
// regular expressions to the values of that label.  In the predicates built by
// compileTagFilter that pick the values of one key out of Sample.Label (a map lookup, not a
// range over all labels), every string handed to a regexp match must be one of the values
// looked up, unmodified.
func (c *Check) keyedTagMatchesValue(compileTag *ssa.Function) {
	p := c.P
	n := 0
	forEachFuncAndAnon(compileTag, func(g *ssa.Function) {
		if g == compileTag {
			return
		}
		// values looked up by key in a map[string][]string field of the sample
		var looked []ssa.Value
		for _, b := range g.Blocks {
			for _, ins := range b.Instrs {
				lk, ok := ins.(*ssa.Lookup)
				if !ok {
					continue
				}
				mt, ok := lk.X.Type().Underlying().(*types.Map)
				if !ok {
					continue
				}
				sl, ok := mt.Elem().Underlying().(*types.Slice)
				if !ok {
					continue
				}
				if bt, ok := sl.Elem().Underlying().(*types.Basic); !ok || bt.Kind() != types.String {
					continue
				}
				if ld, ok := lk.X.(*ssa.UnOp); ok {
					if fa, ok := ld.X.(*ssa.FieldAddr); ok {
						if T, _ := fieldOf(fa.X.Type(), fa.Field); T != "profile.Sample" {
							continue
						}
					} else {
						continue
					}
				} else {
					continue
				}
				looked = append(looked, lk)
			}
		}
		if len(looked) == 0 {
			return
		}
		isLooked := func(v ssa.Value) bool {
			for i := 0; i < 4; i++ {
				for _, l := range looked {
					if v == l {
						return true
					}
				}
				switch x := v.(type) {
				case *ssa.Extract:
					v = x.Tuple
				case *ssa.Parameter:
					a := argOfParam(p, x, 0)
					if a == v {
						return false
					}
					v = a
				case *ssa.FreeVar:
					// captured by a nested function literal: what the enclosing function bound
					b := freeVarBinding(x)
					if b == nil {
						return false
					}
					v = b
				case *ssa.UnOp:
					// a captured variable read through its cell
					if vals, simple := cellValues(x.X); simple && len(vals) == 1 {
						v = vals[0]
						continue
					}
					if fv, ok := x.X.(*ssa.FreeVar); ok {
						if b := freeVarBinding(fv); b != nil {
							if vals, simple := cellValues(b); simple && len(vals) == 1 {
								v = vals[0]
								continue
							}
						}
					}
					return false
				default:
					return false
				}
			}
			return false
		}
		var elementOf func(v ssa.Value, d int) bool
		elementOf = func(v ssa.Value, d int) bool {
			if d > 4 {
				return false
			}
			switch x := v.(type) {
			case *ssa.UnOp:
				if x.Op != token.MUL {
					return false
				}
				if ia, ok := x.X.(*ssa.IndexAddr); ok {
					return isLooked(ia.X)
				}
			case *ssa.Extract:
				// value of a range over the slice (string iteration is not used for slices)
				if nx, ok := x.Tuple.(*ssa.Next); ok {
					if rg, ok := nx.Iter.(*ssa.Range); ok {
						return isLooked(rg.X)
					}
				}
			case *ssa.Phi:
				for _, e := range x.Edges {
					if !elementOf(e, d+1) {
						return false
					}
				}
				return len(x.Edges) > 0
			case *ssa.Parameter:
				a := argOfParam(p, x, 0)
				return a != v && elementOf(a, d+1)
			}
			return false
		}
		var scope []*ssa.Function
		inScope := map[*ssa.Function]bool{}
		for _, h := range withHelpers(g, 2) {
			forEachFuncAndAnon(h, func(a *ssa.Function) {
				if !inScope[a] {
					inScope[a] = true
					scope = append(scope, a)
				}
			})
		}
		for _, h := range scope {
			for _, b := range h.Blocks {
				for _, ins := range b.Instrs {
					cl, ok := ins.(*ssa.Call)
					if !ok || cl.Call.StaticCallee() == nil {
						continue
					}
					// the values handed to a library search together with the regexp's match
					// method: slices.ContainsFunc(vals, rx.MatchString)
					if fnPkgPath(cl.Call.StaticCallee()) == "slices" && len(cl.Call.Args) == 2 {
						fns, _ := p.MG().funcValues(cl.Call.Args[1], map[ssa.Value]bool{})
						isMatch := false
						for _, fv := range fns {
							if strings.Contains(fv.String(), "regexp.Regexp") && strings.Contains(fv.Name(), "MatchString") {
								isMatch = true
							}
						}
						if isMatch {
							n++
							key := fmt.Sprintf("keyed-match:%s#%d", fnName(g), n)
							if isLooked(cl.Call.Args[0]) {
								c.ok("C06-R8", key, p.relFile(cl.Pos()), "the keyed tag predicate matches the label's values", "the looked-up values are searched with the expression's MatchString")
							} else {
								c.bad("C06-R8", key, p.relFile(cl.Pos()), "the tag predicate restricted to a key searches "+describeValue(cl.Call.Args[0])+" instead of the values of that label")
							}
						}
						continue
					}
					if fnPkgPath(cl.Call.StaticCallee()) != "regexp" {
						continue
					}
					recv := cl.Call.StaticCallee().Signature.Recv()
					if recv == nil || len(cl.Call.Args) != 2 {
						continue
					}
					if bt, ok := cl.Call.Args[1].Type().Underlying().(*types.Basic); !ok || bt.Kind() != types.String {
						continue
					}
					n++
					key := fmt.Sprintf("keyed-match:%s#%d", fnName(g), n)
					if elementOf(cl.Call.Args[1], 0) {
						c.ok("C06-R8", key, p.relFile(cl.Pos()), "the keyed tag predicate matches the label's values", "the matched string is an element of the slice looked up under the key, unmodified")
					} else {
						c.bad("C06-R8", key, p.relFile(cl.Pos()), "the tag predicate restricted to a key matches "+describeValue(cl.Call.Args[1])+" instead of the values of that label: anchored expressions (key=^v$) match nothing and expressions that hit the key's own text match every sample that has the key")
					}
				}
			}
		}
	})
	if n == 0 {
		c.undecided("C06-R8", "keyed-match", p.relFile(compileTag.Pos()), "no regexp match on values looked up by key found in the predicates of compileTagFilter")
	}
}

// rangeBoundUnits (R9): each bound of a numeric tag range is scaled from its own unit.  In
// parseTagFilterRange (outside the predicates) the number and the unit handed to
// measurement.Scale must come from the same submatch group.
func (c *Check) rangeBoundUnits() {
	p := c.P
	f := c.anchorFn("C06-R9", "internal/driver", "parseTagFilterRange")
	if f == nil {
		return
	}
	// group(v): the []string a value was taken from, and the constant position in it
	group := func(v ssa.Value) (ssa.Value, int64, bool) {
		ld, ok := v.(*ssa.UnOp)
		if !ok || ld.Op != token.MUL {
			return nil, 0, false
		}
		ia, ok := ld.X.(*ssa.IndexAddr)
		if !ok {
			return nil, 0, false
		}
		k, ok := constInt(ia.Index)
		if !ok {
			return nil, 0, false
		}
		return ia.X, k, true
	}
	sameGroup := func(a, b ssa.Value) bool {
		a, b = argOfParam(p, a, 0), argOfParam(p, b, 0)
		if a == b {
			return true
		}
		ga, ka, ok1 := group(a)
		gb, kb, ok2 := group(b)
		return ok1 && ok2 && ka == kb && argOfParam(p, ga, 0) == argOfParam(p, gb, 0)
	}
	scale := p.Func("internal/measurement", "Scale")
	n := 0
	for _, g := range withHelpers(f, 2) {
		if g.Parent() != nil {
			continue // the predicates scale the label's value with the label's unit
		}
		for _, b := range g.Blocks {
			for _, ins := range b.Instrs {
				cl, ok := ins.(*ssa.Call)
				if !ok || scale == nil || cl.Call.StaticCallee() != scale || len(cl.Call.Args) != 3 {
					continue
				}
				// the number: result of a strconv parse of group[k]
				num := cl.Call.Args[0]
				if cv, ok := num.(*ssa.Convert); ok {
					num = cv.X
				}
				var src ssa.Value
				if ex, ok := num.(*ssa.Extract); ok {
					if pc, ok := ex.Tuple.(*ssa.Call); ok && pc.Call.StaticCallee() != nil && fnPkgPath(pc.Call.StaticCallee()) == "strconv" && len(pc.Call.Args) > 0 {
						src = pc.Call.Args[0]
					}
				}
				if src == nil {
					continue
				}
				// number text and unit handed in as parameters: the pairing is decided at each call
				if ps, okS := src.(*ssa.Parameter); okS {
					if pu, okU := cl.Call.Args[1].(*ssa.Parameter); okU && ps.Parent() == g && pu.Parent() == g {
						si, ui := -1, -1
						for k, q := range g.Params {
							if q == ps {
								si = k
							}
							if q == pu {
								ui = k
							}
						}
						sites, okC := allCallSites(p, g)
						if okC && si >= 0 && ui >= 0 {
							for _, cs := range sites {
								args := cs.Common().Args
								if si >= len(args) || ui >= len(args) {
									continue
								}
								gn, _, ok1 := group(args[si])
								gu, _, ok2 := group(args[ui])
								if !ok1 || !ok2 {
									continue
								}
								n++
								key := fmt.Sprintf("bound-unit#%d", n)
								if sameGroup(gn, gu) {
									c.ok("C06-R9", key, p.relFile(cs.Pos()), "a range bound is scaled from its own unit", "the number text and the unit handed to "+fnName(g)+" are taken from the same submatch group")
								} else {
									c.bad("C06-R9", key, p.relFile(cs.Pos()), "a bound of a numeric tag range is scaled with the unit written next to the other bound ("+describeValue(args[si])+" with "+describeValue(args[ui])+"): 512kb:2mb is read as 512kb:2kb")
								}
							}
						}
						continue
					}
				}
				gn, _, ok1 := group(src)
				gu, _, ok2 := group(cl.Call.Args[1])
				if !ok1 || !ok2 {
					continue
				}
				n++
				key := fmt.Sprintf("bound-unit#%d", n)
				if sameGroup(gn, gu) {
					c.ok("C06-R9", key, p.relFile(cl.Pos()), "a range bound is scaled from its own unit", "the number parsed and the unit handed to measurement.Scale are taken from the same submatch group")
				} else {
					c.bad("C06-R9", key, p.relFile(cl.Pos()), "a bound of a numeric tag range is scaled with the unit written next to the other bound ("+describeValue(src)+" with "+describeValue(cl.Call.Args[1])+"): 512kb:2mb is read as 512kb:2kb")
				}
			}
		}
	}
	if n == 0 {
		c.undecided("C06-R9", "bound-unit", p.relFile(f.Pos()), "no measurement.Scale call on a parsed bound and its unit found in parseTagFilterRange")
	}
}

// freeVarBinding: the value the enclosing function bound to the free variable when it created
// the function literal (nil when the literal is created at more than one place).
func freeVarBinding(fv *ssa.FreeVar) ssa.Value {
	fn := fv.Parent()
	par := fn.Parent()
	if par == nil {
		return nil
	}
	idx := -1
	for i, q := range fn.FreeVars {
		if q == fv {
			idx = i
		}
	}
	var out ssa.Value
	n := 0
	for _, b := range par.Blocks {
		for _, ins := range b.Instrs {
			if mc, ok := ins.(*ssa.MakeClosure); ok && mc.Fn == ssa.Value(fn) && idx >= 0 && idx < len(mc.Bindings) {
				out = mc.Bindings[idx]
				n++
			}
		}
	}
	if n != 1 {
		return nil
	}
	return out
}
