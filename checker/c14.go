package main

import (
	"fmt"
	"go/token"
	"go/types"
	"strings"

	"golang.org/x/tools/go/ssa"
)

func init() { register("C14", true, runC14) }

func runC14(c *Check) {
	c.Explanation = "Decides only structural clauses of C14 (which group of a pattern means what, and all value arithmetic, are out of static reach): for every legacy text pattern, the capture groups used after a match are within the arity of the pattern and every length test on a match equals groups+1, so a group added to or removed from a pattern cannot silently shift the fields that are read (R1); every legacy parser adds samples only by appending a new sample to the end of the list, so samples appear in input order (R2); every text parser's successful return passes through the trailing memory-map section parser, the binary CPU parser through ParseMemoryMap, the Java parsers through parseJavaLocations, and those always finish with location, function and mapping renumbering (R3); the contention count's multiplication by the period does not depend on the cycle frequency (R4); no integer quotient is converted to floating point in the legacy scaling code (R5); the binary CPU parser removes a sample's second frame only after comparing its address with the shared one (R6); every string attribute that adjacent() lets differ by emptiness is carried over when ranges are merged (R7). Also: duplicated leaf removed only under an equality of the two addresses (R8); heap header alloc columns recognised when either total differs (R9); the main-mapping correction is applied to the current first mapping (R10). Round-I additions: a Location entered in an address-keyed table stores the key as its address; with rate 1 (or below) scaleHeapSample returns the counts unscaled (branch evaluation); the $attr replacer of the memory map accumulates definitions. Not decided: values, scaling, address adjustment, label contents, mapping heuristics."
	p := c.P
	g := newGuardEngine(p)
	legacy := func(f *ssa.Function) bool {
		file := p.Fset.Position(f.Pos()).Filename
		return strings.HasSuffix(file, "legacy_profile.go") || strings.HasSuffix(file, "legacy_java_profile.go")
	}
	// ---- R1
	forAllPkgFuncs(p, "profile", func(f *ssa.Function) {
		if !legacy(f) {
			return
		}
		for _, b := range f.Blocks {
			for _, ins := range b.Instrs {
				call, ok := ins.(*ssa.Call)
				if !ok {
					continue
				}
				n := g.submatchLen(call)
				if n == 0 || call.Call.StaticCallee() == nil || !strings.Contains(call.Call.StaticCallee().Name(), "Submatch") || strings.Contains(call.Call.StaticCallee().Name(), "Index") {
					continue
				}
				re := describeValue(call.Call.Args[0])
				if ld, ok := call.Call.Args[0].(*ssa.UnOp); ok {
					if gl, ok := ld.X.(*ssa.Global); ok {
						re = gl.Name()
					}
				}
				key := fmt.Sprintf("arity:%s:%s", fnName(f), re)
				var bad []string
				maxIdx := int64(-1)
				nTests := 0
				for _, v := range flowsOf(call) {
					for _, r := range *v.Referrers() {
						switch x := r.(type) {
						case *ssa.IndexAddr:
							if k, ok := constInt(x.Index); ok {
								if k > maxIdx {
									maxIdx = k
								}
								if k >= int64(n) {
									bad = append(bad, fmt.Sprintf("group %d is read but the pattern has %d groups", k, n-1))
								}
							}
						case *ssa.Call:
							if bi, ok := x.Call.Value.(*ssa.Builtin); ok && bi.Name() == "len" {
								for _, r2 := range *x.Referrers() {
									if cmp, ok := r2.(*ssa.BinOp); ok {
										var k int64
										var okc bool
										if cmp.X == ssa.Value(x) {
											k, okc = constInt(cmp.Y)
										} else {
											k, okc = constInt(cmp.X)
										}
										if !okc {
											continue
										}
										nTests++
										switch cmp.Op {
										case token.EQL, token.NEQ:
											if k != int64(n) {
												bad = append(bad, fmt.Sprintf("match length is compared with %d but a match always has %d elements", k, n))
											}
										case token.LSS, token.GEQ:
											if k > int64(n) {
												bad = append(bad, fmt.Sprintf("match length is tested against %d but a match has only %d elements", k, n))
											}
										}
									}
								}
							}
						}
					}
				}
				if len(bad) > 0 {
					c.bad("C14-R1", key, p.relFile(call.Pos()), fmt.Sprintf("pattern %s in %s: %s", re, fnName(f), strings.Join(dedup(bad), "; ")))
				} else {
					c.ok("C14-R1", key, p.relFile(call.Pos()), fmt.Sprintf("pattern %s (%d groups) matched in %s", re, n-1, fnName(f)), fmt.Sprintf("highest group read: %d; %d length tests, all equal to %d", maxIdx, nTests, n))
				}
			}
		}
	})
	c.Floor("C14-R1", 10)

	// ---- R2: Profile.Sample only grows by append at the end
	m := newModAnalyzer(p)
	nStores := 0
	forAllPkgFuncs(p, "profile", func(f *ssa.Function) {
		if !legacy(f) {
			return
		}
		for _, e := range m.direct(f) {
			if e.T != "profile.Profile" || e.F != "Sample" {
				continue
			}
			key := "order:" + fnName(f)
			if e.Elem {
				c.bad("C14-R2", key, p.relFile(e.Pos), "elements of Profile.Sample are overwritten in place in "+fnName(f)+" ("+e.What+"): record order is not preserved")
				continue
			}
			st := storeAt(e)
			if st == nil {
				continue
			}
			nStores++
			fa := st.Addr.(*ssa.FieldAddr)
			okAppend := false
			if call, ok := st.Val.(*ssa.Call); ok {
				if bi, ok := call.Call.Value.(*ssa.Builtin); ok && bi.Name() == "append" && isLoadOfField(call.Call.Args[0], fa.X, fa.Field) {
					okAppend = true
				}
			}
			if rk, _ := rootOf(fa.X, 0, map[ssa.Value]bool{}); rk == rFresh {
				okAppend = true // initial value of a profile under construction
			}
			if okAppend {
				c.ok("C14-R2", key, p.relFile(e.Pos), "Profile.Sample grows by append in "+fnName(f), "p.Sample = append(p.Sample, …): one sample per record, in input order")
			} else {
				c.bad("C14-R2", key, p.relFile(e.Pos), "Profile.Sample is assigned something other than append(p.Sample, …) in "+fnName(f))
			}
		}
	})
	if nStores < 5 {
		c.undecided("C14-R2", "order:count", "", fmt.Sprintf("only %d assignments of Profile.Sample found in the legacy parsers", nStores))
	}

	// ---- R3: must-pass-through
	for _, mp := range []struct{ fn, callee string }{
		{"parseGoCount", "parseAdditionalSections"}, {"parseHeap", "parseAdditionalSections"},
		{"parseContention", "parseAdditionalSections"}, {"parseThread", "parseAdditionalSections"},
		{"cpuProfile", "ParseMemoryMap"}, {"javaCPUProfile", "parseJavaLocations"}, {"parseJavaProfile", "parseJavaLocations"},
		{"parseAdditionalSections", "ParseMemoryMapFromScanner"}, {"(*Profile).ParseMemoryMap", "ParseMemoryMapFromScanner"},
		{"(*Profile).ParseMemoryMapFromScanner", "massageMappings"},
		{"(*Profile).ParseMemoryMapFromScanner", "remapLocationIDs"}, {"(*Profile).ParseMemoryMapFromScanner", "remapFunctionIDs"}, {"(*Profile).ParseMemoryMapFromScanner", "remapMappingIDs"},
		{"parseJavaLocations", "remapLocationIDs"}, {"parseJavaLocations", "remapFunctionIDs"}, {"parseJavaLocations", "remapMappingIDs"},
	} {
		f := c.anchorFn("C14-R3", "profile", mp.fn)
		if f == nil {
			continue
		}
		key := "through:" + mp.fn + "→" + mp.callee
		var calls []ssa.Instruction
		for _, b := range f.Blocks {
			for _, ins := range b.Instrs {
				if call, ok := ins.(ssa.CallInstruction); ok && call.Common().StaticCallee() != nil && call.Common().StaticCallee().Name() == mp.callee {
					calls = append(calls, ins)
				}
			}
		}
		if len(calls) == 0 {
			c.bad("C14-R3", key, p.relFile(f.Pos()), mp.fn+" no longer calls "+mp.callee)
			continue
		}
		ok := true
		nret := 0
		for _, b := range f.Blocks {
			ret, isRet := b.Instrs[len(b.Instrs)-1].(*ssa.Return)
			if !isRet {
				continue
			}
			// success return: the error result is the nil constant, or the callee's own result is returned
			errv := ret.Results[len(ret.Results)-1]
			if k, isConst := errv.(*ssa.Const); !isConst || !k.IsNil() {
				direct := false
				for _, cl := range calls {
					if v, isVal := cl.(ssa.Value); isVal && (errv == v) {
						direct = true
					}
				}
				if !direct {
					continue // an error return
				}
			}
			nret++
			dominated := false
			for _, cl := range calls {
				if instrDominates(cl, ret) {
					dominated = true
				}
			}
			if !dominated {
				ok = false
			}
		}
		if ok && nret > 0 {
			c.ok("C14-R3", key, p.relFile(calls[0].Pos()), mp.fn+" always runs "+mp.callee+" before returning successfully", "the call dominates every successful return")
		} else {
			c.bad("C14-R3", key, p.relFile(f.Pos()), mp.fn+" can return successfully without running "+mp.callee)
		}
	}
	c.periodScaling()
	c.floatQuotients(legacy)
	c.signalFrameRemoval()
	c.signalFrameThreshold()
	c.mergedMappingAttributes()
	c.mergeWithLastKept()
	c.duplicateLeafByEquality()
	c.heapHeaderAllocColumns()
	c.rebaseCurrentFirstMapping()
	c.locationKeyIsAddress()
	c.unsampledRateOne()
	c.replacerAccumulates()
	c.partialLastLineProcessed()
	c.offsetsComparedWhenBothKnown()
	c.wordReadersHaveOneByteOrder()
}

// signalFrameRemoval (R6): the binary CPU parser removes the frame at position 1 only from
// the samples that actually have the shared signal-handler address there.  The re-slice
// of Sample.Location in cpuProfile is dominated by the taken branch of an equality test
// on that sample's Location.Address.
func (c *Check) signalFrameRemoval() {
	p := c.P
	f := c.anchorFn("C14-R6", "profile", "cpuProfile")
	if f == nil {
		return
	}
	n := 0
	var blocks []*ssa.BasicBlock
	inScope := map[*ssa.Function]bool{}
	for _, g := range withHelpers(f, 3) {
		if g == f || g.Parent() != nil || !strings.HasPrefix(g.Name(), "parse") && g.Name() != "cleanupDuplicateLocations" && g.Name() != "ParseMemoryMap" {
			blocks = append(blocks, g.Blocks...)
			inScope[g] = true
		}
	}
	// addrGuarded: block b is entered only on the taken branch of an equality test on a frame address
	addrGuarded := func(b *ssa.BasicBlock) bool {
		for d, child := b.Idom(), b; d != nil; child, d = d, d.Idom() {
			iff, ok := d.Instrs[len(d.Instrs)-1].(*ssa.If)
			if !ok || d.Succs[0] != child || len(child.Preds) != 1 {
				continue
			}
			if cmp, ok := iff.Cond.(*ssa.BinOp); ok && cmp.Op == token.EQL && (isFieldLoad(cmp.X, "profile.Location", "Address") || isFieldLoad(cmp.Y, "profile.Location", "Address")) {
				return true
			}
		}
		return false
	}
	for _, b := range blocks {
		for _, ins := range b.Instrs {
			st, ok := ins.(*ssa.Store)
			if !ok {
				continue
			}
			fa, ok := st.Addr.(*ssa.FieldAddr)
			if !ok {
				continue
			}
			if T, F := fieldOf(fa.X.Type(), fa.Field); T != "profile.Sample" || F != "Location" {
				continue
			}
			if _, fresh := fa.X.(*ssa.Alloc); fresh {
				continue
			}
			n++
			guarded := addrGuarded(b)
			if !guarded {
				// the removal itself is a helper working on the sample it is given: the test is
				// made by its callers (those that belong to the signal-frame logic)
				if par, isPar := fa.X.(*ssa.Parameter); isPar {
					calls, asValue := directCallSites(p, par.Parent())
					nIn := 0
					all := !asValue
					for _, call := range calls {
						if !inScope[call.Parent()] {
							continue
						}
						nIn++
						if !addrGuarded(call.Block()) {
							all = false
						}
					}
					guarded = all && nIn > 0
				}
			}
			if guarded {
				c.ok("C14-R6", "signal-frame", p.relFile(st.Pos()), "the shared frame is removed only where it is present", "the re-slice of Sample.Location is dominated by an equality test on that sample's frame address")
			} else {
				c.bad("C14-R6", "signal-frame", p.relFile(st.Pos()), "cpuProfile removes the second frame of a sample without comparing its address with the shared signal-handler address: samples that do not contain that frame lose a real caller")
			}
		}
	}
	if n == 0 {
		c.undecided("C14-R6", "signal-frame", p.relFile(f.Pos()), "cpuProfile no longer re-slices Sample.Location")
	}
}

// mergedMappingAttributes (R7): adjacent() lets two ranges merge when an identifying
// string attribute (file name, build id) is empty on one side; massageMappings must then
// carry every such attribute over to the surviving mapping.  The set of string fields
// adjacent() reads is the reference; each must be stored into the surviving mapping in the
// merge branch.
func (c *Check) mergedMappingAttributes() {
	p := c.P
	adj := c.anchorFn("C14-R7", "profile", "adjacent")
	mm := c.anchorFn("C14-R7", "profile", "(*Profile).massageMappings")
	if adj == nil || mm == nil {
		return
	}
	attrs := map[string]bool{}
	for _, b := range adj.Blocks {
		for _, ins := range b.Instrs {
			if fa, ok := ins.(*ssa.FieldAddr); ok {
				if T, F := fieldOf(fa.X.Type(), fa.Field); T == "profile.Mapping" {
					if bt, ok := fa.Type().(*types.Pointer).Elem().Underlying().(*types.Basic); ok && bt.Kind() == types.String {
						attrs[F] = true
					}
				}
			}
		}
	}
	if len(attrs) == 0 {
		c.undecided("C14-R7", "merge-attrs", p.relFile(adj.Pos()), "adjacent() reads no string attribute of Mapping")
		return
	}
	stored := map[string]bool{}
	for _, b := range helperBlocks(mm, 2) {
		for _, ins := range b.Instrs {
			st, ok := ins.(*ssa.Store)
			if !ok {
				continue
			}
			if fa, ok := st.Addr.(*ssa.FieldAddr); ok {
				if T, F := fieldOf(fa.X.Type(), fa.Field); T == "profile.Mapping" && fieldLoadOf(st.Val, "profile.Mapping", F) {
					stored[F] = true
				}
			}
		}
	}
	for _, F := range sortedBoolKeys(attrs) {
		key := "merge-attrs:" + F
		if stored[F] {
			c.ok("C14-R7", key, p.relFile(mm.Pos()), "Mapping."+F+" is carried over when adjacent ranges are merged", "adjacent() tolerates an empty "+F+" on one side and massageMappings copies it to the surviving mapping")
		} else {
			c.bad("C14-R7", key, p.relFile(mm.Pos()), "adjacent() merges two ranges when Mapping."+F+" is empty on one of them, but massageMappings no longer copies "+F+" to the surviving mapping: a memory map that lists a binary as two adjacent ranges loses the "+F+" given on the second")
		}
	}
}

// periodScaling (R4): contention counts are multiplied by the sampling period whenever a
// period is given; only the conversion of delays to time needs the cycle frequency.  The
// integer multiplication by the period in parseContentionSample must therefore be
// reachable whatever the comparisons on the other (frequency) parameter decide.
func (c *Check) periodScaling() {
	p := c.P
	f := c.anchorFn("C14-R4", "profile", "parseContentionSample")
	if f == nil {
		return
	}
	var ints []*ssa.Parameter
	for _, pr := range f.Params {
		if bt, ok := pr.Type().Underlying().(*types.Basic); ok && bt.Kind() == types.Int64 {
			ints = append(ints, pr)
		}
	}
	var mul *ssa.BinOp
	var period *ssa.Parameter
	for _, b := range f.Blocks {
		for _, ins := range b.Instrs {
			bo, ok := ins.(*ssa.BinOp)
			if !ok || bo.Op != token.MUL {
				continue
			}
			if bt, ok := bo.Type().Underlying().(*types.Basic); !ok || bt.Info()&types.IsInteger == 0 {
				continue
			}
			for _, pr := range ints {
				if bo.X == ssa.Value(pr) || bo.Y == ssa.Value(pr) {
					mul, period = bo, pr
				}
			}
		}
	}
	if mul == nil || len(ints) != 2 {
		c.undecided("C14-R4", "period-scaling", p.relFile(f.Pos()), "integer multiplication of the contention count by the period parameter not found in parseContentionSample")
		return
	}
	var other *ssa.Parameter
	for _, pr := range ints {
		if pr != period {
			other = pr
		}
	}
	for _, pol := range []int{1, -1} {
		reach := reachUnder(f, func(cond ssa.Value) int {
			if cmp, ok := cond.(*ssa.BinOp); ok && (cmp.X == ssa.Value(other) || cmp.Y == ssa.Value(other)) {
				return pol
			}
			return 0
		})
		if !reach[mul.Block()] {
			c.bad("C14-R4", "period-scaling", p.relFile(mul.Pos()), "parseContentionSample multiplies the contention count by "+period.Name()+" only for some values of "+other.Name()+": a profile that gives a sampling period but no cycle frequency keeps raw counts")
			return
		}
	}
	c.ok("C14-R4", "period-scaling", p.relFile(mul.Pos()), "the contention count is multiplied by the period independently of "+other.Name(), "the multiplication is reachable whichever way the comparisons on "+other.Name()+" go")
}

// floatQuotients (R5): the unsampling formulas are floating-point.  A value converted to
// floating point in the legacy parsers is never the result of an integer division (which
// would truncate the average object size before it enters 1/(1-exp(-size/rate))).
func (c *Check) floatQuotients(legacy func(*ssa.Function) bool) {
	p := c.P
	n := 0
	forAllPkgFuncs(p, "profile", func(f *ssa.Function) {
		if !legacy(f) {
			return
		}
		for _, b := range f.Blocks {
			for _, ins := range b.Instrs {
				cv, ok := ins.(*ssa.Convert)
				if !ok {
					continue
				}
				to, ok1 := cv.Type().Underlying().(*types.Basic)
				from, ok2 := cv.X.Type().Underlying().(*types.Basic)
				if !ok1 || !ok2 || to.Info()&types.IsFloat == 0 || from.Info()&types.IsInteger == 0 {
					continue
				}
				n++
				key := "float-quotient:" + fnName(f) + ":" + describeValue(cv.X)
				if q, ok := cv.X.(*ssa.BinOp); ok && (q.Op == token.QUO || q.Op == token.REM) {
					c.bad("C14-R5", key, p.relFile(cv.Pos()), fnName(f)+" converts the result of an integer division to floating point: the quotient is truncated before it enters the scaling formula (average object size in the heap unsampling), so unsampled counts and bytes are off for records whose bytes are not a multiple of their count")
				} else {
					c.ok("C14-R5", key, p.relFile(cv.Pos()), "integer converted to floating point before any division in "+fnName(f), "operand is not an integer quotient")
				}
			}
		}
	})
	if n < 5 {
		c.undecided("C14-R5", "float-quotient", "", fmt.Sprintf("expected the integer-to-float conversions of the legacy scaling code, found %d", n))
	}
}

// flowsOf: the value and the phis/cells it flows into within the function (one level).
func flowsOf(v ssa.Value) []ssa.Value {
	out := []ssa.Value{v}
	seen := map[ssa.Value]bool{v: true}
	for i := 0; i < len(out); i++ {
		if out[i].Referrers() == nil {
			continue
		}
		for _, r := range *out[i].Referrers() {
			if ph, ok := r.(*ssa.Phi); ok && !seen[ph] {
				seen[ph] = true
				out = append(out, ph)
			}
		}
	}
	return out
}
