package main

import (
	"fmt"
	"go/token"
	"go/types"
	"sort"
	"strings"

	"golang.org/x/tools/go/ssa"
)

// Round I: rules added after the ninth set of seeded changes.  Each is a structural necessary
// condition of a clause of its property; the comment on each says which.

// relabel runs a rule that files its obligations under another property's rule id and
// renames those obligations; keep selects the ones that belong to the clause claimed here.
func (c *Check) relabel(run func(), from, to string, keep func(o *Obligation) bool) {
	before := len(c.Obls)
	run()
	kept := c.Obls[:before]
	for _, o := range c.Obls[before:] {
		if o.Rule != from || (keep != nil && !keep(o)) {
			continue
		}
		o.Rule = to
		kept = append(kept, o)
	}
	c.Obls = kept
}

// reachableGlobalWrites lists the instructions, in module functions reachable from roots, that
// change a package-level variable of the module: stores, map updates, delete/clear, and the
// mutating methods of sync.Map / sync.Pool / atomic values rooted at a package-level variable.
type globalWrite struct {
	name string
	f    *ssa.Function
	ins  ssa.Instruction
}

func syncMutator(call *ssa.Call) *ssa.Global {
	callee := call.Call.StaticCallee()
	if callee == nil || callee.Signature.Recv() == nil || len(call.Call.Args) == 0 {
		return nil
	}
	pk := fnPkgPath(callee)
	if pk != "sync" && pk != "sync/atomic" {
		return nil
	}
	switch callee.Name() {
	case "Store", "LoadOrStore", "LoadAndDelete", "Delete", "Swap", "CompareAndSwap", "CompareAndDelete", "Put", "Add", "Clear", "And", "Or":
	default:
		return nil
	}
	return globalOf(call.Call.Args[0])
}

func reachableGlobalWrites(p *Program, roots []*ssa.Function) (hits []globalWrite, parent map[*ssa.Function]*ssa.Function, nfn int) {
	parent, order := p.MG().Reach(roots, nil)
	for _, f := range order {
		if !fnInModule(f) || f.Blocks == nil || onlyRunsDuringInit(p, f, 0) {
			continue
		}
		nfn++
		for _, b := range f.Blocks {
			for _, ins := range b.Instrs {
				var g *ssa.Global
				switch x := ins.(type) {
				case *ssa.Store:
					g = globalOf(x.Addr)
				case *ssa.MapUpdate:
					g = globalOf(x.Map)
				case *ssa.Call:
					if bi, ok := x.Call.Value.(*ssa.Builtin); ok && (bi.Name() == "delete" || bi.Name() == "clear") && len(x.Call.Args) > 0 {
						g = globalOf(x.Call.Args[0])
					} else {
						g = syncMutator(x)
					}
				}
				if g == nil || g.Pkg == nil || !inModule(g.Pkg.Pkg.Path()) {
					continue
				}
				hits = append(hits, globalWrite{g.Pkg.Pkg.Name() + "." + g.Name(), f, ins})
			}
		}
	}
	sort.Slice(hits, func(i, j int) bool { return hits[i].ins.Pos() < hits[j].ins.Pos() })
	return hits, parent, nfn
}

// pruneIsStateless (C11-R11): what Prune, PruneFrom and RemoveUninteresting remove depends on
// the profile and the two expressions only.  No function reachable from them changes a
// package-level variable: a decision remembered across calls (keyed by less than everything
// it depends on, e.g. the drop expression without the keep expression) makes the frames
// removed from one profile depend on the profiles pruned before it.
func (c *Check) pruneIsStateless() {
	p := c.P
	var roots []*ssa.Function
	for _, n := range []string{"(*Profile).Prune", "(*Profile).PruneFrom", "(*Profile).RemoveUninteresting"} {
		if f := c.anchorFn("C11-R11", "profile", n); f != nil {
			forEachFuncAndAnon(f, func(g *ssa.Function) { roots = append(roots, g) })
		}
	}
	if len(roots) == 0 {
		return
	}
	hits, parent, nfn := reachableGlobalWrites(p, roots)
	seen := map[string]bool{}
	for _, h := range hits {
		key := "prune-state:" + h.name + "@" + fnName(h.f)
		if seen[key] {
			continue
		}
		seen[key] = true
		c.bad("C11-R11", key, p.relFile(h.ins.Pos()), fmt.Sprintf("%s changes the package-level variable %s while frames are pruned (%s): which frames one call removes then depends on the calls made before it", fnName(h.f), h.name, callPath(parent, h.f)))
	}
	c.ok("C11-R11", "prune-state:scan", "", "pruning keeps no state between calls", fmt.Sprintf("%d module functions reachable from Prune, PruneFrom and RemoveUninteresting scanned for stores, map updates, deletes and sync.Map/Pool mutations rooted at a package-level variable", nfn))
}

// negationRecursionGuarded (C09-R10): a function that calls itself on the negation of an
// integer parameter terminates only if the negation is positive; for the smallest int64 it is
// not (-MinInt64 == MinInt64), and the recursion ends in a stack overflow that no recover
// stops.  Every such call is dominated by a test that the negated value is > 0 (or that the
// parameter is not the minimum).
func (c *Check) negationRecursionGuarded() {
	p := c.P
	n := 0
	for f := range p.AllFns {
		if !fnInModule(f) || f.Blocks == nil || strings.Contains(fnPkgPath(f), "third_party") {
			continue
		}
		for _, b := range f.Blocks {
			for _, ins := range b.Instrs {
				call, ok := ins.(*ssa.Call)
				if !ok || call.Call.StaticCallee() != f {
					continue
				}
				for _, a := range call.Call.Args {
					neg, ok := a.(*ssa.UnOp)
					if !ok || neg.Op != token.SUB {
						continue
					}
					par, ok := neg.X.(*ssa.Parameter)
					if !ok {
						continue
					}
					if bt, ok := par.Type().Underlying().(*types.Basic); !ok || bt.Info()&types.IsInteger == 0 || bt.Info()&types.IsUnsigned != 0 {
						continue
					}
					n++
					key := "neg-recursion:" + fnName(f) + ":" + par.Name()
					if negationKnownPositive(b, par) {
						c.ok("C09-R10", key, p.relFile(call.Pos()), fnName(f)+" calls itself on -"+par.Name()+" only when the negation is positive", "a dominating branch tests -"+par.Name()+" > 0 (false for the minimum value, whose negation is itself)")
					} else {
						c.bad("C09-R10", key, p.relFile(call.Pos()), fnName(f)+" calls itself on -"+par.Name()+" whenever "+par.Name()+" is negative: for the smallest value the negation is the value itself, the recursion never ends and the process dies of a stack overflow (a tag filter bound of -9223372036854775808 is enough)")
					}
				}
			}
		}
	}
	if n == 0 {
		c.ok("C09-R10", "neg-recursion:none", "", "no function calls itself on the negation of an integer parameter", "all module functions scanned")
	}
}

// negationKnownPositive: block b is only reached through the true edge of a test -x > 0
// (or 0 < -x, -x >= 1), or the false edge of x == MinInt / true edge of x != MinInt.
func negationKnownPositive(b *ssa.BasicBlock, x ssa.Value) bool {
	isNeg := func(v ssa.Value) bool {
		u, ok := v.(*ssa.UnOp)
		return ok && u.Op == token.SUB && u.X == x
	}
	isMin := func(v ssa.Value) bool {
		k, ok := v.(*ssa.Const)
		if !ok || k.Value == nil {
			return false
		}
		n, ok := constInt(k)
		return ok && (n == -1<<63 || n == -1<<31)
	}
	var test func(cond ssa.Value, want bool, d int) bool
	test = func(cond ssa.Value, want bool, d int) bool {
		if d > 6 {
			return false
		}
		switch v := cond.(type) {
		case *ssa.UnOp:
			if v.Op == token.NOT {
				return test(v.X, !want, d+1)
			}
		case *ssa.BinOp:
			op, l, r := v.Op, v.X, v.Y
			if !want {
				switch op {
				case token.GTR:
					op = token.LEQ
				case token.LEQ:
					op = token.GTR
				case token.LSS:
					op = token.GEQ
				case token.GEQ:
					op = token.LSS
				case token.EQL:
					op = token.NEQ
				case token.NEQ:
					op = token.EQL
				}
			}
			zero := func(v ssa.Value) bool { n, ok := constInt(v); return ok && n == 0 }
			one := func(v ssa.Value) bool { n, ok := constInt(v); return ok && n == 1 }
			switch {
			case op == token.GTR && isNeg(l) && zero(r), op == token.LSS && zero(l) && isNeg(r),
				op == token.GEQ && isNeg(l) && one(r), op == token.LEQ && one(l) && isNeg(r):
				return true
			case op == token.NEQ && ((l == x && isMin(r)) || (r == x && isMin(l))):
				return true
			case op == token.GTR && l == x && isMin(r), op == token.LSS && isMin(l) && r == x:
				return true
			}
		case *ssa.Phi:
			// a && b compiled to a phi: every non-constant-false edge must establish it
			okAll := len(v.Edges) > 0 && want
			for i, e := range v.Edges {
				if k, isK := e.(*ssa.Const); isK && k.Value != nil && !constBool(k) {
					continue
				}
				pred := v.Block().Preds[i]
				if !test(e, true, d+1) && !dominatedByTest(pred, test, d+1) {
					okAll = false
				}
			}
			return okAll
		}
		return false
	}
	return dominatedByTest(b, test, 0)
}

func constBool(k *ssa.Const) bool {
	return k.Value != nil && k.Value.String() == "true"
}

// dominatedByTest walks the dominator chain of b: some dominating If whose taken edge leads
// to (a dominator of) b satisfies test.
func dominatedByTest(b *ssa.BasicBlock, test func(cond ssa.Value, want bool, d int) bool, d int) bool {
	for cur := b; cur != nil; cur = cur.Idom() {
		id := cur.Idom()
		if id == nil {
			break
		}
		ifi, ok := id.Instrs[len(id.Instrs)-1].(*ssa.If)
		if !ok || len(id.Succs) != 2 {
			continue
		}
		// cur must be reached only through one edge of id
		if id.Succs[0] == cur && len(cur.Preds) == 1 && test(ifi.Cond, true, d) {
			return true
		}
		if id.Succs[1] == cur && len(cur.Preds) == 1 && test(ifi.Cond, false, d) {
			return true
		}
	}
	return false
}

// internResultUsed (C12-R8): local symbolization hands every function it creates to an
// interning closure (func(*profile.Function) *profile.Function) that returns the entry already
// in the profile when there is one.  The entry a line refers to must be that result: a call
// whose result is dropped leaves the line pointing at an object that is not in p.Function
// (the line loses its function on the next Write, and ids collide).
func (c *Check) internResultUsed() {
	p := c.P
	n := 0
	forAllPkgFuncs(p, "internal/symbolizer", func(f *ssa.Function) {
		forEachFuncAndAnon(f, func(g *ssa.Function) {
			for _, b := range g.Blocks {
				for _, ins := range b.Instrs {
					call, ok := ins.(*ssa.Call)
					if !ok || call.Call.IsInvoke() {
						continue
					}
					sig := call.Call.Signature()
					if sig.Params().Len() != 1 || sig.Results().Len() != 1 || !types.Identical(sig.Params().At(0).Type(), sig.Results().At(0).Type()) {
						continue
					}
					if typeShort(sig.Params().At(0).Type()) != "*profile.Function" {
						continue
					}
					n++
					key := fmt.Sprintf("intern-result:%s#%d", fnName(g), n)
					if refs := call.Referrers(); refs == nil || len(*refs) == 0 {
						c.bad("C12-R8", key, p.relFile(call.Pos()), fnName(g)+" drops the result of the function interner: the line keeps the freshly built *profile.Function instead of the entry registered in the profile, so two frames of one function refer to different objects and the unregistered one is lost (id 0) when the profile is written")
					} else {
						c.ok("C12-R8", key, p.relFile(call.Pos()), "the interned function entry is what the caller goes on to use", "the call's result has uses")
					}
				}
			}
		})
	})
	if n == 0 {
		c.ok("C12-R8", "intern-result:none", "", "package symbolizer has no func(*profile.Function) *profile.Function interner", "nothing to check")
	}
}

// combinedSourcesFresh (C16-R11): combineProfiles returns a mapping-source table of its own.
// Every map it updates is one it made: updating a map taken from its msrcs parameter writes
// into a nil map when that source came without a URL (a panic on a fetch goroutine), and
// aliases one input's table with the result.
func (c *Check) combinedSourcesFresh() {
	p := c.P
	f := c.anchorFn("C16-R11", "internal/driver", "combineProfiles")
	if f == nil {
		return
	}
	n := 0
	for _, g := range withHelpers(f, 1) {
		for _, b := range g.Blocks {
			for _, ins := range b.Instrs {
				mu, ok := ins.(*ssa.MapUpdate)
				if !ok {
					continue
				}
				n++
				key := fmt.Sprintf("fresh-map:%s#%d", fnName(g), n)
				if root := mapRoot(mu.Map, 0); root == "" {
					c.ok("C16-R11", key, p.relFile(mu.Pos()), "the table updated while sources are combined was made here", "the map operand is a make(map) of this function on every path")
				} else {
					c.bad("C16-R11", key, p.relFile(mu.Pos()), fnName(g)+" updates a map it did not make ("+root+"): the mapping sources of a profile read from a local file are a nil map, so the update panics on the fetch goroutine whenever that profile comes first, and otherwise the result shares its table with an input")
				}
			}
		}
	}
	if n == 0 {
		c.ok("C16-R11", "fresh-map:none", p.relFile(f.Pos()), "combineProfiles updates no map", "nothing to check")
	}
}

// mapRoot returns "" when v is a map made in its own function on every path, else a short
// description of where it comes from.
func mapRoot(v ssa.Value, d int) string {
	if d > 8 {
		return "too deep"
	}
	switch x := v.(type) {
	case *ssa.MakeMap:
		return ""
	case *ssa.Phi:
		for _, e := range x.Edges {
			if e == v {
				continue
			}
			if r := mapRoot(e, d+1); r != "" {
				return r
			}
		}
		return ""
	case *ssa.ChangeType:
		return mapRoot(x.X, d+1)
	case *ssa.MakeInterface:
		return mapRoot(x.X, d+1)
	case *ssa.UnOp:
		if x.Op == token.MUL {
			if al, ok := x.X.(*ssa.Alloc); ok {
				whole, _ := allocStores(al)
				if len(whole) == 0 {
					return "an unset variable"
				}
				for _, w := range whole {
					if r := mapRoot(w, d+1); r != "" {
						return r
					}
				}
				return ""
			}
			if _, ok := x.X.(*ssa.IndexAddr); ok {
				return "an element of a slice"
			}
			if _, ok := x.X.(*ssa.FieldAddr); ok {
				return "a field"
			}
		}
	case *ssa.Parameter:
		return "parameter " + x.Name()
	case *ssa.Call:
		return "a call result"
	}
	return "not a make(map)"
}

// locationKeyIsAddress (C14-R11): the legacy text parsers keep one Location per address in a
// map keyed by address.  The Address stored in a Location that is entered under key k is k:
// when the key and the stored address differ (an adjustment applied after the lookup), two
// stack positions that need different addresses share one Location.
func (c *Check) locationKeyIsAddress() {
	p := c.P
	n := 0
	forAllPkgFuncs(p, "profile", func(f *ssa.Function) {
		if !strings.HasSuffix(p.Fset.Position(f.Pos()).Filename, "/legacy_profile.go") && !strings.HasSuffix(p.Fset.Position(f.Pos()).Filename, "/legacy_java_profile.go") {
			return
		}
		forEachFuncAndAnon(f, func(g *ssa.Function) {
			for _, b := range g.Blocks {
				for _, ins := range b.Instrs {
					mu, ok := ins.(*ssa.MapUpdate)
					if !ok {
						continue
					}
					mt, ok := mu.Map.Type().Underlying().(*types.Map)
					if !ok || typeShort(mt.Elem()) != "*profile.Location" {
						continue
					}
					if bt, ok := mt.Key().Underlying().(*types.Basic); !ok || bt.Kind() != types.Uint64 {
						continue
					}
					al, ok := mu.Value.(*ssa.Alloc)
					if !ok {
						continue // an existing location re-entered under another key
					}
					n++
					key := fmt.Sprintf("loc-key:%s#%d", fnName(g), n)
					bad := ""
					nst := 0
					if refs := al.Referrers(); refs != nil {
						for _, r := range *refs {
							fa, ok := r.(*ssa.FieldAddr)
							if !ok {
								continue
							}
							if _, F := fieldOf(fa.X.Type(), fa.Field); F != "Address" {
								continue
							}
							for _, r2 := range *fa.Referrers() {
								st, ok := r2.(*ssa.Store)
								if !ok || st.Addr != fa {
									continue
								}
								nst++
								if st.Val != mu.Key {
									bad = p.relFile(st.Pos())
								}
							}
						}
					}
					switch {
					case bad != "":
						c.bad("C14-R11", key, p.relFile(mu.Pos()), fnName(g)+" enters a new Location under one address but stores a different Address in it ("+bad+"): a later stack that reaches the same key at a position needing the other adjustment (leaf versus caller) reuses the Location with the wrong address")
					case nst == 0:
						// ID-keyed or address set elsewhere: not this pattern
						n--
					default:
						c.ok("C14-R11", key, p.relFile(mu.Pos()), "a Location is entered in the address table under the address it stores", "every store to its Address field writes the map key")
					}
				}
			}
		})
	})
	if n == 0 {
		c.ok("C14-R11", "loc-key:none", "", "the legacy parsers keep no address-keyed Location table", "nothing to check")
	}
}

// parsedBeforeStored (C10-R7): (*config).set changes an option only when the text parses.  A
// value that is the first result of a call that also returns an error is stored through the
// field pointer only on a path where that error was tested and found nil; stored first, a
// rejected assignment (nodecount=2o) leaves a zero in the option store although the user saw
// an error, and every later report is made with it.
func (c *Check) parsedBeforeStored() {
	p := c.P
	f := c.anchorFn("C10-R7", "internal/driver", "(*config).set")
	if f == nil {
		return
	}
	n := 0
	for _, g := range withHelpers(f, 1) {
		for _, b := range g.Blocks {
			for _, ins := range b.Instrs {
				st, ok := ins.(*ssa.Store)
				if !ok {
					continue
				}
				ex, ok := st.Val.(*ssa.Extract)
				if !ok {
					continue
				}
				call, ok := ex.Tuple.(*ssa.Call)
				if !ok {
					continue
				}
				res := call.Call.Signature().Results()
				if res.Len() < 2 || !isErrorType(res.At(res.Len()-1).Type()) || ex.Index == res.Len()-1 {
					continue
				}
				if _, isAlloc := st.Addr.(*ssa.Alloc); isAlloc {
					continue // a local: not the option store
				}
				n++
				key := fmt.Sprintf("parse-then-store:%s#%d", fnName(g), n)
				var errv ssa.Value
				for _, r := range *call.Referrers() {
					if e, ok := r.(*ssa.Extract); ok && e.Index == res.Len()-1 {
						errv = e
					}
				}
				if errv != nil && errKnownNil(b, errv) {
					c.ok("C10-R7", key, p.relFile(st.Pos()), "a parsed option value is stored only after its error was found nil", "the store is dominated by the nil edge of a test of the parse error")
				} else {
					c.bad("C10-R7", key, p.relFile(st.Pos()), fnName(g)+" stores the result of "+calleeShort(call)+" through the option pointer before (or without) testing its error: an assignment that is rejected still overwrites the option with the zero value, and the reports that follow use it")
				}
			}
		}
	}
	if n == 0 {
		c.ok("C10-R7", "parse-then-store:none", p.relFile(f.Pos()), "(*config).set stores no call result that comes with an error directly", "parsed values go through a local that is tested first")
	}
}

func isErrorType(t types.Type) bool {
	return types.Identical(t, types.Universe.Lookup("error").Type())
}

func calleeShort(call *ssa.Call) string {
	if f := call.Call.StaticCallee(); f != nil {
		return fnName(f)
	}
	return "a call"
}

// errKnownNil: b is reached only through the edge of a test of errv on which errv is nil.
func errKnownNil(b *ssa.BasicBlock, errv ssa.Value) bool {
	var test func(cond ssa.Value, want bool, d int) bool
	test = func(cond ssa.Value, want bool, d int) bool {
		switch v := cond.(type) {
		case *ssa.UnOp:
			if v.Op == token.NOT && d < 4 {
				return test(v.X, !want, d+1)
			}
		case *ssa.BinOp:
			isNil := func(x ssa.Value) bool { k, ok := x.(*ssa.Const); return ok && k.Value == nil }
			if (v.X == errv && isNil(v.Y)) || (v.Y == errv && isNil(v.X)) {
				return (v.Op == token.EQL && want) || (v.Op == token.NEQ && !want)
			}
		}
		return false
	}
	return dominatedByTest(b, test, 0)
}

// parseReadsWholeInput (C01-R13): Parse and ParseData hand the decoder every byte of the
// (decompressed) input.  No function on the parse path wraps its reader in io.LimitReader /
// io.LimitedReader or copies a bounded count: those end the stream silently at the limit, so
// a large profile that pprof itself wrote is rejected, or parsed without the header fields
// that follow the cut.
func (c *Check) parseReadsWholeInput() {
	p := c.P
	var roots []*ssa.Function
	for _, n := range []string{"Parse", "ParseData", "ParseUncompressed"} {
		if f := c.anchorFn("C01-R13", "profile", n); f != nil {
			roots = append(roots, f)
		}
	}
	if len(roots) == 0 {
		return
	}
	_, order := p.MG().Reach(roots, nil)
	nfn := 0
	for _, f := range order {
		if !fnInModule(f) || f.Blocks == nil || fnPkgPath(f) != modPath+"/profile" {
			continue
		}
		nfn++
		for _, b := range f.Blocks {
			for _, ins := range b.Instrs {
				switch x := ins.(type) {
				case *ssa.Call:
					if cal := x.Call.StaticCallee(); cal != nil && fnPkgPath(cal) == "io" && (cal.Name() == "LimitReader" || cal.Name() == "CopyN") {
						c.bad("C01-R13", "whole-input:"+fnName(f)+":"+cal.Name(), p.relFile(x.Pos()), fnName(f)+" reads the profile through io."+cal.Name()+": the stream ends silently at the limit, so a profile larger than the limit (written by pprof itself) is cut, and is then rejected or parsed without the fields after the cut")
					}
				case *ssa.Alloc:
					if typeShort(x.Type()) == "*io.LimitedReader" {
						c.bad("C01-R13", "whole-input:"+fnName(f)+":LimitedReader", p.relFile(x.Pos()), fnName(f)+" reads the profile through an io.LimitedReader: the stream ends silently at the limit")
					}
				}
			}
		}
	}
	c.ok("C01-R13", "whole-input:scan", "", "nothing on the parse path bounds how much of the input is read", fmt.Sprintf("%d functions of package profile reachable from Parse, ParseData and ParseUncompressed scanned for io.LimitReader, io.LimitedReader and io.CopyN", nfn))
}

// oneOncePerField (C20-R1, once:same-once): the relocation base of a file is computed under
// one sync.Once.  Every Do call whose function reaches computeBase names the same Once field:
// two Once objects guarding one piece of state let the computation run twice, concurrently,
// and rewrite base/baseErr/isData after readers have used them.
func (c *Check) oneOncePerField() {
	p := c.P
	cb := p.Func("internal/binutils", "(*file).computeBase")
	if cb == nil {
		return
	}
	fields := map[string]string{}
	var visit func(f *ssa.Function, d int)
	seen := map[*ssa.Function]bool{}
	visit = func(f *ssa.Function, d int) {
		if seen[f] || d > 4 {
			return
		}
		seen[f] = true
		sites, _ := onceDoSites(p, f)
		for _, s := range sites {
			name := "?"
			if fa, ok := s.Call.Args[0].(*ssa.FieldAddr); ok {
				T, F := fieldOf(fa.X.Type(), fa.Field)
				name = T + "." + F
			} else if g := globalOf(s.Call.Args[0]); g != nil {
				name = g.Name()
			}
			if _, ok := fields[name]; !ok {
				fields[name] = p.relFile(s.Pos())
			}
		}
		if len(sites) > 0 {
			return
		}
		// not itself a Do argument: look at its callers
		if calls, ok := allCallSites(p, f); ok {
			for _, cs := range calls {
				visit(cs.Parent(), d+1)
			}
		}
	}
	if calls, ok := allCallSites(p, cb); ok {
		for _, cs := range calls {
			visit(cs.Parent(), 0)
		}
	}
	var names []string
	for n := range fields {
		names = append(names, n)
	}
	sort.Strings(names)
	switch {
	case len(names) == 1:
		c.ok("C20-R1", "once:same-once", fields[names[0]], "the relocation base is computed under a single sync.Once", "every Do call whose function reaches computeBase is on "+names[0])
	case len(names) > 1:
		c.bad("C20-R1", "once:same-once", fields[names[1]], "computeBase runs under different sync.Once objects ("+strings.Join(names, ", ")+"): the base of one file can be computed twice, at the same time, and base/baseErr are rewritten after other goroutines have read them")
	}
}

// derivedFrom: v is root or is computed from it by slicing, field/element access, loads,
// phis and type changes (the bytes or elements reachable through root).
func derivedFrom(v, root ssa.Value, seen map[ssa.Value]bool, d int) bool {
	if v == root {
		return true
	}
	if seen[v] || d > 10 {
		return false
	}
	seen[v] = true
	switch x := v.(type) {
	case *ssa.Slice:
		return derivedFrom(x.X, root, seen, d+1)
	case *ssa.UnOp:
		if x.Op == token.MUL {
			if al, ok := x.X.(*ssa.Alloc); ok {
				// a local (or a result spilled because of a defer): what was stored in it
				whole, _ := allocStores(al)
				for _, w := range whole {
					if derivedFrom(w, root, seen, d+1) {
						return true
					}
				}
				return false
			}
			return derivedFrom(x.X, root, seen, d+1)
		}
	case *ssa.FieldAddr:
		return derivedFrom(x.X, root, seen, d+1)
	case *ssa.IndexAddr:
		return derivedFrom(x.X, root, seen, d+1)
	case *ssa.Field:
		return derivedFrom(x.X, root, seen, d+1)
	case *ssa.ChangeType:
		return derivedFrom(x.X, root, seen, d+1)
	case *ssa.Convert:
		return derivedFrom(x.X, root, seen, d+1)
	case *ssa.TypeAssert:
		return derivedFrom(x.X, root, seen, d+1)
	case *ssa.MakeInterface:
		return derivedFrom(x.X, root, seen, d+1)
	case *ssa.Phi:
		for _, e := range x.Edges {
			if derivedFrom(e, root, seen, d+1) {
				return true
			}
		}
	}
	return false
}

// noRecycledResult (C20-R1, pool:*): bytes handed to a caller are the caller's.  No module
// function returns memory reachable through an object that it also gives back to a sync.Pool
// (directly or deferred): the next Get hands the same array to another goroutine, which
// overwrites it while the first caller is still compressing or parsing it (torn Write/Copy).
func (c *Check) noRecycledResult() {
	p := c.P
	n := 0
	for f := range p.AllFns {
		if !fnInModule(f) || f.Blocks == nil || strings.Contains(fnPkgPath(f), "third_party") {
			continue
		}
		var puts []ssa.Value
		var putPos token.Pos
		for _, b := range f.Blocks {
			for _, ins := range b.Instrs {
				ci, ok := ins.(ssa.CallInstruction)
				if !ok {
					continue
				}
				cal := ci.Common().StaticCallee()
				if cal == nil || cal.String() != "(*sync.Pool).Put" || len(ci.Common().Args) != 2 {
					continue
				}
				v := ci.Common().Args[1]
				if mi, ok := v.(*ssa.MakeInterface); ok {
					v = mi.X
				}
				puts = append(puts, v)
				putPos = ins.Pos()
			}
		}
		if len(puts) == 0 {
			continue
		}
		n++
		bad := false
		for _, b := range f.Blocks {
			ret, ok := b.Instrs[len(b.Instrs)-1].(*ssa.Return)
			if !ok {
				continue
			}
			for _, r := range ret.Results {
				for _, pv := range puts {
					if derivedFrom(r, pv, map[ssa.Value]bool{}, 0) && r != pv {
						bad = true
					}
				}
			}
		}
		key := "pool:" + fnName(f)
		if bad {
			c.bad("C20-R1", key, p.relFile(putPos), fnName(f)+" returns memory of an object that it also puts back into a sync.Pool: the next Get gives the same array to another goroutine, which overwrites it while this caller is still using the result (a concurrent Write or Copy emits another profile's bytes)")
		} else {
			c.ok("C20-R1", key, p.relFile(putPos), fnName(f)+" recycles an object through a sync.Pool and returns nothing that lives in it", "no return value is derived from the pooled object")
		}
	}
	if n == 0 {
		c.ok("C20-R1", "pool:none", "", "no module function gives an object back to a sync.Pool", "all module functions scanned for (*sync.Pool).Put")
	}
}

// guardedValueStaysUnderLock (C20-R1, escape:*): a slice or map read from a mutex-guarded
// package variable is only used while the mutex is held, unless the variable was given a
// value that shares nothing with it (nil, a fresh make) in the same critical section.
// `pending := tempFiles; tempFiles = tempFiles[:0]; unlock; range pending` leaves the registry
// and the local sharing one array: a registration made meanwhile overwrites entries that
// the loop has not reached, and the loop deletes a file another command still uses.
func (c *Check) guardedValueStaysUnderLock() {
	p := c.P
	type gspec struct {
		g  *ssa.Global
		mu string
	}
	var specs []gspec
	if pk := p.SSAPkg("internal/driver"); pk != nil {
		if gv := pk.Var("tempFiles"); gv != nil {
			specs = append(specs, gspec{gv, "global:tempFilesMu"})
		}
	}
	for _, s := range specs {
		byFn := map[*ssa.Function][]*ssa.UnOp{}
		for _, ins := range globalRefs(p, s.g) {
			if ld, ok := ins.(*ssa.UnOp); ok && ld.Op == token.MUL && ld.X == ssa.Value(s.g) {
				byFn[ld.Parent()] = append(byFn[ld.Parent()], ld)
			}
		}
		var fns []*ssa.Function
		for f := range byFn {
			fns = append(fns, f)
		}
		sortFns(fns)
		for _, f := range fns {
			if f.Name() == "init" {
				continue
			}
			escapes := ""
			var escLoad *ssa.UnOp
			for _, ld := range byFn[f] {
				// every value derived from the load, and the instructions that use one
				work := []ssa.Value{ld}
				seen := map[ssa.Value]bool{ld: true}
				for len(work) > 0 {
					v := work[0]
					work = work[1:]
					refs := v.Referrers()
					if refs == nil {
						continue
					}
					for _, r := range *refs {
						if _, dbg := r.(*ssa.DebugRef); dbg {
							continue
						}
						if st, ok := r.(*ssa.Store); ok && st.Addr == ssa.Value(s.g) {
							continue
						}
						if !heldAt(f, r)[s.mu] && escapes == "" {
							escapes = p.relFile(r.Pos())
							escLoad = ld
						}
						switch x := r.(type) {
						case *ssa.Slice, *ssa.Phi, *ssa.ChangeType:
							if xv := x.(ssa.Value); !seen[xv] {
								seen[xv] = true
								work = append(work, xv)
							}
						}
					}
				}
			}
			key := "escape:" + s.g.Name() + "@" + fnName(f)
			if escapes == "" {
				c.ok("C20-R1", key, p.relFile(f.Pos()), "what "+fnName(f)+" reads from "+s.g.Name()+" is only used with the mutex held", "every use of the loaded value is inside the critical section")
				continue
			}
			// handed over: the variable is re-assigned, in the same critical section, a value
			// that shares no memory with the one taken out
			handed := false
			for _, ins := range globalRefs(p, s.g) {
				st, ok := ins.(*ssa.Store)
				if !ok || st.Parent() != f || st.Addr != ssa.Value(s.g) || !sameLockSection(f, escLoad, st) {
					continue
				}
				shares := false
				for _, ld := range byFn[f] {
					if derivedFrom(st.Val, ld, map[ssa.Value]bool{}, 0) {
						shares = true
					}
				}
				if !shares {
					handed = true
				}
			}
			if handed {
				c.ok("C20-R1", key, escapes, fnName(f)+" takes the contents of "+s.g.Name()+" out of the critical section after replacing them", "the variable is assigned a value that shares no memory with the one read, before the mutex is released")
			} else {
				c.bad("C20-R1", key, escapes, fnName(f)+" uses the slice it read from "+s.g.Name()+" after releasing the mutex while the variable still refers to the same array: a concurrent registration overwrites entries this function has not processed yet (a live temporary file is deleted and its name reissued)")
			}
		}
	}
}

// readAfterSlotCleared (C16-R12): in the fetch code a slot is read, then released
// (*s = profileSource{}); nothing is read through the pointer after that on the same path.
// An error line built from s.addr after the slot was cleared names no source.
func (c *Check) readAfterSlotCleared() {
	p := c.P
	n := 0
	forAllPkgFuncs(p, "internal/driver", func(f0 *ssa.Function) {
		if !strings.HasSuffix(p.Fset.Position(f0.Pos()).Filename, "/fetch.go") {
			return
		}
		forEachFuncAndAnon(f0, func(f *ssa.Function) {
			for _, b := range f.Blocks {
				for _, ins := range b.Instrs {
					st, ok := ins.(*ssa.Store)
					if !ok || !isZeroStructValue(st.Val) {
						continue
					}
					if _, isAlloc := st.Addr.(*ssa.Alloc); isAlloc {
						continue
					}
					n++
					key := fmt.Sprintf("cleared-slot:%s#%d", fnName(f), n)
					late := ""
					if refs := st.Addr.Referrers(); refs != nil {
						for _, r := range *refs {
							fa, ok := r.(*ssa.FieldAddr)
							if !ok {
								continue
							}
							for _, r2 := range *fa.Referrers() {
								if ld, ok := r2.(*ssa.UnOp); ok && ld.Op == token.MUL && instrDominates(st, ld) {
									_, F := fieldOf(fa.X.Type(), fa.Field)
									late = F + " at " + p.relFile(ld.Pos())
								}
							}
						}
					}
					if late == "" {
						c.ok("C16-R12", key, p.relFile(st.Pos()), "nothing is read from a result slot after it is released", "no load through the pointer is dominated by the clearing store")
					} else {
						c.bad("C16-R12", key, p.relFile(st.Pos()), fnName(f)+" releases the slot and then reads field "+late+" through the same pointer: the value is always the zero value (an error line without the address of the source that failed)")
					}
				}
			}
		})
	})
	if n == 0 {
		c.ok("C16-R12", "cleared-slot:none", "", "the fetch code releases no slot by storing a zero struct", "nothing to check")
	}
}

func isZeroStructValue(v ssa.Value) bool {
	if _, ok := v.Type().Underlying().(*types.Struct); !ok {
		return false
	}
	switch x := v.(type) {
	case *ssa.Const:
		return x.Value == nil
	case *ssa.UnOp:
		if al, ok := x.X.(*ssa.Alloc); ok && x.Op == token.MUL {
			whole, parts := allocStores(al)
			return len(whole) == 0 && len(parts) == 0
		}
	}
	return false
}

// formatIsLiteral (C18-R4): text taken from the profile is an operand of a formatting call,
// never part of its format.  In the packages that emit DOT, callgrind and the text reports, no
// fmt.*printf format is a concatenation with a non-constant piece: fmt reads every '%' of such
// a piece as a verb, so a binary called "load100%" yields `digraph "load100%!"(MISSING) {`, and
// a '%' in front of an escaped quote eats the backslash that escapes it.
func (c *Check) formatIsLiteral() {
	p := c.P
	n, nbad := 0, 0
	for _, rel := range []string{"internal/graph", "internal/report", "internal/driver"} {
		forAllPkgFuncs(p, rel, func(f0 *ssa.Function) {
			forEachFuncAndAnon(f0, func(f *ssa.Function) {
				for _, b := range f.Blocks {
					for _, ins := range b.Instrs {
						call, ok := ins.(*ssa.Call)
						if !ok {
							continue
						}
						cal := call.Call.StaticCallee()
						if cal == nil || fnPkgPath(cal) != "fmt" || !strings.HasSuffix(cal.Name(), "f") {
							continue
						}
						fi := 0
						if strings.HasPrefix(cal.Name(), "F") {
							fi = 1
						}
						if fi >= len(call.Call.Args) {
							continue
						}
						n++
						var leaf func(v ssa.Value, d int) ssa.Value
						leaf = func(v ssa.Value, d int) ssa.Value {
							if _, ok := v.(*ssa.Const); ok || d > 12 {
								return nil
							}
							if add, ok := v.(*ssa.BinOp); ok && add.Op == token.ADD {
								if l := leaf(add.X, d+1); l != nil {
									return l
								}
								return leaf(add.Y, d+1)
							}
							return v
						}
						fm := call.Call.Args[fi]
						add, isCat := fm.(*ssa.BinOp)
						if !isCat || add.Op != token.ADD {
							continue
						}
						if l := leaf(fm, 0); l != nil {
							nbad++
							c.bad("C18-R4", fmt.Sprintf("format:%s#%d", fnName(f), nbad), p.relFile(call.Pos()), fnName(f)+" builds the format of fmt."+cal.Name()+" by concatenating "+describeValue(l)+" into it: every '%' in that text is read as a verb, so a name containing '%' produces %!x(MISSING) noise that breaks the quoting of the output (and swallows the backslash of an escaped quote)")
						}
					}
				}
			})
		})
	}
	c.ok("C18-R4", "format:scan", "", "no formatting call of the emitters has data spliced into its format", fmt.Sprintf("%d fmt.*f calls in packages graph, report and driver: every format that is a concatenation has only constant pieces", n))
}

// absoluteFormIsCurrent (C18-R2, callgrind-abs): callgrindAddress answers with the current
// address, either relative to the previous one or in absolute form.  Every value it formats
// with a hexadecimal verb is its uint64 parameter: formatting the previous address instead
// attributes the cost line to the wrong instruction.
func (c *Check) absoluteFormIsCurrent() {
	p := c.P
	f := p.Func("internal/report", "callgrindAddress")
	if f == nil {
		return // the anchor is reported by the other callgrind rules
	}
	var cur *ssa.Parameter
	for _, par := range f.Params {
		if bt, ok := par.Type().Underlying().(*types.Basic); ok && bt.Kind() == types.Uint64 {
			cur = par
		}
	}
	if cur == nil {
		return
	}
	n := 0
	for _, g := range withHelpers(f, 1) {
		if g != f {
			continue
		}
		for _, b := range g.Blocks {
			for _, ins := range b.Instrs {
				call, ok := ins.(*ssa.Call)
				if !ok || call.Call.StaticCallee() == nil || call.Call.StaticCallee().String() != "fmt.Sprintf" || len(call.Call.Args) != 2 {
					continue
				}
				fm, ok := constString(call.Call.Args[0])
				if !ok || !(strings.Contains(fm, "x") || strings.Contains(fm, "X")) {
					continue
				}
				for _, v := range variadicValues(call.Call.Args[1]) {
					if v == nil {
						continue
					}
					if mi, ok := v.(*ssa.MakeInterface); ok {
						v = mi.X
					}
					n++
					key := fmt.Sprintf("callgrind-abs#%d", n)
					if v == ssa.Value(cur) {
						c.ok("C18-R2", key, p.relFile(call.Pos()), "the absolute form of a callgrind position is the current address", "the hexadecimal operand is the uint64 parameter")
					} else {
						c.bad("C18-R2", key, p.relFile(call.Pos()), "callgrindAddress formats "+describeValue(v)+" as the absolute position instead of the current address: whenever the absolute form is chosen (the relative one is not shorter) the cost is attributed to another instruction")
					}
				}
			}
		}
	}
}

// matchIndicesApplyToMatchedString (C11-R12): positions reported by a regexp Find*Index call
// index the string that was searched.  In the frame-name simplifier every slice expression
// whose bounds come from such a call slices that same string value: applied to another string
// (the untrimmed name, one character longer for ".foo" names) the reserved-name test looks at
// shifted text and the argument list is cut at the wrong place.
func (c *Check) matchIndicesApplyToMatchedString() {
	p := c.P
	n := 0
	forAllPkgFuncs(p, "profile", func(f0 *ssa.Function) {
		if !strings.HasSuffix(p.Fset.Position(f0.Pos()).Filename, "/prune.go") {
			return
		}
		forEachFuncAndAnon(f0, func(f *ssa.Function) {
			var finds []*ssa.Call
			for _, b := range f.Blocks {
				for _, ins := range b.Instrs {
					if call, ok := ins.(*ssa.Call); ok {
						if cal := call.Call.StaticCallee(); cal != nil && fnPkgPath(cal) == "regexp" && strings.HasPrefix(cal.Name(), "Find") && strings.HasSuffix(cal.Name(), "Index") && len(call.Call.Args) >= 2 {
							finds = append(finds, call)
						}
					}
				}
			}
			if len(finds) == 0 {
				return
			}
			for _, b := range f.Blocks {
				for _, ins := range b.Instrs {
					sl, ok := ins.(*ssa.Slice)
					if !ok {
						continue
					}
					if bt, ok := sl.X.Type().Underlying().(*types.Basic); !ok || bt.Info()&types.IsString == 0 {
						continue
					}
					for _, fc := range finds {
						uses := false
						for _, bnd := range []ssa.Value{sl.Low, sl.High} {
							if bnd != nil && derivedFrom(bnd, fc, map[ssa.Value]bool{}, 0) {
								uses = true
							}
						}
						if !uses {
							continue
						}
						n++
						key := fmt.Sprintf("match-index:%s#%d", fnName(f), n)
						if sl.X == fc.Call.Args[1] {
							c.ok("C11-R12", key, p.relFile(sl.Pos()), "positions of a regexp match are applied to the string that was matched", "the sliced value is the argument of "+fc.Call.StaticCallee().Name())
						} else {
							c.bad("C11-R12", key, p.relFile(sl.Pos()), fnName(f)+" slices "+describeValue(sl.X)+" with positions that "+fc.Call.StaticCallee().Name()+" reported for another string ("+describeValue(fc.Call.Args[1])+"): when the two differ (a leading '.' was trimmed) the text compared with the reserved names is shifted by one and 'operator()' / '(anonymous namespace)' are cut as if they were argument lists")
						}
					}
				}
			}
		})
	})
	if n == 0 {
		c.ok("C11-R12", "match-index:none", "", "prune.go slices no string with regexp match positions", "nothing to check")
	}
}

// latchedFlagNotOverwritten (C07-R13): a flag that records "some column had to move" over a
// loop is only ever raised inside it.  A boolean that lives across iterations and is read
// after the loop must not be overwritten in an iteration with a value that ignores what it
// held (flag = idx != i): the last column then decides alone, profiles whose types are permuted
// but end in the same column are left unaligned and the merge rejects them.  (A loop that
// leaves as soon as the fresh value is tested is the "all of" / "any of" idiom and is fine.)
func (c *Check) latchedFlagNotOverwritten(rule string, fns ...*ssa.Function) {
	p := c.P
	n := 0
	for _, f0 := range fns {
		forEachFuncAndAnon(f0, func(f *ssa.Function) {
			for _, b := range f.Blocks {
				for _, ins := range b.Instrs {
					phi, ok := ins.(*ssa.Phi)
					if !ok {
						break
					}
					if bt, ok := phi.Type().Underlying().(*types.Basic); !ok || bt.Kind() != types.Bool {
						continue
					}
					// a loop header: some predecessor is dominated by this block
					var back []int
					for i, pr := range b.Preds {
						if b.Dominates(pr) {
							back = append(back, i)
						}
					}
					if len(back) == 0 || len(back) == len(b.Preds) {
						continue
					}
					inLoop := func(x *ssa.BasicBlock) bool {
						if !b.Dominates(x) {
							return false
						}
						for _, i := range back {
							if x == b.Preds[i] || blockReachesAvoid(x, b.Preds[i], b) {
								return true
							}
						}
						return false
					}
					// read after the loop
					usedAfter := false
					for _, r := range *phi.Referrers() {
						if r.Block() != nil && !inLoop(r.Block()) && r.Block() != b {
							usedAfter = true
						}
						if r.Block() == b {
							if _, isIf := r.(*ssa.If); !isIf {
								if _, isPhi := r.(*ssa.Phi); !isPhi {
									usedAfter = true
								}
							}
						}
					}
					if !usedAfter {
						continue
					}
					for _, i := range back {
						e := phi.Edges[i]
						if e == ssa.Value(phi) {
							continue
						}
						if k, isK := e.(*ssa.Const); isK && k.Value != nil {
							continue
						}
						if dependsOnValue(e, phi, map[ssa.Value]bool{}, 0) {
							continue // raised (or combined), not overwritten
						}
						// the fresh value decides an exit of the loop: the all-of / any-of idiom
						exits := false
						if refs := e.Referrers(); refs != nil {
							for _, r := range *refs {
								if iff, ok := r.(*ssa.If); ok {
									for _, sc := range iff.Block().Succs {
										if !inLoop(sc) && sc != b {
											exits = true
										}
									}
								}
							}
						}
						if exits {
							continue
						}
						n++
						c.bad(rule, fmt.Sprintf("latched-flag:%s#%d", fnName(f), n), p.relFile(phi.Pos()), fnName(f)+" overwrites a boolean in every iteration of a loop and reads it after the loop: only the last iteration counts (sample types permuted in any but the last column are reported as already aligned, and the profiles are then rejected as incompatible)")
					}
				}
			}
		})
	}
	if n == 0 {
		c.ok(rule, "latched-flag:scan", "", "flags that summarise a loop are raised, never overwritten, inside it", fmt.Sprintf("%d functions scanned for a boolean loop phi whose back edge ignores the previous value", len(fns)))
	}
}

// dependsOnValue: v is computed from root (through phis, boolean operators, conversions).
func dependsOnValue(v, root ssa.Value, seen map[ssa.Value]bool, d int) bool {
	if v == root {
		return true
	}
	if seen[v] || d > 10 {
		return false
	}
	seen[v] = true
	if ins, ok := v.(ssa.Instruction); ok {
		if _, isCall := v.(*ssa.Call); isCall {
			return false
		}
		var ops []*ssa.Value
		for _, op := range ins.Operands(ops) {
			if op != nil && *op != nil && dependsOnValue(*op, root, seen, d+1) {
				return true
			}
		}
	}
	return false
}

// sameFieldLoad: a and b are the same value or loads of the same field of the same object.
func sameFieldLoad(a, b ssa.Value) bool {
	if a == b {
		return true
	}
	la, ok1 := a.(*ssa.UnOp)
	lb, ok2 := b.(*ssa.UnOp)
	if !ok1 || !ok2 || la.Op != token.MUL || lb.Op != token.MUL {
		return false
	}
	fa, ok1 := la.X.(*ssa.FieldAddr)
	fb, ok2 := lb.X.(*ssa.FieldAddr)
	return ok1 && ok2 && fa.Field == fb.Field && (fa.X == fb.X || sameFieldLoad(fa.X, fb.X))
}

// shownTotalUnclamped (C05-R11): the 'accounting for' figure of the legend is the sum of the
// flat values shown, whatever its relation to the total.  In package report the share handed
// to measurement.Percentage as a function parameter is that parameter on every path: it is
// never merged (a phi, min/max) with another value such as the total.  Clamped to 100% the
// header stops matching the rows below it for diff and negative-value profiles.
func (c *Check) shownTotalUnclamped() {
	p := c.P
	pct := p.Func("internal/measurement", "Percentage")
	if pct == nil {
		c.undecided("C05-R11", "anchor:Percentage", "", "measurement.Percentage not found")
		return
	}
	n := 0
	forAllPkgFuncs(p, "internal/report", func(f *ssa.Function) {
		for _, b := range f.Blocks {
			for _, ins := range b.Instrs {
				call, ok := ins.(*ssa.Call)
				if !ok || call.Call.StaticCallee() != pct || len(call.Call.Args) != 2 {
					continue
				}
				a := call.Call.Args[0]
				// which parameter of f is the share?
				var par *ssa.Parameter
				var via string
				switch x := a.(type) {
				case *ssa.Parameter:
					par = x
				case *ssa.Phi:
					for _, e := range x.Edges {
						if q, ok := e.(*ssa.Parameter); ok {
							par, via = q, "a value that is the parameter on one path and "+describeValue(otherEdge(x, q))+" on another"
						}
					}
				case *ssa.Call:
					if bi, ok := x.Call.Value.(*ssa.Builtin); ok && (bi.Name() == "min" || bi.Name() == "max") {
						for _, e := range x.Call.Args {
							if q, ok := e.(*ssa.Parameter); ok {
								par, via = q, bi.Name()+"() of the parameter and another value"
							}
						}
					}
				}
				if par == nil {
					continue
				}
				n++
				key := fmt.Sprintf("shown-share:%s:%s", fnName(f), par.Name())
				if via != "" {
					c.bad("C05-R11", key, p.relFile(call.Pos()), fnName(f)+" prints the share of "+via+": the 'accounting for' figure is then not the sum of the flat values of the entries shown (a diff profile, where the shown sum can exceed the total, is reported as 100%)")
					continue
				}
				// the parameter itself: no other use of it is merged with something else either
				merged := ""
				for _, r := range *par.Referrers() {
					if ph, ok := r.(*ssa.Phi); ok {
						merged = describeValue(otherEdge(ph, par))
					}
				}
				if merged != "" {
					c.bad("C05-R11", key, p.relFile(call.Pos()), fnName(f)+" replaces "+par.Name()+" by "+merged+" on some path before printing it: the 'accounting for' figure is then not the sum of the flat values shown")
				} else {
					c.ok("C05-R11", key, p.relFile(call.Pos()), "the share printed by "+fnName(f)+" is the sum it was given", "the first argument of measurement.Percentage is the parameter, and the parameter is merged with nothing")
				}
			}
		}
	})
	if n == 0 {
		c.ok("C05-R11", "shown-share:none", "", "no function of package report prints the share of a parameter", "nothing to check")
	}
}

func otherEdge(ph *ssa.Phi, v ssa.Value) ssa.Value {
	for _, e := range ph.Edges {
		if e != v {
			return e
		}
	}
	return v
}

// absLike: h returns |x| of its only parameter.
func absLike(h *ssa.Function) bool {
	if h == nil {
		return false
	}
	if h.String() == "math.Abs" {
		return true
	}
	if len(h.Params) != 1 || len(h.Blocks) == 0 {
		return false
	}
	neg, plain := false, false
	for _, b := range h.Blocks {
		ret, ok := b.Instrs[len(b.Instrs)-1].(*ssa.Return)
		if !ok || len(ret.Results) != 1 {
			continue
		}
		var look func(v ssa.Value, d int)
		look = func(v ssa.Value, d int) {
			switch x := v.(type) {
			case *ssa.Parameter:
				plain = true
			case *ssa.UnOp:
				if x.Op == token.SUB && x.X == ssa.Value(h.Params[0]) {
					neg = true
				}
			case *ssa.Phi:
				if d < 3 {
					for _, e := range x.Edges {
						look(e, d+1)
					}
				}
			}
		}
		look(ret.Results[0], 0)
	}
	return neg && plain
}

// cutoffIsMagnitude (C05-R12): "entries whose absolute cum is below the node cutoff": the
// cutoff is a magnitude too.  A product with Options.NodeFraction or Options.EdgeFraction is
// used only through an absolute-value function: for a profile whose total is negative (a
// diff against a larger base) a signed cutoff is negative, `cutoff > 0` is false and nothing
// is trimmed at all.
func (c *Check) cutoffIsMagnitude() {
	p := c.P
	n := 0
	forAllPkgFuncs(p, "internal/report", func(f *ssa.Function) {
		for _, b := range f.Blocks {
			for _, ins := range b.Instrs {
				mul, ok := ins.(*ssa.BinOp)
				if !ok || mul.Op != token.MUL {
					continue
				}
				frac := ""
				for _, op := range []ssa.Value{mul.X, mul.Y} {
					if ld, ok := op.(*ssa.UnOp); ok && ld.Op == token.MUL {
						if fa, ok := ld.X.(*ssa.FieldAddr); ok {
							if T, F := fieldOf(fa.X.Type(), fa.Field); T == "report.Options" && (F == "NodeFraction" || F == "EdgeFraction") {
								frac = F
							}
						}
					}
				}
				if frac == "" {
					continue
				}
				n++
				key := fmt.Sprintf("cutoff-magnitude:%s:%s", fnName(f), frac)
				// follow the product through conversions; every other use must be an abs
				bad := ""
				work := []ssa.Value{mul}
				seen := map[ssa.Value]bool{mul: true}
				for len(work) > 0 && bad == "" {
					v := work[0]
					work = work[1:]
					var inlineAbs []ssa.Instruction
					for _, r := range *v.Referrers() {
						switch x := r.(type) {
						case *ssa.DebugRef:
						case *ssa.Convert:
							if !seen[x] {
								seen[x] = true
								work = append(work, x)
							}
						case *ssa.Call:
							if !absLike(x.Call.StaticCallee()) {
								bad = "passed to " + calleeShort(x)
							}
						case *ssa.BinOp:
							if k, ok := constInt(x.Y); ok && k == 0 && (x.Op == token.LSS || x.Op == token.GEQ || x.Op == token.GTR || x.Op == token.LEQ) {
								inlineAbs = append(inlineAbs, x)
							} else if kf, ok := x.Y.(*ssa.Const); ok && kf.Value != nil && kf.Value.String() == "0" {
								inlineAbs = append(inlineAbs, x)
							} else {
								bad = "used in " + x.Op.String()
							}
						case *ssa.UnOp:
							if x.Op == token.SUB {
								inlineAbs = append(inlineAbs, x)
							} else {
								bad = "used as is"
							}
						case *ssa.Phi:
							inlineAbs = append(inlineAbs, x)
						default:
							bad = "used as is (" + p.relFile(r.Pos()) + ")"
						}
					}
					// an inline abs needs its negation
					if len(inlineAbs) > 0 {
						hasNeg := false
						for _, i := range inlineAbs {
							if u, ok := i.(*ssa.UnOp); ok && u.Op == token.SUB {
								hasNeg = true
							}
						}
						if !hasNeg {
							bad = "compared or merged without taking its absolute value"
						}
					}
				}
				if bad == "" {
					c.ok("C05-R12", key, p.relFile(mul.Pos()), "the cutoff derived from "+frac+" is an absolute value", "the product is only used through an absolute-value function")
				} else {
					c.bad("C05-R12", key, p.relFile(mul.Pos()), fnName(f)+" uses total × "+frac+" with its sign ("+bad+"): when the total is negative (a diff against a larger base) the cutoff is negative, the `cutoff > 0` tests fail and no low-frequency entry or edge is removed")
				}
			}
		}
	})
	if n == 0 {
		c.ok("C05-R12", "cutoff-magnitude:none", "", "package report computes no cutoff from NodeFraction/EdgeFraction", "nothing to check")
	}
}

// kernelSplitIsHalf (C13-R10): GetBase tells a user-mode executable from a kernel image by the
// half of the 64-bit address space its mapping starts in.  Every large constant that the
// mapping start is compared with in GetBase and its helpers is 1<<63: a lower limit (the
// 47-bit user space of one architecture) classifies the high user mappings of other
// architectures as kernel and gives them a base of 0 or an error.
func (c *Check) kernelSplitIsHalf() {
	p := c.P
	f := c.anchorFn("C13-R10", "internal/elfexec", "GetBase")
	if f == nil {
		return
	}
	n := 0
	for _, g := range withHelpers(f, 2) {
		for _, b := range g.Blocks {
			for _, ins := range b.Instrs {
				cmp, ok := ins.(*ssa.BinOp)
				if !ok {
					continue
				}
				switch cmp.Op {
				case token.LSS, token.LEQ, token.GTR, token.GEQ:
				default:
					continue
				}
				for _, pr := range [][2]ssa.Value{{cmp.X, cmp.Y}, {cmp.Y, cmp.X}} {
					k, ok := pr[1].(*ssa.Const)
					if !ok || k.Value == nil {
						continue
					}
					bt, ok := k.Type().Underlying().(*types.Basic)
					if !ok || bt.Kind() != types.Uint64 {
						continue
					}
					if _, isPar := pr[0].(*ssa.Parameter); !isPar {
						continue
					}
					u := k.Uint64()
					if u < 1<<40 {
						continue
					}
					n++
					key := fmt.Sprintf("kernel-split:%s#%d", fnName(g), n)
					if u == 1<<63 {
						c.ok("C13-R10", key, p.relFile(cmp.Pos()), "the user/kernel split is the middle of the 64-bit address space", "the mapping start is compared with 1<<63")
					} else {
						c.bad("C13-R10", key, p.relFile(cmp.Pos()), fmt.Sprintf("%s compares the mapping start with %#x instead of 1<<63: user-mode mappings above that limit (high mmap areas, 52- and 56-bit address spaces) are treated as kernel mappings and translated with the wrong base", fnName(g), u))
					}
				}
			}
		}
	}
	if n == 0 {
		c.ok("C13-R10", "kernel-split:none", p.relFile(f.Pos()), "GetBase compares the mapping start with no large constant", "the split is expressed otherwise")
	}
}

// unsampledRateOne (C14-R12): a heap profile sampled at rate 1 (or with an unknown rate
// below 1) recorded every allocation: its counts are returned as they are.  Evaluating the
// branches of scaleHeapSample with its rate parameter bound to 1 (and to 0), no reachable
// return yields a value computed in floating point.
func (c *Check) unsampledRateOne() {
	p := c.P
	f := c.anchorFn("C14-R12", "profile", "scaleHeapSample")
	if f == nil || len(f.Params) == 0 {
		return
	}
	rate := f.Params[len(f.Params)-1]
	for _, bound := range []int64{1, 0} {
		assume := func(cond ssa.Value) int {
			cmp, ok := cond.(*ssa.BinOp)
			if !ok {
				return 0
			}
			l, r, op := cmp.X, cmp.Y, cmp.Op
			if l != ssa.Value(rate) {
				if r != ssa.Value(rate) {
					return 0
				}
				l, r = r, l
				switch op {
				case token.LSS:
					op = token.GTR
				case token.GTR:
					op = token.LSS
				case token.LEQ:
					op = token.GEQ
				case token.GEQ:
					op = token.LEQ
				}
			}
			k, ok := constInt(r)
			if !ok {
				return 0
			}
			res := false
			switch op {
			case token.LSS:
				res = bound < k
			case token.LEQ:
				res = bound <= k
			case token.GTR:
				res = bound > k
			case token.GEQ:
				res = bound >= k
			case token.EQL:
				res = bound == k
			case token.NEQ:
				res = bound != k
			default:
				return 0
			}
			if res {
				return 1
			}
			return -1
		}
		reach := reachUnder(f, assume)
		bad := ""
		for _, b := range f.Blocks {
			if !reach[b] {
				continue
			}
			ret, ok := b.Instrs[len(b.Instrs)-1].(*ssa.Return)
			if !ok {
				continue
			}
			for _, r := range ret.Results {
				if fromFloat(r, reach, map[ssa.Value]bool{}, 0) {
					bad = p.relFile(ret.Pos())
				}
			}
		}
		key := fmt.Sprintf("rate-%d-unscaled", bound)
		if bad == "" {
			c.ok("C14-R12", key, p.relFile(f.Pos()), fmt.Sprintf("with a sampling rate of %d the counts of a heap record are returned unscaled", bound), "with the rate bound to that value no reachable return is computed in floating point")
		} else {
			c.bad("C14-R12", key, bad, fmt.Sprintf("scaleHeapSample reaches its scaling formula with rate %d: every allocation was sampled, yet small objects are multiplied by 1/(1-exp(-size)) (1.58 for 1-byte objects)", bound))
		}
	}
}

// fromFloat: v is (on a path through reachable blocks) the integer conversion of a
// floating-point value.  Phi edges that come from unreachable blocks are not followed.
func fromFloat(v ssa.Value, reach map[*ssa.BasicBlock]bool, seen map[ssa.Value]bool, d int) bool {
	if seen[v] || d > 8 {
		return false
	}
	seen[v] = true
	switch x := v.(type) {
	case *ssa.Convert:
		if bt, ok := x.X.Type().Underlying().(*types.Basic); ok && bt.Info()&types.IsFloat != 0 {
			return true
		}
		return fromFloat(x.X, reach, seen, d+1)
	case *ssa.Phi:
		for i, e := range x.Edges {
			if reach != nil && !reach[x.Block().Preds[i]] {
				continue
			}
			if fromFloat(e, reach, seen, d+1) {
				return true
			}
		}
	case *ssa.BinOp:
		return fromFloat(x.X, reach, seen, d+1) || fromFloat(x.Y, reach, seen, d+1)
	case *ssa.UnOp:
		if al, ok := x.X.(*ssa.Alloc); ok && x.Op == token.MUL {
			for _, r := range *al.Referrers() {
				if st, ok := r.(*ssa.Store); ok && st.Addr == ssa.Value(al) && (reach == nil || reach[st.Block()]) {
					if fromFloat(st.Val, reach, seen, d+1) {
						return true
					}
				}
			}
		}
	}
	return false
}

// replacerAccumulates (C14-R13): in the trailing memory map every attr=value line defines a
// $attr for the mappings that follow, and all definitions seen so far apply.  A
// strings.NewReplacer built inside the scanning loop takes its pairs from a list that lives
// across iterations; built from the current line alone it forgets the earlier definitions.
func (c *Check) replacerAccumulates() {
	p := c.P
	f := c.anchorFn("C14-R13", "profile", "parseProcMapsFromScanner")
	if f == nil {
		return
	}
	n := 0
	for _, g := range withHelpers(f, 1) {
		for _, b := range g.Blocks {
			for _, ins := range b.Instrs {
				call, ok := ins.(*ssa.Call)
				if !ok || call.Call.StaticCallee() == nil || call.Call.StaticCallee().String() != "strings.NewReplacer" || len(call.Call.Args) != 1 {
					continue
				}
				hdr := loopHeaderAround(b)
				if hdr == nil {
					continue
				}
				if k, isK := call.Call.Args[0].(*ssa.Const); isK && k.Value == nil {
					continue // NewReplacer(): the empty replacer
				}
				n++
				key := fmt.Sprintf("replacer-pairs:%s#%d", fnName(g), n)
				// a fresh array filled in this iteration (a literal list of the current pair)?
				fresh := false
				if sl, ok := call.Call.Args[0].(*ssa.Slice); ok {
					if al, ok := sl.X.(*ssa.Alloc); ok && al.Heap && naturalLoop(hdr)[al.Block()] {
						fresh = true
					}
				}
				if fresh {
					c.bad("C14-R13", key, p.relFile(call.Pos()), fnName(g)+" rebuilds the $attr replacer from the pairs of the current line only: after a second attr=value line the first definition is forgotten and mappings that use it keep a literal $attr in their file name")
				} else {
					c.ok("C14-R13", key, p.relFile(call.Pos()), "the $attr replacer is rebuilt from a list that outlives the line", "its pairs are not a list made in the same iteration")
				}
			}
		}
	}
	if n == 0 {
		c.ok("C14-R13", "replacer-pairs:none", p.relFile(f.Pos()), "no strings.NewReplacer is built inside the scanning loop", "definitions are kept otherwise")
	}
}

// signRestoredOnEveryReturn (C15-R13): conversion commutes with negation.  When Scale strips
// the sign of its value in place (value = -value) instead of recursing, every return whose
// result is computed from the stripped value also depends on the remembered sign: a path that
// returns float64(value) as is gives a negative count back as a positive one.
func (c *Check) signRestoredOnEveryReturn() {
	p := c.P
	f := c.anchorFn("C15-R13", "internal/measurement", "Scale")
	if f == nil || len(f.Params) == 0 {
		return
	}
	val := f.Params[0]
	var mags []*ssa.Phi
	for _, b := range f.Blocks {
		for _, ins := range b.Instrs {
			ph, ok := ins.(*ssa.Phi)
			if !ok {
				break
			}
			hasPar, hasNeg := false, false
			for _, e := range ph.Edges {
				if e == ssa.Value(val) {
					hasPar = true
				}
				if u, ok := e.(*ssa.UnOp); ok && u.Op == token.SUB && u.X == ssa.Value(val) {
					hasNeg = true
				}
			}
			if hasPar && hasNeg {
				mags = append(mags, ph)
			}
		}
	}
	if len(mags) == 0 {
		c.ok("C15-R13", "sign-restored", p.relFile(f.Pos()), "Scale does not strip the sign of its value in place", "negative values are handled by recursion on the negation, which commutes by construction")
		return
	}
	for _, m := range mags {
		var signs []ssa.Value
		for _, ins := range m.Block().Instrs {
			if ph, ok := ins.(*ssa.Phi); ok && ph != m {
				signs = append(signs, ph)
			}
		}
		bad := ""
		for _, b := range f.Blocks {
			ret, ok := b.Instrs[len(b.Instrs)-1].(*ssa.Return)
			if !ok || len(ret.Results) == 0 {
				continue
			}
			r := ret.Results[0]
			if !dependsOnValue(r, m, map[ssa.Value]bool{}, 0) {
				continue
			}
			okSign := false
			for _, s := range signs {
				if dependsOnValue(r, s, map[ssa.Value]bool{}, 0) {
					okSign = true
				}
			}
			if !okSign {
				bad = p.relFile(ret.Pos())
			}
		}
		if bad != "" {
			c.bad("C15-R13", "sign-restored", bad, "Scale strips the sign of its value and a return yields the stripped value without putting the sign back: Scale(-v, u, t) == +Scale(v, u, t) for units outside the known families (counts, objects, samples), so negative diff values print as positive")
		} else {
			c.ok("C15-R13", "sign-restored", p.relFile(m.Pos()), "the sign stripped from the value is restored on every return that uses the stripped value", "each such return also depends on the sign merged at the same point")
		}
	}
}

// savedConfigFromCurrent (C19-R7): saving a configuration under a name stores the options in
// force plus those in the request, whether or not the name exists.  Every applyURL call made
// on behalf of setConfig is on a copy obtained from currentConfig(), never on an entry of the
// stored list: applied in place, the options the request does not mention keep the values
// saved earlier instead of the current ones.
func (c *Check) savedConfigFromCurrent() {
	p := c.P
	f := c.anchorFn("C19-R7", "internal/driver", "setConfig")
	cur := p.Func("internal/driver", "currentConfig")
	if f == nil || cur == nil {
		return
	}
	n := 0
	var scope []*ssa.Function
	seenFn := map[*ssa.Function]bool{}
	for _, h := range withHelpers(f, 2) {
		forEachFuncAndAnon(h, func(g *ssa.Function) {
			if !seenFn[g] {
				seenFn[g] = true
				scope = append(scope, g)
			}
		})
	}
	for _, g := range scope {
		for _, b := range g.Blocks {
			for _, ins := range b.Instrs {
				call, ok := ins.(*ssa.Call)
				if !ok || call.Call.StaticCallee() == nil || call.Call.StaticCallee().Name() != "applyURL" || len(call.Call.Args) == 0 {
					continue
				}
				n++
				key := fmt.Sprintf("saved-from-current#%d", n)
				recv := call.Call.Args[0]
				okRecv := false
				root := recv
				if fv, isFV := root.(*ssa.FreeVar); isFV {
					if b := freeVarBinding(fv); b != nil {
						root = b
					}
				}
				fromCurrent := func(vals []ssa.Value) bool {
					if len(vals) == 0 {
						return false
					}
					for _, w := range vals {
						if wc, isCall := w.(*ssa.Call); !isCall || wc.Call.StaticCallee() != cur {
							return false
						}
					}
					return true
				}
				if al, isAl := root.(*ssa.Alloc); isAl {
					whole, _ := allocStores(al)
					okRecv = fromCurrent(whole)
				} else if fa, isFA := root.(*ssa.FieldAddr); isFA {
					// a field of a local record (edit.cfg): what is stored in that field
					if al, isAl := fa.X.(*ssa.Alloc); isAl {
						var vals []ssa.Value
						for _, r := range *al.Referrers() {
							fa2, ok := r.(*ssa.FieldAddr)
							if !ok || fa2.Field != fa.Field {
								continue
							}
							for _, r2 := range *fa2.Referrers() {
								if st, ok := r2.(*ssa.Store); ok && st.Addr == fa2 {
									vals = append(vals, st.Val)
								}
							}
						}
						okRecv = fromCurrent(vals)
					}
				}
				if okRecv {
					c.ok("C19-R7", key, p.relFile(call.Pos()), "the request's options are applied to a copy of the configuration in force", "the receiver of applyURL is a local assigned from currentConfig()")
				} else {
					c.bad("C19-R7", key, p.relFile(call.Pos()), fnName(g)+" applies the request's options to "+describeValue(recv)+" rather than to a copy of the configuration in force: saving under an existing name keeps the old saved values of every option the URL does not mention, so the view restored later is not the one that was saved")
				}
			}
		}
	}
	if n == 0 {
		c.undecided("C19-R7", "saved-from-current", p.relFile(f.Pos()), "setConfig no longer applies the request to a configuration through applyURL")
	}
}

// unitFromDisplayedNodeValues (C15-R12, displayed-values): the output unit is picked from
// the numbers the report prints.  selectOutputUnit (and its helpers) reads a node's weight
// through FlatValue/CumValue, which apply the mean divisor, never from the Flat/Cum fields:
// with -mean the sums are larger than what is printed by the divisor, and the unit chosen for
// them shows every value as 0 or 0.01.
func (c *Check) unitFromDisplayedNodeValues() {
	p := c.P
	f := p.Func("internal/report", "(*Report).selectOutputUnit")
	if f == nil {
		return // reported by outputUnitFromDisplayedValues
	}
	bad := ""
	n := 0
	for _, g := range withHelpers(f, 2) {
		if fnPkgPath(g) != modPath+"/internal/report" {
			continue
		}
		n++
		for _, b := range g.Blocks {
			for _, ins := range b.Instrs {
				if fa, ok := ins.(*ssa.FieldAddr); ok {
					if T, F := fieldOf(fa.X.Type(), fa.Field); T == "graph.Node" && (F == "Flat" || F == "Cum") {
						bad = "Node." + F + " at " + p.relFile(fa.Pos())
					}
				}
			}
		}
	}
	if bad != "" {
		c.bad("C15-R12", "displayed-values", p.relFile(f.Pos()), "selectOutputUnit reads "+bad+" directly: with a mean divisor the report prints sum/divisor (FlatValue/CumValue) but the unit is chosen for the undivided sum, so values of a few microseconds are shown in a unit where they round to 0")
	} else {
		c.ok("C15-R12", "displayed-values", p.relFile(f.Pos()), "the output unit is chosen from the values as displayed", fmt.Sprintf("no direct read of Node.Flat/Node.Cum in selectOutputUnit and its %d helper(s) in package report", n-1))
	}
}

// searchNamesAlignedWithSources (C17-R11): the client indexes the list of names served with
// the stack view by source number.  When the list is grown inside a loop (append per source),
// no path through an iteration skips the append: a list with an entry left out (a duplicate
// name, say) is shorter than Sources and every later index names the wrong function or none.
func (c *Check) searchNamesAlignedWithSources() {
	p := c.P
	f := c.anchorFn("C17-R11", "internal/driver", "(*webInterface).stackView")
	if f == nil {
		return
	}
	n := 0
	for _, b := range f.Blocks {
		for _, ins := range b.Instrs {
			st, ok := ins.(*ssa.Store)
			if !ok {
				continue
			}
			fa, ok := st.Addr.(*ssa.FieldAddr)
			if !ok {
				continue
			}
			if T, F := fieldOf(fa.X.Type(), fa.Field); T != "driver.webArgs" || F != "Nodes" {
				continue
			}
			n++
			// the appends that build the stored list
			var appends []*ssa.Call
			seen := map[ssa.Value]bool{}
			var back func(v ssa.Value, d int)
			back = func(v ssa.Value, d int) {
				if seen[v] || d > 12 {
					return
				}
				seen[v] = true
				switch x := v.(type) {
				case *ssa.Phi:
					for _, e := range x.Edges {
						back(e, d+1)
					}
				case *ssa.Call:
					if bi, ok := x.Call.Value.(*ssa.Builtin); ok && bi.Name() == "append" {
						appends = append(appends, x)
						back(x.Call.Args[0], d+1)
					}
				case *ssa.Slice:
					back(x.X, d+1)
				}
			}
			back(st.Val, 0)
			bad := ""
			inLoop := 0
			for _, ap := range appends {
				hdr := loopHeaderAround(ap.Block())
				if hdr == nil {
					continue
				}
				inLoop++
				if iterationSkips(hdr, ap.Block(), func(ssa.Value) int { return 0 }) {
					bad = p.relFile(ap.Pos())
				}
			}
			switch {
			case bad != "":
				c.bad("C17-R11", "names-aligned", bad, "stackView appends a name to the list served as Nodes only on some iterations of the loop over the sources: the list is shorter than Sources, so the index of every source after the first omitted one selects another function's name (or none) in the client")
			case inLoop > 0:
				c.ok("C17-R11", "names-aligned", p.relFile(st.Pos()), "every iteration over the sources adds one name to the list served as Nodes", fmt.Sprintf("%d append(s) in a loop, none can be skipped by an iteration", inLoop))
			default:
				c.ok("C17-R11", "names-aligned", p.relFile(st.Pos()), "the list served as Nodes is not grown conditionally", "it is allocated with its final length and filled by index")
			}
		}
	}
	if n == 0 {
		c.ok("C17-R11", "names-aligned:none", p.relFile(f.Pos()), "stackView serves no Nodes list", "nothing to check")
	}
}

// dedupSetOutlivesList (C03-R11): "comments the de-duplicated union in order".  When
// combineHeaders appends to a list that lives across the loop over the inputs only if a map
// says the element is new, that map lives across the same loop: made afresh for each input it
// removes duplicates within one profile only, and a comment shared by two inputs appears twice.
func (c *Check) dedupSetOutlivesList() {
	p := c.P
	f := c.anchorFn("C03-R11", "profile", "combineHeaders")
	if f == nil {
		return
	}
	n := 0
	for _, g := range withHelpers(f, 1) {
		for _, b := range g.Blocks {
			for _, ins := range b.Instrs {
				ap, ok := ins.(*ssa.Call)
				if !ok {
					continue
				}
				if bi, ok := ap.Call.Value.(*ssa.Builtin); !ok || bi.Name() != "append" {
					continue
				}
				// loop headers at which the list is carried
				var hdrs []*ssa.BasicBlock
				seen := map[ssa.Value]bool{}
				var back func(v ssa.Value, d int)
				back = func(v ssa.Value, d int) {
					if seen[v] || d > 10 {
						return
					}
					seen[v] = true
					switch x := v.(type) {
					case *ssa.Phi:
						for _, pr := range x.Block().Preds {
							if x.Block().Dominates(pr) {
								hdrs = append(hdrs, x.Block())
								break
							}
						}
						for _, e := range x.Edges {
							back(e, d+1)
						}
					case *ssa.Call:
						if bi, ok := x.Call.Value.(*ssa.Builtin); ok && bi.Name() == "append" {
							back(x.Call.Args[0], d+1)
						}
					}
				}
				back(ap.Call.Args[0], 0)
				if len(hdrs) == 0 {
					continue
				}
				// the map lookups that decide whether the append runs
				for d := b; d != nil; d = d.Idom() {
					id := d.Idom()
					if id == nil {
						break
					}
					iff, ok := id.Instrs[len(id.Instrs)-1].(*ssa.If)
					if !ok {
						continue
					}
					mk := lookupMapOf(iff.Cond, 0)
					if mk == nil {
						continue
					}
					n++
					key := fmt.Sprintf("dedup-scope:%s#%d", fnName(g), n)
					inner := false
					for _, h := range hdrs {
						if naturalLoop(h)[mk.Block()] {
							inner = true
						}
					}
					if inner {
						c.bad("C03-R11", key, p.relFile(mk.Pos()), fnName(g)+" de-duplicates what it appends to a list shared by all inputs with a set that is made anew inside the loop over the inputs: duplicates are only removed within one profile, and a comment present in two inputs is listed twice in the merged profile")
					} else {
						c.ok("C03-R11", key, p.relFile(mk.Pos()), "the set that de-duplicates a merged list lives as long as the list", "the map is made outside every loop that carries the list")
					}
				}
			}
		}
	}
	if n == 0 {
		c.ok("C03-R11", "dedup-scope:none", p.relFile(f.Pos()), "combineHeaders guards no append with a map lookup", "de-duplication is done otherwise")
	}
}

// lookupMapOf: cond is (the negation of / a value extracted from) a lookup in a map made by
// make in this function; returns that MakeMap.
func lookupMapOf(v ssa.Value, d int) *ssa.MakeMap {
	if d > 6 {
		return nil
	}
	switch x := v.(type) {
	case *ssa.UnOp:
		if x.Op == token.NOT {
			return lookupMapOf(x.X, d+1)
		}
	case *ssa.Extract:
		return lookupMapOf(x.Tuple, d+1)
	case *ssa.Lookup:
		if mk, ok := x.X.(*ssa.MakeMap); ok {
			return mk
		}
		if ph, ok := x.X.(*ssa.Phi); ok {
			for _, e := range ph.Edges {
				if mk, ok := e.(*ssa.MakeMap); ok {
					return mk
				}
			}
		}
	}
	return nil
}

// mainBinaryPinnedOnce (C03-R12): "nothing else is added".  Merge may enter a mapping in the
// result before any sample needs it only to keep the main binary first, and only while the
// result has no mapping yet: a direct call of the mapping interner from Merge is dominated by
// a test that a table of the merger is empty.  Done for every input, the first mapping of a
// later profile is added although no surviving sample refers to it, and compacting the
// merged profile changes it.
func (c *Check) mainBinaryPinnedOnce() {
	p := c.P
	f := c.anchorFn("C03-R12", "profile", "Merge")
	if f == nil {
		return
	}
	n := 0
	for _, b := range f.Blocks {
		for _, ins := range b.Instrs {
			call, ok := ins.(*ssa.Call)
			if !ok || call.Call.StaticCallee() == nil || call.Call.StaticCallee().Name() != "mapMapping" || len(call.Call.Args) == 0 {
				continue
			}
			n++
			key := fmt.Sprintf("pin-main-binary#%d", n)
			recv := call.Call.Args[0]
			guarded := false
			for d := b; d != nil && !guarded; d = d.Idom() {
				id := d.Idom()
				if id == nil {
					break
				}
				iff, ok := id.Instrs[len(id.Instrs)-1].(*ssa.If)
				if !ok || len(d.Preds) != 1 || id.Succs[0] != d {
					continue
				}
				cmp, ok := iff.Cond.(*ssa.BinOp)
				if !ok || cmp.Op != token.EQL {
					continue
				}
				if k, ok := constInt(cmp.Y); !ok || k != 0 {
					continue
				}
				if x := lenArg(cmp.X); x != nil {
					if ld, ok := x.(*ssa.UnOp); ok && ld.Op == token.MUL {
						if fa, ok := ld.X.(*ssa.FieldAddr); ok && fa.X == recv {
							guarded = true
						}
					}
				}
			}
			if guarded {
				c.ok("C03-R12", key, p.relFile(call.Pos()), "Merge pins a mapping ahead of the samples only while the result has none", "the direct call of the mapping interner is dominated by len(<table of the merger>) == 0")
			} else {
				c.bad("C03-R12", key, p.relFile(call.Pos()), "Merge enters a mapping in the result for every input, whether or not a surviving sample refers to it: the first mapping of a later profile whose samples all cancel (or lie in shared libraries) is added to the merged profile, which Compact then changes again")
			}
		}
	}
	if n == 0 {
		c.ok("C03-R12", "pin-main-binary:none", p.relFile(f.Pos()), "Merge enters no mapping directly", "mappings reach the result through the locations of surviving samples only")
	}
}

// objNamesFormats (C04-R13): the entry a frame maps to is the same in every output form that
// lists functions.  report.newGraph keys nodes by binary (gopt.ObjNames) only for the forms
// that print addresses or per-binary records - raw, list, weblist, disasm, callgrind; a form
// added to that case list (topproto) splits one function into one entry per binary, with
// flat and cum values that differ from the same entry in top or dot.
func (c *Check) objNamesFormats() {
	p := c.P
	f := c.anchorFn("C04-R13", "internal/report", "(*Report).newGraph")
	if f == nil {
		return
	}
	allowed := map[string]bool{"Raw": true, "List": true, "WebList": true, "Dis": true, "Callgrind": true}
	names := map[int64]string{}
	if pk := p.Pkg("internal/report"); pk != nil {
		sc := pk.Types.Scope()
		for _, nme := range sc.Names() {
			k, ok := sc.Lookup(nme).(*types.Const)
			if !ok {
				continue
			}
			if bt, isB := k.Type().Underlying().(*types.Basic); isB && bt.Info()&types.IsInteger != 0 {
				// the output format constants are untyped-int iota constants of the package
				if v, ok := constantInt64(k); ok {
					if _, dup := names[v]; !dup || allowed[nme] {
						names[v] = nme
					}
				}
			}
		}
	}
	n := 0
	for _, b := range f.Blocks {
		for _, ins := range b.Instrs {
			st, ok := ins.(*ssa.Store)
			if !ok {
				continue
			}
			fa, ok := st.Addr.(*ssa.FieldAddr)
			if !ok {
				continue
			}
			if T, F := fieldOf(fa.X.Type(), fa.Field); T != "graph.Options" || F != "ObjNames" {
				continue
			}
			if k, isK := st.Val.(*ssa.Const); !isK || !constBool(k) {
				continue
			}
			n++
			var extra []string
			cases := 0
			for _, pr := range b.Preds {
				iff, ok := pr.Instrs[len(pr.Instrs)-1].(*ssa.If)
				if !ok || pr.Succs[0] != b {
					continue
				}
				cmp, ok := iff.Cond.(*ssa.BinOp)
				if !ok || cmp.Op != token.EQL {
					continue
				}
				k, ok := constInt(cmp.Y)
				if !ok {
					continue
				}
				if ld, ok := cmp.X.(*ssa.UnOp); ok && ld.Op == token.MUL {
					if fa2, ok := ld.X.(*ssa.FieldAddr); ok {
						if _, F := fieldOf(fa2.X.Type(), fa2.Field); F == "OutputFormat" {
							cases++
							if nm := names[k]; !allowed[nm] {
								if nm == "" {
									nm = fmt.Sprint(k)
								}
								extra = append(extra, nm)
							}
						}
					}
				}
			}
			sort.Strings(extra)
			switch {
			case len(extra) > 0:
				c.bad("C04-R13", "objnames-formats", p.relFile(st.Pos()), "newGraph keys nodes by binary for output format "+strings.Join(extra, ", ")+" as well: that form now shows one entry per (function, binary, start line) where top, tree and dot show one per function, with different flat and cum values for the same function")
			case cases > 0:
				c.ok("C04-R13", "objnames-formats", p.relFile(st.Pos()), "only the address-level forms key nodes by binary", fmt.Sprintf("ObjNames is set for %d output formats, all among raw, list, weblist, disasm, callgrind", cases))
			default:
				c.ok("C04-R13", "objnames-formats", p.relFile(st.Pos()), "ObjNames is not set from a case list over the output format", "expressed otherwise: not decided by this rule")
			}
		}
	}
	if n == 0 {
		c.ok("C04-R13", "objnames-formats:none", p.relFile(f.Pos()), "newGraph never sets ObjNames", "nodes are keyed alike in every form")
	}
}

func constantInt64(k *types.Const) (int64, bool) {
	s := k.Val().ExactString()
	var v int64
	if _, err := fmt.Sscan(s, &v); err != nil {
		return 0, false
	}
	return v, true
}

// aliasMatchesAliasesOnly (C15-R14): the spellings of a unit that pprof knows are the entries
// of its aliases list.  In findByAlias the queried spelling is compared only with elements of
// a unit's aliases: compared with anything else (a case-folded canonical name) a spelling that
// is in no list becomes known, and two units whose other names collide ("M*GCU"/"m*GCU" once
// lower-cased) resolve to whichever comes first - a factor of 1e9.
func (c *Check) aliasMatchesAliasesOnly() {
	p := c.P
	f := c.anchorFn("C15-R14", "internal/measurement", "UnitType.findByAlias")
	if f == nil || len(f.Params) < 2 {
		return
	}
	q := f.Params[len(f.Params)-1]
	fromAliases := func(v ssa.Value) bool {
		// v is loaded from an element of a value loaded from field aliases
		seen := map[ssa.Value]bool{}
		var walk func(v ssa.Value, d int) bool
		walk = func(v ssa.Value, d int) bool {
			if seen[v] || d > 10 {
				return false
			}
			seen[v] = true
			switch x := v.(type) {
			case *ssa.UnOp:
				return walk(x.X, d+1)
			case *ssa.IndexAddr:
				return walk(x.X, d+1)
			case *ssa.Index:
				return walk(x.X, d+1)
			case *ssa.Field:
				_, F := fieldOfValue(x)
				return F == "aliases" || walk(x.X, d+1)
			case *ssa.FieldAddr:
				_, F := fieldOf(x.X.Type(), x.Field)
				return F == "aliases" || walk(x.X, d+1)
			case *ssa.Extract:
				return walk(x.Tuple, d+1)
			case *ssa.Next:
				return walk(x.Iter, d+1)
			case *ssa.Range:
				return walk(x.X, d+1)
			case *ssa.Phi:
				for _, e := range x.Edges {
					if walk(e, d+1) {
						return true
					}
				}
			}
			return false
		}
		return walk(v, 0)
	}
	n := 0
	for _, g := range withHelpers(f, 1) {
		if g != f {
			continue
		}
		for _, b := range g.Blocks {
			for _, ins := range b.Instrs {
				cmp, ok := ins.(*ssa.BinOp)
				if !ok || cmp.Op != token.EQL {
					continue
				}
				var other ssa.Value
				if cmp.X == ssa.Value(q) {
					other = cmp.Y
				} else if cmp.Y == ssa.Value(q) {
					other = cmp.X
				} else {
					continue
				}
				n++
				key := fmt.Sprintf("alias-compare#%d", n)
				if fromAliases(other) {
					c.ok("C15-R14", key, p.relFile(cmp.Pos()), "the queried spelling is compared with an entry of a unit's aliases", "the other operand is loaded from the aliases field")
				} else {
					c.bad("C15-R14", key, p.relFile(cmp.Pos()), "findByAlias compares the queried spelling with "+describeValue(other)+", which is not an entry of the aliases list: spellings outside the table become known units, and units whose other names collide after case folding (M*GCU and m*GCU) are confused")
				}
			}
		}
	}
	if n == 0 {
		c.ok("C15-R14", "alias-compare:none", p.relFile(f.Pos()), "findByAlias compares the spelling with nothing directly", "lookup is done otherwise (a table built from the aliases)")
	}
}

// ---------------------------------------------------------------- round J

// minimumSeededUnset (C15-R16): the output unit "minimum" is chosen for the smallest non-zero
// value displayed; the report total only stands in when there is none.  The running minimum
// of selectOutputUnit's loop over the nodes starts as "unset" (a constant), not as the
// total: seeded with the total, a report whose total is smaller than its entries (a diff
// against a small base) picks the unit of the total and prints every entry as a huge number
// of small units.
func (c *Check) minimumSeededUnset() {
	p := c.P
	f := p.Func("internal/report", "(*Report).selectOutputUnit")
	if f == nil {
		return // reported by outputUnitFromDisplayedValues
	}
	n := 0
	for _, g := range withHelpers(f, 1) {
		for _, b := range g.Blocks {
			isHdr := false
			for _, pr := range b.Preds {
				if b.Dominates(pr) {
					isHdr = true
				}
			}
			if !isHdr {
				continue
			}
			for _, ins := range b.Instrs {
				ph, ok := ins.(*ssa.Phi)
				if !ok {
					break
				}
				if bt, ok := ph.Type().Underlying().(*types.Basic); !ok || bt.Kind() != types.Int64 {
					continue
				}
				for i, e := range ph.Edges {
					if b.Dominates(b.Preds[i]) {
						continue // the back edge
					}
					if ld, ok := e.(*ssa.UnOp); ok && ld.Op == token.MUL {
						if fa, ok := ld.X.(*ssa.FieldAddr); ok {
							if T, F := fieldOf(fa.X.Type(), fa.Field); T == "report.Report" && F == "total" {
								n++
								c.bad("C15-R16", fmt.Sprintf("min-seed:%s#%d", fnName(g), n), p.relFile(ph.Pos()), fnName(g)+" starts the search for the smallest displayed value from the report total: when the total is smaller than every entry (a diff-base report counts only the base samples) the unit is chosen for the total, and entries of gigabytes are printed in kilobytes")
							}
						}
					}
				}
			}
		}
	}
	if n == 0 {
		c.ok("C15-R16", "min-seed", p.relFile(f.Pos()), "the smallest displayed value is searched among the entries only", "no loop-carried int64 of selectOutputUnit is initialised from Report.total")
	}
}

// partialLastLineProcessed (C14-R14): a text table read with ReadString (bufio.Reader or bytes.Buffer) ends
// either with a newline or with the end of the input; in the second case ReadString hands
// back the last line together with io.EOF.  On the path where the error is io.EOF the reading
// loop is left only after the line was found empty: leaving at once drops the last entry of a
// Java location table that has no trailing newline (its frames lose function, file and line).
func (c *Check) partialLastLineProcessed() {
	p := c.P
	n := 0
	forAllPkgFuncs(p, "profile", func(f0 *ssa.Function) {
		forEachFuncAndAnon(f0, func(f *ssa.Function) {
			for _, b := range f.Blocks {
				for _, ins := range b.Instrs {
					call, ok := ins.(*ssa.Call)
					if !ok || call.Call.StaticCallee() == nil || (call.Call.StaticCallee().String() != "(*bufio.Reader).ReadString" && call.Call.StaticCallee().String() != "(*bytes.Buffer).ReadString") {
						continue
					}
					hdr := loopHeaderAround(b)
					for _, pr := range b.Preds {
						if b.Dominates(pr) {
							hdr = b // `for { line, err := r.ReadString(...) ...}`: the call's block heads the loop
						}
					}
					if hdr == nil {
						continue
					}
					loop := naturalLoop(hdr)
					var line, errv ssa.Value
					for _, r := range *call.Referrers() {
						if ex, ok := r.(*ssa.Extract); ok {
							if ex.Index == 0 {
								line = ex
							} else {
								errv = ex
							}
						}
					}
					if line == nil || errv == nil {
						continue
					}
					isEOF := func(v ssa.Value) bool {
						ld, ok := v.(*ssa.UnOp)
						if !ok || ld.Op != token.MUL {
							return false
						}
						g, ok := ld.X.(*ssa.Global)
						return ok && g.Pkg != nil && g.Pkg.Pkg.Path() == "io" && g.Name() == "EOF"
					}
					emptyTest := func(cond ssa.Value) int { // 1: true edge means "line is empty", -1: false edge does
						cmp, ok := cond.(*ssa.BinOp)
						if !ok {
							return 0
						}
						isLine := func(v ssa.Value) bool { return v == line }
						if s, ok := constString(cmp.Y); ok && s == "" && isLine(cmp.X) || func() bool { s, ok := constString(cmp.X); return ok && s == "" && isLine(cmp.Y) }() {
							switch cmp.Op {
							case token.EQL:
								return 1
							case token.NEQ:
								return -1
							}
						}
						if la := lenArg(cmp.X); la != nil && isLine(la) {
							if k, ok := constInt(cmp.Y); ok && k == 0 {
								switch cmp.Op {
								case token.EQL:
									return 1
								case token.NEQ, token.GTR:
									return -1
								}
							}
						}
						return 0
					}
					// the blocks entered when err == io.EOF
					for _, tb := range f.Blocks {
						iff, ok := tb.Instrs[len(tb.Instrs)-1].(*ssa.If)
						if !ok {
							continue
						}
						cmp, ok := iff.Cond.(*ssa.BinOp)
						if !ok || !((cmp.X == errv && isEOF(cmp.Y)) || (cmp.Y == errv && isEOF(cmp.X))) {
							continue
						}
						var eofBlock *ssa.BasicBlock
						switch cmp.Op {
						case token.EQL:
							eofBlock = tb.Succs[0]
						case token.NEQ:
							eofBlock = tb.Succs[1]
						default:
							continue
						}
						n++
						key := fmt.Sprintf("eof-line:%s#%d", fnName(f), n)
						// can the loop be left from eofBlock without passing "line is empty"?
						leaves := false
						seen := map[*ssa.BasicBlock]bool{}
						var walk func(x *ssa.BasicBlock)
						walk = func(x *ssa.BasicBlock) {
							if leaves || seen[x] {
								return
							}
							if !loop[x] {
								leaves = true
								return
							}
							if x == hdr {
								return // next iteration
							}
							seen[x] = true
							// the line is being processed here: this path does not drop it
							for _, xi := range x.Instrs {
								if bo, isCmp := xi.(*ssa.BinOp); isCmp && emptyTest(bo) != 0 {
									continue
								}
								var ops []*ssa.Value
								for _, op := range xi.Operands(ops) {
									if op != nil && *op == line {
										return
									}
								}
							}
							if i2, ok := x.Instrs[len(x.Instrs)-1].(*ssa.If); ok {
								switch emptyTest(i2.Cond) {
								case 1:
									walk(x.Succs[1]) // the empty edge may leave; follow the non-empty one only
									return
								case -1:
									walk(x.Succs[0])
									return
								}
							}
							for _, sc := range x.Succs {
								walk(sc)
							}
						}
						walk(eofBlock)
						if leaves {
							c.bad("C14-R14", key, p.relFile(cmp.Pos()), fnName(f)+" leaves its reading loop as soon as ReadString reports io.EOF, without looking at the line returned with it: the last line of a table that does not end in a newline is dropped (the frames it describes lose their function, file and line)")
						} else {
							c.ok("C14-R14", key, p.relFile(cmp.Pos()), "at the end of the input the last partial line is still processed", "on the io.EOF path the loop is left only through a test that the line is empty")
						}
					}
				}
			}
		})
	})
	if n == 0 {
		c.ok("C14-R14", "eof-line:none", "", "package profile reads no table with ReadString in a loop that tests io.EOF", "nothing to check")
	}
}

// offsetsComparedWhenBothKnown (C14-R15): adjacent memory-map ranges of one file are merged
// "if the offsets match, if they are available".  In adjacent() a comparison that involves
// the Offset of both mappings is made only where both were found non-zero: tested on one side
// only, a binary split into two ranges of which the first has no offset is left as two
// mappings and the locations of the second range are attributed to the wrong one.
func (c *Check) offsetsComparedWhenBothKnown() {
	p := c.P
	f := c.anchorFn("C14-R15", "profile", "adjacent")
	if f == nil || len(f.Params) < 2 {
		return
	}
	offsetOf := func(v ssa.Value) *ssa.Parameter {
		ld, ok := v.(*ssa.UnOp)
		if !ok || ld.Op != token.MUL {
			return nil
		}
		fa, ok := ld.X.(*ssa.FieldAddr)
		if !ok {
			return nil
		}
		if _, F := fieldOf(fa.X.Type(), fa.Field); F != "Offset" {
			return nil
		}
		par, _ := fa.X.(*ssa.Parameter)
		return par
	}
	var mentions func(v ssa.Value, d int, out map[*ssa.Parameter]bool)
	mentions = func(v ssa.Value, d int, out map[*ssa.Parameter]bool) {
		if d > 5 {
			return
		}
		if par := offsetOf(v); par != nil {
			out[par] = true
			return
		}
		if bo, ok := v.(*ssa.BinOp); ok {
			mentions(bo.X, d+1, out)
			mentions(bo.Y, d+1, out)
		}
	}
	n := 0
	for _, b := range f.Blocks {
		for _, ins := range b.Instrs {
			cmp, ok := ins.(*ssa.BinOp)
			if !ok || (cmp.Op != token.NEQ && cmp.Op != token.EQL) {
				continue
			}
			m := map[*ssa.Parameter]bool{}
			mentions(cmp, 0, m)
			if len(m) < 2 {
				continue
			}
			n++
			key := fmt.Sprintf("offsets-known#%d", n)
			missing := ""
			for par := range m {
				par := par
				test := func(cond ssa.Value, want bool, d int) bool {
					c2, ok := cond.(*ssa.BinOp)
					if !ok {
						return false
					}
					if q := offsetOf(c2.X); q == par {
						if k, ok := constInt(c2.Y); ok && k == 0 {
							return (c2.Op == token.NEQ && want) || (c2.Op == token.EQL && !want)
						}
					}
					return false
				}
				if !dominatedByTest(b, test, 0) {
					missing = par.Name()
				}
			}
			if missing == "" {
				c.ok("C14-R15", key, p.relFile(cmp.Pos()), "the offsets of two ranges are compared only when both are known", "the comparison is dominated by a non-zero test of each mapping's Offset")
			} else {
				c.bad("C14-R15", key, p.relFile(cmp.Pos()), "adjacent compares the offsets of the two ranges although the Offset of "+missing+" was not found non-zero: a first range without an offset (0) followed by the rest of the same binary is no longer merged, and the profile gets a second mapping for one binary")
			}
		}
	}
	if n == 0 {
		c.ok("C14-R15", "offsets-known:none", p.relFile(f.Pos()), "adjacent compares no pair of offsets", "nothing to check")
	}
}

// wordReadersHaveOneByteOrder (C14-R16): binary CPU profiles come in either endianness and
// word size; each of the word readers (func([]byte) (uint64, []byte)) assembles its result
// from the bytes of the input in one consistent order - byte i shifted by 8*i (little-endian)
// or by 8*(n-1-i) (big-endian).  The layout is computed from the shift-or expression of the
// result, through sibling readers and re-slicing (a 64-bit reader built from two 32-bit
// reads): a reader whose halves are each big-endian but combined low half first is neither,
// and 64-bit big-endian profiles are no longer recognised.
func (c *Check) wordReadersHaveOneByteOrder() {
	p := c.P
	isReader := func(f *ssa.Function) bool {
		sig := f.Signature
		if sig.Recv() != nil || sig.Params().Len() != 1 || sig.Results().Len() != 2 {
			return false
		}
		return typeShort(sig.Params().At(0).Type()) == "[]byte" && typeShort(sig.Results().At(1).Type()) == "[]byte" && typeShort(sig.Results().At(0).Type()) == "uint64"
	}
	type layout map[int]int // byte index → shift
	memo := map[*ssa.Function]layout{}
	consumed := map[*ssa.Function]int{}
	var layoutOf func(f *ssa.Function, depth int) layout
	// offset of a slice value relative to the function's parameter
	var offsetOf func(f *ssa.Function, s ssa.Value, depth int) (int, bool)
	offsetOf = func(f *ssa.Function, s ssa.Value, depth int) (int, bool) {
		if depth > 8 {
			return 0, false
		}
		switch x := s.(type) {
		case *ssa.Parameter:
			return 0, true
		case *ssa.Slice:
			if x.High != nil {
				return 0, false
			}
			k := int64(0)
			if x.Low != nil {
				var ok bool
				if k, ok = constInt(x.Low); !ok {
					return 0, false
				}
			}
			o, ok := offsetOf(f, x.X, depth+1)
			return o + int(k), ok
		case *ssa.Extract:
			if call, ok := x.Tuple.(*ssa.Call); ok && x.Index == 1 {
				if h := call.Call.StaticCallee(); h != nil && isReader(h) && len(call.Call.Args) == 1 {
					if layoutOf(h, depth+1) == nil {
						return 0, false
					}
					o, ok := offsetOf(f, call.Call.Args[0], depth+1)
					return o + consumed[h], ok
				}
			}
		}
		return 0, false
	}
	layoutOf = func(f *ssa.Function, depth int) layout {
		if l, ok := memo[f]; ok {
			return l
		}
		memo[f] = nil
		if depth > 4 {
			return nil
		}
		var eval func(v ssa.Value, shift int, out layout, d int) bool
		eval = func(v ssa.Value, shift int, out layout, d int) bool {
			if d > 40 {
				return false
			}
			switch x := v.(type) {
			case *ssa.BinOp:
				switch x.Op {
				case token.OR, token.ADD:
					return eval(x.X, shift, out, d+1) && eval(x.Y, shift, out, d+1)
				case token.SHL:
					k, ok := constInt(x.Y)
					return ok && eval(x.X, shift+int(k), out, d+1)
				}
			case *ssa.Convert:
				return eval(x.X, shift, out, d+1)
			case *ssa.UnOp:
				if x.Op == token.MUL {
					if ia, ok := x.X.(*ssa.IndexAddr); ok {
						i, ok1 := constInt(ia.Index)
						o, ok2 := offsetOf(f, ia.X, 0)
						if ok1 && ok2 {
							out[o+int(i)] = shift
							return true
						}
					}
				}
			case *ssa.Extract:
				if call, ok := x.Tuple.(*ssa.Call); ok && x.Index == 0 {
					if h := call.Call.StaticCallee(); h != nil && isReader(h) && len(call.Call.Args) == 1 {
						hl := layoutOf(h, depth+1)
						o, ok2 := offsetOf(f, call.Call.Args[0], 0)
						if hl == nil || !ok2 {
							return false
						}
						for i, s := range hl {
							out[o+i] = s + shift
						}
						return true
					}
				}
			}
			return false
		}
		for _, b := range f.Blocks {
			ret, ok := b.Instrs[len(b.Instrs)-1].(*ssa.Return)
			if !ok || len(ret.Results) != 2 {
				continue
			}
			if k, isK := ret.Results[0].(*ssa.Const); isK && k.Value != nil {
				continue // the short-input return
			}
			out := layout{}
			if !eval(ret.Results[0], 0, out, 0) || len(out) == 0 {
				return nil
			}
			if o, ok := offsetOf(f, ret.Results[1], 0); ok {
				consumed[f] = o
			} else {
				return nil
			}
			memo[f] = out
			return out
		}
		return nil
	}
	n := 0
	forAllPkgFuncs(p, "profile", func(f *ssa.Function) {
		if f.Parent() != nil || !isReader(f) || !strings.HasSuffix(p.Fset.Position(f.Pos()).Filename, "/legacy_profile.go") {
			return
		}
		l := layoutOf(f, 0)
		if l == nil {
			return // not a shift-or reader (reads through encoding/binary, say): nothing to decide here
		}
		n++
		nb := len(l)
		le, be := true, true
		for i, s := range l {
			if i < 0 || i >= nb {
				le, be = false, false
				break
			}
			if s != 8*i {
				le = false
			}
			if s != 8*(nb-1-i) {
				be = false
			}
		}
		key := "byte-order:" + fnName(f)
		switch {
		case le:
			c.ok("C14-R16", key, p.relFile(f.Pos()), fmt.Sprintf("%s reads a %d-byte little-endian word", fnName(f), nb), "byte i of the input is shifted by 8*i")
		case be:
			c.ok("C14-R16", key, p.relFile(f.Pos()), fmt.Sprintf("%s reads a %d-byte big-endian word", fnName(f), nb), "byte i of the input is shifted by 8*(n-1-i)")
		default:
			c.bad("C14-R16", key, p.relFile(f.Pos()), fmt.Sprintf("%s assembles its %d-byte word in neither byte order (byte→shift %v): the halves are combined in the order of the other endianness, so profiles of that word size and endianness are read as garbage and rejected", fnName(f), nb, l))
		}
	})
	if n == 0 {
		c.ok("C14-R16", "byte-order:none", "", "legacy_profile.go has no shift-or word reader", "nothing to check")
	}
}

// ---------------------------------------------------------------- round K

// scoresComparedByMagnitude (C05-R13): "fall outside the top N under the active sort order":
// the score orders of Nodes.Sort (cum, entropy) rank by magnitude.  A score looked up in the
// map[*Node]int64 of the sort is used only through an absolute-value function: compared with
// its sign, entries with a large negative cum (a diff profile) are cut before small positive
// ones.
func (c *Check) scoresComparedByMagnitude() {
	p := c.P
	f := c.anchorFn("C05-R13", "internal/graph", "Nodes.Sort")
	if f == nil {
		return
	}
	n := 0
	var scope []*ssa.Function
	seenFn := map[*ssa.Function]bool{}
	for _, h := range withHelpers(f, 1) {
		forEachFuncAndAnon(h, func(g *ssa.Function) {
			if !seenFn[g] {
				seenFn[g] = true
				scope = append(scope, g)
			}
		})
	}
	for _, g := range scope {
		for _, b := range g.Blocks {
			for _, ins := range b.Instrs {
				lk, ok := ins.(*ssa.Lookup)
				if !ok || lk.CommaOk {
					continue
				}
				mt, ok := lk.X.Type().Underlying().(*types.Map)
				if !ok || typeShort(mt.Key()) != "*graph.Node" {
					continue
				}
				if bt, ok := mt.Elem().Underlying().(*types.Basic); !ok || bt.Kind() != types.Int64 {
					continue
				}
				n++
				key := fmt.Sprintf("score-magnitude:%s#%d", fnName(g), n)
				bad := ""
				for _, r := range *lk.Referrers() {
					switch x := r.(type) {
					case *ssa.DebugRef:
					case *ssa.Call:
						if !absLike(x.Call.StaticCallee()) {
							bad = "passed to " + calleeShort(x)
						}
					case *ssa.BinOp:
						switch x.Op {
						case token.LSS, token.GTR, token.LEQ, token.GEQ, token.NEQ, token.EQL:
							if _, isK := x.Y.(*ssa.Const); !isK {
								bad = "compared as is (" + x.Op.String() + ")"
							}
						}
					}
				}
				if bad == "" {
					c.ok("C05-R13", key, p.relFile(lk.Pos()), "a sort score is compared by magnitude", "the looked-up score is only used through an absolute-value function")
				} else {
					c.bad("C05-R13", key, p.relFile(lk.Pos()), fnName(g)+" uses a node's score with its sign ("+bad+"): in a diff profile an entry with a large negative cum sorts after small positive ones and is the first to be cut by nodecount, although it is in the top N by |cum|")
				}
			}
		}
	}
	if n == 0 {
		c.ok("C05-R13", "score-magnitude:none", p.relFile(f.Pos()), "Nodes.Sort looks no score up in a map", "scores are handled otherwise")
	}
}

// cutoffFromRawTotal (C05-R14): the node and edge cutoffs are compared with raw cum values and
// edge weights, so they are fractions of the raw total (Nodes.Sum).  The factor multiplied
// with NodeFraction/EdgeFraction is not the result of a function that applies the mean divisor
// (FlatValue/CumValue): with -mean the displayed total is smaller by the divisor and entries
// below the cutoff survive.
func (c *Check) cutoffFromRawTotal() {
	p := c.P
	usesDisplayed := func(h *ssa.Function) bool {
		if h == nil || len(h.Blocks) == 0 {
			return false
		}
		for _, g := range withHelpers(h, 1) {
			for _, b := range g.Blocks {
				for _, ins := range b.Instrs {
					if call, ok := ins.(*ssa.Call); ok && call.Call.StaticCallee() != nil {
						switch call.Call.StaticCallee().Name() {
						case "FlatValue", "CumValue", "WeightValue":
							return true
						}
					}
				}
			}
		}
		return false
	}
	n := 0
	forAllPkgFuncs(p, "internal/report", func(f *ssa.Function) {
		for _, b := range f.Blocks {
			for _, ins := range b.Instrs {
				mul, ok := ins.(*ssa.BinOp)
				if !ok || mul.Op != token.MUL {
					continue
				}
				var other ssa.Value
				frac := ""
				for _, pr := range [][2]ssa.Value{{mul.X, mul.Y}, {mul.Y, mul.X}} {
					if ld, ok := pr[0].(*ssa.UnOp); ok && ld.Op == token.MUL {
						if fa, ok := ld.X.(*ssa.FieldAddr); ok {
							if T, F := fieldOf(fa.X.Type(), fa.Field); T == "report.Options" && (F == "NodeFraction" || F == "EdgeFraction") {
								frac, other = F, pr[1]
							}
						}
					}
				}
				if frac == "" {
					continue
				}
				for i := 0; i < 4; i++ {
					if cv, ok := other.(*ssa.Convert); ok {
						other = cv.X
					}
				}
				var src *ssa.Call
				switch x := other.(type) {
				case *ssa.Call:
					src = x
				case *ssa.Extract:
					src, _ = x.Tuple.(*ssa.Call)
				}
				if src == nil || src.Call.StaticCallee() == nil {
					continue
				}
				n++
				key := fmt.Sprintf("cutoff-raw:%s:%s", fnName(f), frac)
				if usesDisplayed(src.Call.StaticCallee()) {
					c.bad("C05-R14", key, p.relFile(mul.Pos()), fnName(f)+" takes "+frac+" of "+fnName(src.Call.StaticCallee())+", which sums displayed values (divided by the mean divisor), and compares the result with raw cum values: with -mean the cutoff is too small by the divisor and entries whose |cum| is below nodefraction × total stay in the report")
				} else {
					c.ok("C05-R14", key, p.relFile(mul.Pos()), "the cutoff is a fraction of the raw total", fnName(src.Call.StaticCallee())+" does not apply the mean divisor")
				}
			}
		}
	})
	if n == 0 {
		c.ok("C05-R14", "cutoff-raw:none", "", "no cutoff is computed from the result of a summing call", "nothing to check")
	}
}

// lineValuesNotCarried (C10-R10): what an interactive line sets depends on that line only.
// The name and value handed to configure() are computed inside the iteration of the read
// loop: neither is a value carried round the loop (a variable hoisted out of it keeps the
// value of an earlier assignment, so a bare `call_tree` after `call_tree=false` sets false).
func (c *Check) lineValuesNotCarried() {
	p := c.P
	f := c.anchorFn("C10-R10", "internal/driver", "interactive")
	cfgFn := p.Func("internal/driver", "configure")
	if f == nil || cfgFn == nil {
		return
	}
	n := 0
	for _, g := range withHelpers(f, 1) {
		for _, b := range g.Blocks {
			for _, ins := range b.Instrs {
				call, ok := ins.(*ssa.Call)
				if !ok || call.Call.StaticCallee() != cfgFn {
					continue
				}
				hdr := loopHeaderAround(b)
				if hdr == nil {
					continue
				}
				n++
				key := fmt.Sprintf("line-local:%s#%d", fnName(g), n)
				carried := ""
				for ai, a := range call.Call.Args {
					seen := map[ssa.Value]bool{}
					var walk func(v ssa.Value, d int)
					walk = func(v ssa.Value, d int) {
						if seen[v] || d > 12 || carried != "" {
							return
						}
						seen[v] = true
						switch x := v.(type) {
						case *ssa.Phi:
							for _, pr := range x.Block().Preds {
								if x.Block().Dominates(pr) && naturalLoop(x.Block())[b] {
									carried = fmt.Sprintf("argument %d", ai+1)
									return
								}
							}
							for _, e := range x.Edges {
								walk(e, d+1)
							}
						case *ssa.UnOp:
							if al, ok := x.X.(*ssa.Alloc); ok && x.Op == token.MUL {
								whole, _ := allocStores(al)
								for _, w := range whole {
									walk(w, d+1)
								}
							}
						}
					}
					walk(a, 0)
				}
				if carried == "" {
					c.ok("C10-R10", key, p.relFile(call.Pos()), "the option name and value come from the current line only", "neither argument of configure is carried round the read loop")
				} else {
					c.bad("C10-R10", key, p.relFile(call.Pos()), fnName(g)+" hands configure a value ("+carried+") that is carried round the read loop: a line without '=' reuses the value of an earlier assignment, so what `call_tree` sets depends on the lines typed before it")
				}
			}
		}
	}
	if n == 0 {
		c.ok("C10-R10", "line-local:none", p.relFile(f.Pos()), "interactive does not call configure inside its read loop directly", "nothing to check")
	}
}

// resumeInsideShortenedString (C09-R12): a scanner that cuts s[a:b] out of the string it is
// scanning (s = s[:a] + s[b:]) and goes on from an index i resumes at or before a, the first
// position that still holds unscanned text: where the new string and the new index are merged
// into the loop variables, index + (the increment applied before the next s[index:]) minus a is
// a constant <= 0.  Resuming later (a clamped first-1) starts beyond the end when the removed
// group was the whole string, and s[index:] panics.
func (c *Check) resumeInsideShortenedString() {
	p := c.P
	f := c.anchorFn("C09-R12", "internal/symbolizer", "removeMatching")
	if f == nil {
		return
	}
	n := 0
	for _, b := range f.Blocks {
		for _, ins := range b.Instrs {
			cat, ok := ins.(*ssa.BinOp)
			if !ok || cat.Op != token.ADD {
				continue
			}
			x, ok1 := cat.X.(*ssa.Slice)
			y, ok2 := cat.Y.(*ssa.Slice)
			if !ok1 || !ok2 || x.X != y.X || x.Low != nil || x.High == nil || y.Low == nil || y.High != nil {
				continue
			}
			a := x.High
			for _, sc := range b.Succs {
				pi := -1
				for i, pr := range sc.Preds {
					if pr == b {
						pi = i
					}
				}
				var strPhi *ssa.Phi
				for _, si := range sc.Instrs {
					if ph, ok := si.(*ssa.Phi); ok && pi >= 0 && ph.Edges[pi] == ssa.Value(cat) {
						strPhi = ph
					}
				}
				if strPhi == nil {
					continue
				}
				for _, r := range *strPhi.Referrers() {
					sl, ok := r.(*ssa.Slice)
					if !ok || sl.X != ssa.Value(strPhi) || sl.Low == nil {
						continue
					}
					// low = idxPhi + k
					k := int64(0)
					lo := sl.Low
					if add, ok := lo.(*ssa.BinOp); ok && add.Op == token.ADD {
						if kk, ok := constInt(add.Y); ok {
							k, lo = kk, add.X
						}
					}
					idxPhi, ok := lo.(*ssa.Phi)
					if !ok || idxPhi.Block() != sc {
						continue
					}
					v := idxPhi.Edges[pi]
					n++
					key := fmt.Sprintf("resume-index#%d", n)
					// v == a - cst ?
					cst, known := int64(0), false
					if v == a {
						known = true
					} else if sub, ok := v.(*ssa.BinOp); ok && sub.Op == token.SUB && sub.X == a {
						if kk, ok := constInt(sub.Y); ok {
							cst, known = kk, true
						}
					} else if add, ok := v.(*ssa.BinOp); ok && add.Op == token.ADD && add.X == a {
						if kk, ok := constInt(add.Y); ok {
							cst, known = -kk, true
						}
					}
					if known && k-cst <= 0 {
						c.ok("C09-R12", key, p.relFile(sl.Pos()), "after cutting a group out of the name the scan resumes inside the shortened string", fmt.Sprintf("the index merged with the shortened string is (start of the removed group) - %d and %d is added before the next slice", cst, k))
					} else {
						c.bad("C09-R12", key, p.relFile(sl.Pos()), "removeMatching shortens the name to s[:a]+s[b:] and resumes at "+describeValue(v)+fmt.Sprintf(" + %d", k)+", which is not provably <= a: when the removed group started at 0 and was the whole name (<lambda>) the next name[index:] starts beyond the end and panics during demangling")
					}
				}
			}
		}
	}
	if n == 0 {
		c.ok("C09-R12", "resume-index:none", p.relFile(f.Pos()), "removeMatching does not rebuild the string it scans", "nothing to check")
	}
}
