package main

import (
	"go/token"
	"strings"

	"golang.org/x/tools/go/ssa"
)

// c07H: clauses of the linear law that live outside fetch.go's wiring.
//
// R8 (shared with C03-R5): the per-input id tables of Merge are emptied for every input, so
// that the ids of a later profile are not translated with the tables of an earlier one (the
// sum of several sources would book samples on the wrong mapping).
//
// R9: in ScaleProfiles the unit a factor is computed from is read before that unit is
// overwritten with the common unit (the sample type read and the one written are the same
// object: read after the write the factor is always 1 and values keep their magnitude under
// a new unit).
//
// R10 (shared with C16-R5): every source that was fetched without error is merged: the
// collecting loop of concurrentGrab skips a failed source and goes on.
func (c *Check) c07H() {
	p := c.P
	if mg := c.anchorFn("C07-R8", "profile", "Merge"); mg != nil {
		c.perInputTables("C07-R8", mg)
	}
	before := len(c.Obls)
	c.mergedIffNoError()
	for _, o := range c.Obls[before:] {
		o.Rule = strings.Replace(o.Rule, "C16-R5", "C07-R10", 1)
	}

	c.factorListFilledPerColumn("C07-R11")
	// with -diff_base the total and its mean divisor are taken from the same samples (shared with C04-R6)
	c.relabel(c.totalAndDivisorTogether, "C04-R6", "C07-R12", nil)
	{
		var fns []*ssa.Function
		forAllPkgFuncs(p, "profile", func(f *ssa.Function) {
			if f.Parent() == nil && strings.HasSuffix(p.Fset.Position(f.Pos()).Filename, "/merge.go") {
				fns = append(fns, f)
			}
		})
		forAllPkgFuncs(p, "internal/measurement", func(f *ssa.Function) {
			if f.Parent() == nil {
				fns = append(fns, f)
			}
		})
		c.latchedFlagNotOverwritten("C07-R13", fns...)
	}
	sp := c.anchorFn("C07-R9", "internal/measurement", "ScaleProfiles")
	scale := p.Func("internal/measurement", "Scale")
	if sp == nil || scale == nil {
		return
	}
	isUnitAddr := func(a ssa.Value) bool {
		fa, ok := a.(*ssa.FieldAddr)
		if !ok {
			return false
		}
		T, F := fieldOf(fa.X.Type(), fa.Field)
		return T == "profile.ValueType" && F == "Unit"
	}
	n := 0
	for _, g := range withHelpers(sp, 2) {
		var reads []*ssa.UnOp
		var writes []*ssa.Store
		for _, b := range g.Blocks {
			for _, ins := range b.Instrs {
				switch x := ins.(type) {
				case *ssa.Call:
					if x.Call.StaticCallee() == scale && len(x.Call.Args) == 3 {
						if ld, ok := x.Call.Args[1].(*ssa.UnOp); ok && ld.Op == token.MUL && isUnitAddr(ld.X) {
							reads = append(reads, ld)
						}
					}
				case *ssa.Store:
					if isUnitAddr(x.Addr) {
						writes = append(writes, x)
					}
				}
			}
		}
		for _, rd := range reads {
			n++
			key := "unit-read-first:" + fnName(g)
			hdr := loopHeaderAround(rd.Block())
			bad := ""
			for _, w := range writes {
				before := false
				if w.Block() == rd.Block() {
					before = instrIndex(w) < instrIndex(rd)
				} else if hdr != nil {
					before = naturalLoop(hdr)[w.Block()] && blockReachesAvoid(w.Block(), rd.Block(), hdr)
				} else {
					before = blockReachesPlain(w.Block(), rd.Block())
				}
				if before {
					bad = p.relFile(w.Pos())
				}
			}
			if bad != "" {
				c.bad("C07-R9", key, p.relFile(rd.Pos()), fnName(g)+" reads the unit for the conversion factor after a sample type's Unit was overwritten with the common unit ("+bad+") in the same iteration: the factor is computed from the new unit (always 1), so the values keep their magnitude under the finer unit's name and sums and differences of the profiles are off by the unit ratio")
			} else {
				c.ok("C07-R9", key, p.relFile(rd.Pos()), "the conversion factor is computed from the profile's own unit", "no store to ValueType.Unit precedes the read of the unit handed to Scale within the iteration")
			}
		}
	}
	if n == 0 {
		c.undecided("C07-R9", "unit-read-first", p.relFile(sp.Pos()), "no Scale call on a sample type's Unit found in ScaleProfiles")
	}
}
