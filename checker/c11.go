package main

import (
	"fmt"
	"go/constant"
	"go/token"
	"go/types"
	"strings"

	"golang.org/x/tools/go/ssa"
)

func init() { register("C11", true, runC11) }

func runC11(c *Check) {
	c.Explanation = "Decides the frame and shape clauses of C11 for every profile and expression: Prune, PruneFrom and RemoveUninteresting can only re-assign Location.Line and Sample.Location (never Profile.Sample, Sample.Value, labels, or any element in place) (R1); every value assigned to those two fields is a suffix re-slice x[k:] of the same field of the same object, so the frames that remain are the root-side ones in their original order and nothing is reordered or invented (R2); RemoveUninteresting cannot reach Prune when drop_frames is empty (R3); the compiled expressions are the profile's strings wrapped as ^(...)$ (full match), drop/keep are not swapped, and names are simplified before matching (R4). Also: the memoised match function stores exactly what it returns (R6), the loop-carried flag of the per-sample frame loop starts from a constant for every sample (R7), and a loop that re-slices the list it scans leaves right after the re-slice (R8). Also: a location counts as a user frame only when absent from every marking set (R9); simplifyFunc never returns the untrimmed name (R10). Round-I additions: pruning keeps no package-level state; regexp match positions are applied to the string that was matched. Not decided: which frame is selected as the cut point, regexp semantics."
	p := c.P
	m := newModAnalyzer(p)
	prune := c.anchorFn("C11-R1", "profile", "(*Profile).Prune")
	pruneFrom := c.anchorFn("C11-R1", "profile", "(*Profile).PruneFrom")
	remove := c.anchorFn("C11-R1", "profile", "(*Profile).RemoveUninteresting")
	if prune == nil || pruneFrom == nil || remove == nil {
		return
	}
	tracked := p.structsOf("profile", "Profile", "Sample", "Location", "Line", "Function", "Mapping", "ValueType", "Label")
	for _, r := range []struct {
		name string
		f    *ssa.Function
	}{{"Prune", prune}, {"PruneFrom", pruneFrom}, {"RemoveUninteresting", remove}} {
		effects, nfn := c.checkFrame(m, frameSpec{
			rule: "C11-R1", name: r.name, roots: []*ssa.Function{r.f}, tracked: tracked,
			allowed: map[string]bool{"profile.Location.Line": true, "profile.Sample.Location": true}, elemSensitive: true,
		})
		c.Extra["reachable_from_"+r.name] = nfn
		// R2: assigned values are suffix re-slices of the same field of the same object
		n := 0
		for _, e := range effects {
			if e.What != "store" || e.Elem || e.Root == rFresh {
				continue
			}
			if !(e.T == "profile.Location" && e.F == "Line") && !(e.T == "profile.Sample" && e.F == "Location") {
				continue
			}
			n++
			key := fmt.Sprintf("reslice:%s:%s.%s#%d", fnName(e.Fn), e.T, e.F, n)
			st := storeAt(e)
			if st == nil {
				c.undecided("C11-R2", key, p.relFile(e.Pos), "store instruction not found")
				continue
			}
			if why := suffixResliceOfSameField(st); why != "" {
				c.bad("C11-R2", key, p.relFile(e.Pos), fmt.Sprintf("%s.%s is assigned a value that is not a suffix re-slice x[k:] of itself in %s: %s", e.T, e.F, fnName(e.Fn), why))
			} else {
				c.ok("C11-R2", key, p.relFile(e.Pos), fmt.Sprintf("%s.%s = %s.%s[k:] in %s", e.T, e.F, e.T, e.F, fnName(e.Fn)), "stored value is Slice(load of the same field of the same object) with no upper bound")
			}
		}
	}
	c.Floor("C11-R1", 100)
	c.Floor("C11-R2", 5)

	// R3: Prune unreachable when DropFrames == ""
	var calls []*ssa.Call
	for _, b := range remove.Blocks {
		for _, ins := range b.Instrs {
			if call, ok := ins.(*ssa.Call); ok && call.Call.StaticCallee() == prune {
				calls = append(calls, call)
			}
		}
	}
	if len(calls) == 0 {
		c.undecided("C11-R3", "guard:RemoveUninteresting", "", "RemoveUninteresting has no static call of Prune")
	}
	for _, call := range calls {
		reach := reachUnder(remove, func(cond ssa.Value) int { return strFieldEmptyCond(cond, "DropFrames") })
		if reach[call.Block()] {
			c.bad("C11-R3", "guard:RemoveUninteresting", p.relFile(call.Pos()), "Prune is reachable in RemoveUninteresting for a profile whose DropFrames is empty")
		} else {
			c.ok("C11-R3", "guard:RemoveUninteresting", p.relFile(call.Pos()), "a profile without drop_frames is left untouched by RemoveUninteresting", "Prune call unreachable in the CFG restricted to DropFrames == \"\"")
		}
		// R4: argument provenance
		for i, field := range []string{"DropFrames", "KeepFrames"} {
			key := "anchor:" + field
			if i+1 >= len(call.Call.Args) {
				c.undecided("C11-R4", key, p.relFile(call.Pos()), "unexpected arity of Prune")
				continue
			}
			pats := compileArgs(call.Call.Args[i+1], map[ssa.Value]bool{})
			if len(pats) == 0 {
				c.undecided("C11-R4", key, p.relFile(call.Pos()), "no regexp.Compile call flows into Prune argument "+fmt.Sprint(i))
				continue
			}
			for _, pat := range pats {
				leaves := concatLeaves(pat)
				desc := describeLeaves(leaves)
				ok := len(leaves) == 3
				if ok {
					a, okA := constString(leaves[0])
					z, okZ := constString(leaves[2])
					ok = okA && okZ && a == "^(" && z == ")$" && isFieldLoad(leaves[1], "profile.Profile", field)
				}
				if ok {
					c.ok("C11-R4", key, p.relFile(call.Pos()), "Prune's "+[]string{"drop", "keep"}[i]+" expression is ^("+field+")$", "constant prefix/suffix around a load of Profile."+field+": "+desc)
				} else {
					c.bad("C11-R4", key, p.relFile(call.Pos()), "Prune's "+[]string{"drop", "keep"}[i]+" expression is not the fully anchored Profile."+field+": "+desc)
				}
			}
		}
	}
	// R4b: names are simplified before matching
	seenFn := map[*ssa.Function]bool{}
	for _, f := range []*ssa.Function{prune, pruneFrom} {
		for _, g := range withHelpers(f, 2) {
			if seenFn[g] {
				continue
			}
			seenFn[g] = true
			for _, b := range g.Blocks {
				for _, ins := range b.Instrs {
					call, ok := ins.(*ssa.Call)
					if !ok {
						continue
					}
					sc := call.Call.StaticCallee()
					if sc == nil || sc.String() != "(*regexp.Regexp).MatchString" {
						continue
					}
					key := "simplify:" + fnName(g) + ":" + describeValue(call.Call.Args[0])
					arg := call.Call.Args[1]
					if ac, ok := arg.(*ssa.Call); ok && ac.Call.StaticCallee() != nil && ac.Call.StaticCallee().Name() == "simplifyFunc" {
						c.ok("C11-R4", key, p.relFile(call.Pos()), "frame names are simplified before matching in "+fnName(g), "argument is the result of simplifyFunc")
					} else {
						c.bad("C11-R4", key, p.relFile(call.Pos()), "a frame name is matched without simplifyFunc in "+fnName(g))
					}
				}
			}
		}
	}
	c.Floor("C11-R4", 5)
	c.scanDirections(prune, pruneFrom)
	c.pruneShape(prune, pruneFrom)
	c.simplifiedNameIsTrimmed()
	c.pruneIsStateless()
	c.matchIndicesApplyToMatchedString()
}

// scanDirections (R5): Prune looks for the first match scanning from the root, so its
// loops over a location's lines and over a sample's locations run downwards from the last
// index; PruneFrom looks for the lowest match and scans upwards from index 0.
func (c *Check) scanDirections(prune, pruneFrom *ssa.Function) {
	p := c.P
	for _, spec := range []struct {
		f    *ssa.Function
		down bool
	}{{prune, true}, {pruneFrom, false}} {
		n := 0
		// the scan may live in a helper of package profile that the function calls directly
		scanFns := []*ssa.Function{spec.f}
		for _, b := range spec.f.Blocks {
			for _, ins := range b.Instrs {
				if call, ok := ins.(ssa.CallInstruction); ok {
					if callee := call.Common().StaticCallee(); callee != nil && callee != spec.f && len(callee.Blocks) > 0 && fnPkgPath(callee) == fnPkgPath(spec.f) {
						scanFns = append(scanFns, callee)
					}
				}
			}
		}
		for _, sf := range dedupFns(scanFns) {
			for _, b := range sf.Blocks {
				for _, ins := range b.Instrs {
					ia, ok := ins.(*ssa.IndexAddr)
					if !ok {
						continue
					}
					ld, ok := ia.X.(*ssa.UnOp)
					if !ok {
						continue
					}
					fa, ok := ld.X.(*ssa.FieldAddr)
					if !ok {
						continue
					}
					T, F := fieldOf(fa.X.Type(), fa.Field)
					if !(T == "profile.Location" && F == "Line") && !(T == "profile.Sample" && F == "Location") {
						continue
					}
					if _, isConst := ia.Index.(*ssa.Const); isConst {
						continue
					}
					dir := loopDirection(ia.Index)
					n++
					key := fmt.Sprintf("scan:%s:%s.%s", spec.f.Name(), T, F)
					want := "downwards from the last index (root side first)"
					if !spec.down {
						want = "upwards from index 0 (leaf side first)"
					}
					switch {
					case dir == "":
						c.undecided("C11-R5", key, p.relFile(ia.Pos()), "cannot determine the direction of the scan over "+T+"."+F+" in "+spec.f.Name())
					case (dir == "down") == spec.down:
						c.ok("C11-R5", key, p.relFile(ia.Pos()), spec.f.Name()+" scans "+T+"."+F+" "+want, "loop index shape")
					default:
						c.bad("C11-R5", key, p.relFile(ia.Pos()), spec.f.Name()+" must scan "+T+"."+F+" "+want+" because it stops at the first match, but the loop runs the other way: with two matching frames the wrong one is chosen")
					}
				}
			}
		}
		// the scan written as a library search: slices.IndexFunc looks from index 0 upwards and
		// stops at the first match
		for _, sf := range dedupFns(scanFns) {
			for _, b := range sf.Blocks {
				for _, ins := range b.Instrs {
					call, ok := ins.(*ssa.Call)
					if !ok || call.Call.StaticCallee() == nil || fnPkgPath(call.Call.StaticCallee()) != "slices" || len(call.Call.Args) != 2 {
						continue
					}
					name := call.Call.StaticCallee().Name()
					if !strings.HasPrefix(name, "IndexFunc") && !strings.HasPrefix(name, "Index[") && name != "Index" {
						continue
					}
					fa := fieldAddrOf(call.Call.Args[0])
					if fa == nil {
						continue
					}
					T, F := fieldOf(fa.X.Type(), fa.Field)
					if !(T == "profile.Location" && F == "Line") && !(T == "profile.Sample" && F == "Location") {
						continue
					}
					n++
					key := fmt.Sprintf("scan:%s:%s.%s", spec.f.Name(), T, F)
					if spec.down {
						c.bad("C11-R5", key, p.relFile(call.Pos()), spec.f.Name()+" must scan "+T+"."+F+" downwards from the last index (root side first) because it stops at the first match, but slices.IndexFunc searches from index 0")
					} else {
						c.ok("C11-R5", key, p.relFile(call.Pos()), spec.f.Name()+" scans "+T+"."+F+" upwards from index 0 (leaf side first)", "slices.IndexFunc returns the lowest matching index")
					}
				}
			}
		}
		if n == 0 {
			c.undecided("C11-R5", "scan:"+spec.f.Name(), p.relFile(spec.f.Pos()), "no scan over Location.Line / Sample.Location found")
		}
	}
}

// loopDirection: "up" for a range index or i = 0; i++, "down" for i = len-1; i--.
func loopDirection(idx ssa.Value) string {
	if rangeIndex(idx) {
		return "up"
	}
	phi, ok := idx.(*ssa.Phi)
	if !ok {
		return ""
	}
	dir := ""
	for _, e := range phi.Edges {
		switch x := e.(type) {
		case *ssa.Const:
			if safeInt64(x) == 0 && dir != "down" {
				dir = "up"
			}
		case *ssa.BinOp:
			k, isK := constInt(x.Y)
			switch {
			case x.Op == token.SUB && x.X == ssa.Value(phi) && isK && k == 1:
				if dir == "up" {
					return ""
				}
				dir = "down"
			case x.Op == token.ADD && x.X == ssa.Value(phi) && isK && k == 1:
				if dir == "down" {
					return ""
				}
				dir = "up"
			case x.Op == token.SUB && lenArg(x.X) != nil && isK && k == 1:
				dir = "down"
			}
		case *ssa.Phi:
			// merge of continue paths: look one level down
			if d := loopDirection(x); d != "" {
				dir = d
			}
		}
	}
	return dir
}

func storeAt(e Effect) *ssa.Store {
	for _, b := range e.Fn.Blocks {
		for _, ins := range b.Instrs {
			if st, ok := ins.(*ssa.Store); ok && st.Pos() == e.Pos && st.Val == e.Val {
				return st
			}
		}
	}
	return nil
}

func suffixResliceOfSameField(st *ssa.Store) string {
	fa, ok := st.Addr.(*ssa.FieldAddr)
	if !ok {
		return "destination is not a field"
	}
	// a helper that is handed the field and returns it or a suffix of it
	if call, isCall := st.Val.(*ssa.Call); isCall {
		if h := call.Call.StaticCallee(); h != nil && fnInModule(h) && len(h.Blocks) > 0 && h.Signature.Results().Len() == 1 {
			for i, a := range call.Call.Args {
				ld, ok := a.(*ssa.UnOp)
				if !ok || ld.Op != token.MUL || i >= len(h.Params) {
					continue
				}
				fa2, ok := ld.X.(*ssa.FieldAddr)
				if !ok || fa2.Field != fa.Field || fa2.X != fa.X {
					continue
				}
				if why := returnsSuffixOfParam(h, h.Params[i]); why != "" {
					return "helper " + h.Name() + ": " + why
				}
				return ""
			}
		}
	}
	sl, ok := st.Val.(*ssa.Slice)
	if !ok {
		return "value is " + describeValue(st.Val) + ", not a re-slice"
	}
	if sl.High != nil || sl.Max != nil {
		return "the re-slice has an upper bound (drops root-side frames)"
	}
	ld, ok := sl.X.(*ssa.UnOp)
	if !ok || ld.Op != token.MUL {
		return "re-sliced operand is not a field load"
	}
	fa2, ok := ld.X.(*ssa.FieldAddr)
	if !ok || fa2.Field != fa.Field || fa2.X != fa.X {
		return "re-sliced operand is a different field or object"
	}
	return ""
}

// returnsSuffixOfParam: every return of h hands back its slice parameter par or par[k:].
func returnsSuffixOfParam(h *ssa.Function, par *ssa.Parameter) string {
	n := 0
	var check func(v ssa.Value, seen map[ssa.Value]bool) string
	check = func(v ssa.Value, seen map[ssa.Value]bool) string {
		if seen[v] {
			return ""
		}
		seen[v] = true
		switch x := v.(type) {
		case *ssa.Parameter:
			if x == par {
				return ""
			}
		case *ssa.Slice:
			if x.High != nil || x.Max != nil {
				return "a returned re-slice has an upper bound (drops root-side frames)"
			}
			return check(x.X, seen)
		case *ssa.Phi:
			for _, e := range x.Edges {
				if why := check(e, seen); why != "" {
					return why
				}
			}
			return ""
		}
		return "returns " + describeValue(v) + ", which is not a suffix of its argument"
	}
	for _, b := range h.Blocks {
		ret, ok := b.Instrs[len(b.Instrs)-1].(*ssa.Return)
		if !ok {
			continue
		}
		n++
		if why := check(ret.Results[0], map[ssa.Value]bool{}); why != "" {
			return why
		}
	}
	if n == 0 {
		return "no return"
	}
	return ""
}

// reachUnder computes the blocks reachable from entry when conditional branches whose
// condition assume() decides are followed only along the decided edge.
func reachUnder(f *ssa.Function, assume func(cond ssa.Value) int) map[*ssa.BasicBlock]bool {
	reach, _ := reachUnderEval(f, assume)
	return reach
}

// reachUnderEval is reachUnder that also hands back the evaluator of boolean values it used
// (valid for the final reachability).
func reachUnderEval(f *ssa.Function, assume func(cond ssa.Value) int) (map[*ssa.BasicBlock]bool, func(ssa.Value) int) {
	reach := map[*ssa.BasicBlock]bool{}
	if len(f.Blocks) == 0 {
		return reach, func(ssa.Value) int { return 0 }
	}
	type edge struct{ from, to *ssa.BasicBlock }
	live := map[edge]bool{}
	// decide: the outcome of a branch condition under the assumptions.  Conditions that a
	// short-circuit && / || or a tagless switch evaluated as a value arrive as phis of
	// constants and sub-conditions: they are decided when every incoming edge that can be
	// taken agrees.
	var decide func(cond ssa.Value, depth int) int
	decide = func(cond ssa.Value, depth int) int {
		if d := assume(cond); d != 0 || depth > 4 {
			return d
		}
		switch x := cond.(type) {
		case *ssa.Const:
			if x.Value != nil && x.Value.Kind() == constant.Bool {
				if constant.BoolVal(x.Value) {
					return 1
				}
				return -1
			}
		case *ssa.UnOp:
			if x.Op == token.NOT {
				return -decide(x.X, depth+1)
			}
		case *ssa.Phi:
			res, set := 0, false
			for i, e := range x.Edges {
				if !live[edge{x.Block().Preds[i], x.Block()}] {
					continue
				}
				d := decide(e, depth+1)
				if d == 0 || (set && d != res) {
					return 0
				}
				res, set = d, true
			}
			return res
		}
		return 0
	}
	reach[f.Blocks[0]] = true
	for changed := true; changed; {
		changed = false
		for _, b := range f.Blocks {
			if !reach[b] || len(b.Instrs) == 0 {
				continue
			}
			succs := b.Succs
			if iff, ok := b.Instrs[len(b.Instrs)-1].(*ssa.If); ok {
				switch decide(iff.Cond, 0) {
				case 1:
					succs = b.Succs[:1]
				case -1:
					succs = b.Succs[1:]
				}
			}
			for _, s := range succs {
				if !live[edge{b, s}] {
					live[edge{b, s}] = true
					changed = true
				}
				if !reach[s] {
					reach[s] = true
					changed = true
				}
			}
		}
	}
	return reach, func(v ssa.Value) int { return decide(v, 0) }
}

// boolResultUnder: the value a boolean module function returns under the assumptions: 1 when
// every reachable return yields true, -1 when every one yields false, 0 otherwise.
func boolResultUnder(f *ssa.Function, assume func(cond ssa.Value) int) int {
	reach, eval := reachUnderEval(f, assume)
	res, set := 0, false
	for _, b := range f.Blocks {
		if !reach[b] {
			continue
		}
		ret, ok := b.Instrs[len(b.Instrs)-1].(*ssa.Return)
		if !ok {
			continue
		}
		if len(ret.Results) != 1 {
			return 0
		}
		d := eval(ret.Results[0])
		if d == 0 || (set && d != res) {
			return 0
		}
		res, set = d, true
	}
	return res
}

// strFieldEmptyCond evaluates cond under the assumption that string field `field` is "".
func strFieldEmptyCond(cond ssa.Value, field string) int {
	switch x := cond.(type) {
	case *ssa.UnOp:
		if x.Op == token.NOT {
			return -strFieldEmptyCond(x.X, field)
		}
	case *ssa.BinOp:
		if x.Op != token.NEQ && x.Op != token.EQL {
			return 0
		}
		var other ssa.Value
		if isFieldLoad(x.X, "", field) {
			other = x.Y
		} else if isFieldLoad(x.Y, "", field) {
			other = x.X
		} else {
			// len(p.F) != 0 / > 0 forms
			return 0
		}
		if s, ok := constString(other); ok && s == "" {
			if x.Op == token.EQL {
				return 1
			}
			return -1
		}
	}
	return 0
}

func isFieldLoad(v ssa.Value, T, field string) bool {
	// x.f read from a copy of the struct (got := *p; got.f)
	if fv, ok := v.(*ssa.Field); ok {
		t, f := fieldOf(fv.X.Type(), fv.Field)
		return f == field && (T == "" || t == T)
	}
	ld, ok := v.(*ssa.UnOp)
	if !ok || ld.Op != token.MUL {
		return false
	}
	fa, ok := ld.X.(*ssa.FieldAddr)
	if !ok {
		return false
	}
	t, f := fieldOf(fa.X.Type(), fa.Field)
	return f == field && (T == "" || t == T)
}

func constString(v ssa.Value) (string, bool) {
	k, ok := v.(*ssa.Const)
	if !ok || k.Value == nil || k.Value.Kind() != constant.String {
		return "", false
	}
	return constant.StringVal(k.Value), true
}

// compileArgs finds the pattern arguments of regexp.Compile / MustCompile calls whose
// result flows into v (through cells, phis and tuple extraction).
func compileArgs(v ssa.Value, seen map[ssa.Value]bool) []ssa.Value {
	if seen[v] {
		return nil
	}
	seen[v] = true
	switch x := v.(type) {
	case *ssa.UnOp:
		if vals, ok := cellValues(x.X); ok {
			var out []ssa.Value
			for _, e := range vals {
				out = append(out, compileArgs(e, seen)...)
			}
			return out
		}
	case *ssa.Phi:
		var out []ssa.Value
		for _, e := range x.Edges {
			out = append(out, compileArgs(e, seen)...)
		}
		return out
	case *ssa.Extract:
		return compileArgs(x.Tuple, seen)
	case *ssa.Call:
		if sc := x.Call.StaticCallee(); sc != nil && (sc.String() == "regexp.Compile" || sc.String() == "regexp.MustCompile") {
			return []ssa.Value{x.Call.Args[0]}
		}
		// a module helper that compiles an expression built from its parameters: take the
		// pattern it compiles and substitute the arguments of this call
		if sc := x.Call.StaticCallee(); sc != nil && fnInModule(sc) && sc.Blocks != nil {
			var out []ssa.Value
			for _, b := range sc.Blocks {
				ret, ok := b.Instrs[len(b.Instrs)-1].(*ssa.Return)
				if !ok || len(ret.Results) == 0 {
					continue
				}
				for _, pat := range compileArgs(ret.Results[0], map[ssa.Value]bool{}) {
					out = append(out, &substPattern{pat: pat, callee: sc, args: x.Call.Args})
				}
			}
			return out
		}
	}
	return nil
}

// substPattern is a pattern expression of a helper function together with the call that
// supplies its parameters.
type substPattern struct {
	ssa.Value
	pat    ssa.Value
	callee *ssa.Function
	args   []ssa.Value
}

// concatLeaves flattens a string concatenation into its operands.
func concatLeaves(v ssa.Value) []ssa.Value {
	if sp, ok := v.(*substPattern); ok {
		var out []ssa.Value
		for _, l := range concatLeaves(sp.pat) {
			if pr, ok := l.(*ssa.Parameter); ok {
				for i, q := range sp.callee.Params {
					if q == pr && i < len(sp.args) {
						l = sp.args[i]
					}
				}
			}
			out = append(out, l)
		}
		return out
	}
	if b, ok := v.(*ssa.BinOp); ok && b.Op == token.ADD {
		return append(concatLeaves(b.X), concatLeaves(b.Y)...)
	}
	return []ssa.Value{v}
}

func describeLeaves(ls []ssa.Value) string {
	var s []string
	for _, l := range ls {
		s = append(s, describeValue(l))
	}
	return strings.Join(s, " + ")
}

// pruneShape: three shape rules of the pruning code.
//
// R6 memo agreement: a function that memoises its answer (returns the cached value when
// the key is present) must store into the cache exactly what it returns on that call;
// otherwise the second lookup of a name answers differently from the first (keep_frames
// ignored for repeated names).
//
// R7 per-sample state: a bool carried around the frame loop of a sample (the "a user frame
// was seen" flag) enters that loop as a constant on every sample; a flag carried over from
// the previous sample switches the first-user-frame guard off for all later samples.
//
// R8 first match only: a loop that scans a location's lines and re-slices that same field
// leaves the loop right after the re-slice; continuing would index the already shortened
// slice and cut a second time.
func (c *Check) pruneShape(prune, pruneFrom *ssa.Function) {
	p := c.P
	// ---- R6
	nMemo := 0
	seenMemoFn := map[*ssa.Function]bool{}
	for _, root := range []*ssa.Function{prune, pruneFrom} {
		for _, f := range withHelpers(root, 2) {
			if seenMemoFn[f] {
				continue
			}
			seenMemoFn[f] = true
			// the memo table: a map looked up with comma-ok whose hit value is returned
			for _, b := range f.Blocks {
				for _, ins := range b.Instrs {
					mu, ok := ins.(*ssa.MapUpdate)
					if !ok {
						continue
					}
					isMemo := false
					for _, b2 := range f.Blocks {
						for _, i2 := range b2.Instrs {
							if lk, ok := i2.(*ssa.Lookup); ok && lk.CommaOk && (sameCellOrValue(lk.X, mu.Map) || sameMapRef(lk.X, mu.Map)) {
								isMemo = true
							}
						}
					}
					if !isMemo || f.Signature.Results().Len() != 1 {
						continue
					}
					nMemo++
					key := "memo:" + fnName(f) + ":" + describeValue(mu.Value)
					// every return reachable from the update without another update of the table
					bad := ""
					seen := map[*ssa.BasicBlock]bool{}
					var walk func(b *ssa.BasicBlock, from int, env map[ssa.Value]ssa.Value)
					walk = func(b *ssa.BasicBlock, from int, env map[ssa.Value]ssa.Value) {
						for i := from; i < len(b.Instrs); i++ {
							switch x := b.Instrs[i].(type) {
							case *ssa.MapUpdate:
								if sameCellOrValue(x.Map, mu.Map) || sameMapRef(x.Map, mu.Map) {
									return
								}
							case *ssa.Return:
								r := x.Results[0]
								if v, ok := env[r]; ok {
									r = v
								}
								if !sameConstOrValue(r, mu.Value) {
									bad = p.relFile(x.Pos())
								}
								return
							}
						}
						for _, sc := range b.Succs {
							if seen[sc] {
								continue
							}
							seen[sc] = true
							// phis of the successor take the value of the edge we arrive on
							env2 := map[ssa.Value]ssa.Value{}
							for k, v := range env {
								env2[k] = v
							}
							for pi, pred := range sc.Preds {
								if pred != b {
									continue
								}
								for _, ins := range sc.Instrs {
									ph, ok := ins.(*ssa.Phi)
									if !ok {
										break
									}
									e := ph.Edges[pi]
									if v, ok := env[e]; ok {
										e = v
									}
									env2[ph] = e
								}
							}
							walk(sc, 0, env2)
						}
					}
					walk(b, instrIndex(mu)+1, map[ssa.Value]ssa.Value{})
					if bad == "" {
						c.ok("C11-R6", key, p.relFile(mu.Pos()), "the memoised answer of "+fnName(f)+" is the answer returned", "every return reached from this cache update returns the stored value")
					} else {
						c.bad("C11-R6", key, p.relFile(mu.Pos()), fnName(f)+" caches "+describeValue(mu.Value)+" for a name but returns something else on that call ("+bad+"): the next frame with the same function name gets the cached answer, so keep_frames protects only the first occurrence of a name")
					}
				}
			}
		}
	}
	if nMemo == 0 {
		c.undecided("C11-R6", "memo", p.relFile(prune.Pos()), "no memoised match function found in Prune")
	}
	// ---- R7
	nFlag := 0
	// the per-sample scan may be written in Prune's sample loop or in a helper called from it
	outerDepth := map[*ssa.Function]int{prune: 0}
	for _, b := range prune.Blocks {
		for _, ins := range b.Instrs {
			if h := helperCallee(prune, ins); h != nil && nestingDepth(b) >= 1 {
				outerDepth[h] = 1
			}
		}
	}
	for _, b := range helperBlocks(prune, 1) {
		outer, known := outerDepth[b.Parent()]
		if !known {
			continue
		}
		for _, ins := range b.Instrs {
			ph, ok := ins.(*ssa.Phi)
			if !ok {
				continue
			}
			if bt, ok := ph.Type().Underlying().(*types.Basic); !ok || bt.Kind() != types.Bool {
				continue
			}
			// loop-header phi of a nested loop
			isHdr := false
			for _, pred := range b.Preds {
				if b.Dominates(pred) {
					isHdr = true
				}
			}
			if !isHdr || nestingDepth(b)+outer < 2 {
				continue
			}
			nFlag++
			key := "per-sample-flag:" + ph.Comment
			bad := ""
			for i, e := range ph.Edges {
				if b.Dominates(b.Preds[i]) {
					continue // back edge
				}
				if _, isConst := e.(*ssa.Const); !isConst {
					bad = describeValue(e)
				}
			}
			c.userFrameNeedsAllSets(ph, b)
			if bad == "" {
				c.ok("C11-R7", key, p.relFile(ph.Pos()), "the flag "+ph.Comment+" starts from a constant for every sample", "the edge entering the frame loop carries a constant")
			} else {
				c.bad("C11-R7", key, p.relFile(ph.Pos()), "the flag "+ph.Comment+" enters a sample's frame loop with the value left by the previous sample ("+bad+"): once any sample had a non-matching frame, later samples whose root matches drop_frames are pruned completely")
			}
		}
	}
	if nFlag == 0 {
		// written without a flag (for instance as two consecutive scans over the same cursor):
		// there is no state that could survive from one sample to the next
		carried := 0
		for _, b := range helperBlocks(prune, 1) {
			for _, ins := range b.Instrs {
				if ph, ok := ins.(*ssa.Phi); ok && nestingDepth(b) >= 1 {
					if bt, ok := ph.Type().Underlying().(*types.Basic); ok && bt.Kind() == types.Bool {
						carried++
					}
				}
			}
		}
		if carried == 0 {
			c.ok("C11-R7", "per-sample-flag", p.relFile(prune.Pos()), "the per-sample scan of Prune keeps no boolean state across iterations", "no loop-carried boolean in Prune and its helpers")
		} else {
			c.undecided("C11-R7", "per-sample-flag", p.relFile(prune.Pos()), "no loop-carried flag found in the sample loop of Prune")
		}
	}
	// ---- R8
	nSt := 0
	for _, f := range []*ssa.Function{prune, pruneFrom} {
		for _, b := range f.Blocks {
			for _, ins := range b.Instrs {
				st, ok := ins.(*ssa.Store)
				if !ok {
					continue
				}
				fa, ok := st.Addr.(*ssa.FieldAddr)
				if !ok {
					continue
				}
				T, F := fieldOf(fa.X.Type(), fa.Field)
				if !(T == "profile.Location" && F == "Line") && !(T == "profile.Sample" && F == "Location") {
					continue
				}
				// innermost loop containing the store that also reads the same field of the same object
				var hdr *ssa.BasicBlock
				for d := b; d != nil && hdr == nil; d = d.Idom() {
					isHdr := false
					for _, pred := range d.Preds {
						if d.Dominates(pred) {
							isHdr = true
						}
					}
					if !isHdr {
						continue
					}
					loop := naturalLoop(d)
					if !loop[b] {
						continue
					}
					// the object must be the same one on every iteration of this loop
					if def, ok := fa.X.(ssa.Instruction); ok && loop[def.Block()] {
						continue
					}
					reads := false
					for lb := range loop {
						for _, i2 := range lb.Instrs {
							if fa2, ok := i2.(*ssa.FieldAddr); ok && fa2 != fa && fa2.Field == fa.Field && sameNode(fa2.X, fa.X) {
								reads = true
							}
						}
					}
					if reads {
						hdr = d
					}
				}
				nSt++
				key := fmt.Sprintf("first-match:%s:%s.%s", f.Name(), T, F)
				if hdr == nil {
					c.ok("C11-R8", key, p.relFile(st.Pos()), T+"."+F+" is re-sliced outside the loop that scans it in "+f.Name(), "no enclosing loop reads the same field of the same object")
					continue
				}
				loop := naturalLoop(hdr)
				again := false
				seen := map[*ssa.BasicBlock]bool{}
				var walk func(x *ssa.BasicBlock)
				walk = func(x *ssa.BasicBlock) {
					for _, sc := range x.Succs {
						if sc == hdr {
							again = true
							return
						}
						if loop[sc] && !seen[sc] {
							seen[sc] = true
							walk(sc)
						}
					}
				}
				walk(b)
				if again {
					c.bad("C11-R8", key, p.relFile(st.Pos()), f.Name()+" re-slices "+T+"."+F+" inside the loop that scans it and keeps scanning: the index now refers to the shortened slice, so a second matching frame cuts again and the lowest matching frame (and those between the matches) are lost")
				} else {
					c.ok("C11-R8", key, p.relFile(st.Pos()), f.Name()+" leaves the scan right after re-slicing "+T+"."+F, "the loop header is unreachable from the store inside the loop")
				}
			}
		}
	}
	if nSt < 3 {
		c.undecided("C11-R8", "first-match", "", fmt.Sprintf("expected the re-slices of Location.Line and Sample.Location in Prune/PruneFrom, found %d", nSt))
	}
}

// sameCellOrValue: the same SSA value, or loads of / references to the same captured cell.
func sameCellOrValue(a, b ssa.Value) bool {
	if a == b {
		return true
	}
	cellOf := func(v ssa.Value) *ssa.Alloc {
		if ld, ok := v.(*ssa.UnOp); ok && ld.Op == token.MUL {
			c, _ := resolveCell(ld.X)
			return c
		}
		return nil
	}
	ca, cb := cellOf(a), cellOf(b)
	return ca != nil && ca == cb
}

func sameConstOrValue(a, b ssa.Value) bool {
	if a == b {
		return true
	}
	ka, ok1 := a.(*ssa.Const)
	kb, ok2 := b.(*ssa.Const)
	if ok1 && ok2 && ka.Value != nil && kb.Value != nil {
		return ka.Value.ExactString() == kb.Value.ExactString()
	}
	return false
}

// nestingDepth: the number of natural loops of the function that contain b.
func nestingDepth(b *ssa.BasicBlock) int {
	n := 0
	for _, h := range b.Parent().Blocks {
		isHdr := false
		for _, pred := range h.Preds {
			if h.Dominates(pred) {
				isHdr = true
			}
		}
		if isHdr && naturalLoop(h)[b] {
			n++
		}
	}
	return n
}

// userFrameNeedsAllSets (R9): the per-sample scan counts a location as a user frame (sets the
// loop-carried flag) only when the location is in none of the marking sets that the scan
// consults: every set looked up with the location's id inside the frame loop has come out
// negative on the path that sets the flag.  A location that was trimmed in the middle of its
// inlined lines is marked in one set only; counting it as a user frame lets the frames on its
// leaf side survive.
func (c *Check) userFrameNeedsAllSets(flag *ssa.Phi, hdr *ssa.BasicBlock) {
	p := c.P
	loop := naturalLoop(hdr)
	// where the flag becomes true
	var setAt []*ssa.BasicBlock
	seen := map[*ssa.Phi]bool{}
	var walk func(ph *ssa.Phi)
	walk = func(ph *ssa.Phi) {
		if seen[ph] {
			return
		}
		seen[ph] = true
		for i, e := range ph.Edges {
			switch x := e.(type) {
			case *ssa.Const:
				if x.Value != nil && x.Value.String() == "true" && loop[ph.Block().Preds[i]] {
					setAt = append(setAt, ph.Block().Preds[i])
				}
			case *ssa.Phi:
				if loop[x.Block()] {
					walk(x)
				}
			}
		}
	}
	walk(flag)
	// the sets consulted in the loop
	type lk struct {
		m   ssa.Value
		ins *ssa.Lookup
	}
	var sets []ssa.Value
	var lookups []lk
	for b := range loop {
		for _, ins := range b.Instrs {
			l, ok := ins.(*ssa.Lookup)
			if !ok {
				continue
			}
			mt, ok := l.X.Type().Underlying().(*types.Map)
			if !ok {
				continue
			}
			if bt, ok := mt.Elem().Underlying().(*types.Basic); !ok || bt.Kind() != types.Bool {
				continue
			}
			lookups = append(lookups, lk{l.X, l})
			known := false
			for _, m := range sets {
				if m == l.X {
					known = true
				}
			}
			if !known {
				sets = append(sets, l.X)
			}
		}
	}
	key := "user-frame:" + flag.Comment
	if len(setAt) == 0 || len(sets) == 0 {
		return // a flag of another kind
	}
	negativeOn := func(m ssa.Value, at *ssa.BasicBlock) bool {
		for d, child := at.Idom(), at; d != nil; child, d = d, d.Idom() {
			iff, ok := d.Instrs[len(d.Instrs)-1].(*ssa.If)
			if !ok {
				continue
			}
			cond, pol := iff.Cond, true
			if un, ok := cond.(*ssa.UnOp); ok && un.Op == token.NOT {
				cond, pol = un.X, false
			}
			l, ok := cond.(*ssa.Lookup)
			if !ok || l.X != m {
				continue
			}
			neg := d.Succs[1]
			if !pol {
				neg = d.Succs[0]
			}
			if neg == child && len(child.Preds) == 1 || neg.Dominates(at) && len(neg.Preds) == 1 {
				return true
			}
		}
		return false
	}
	bad := ""
	for _, at := range setAt {
		for _, m := range sets {
			if !negativeOn(m, at) {
				bad = describeValue(m)
			}
		}
	}
	if bad == "" {
		c.ok("C11-R9", key, p.relFile(flag.Pos()), "a location counts as a user frame only when it is in none of the marking sets", fmt.Sprintf("the %d assignment(s) of true to the flag are dominated by a negative lookup in each of the %d sets consulted in the frame loop", len(setAt), len(sets)))
	} else {
		c.bad("C11-R9", key, p.relFile(flag.Pos()), "the frame loop counts a location as a user frame without having found it absent from the marking set "+bad+": a location whose inlined lines were trimmed at a match in their middle is passed over, so the frames on its leaf side stay in the stack")
	}
}

// simplifiedNameIsTrimmed (R10): every value simplifyFunc returns is derived from the name
// with the leading '.' removed (PPC64 ELFv1): no return hands back the raw parameter, or
// `.malloc` is not matched by drop_frames "malloc".
func (c *Check) simplifiedNameIsTrimmed() {
	p := c.P
	f := c.anchorFn("C11-R10", "profile", "simplifyFunc")
	if f == nil || len(f.Params) != 1 {
		return
	}
	raw := ""
	trimmed := 0
	var origin func(v ssa.Value, seen map[ssa.Value]bool)
	origin = func(v ssa.Value, seen map[ssa.Value]bool) {
		if seen[v] {
			return
		}
		seen[v] = true
		switch x := v.(type) {
		case *ssa.Parameter:
			raw = x.Name()
		case *ssa.Phi:
			for _, e := range x.Edges {
				origin(e, seen)
			}
		case *ssa.Slice:
			origin(x.X, seen)
		case *ssa.Call:
			if sc := x.Call.StaticCallee(); sc != nil && fnPkgPath(sc) == "strings" && strings.HasPrefix(sc.Name(), "Trim") && len(x.Call.Args) >= 1 && x.Call.Args[0] == ssa.Value(f.Params[0]) {
				trimmed++
				return
			}
			if h := helperCallee(f, x); h != nil {
				// a helper that receives the trimmed name: follow its argument
				for _, a := range x.Call.Args {
					origin(a, seen)
				}
			}
		}
	}
	n := 0
	for _, b := range f.Blocks {
		if ret, ok := b.Instrs[len(b.Instrs)-1].(*ssa.Return); ok && len(ret.Results) == 1 {
			n++
			origin(ret.Results[0], map[ssa.Value]bool{})
		}
	}
	switch {
	case raw != "":
		c.bad("C11-R10", "trimmed-name", p.relFile(f.Pos()), "simplifyFunc can return its parameter "+raw+" as it came in: a name with the leading '.' of the PPC64 ELFv1 ABI is then compared with drop_frames / prune_from unsimplified and never matches")
	case trimmed == 0:
		c.undecided("C11-R10", "trimmed-name", p.relFile(f.Pos()), "simplifyFunc: no strings.Trim* call on the parameter found among the origins of its results")
	default:
		c.ok("C11-R10", "trimmed-name", p.relFile(f.Pos()), "every result of simplifyFunc is derived from the name without its leading '.'", fmt.Sprintf("%d return(s): the raw parameter is not among the origins", n))
	}
}
