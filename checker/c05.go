package main

import (
	"fmt"
	"go/constant"
	"go/token"
	"strings"

	"golang.org/x/tools/go/ssa"
)

func init() { register("C05", true, runC05) }

func runC05(c *Check) {
	c.Explanation = "Decides the frame and bookkeeping clauses of C05 for every profile and trimming configuration: none of the in-place trimming steps reachable from newTrimmedGraph (TrimTree, TrimLowFrequencyTags/Edges, RemoveRedundantEdges, SortNodes, SelectTop*, Discard*) can write Node.Flat/FlatDiv/Cum/CumDiv, Edge.Weight/WeightDiv, any Tag field or NodeInfo; each step writes only the fields it is documented to change and edge maps are only shrunk except in TrimTree's rewiring (R1); every edge that is re-parented is marked residual in the same step (R2); the 'accounting for' figure passed to the legend is graphTotal of the same graph whose nodes are printed, and graphTotal is the plain sum of FlatValue over g.Nodes (R3); every insertion into / removal from x.Out[y] is paired with y.In[x] in the same function except for the node being deleted in TrimTree (R4); the kept-set is consulted only when creating nodes, never when accumulating weights (R5). Also: the residual flag is a constant on every path of the frame loop (R6) and the Residual/Inline marks of an existing edge only move one way (R7). Also: a node whose |cum| equals the cutoff is kept (R8); TrimTree detaches every child of a removed node (R9); the kept set reaches the graph construction also when it is empty (R10). Round-I additions: flat weight is added only under a test of the residual flag; the share printed in the legend is never merged with another value; cutoffs computed from NodeFraction/EdgeFraction are used through an absolute value only. Not decided: which entries are removed (cut-off arithmetic, top-N selection), equality of rebuilt and untrimmed numbers beyond R5."
	p := c.P
	m := newModAnalyzer(p)
	tracked := p.structsOf("internal/graph", "Graph", "Node", "Edge", "Tag", "NodeInfo")
	if len(tracked) != 5 {
		c.undecided("C05-R1", "anchor:graph types", "", "graph struct types not found")
		return
	}
	edgeOps := map[string]bool{"graph.Node.In[]": true, "graph.Node.Out[]": true}
	delOnly := map[string]string{"graph.Node.In[]": "delete", "graph.Node.Out[]": "delete"}
	type ent struct {
		name    string
		allowed map[string]bool
		ops     map[string]string
	}
	ents := []ent{
		{"(*Graph).TrimTree", map[string]bool{"graph.Graph.Nodes": true, "graph.Node.In[]": true, "graph.Node.Out[]": true, "graph.Edge.Src": true, "graph.Edge.Residual": true, "graph.Edge.Inline": true}, nil},
		{"(*Graph).TrimLowFrequencyTags", map[string]bool{"graph.Node.LabelTags": true, "graph.Node.NumericTags[]": true}, nil},
		{"(*Graph).TrimLowFrequencyEdges", edgeOps, delOnly},
		{"(*Graph).RemoveRedundantEdges", edgeOps, delOnly},
		{"(*Graph).SortNodes", map[string]bool{}, nil},
		{"(*Graph).SelectTopNodes", map[string]bool{}, nil},
		{"(*Graph).SelectTopNodePtrs", map[string]bool{}, nil},
		{"(*Graph).DiscardLowFrequencyNodes", map[string]bool{}, nil},
		{"(*Graph).DiscardLowFrequencyNodePtrs", map[string]bool{}, nil},
	}
	var trimFns []*ssa.Function
	for _, e := range ents {
		f := c.anchorFn("C05-R1", "internal/graph", e.name)
		if f == nil {
			continue
		}
		trimFns = append(trimFns, f)
		_, nfn := c.checkFrame(m, frameSpec{rule: "C05-R1", name: strings.TrimPrefix(e.name, "(*Graph)."), roots: []*ssa.Function{f}, tracked: tracked, allowed: e.allowed, elemSensitive: true, opsOnly: e.ops})
		c.Extra["reachable_from_"+e.name] = nfn
	}
	// who calls: every graph-mutating step used by newTrimmedGraph is in the table above
	ntg := c.anchorFn("C05-R1", "internal/report", "(*Report).newTrimmedGraph")
	if ntg != nil {
		known := map[string]bool{"newGraph": true}
		for _, e := range ents {
			known[strings.TrimPrefix(e.name, "(*Graph).")] = true
		}
		for _, callee := range p.MG().Callees(ntg) {
			if fnPkgPath(callee) != modPath+"/internal/graph" && callee.Name() != "newGraph" {
				continue
			}
			key := "step:" + callee.Name()
			if known[callee.Name()] || callee.Name() == "Sum" {
				c.ok("C05-R1", key, "", "trimming step "+callee.Name()+" used by newTrimmedGraph is covered", "listed in the step table (newGraph rebuilds from samples, Sum only reads)")
			} else {
				c.bad("C05-R1", key, p.relFile(callee.Pos()), "newTrimmedGraph calls graph step "+callee.Name()+" that has no frame entry in the checker")
			}
		}
	}
	c.Floor("C05-R1", 200)

	// R2: re-parented edges are marked residual
	for _, root := range trimFns {
		parent, order := p.MG().Reach([]*ssa.Function{root}, nil)
		_ = parent
		for _, f := range order {
			if f.Blocks == nil || !fnInModule(f) {
				continue
			}
			for _, b := range f.Blocks {
				for _, ins := range b.Instrs {
					st, ok := ins.(*ssa.Store)
					if !ok {
						continue
					}
					fa, ok := st.Addr.(*ssa.FieldAddr)
					if !ok {
						continue
					}
					T, F := fieldOf(fa.X.Type(), fa.Field)
					if T != "graph.Edge" || (F != "Src" && F != "Dest") {
						continue
					}
					if rk, _ := rootOf(fa.X, 0, map[ssa.Value]bool{}); rk == rFresh {
						continue
					}
					key := "residual:" + fnName(f) + ":" + F
					found := false
					for _, ins2 := range b.Instrs {
						if st2, ok := ins2.(*ssa.Store); ok {
							if fa2, ok := st2.Addr.(*ssa.FieldAddr); ok && fa2.X == fa.X {
								if _, F2 := fieldOf(fa2.X.Type(), fa2.Field); F2 == "Residual" {
									if k, ok := st2.Val.(*ssa.Const); ok && k.Value != nil && k.Value.String() == "true" {
										found = true
									}
								}
							}
						}
					}
					if found {
						c.ok("C05-R2", key, p.relFile(st.Pos()), "edge re-parented (Edge."+F+" assigned) in "+fnName(f), "the same edge's Residual is set to true in the same block")
					} else {
						c.bad("C05-R2", key, p.relFile(st.Pos()), "Edge."+F+" is re-assigned in "+fnName(f)+" without marking the edge residual")
					}
				}
			}
		}
	}
	c.Floor("C05-R2", 1)

	c.legendTotals()
	c.edgeSymmetry()
	c.keptSetUse()
	c.residualFlag()
	c.stickyEdgeFlags()
	c.cutoffIsStrict()
	c.detachIsUnconditional()
	c.keptSetForwarded()
	c.shownTotalUnclamped()
	c.cutoffIsMagnitude()
	c.scoresComparedByMagnitude()
	c.cutoffFromRawTotal()
}

// stickyEdgeFlags (R7): the marks of an edge that already exists only move one way when
// another sample or a trimming step contributes to it: Residual is only ever set (an edge
// that bypasses removed entries in any contributing sample stays residual) and Inline is
// only ever cleared.  A store of an arbitrary value would let the last contribution decide.
func (c *Check) stickyEdgeFlags() {
	p := c.P
	sticky := map[string]bool{"Residual": true, "Inline": false}
	n := 0
	forAllPkgFuncs(p, "internal/graph", func(f *ssa.Function) {
		for _, b := range f.Blocks {
			for _, ins := range b.Instrs {
				st, ok := ins.(*ssa.Store)
				if !ok {
					continue
				}
				fa, ok := st.Addr.(*ssa.FieldAddr)
				if !ok {
					continue
				}
				T, F := fieldOf(fa.X.Type(), fa.Field)
				want, tracked := sticky[F]
				if T != "graph.Edge" || !tracked {
					continue
				}
				if _, fresh := fa.X.(*ssa.Alloc); fresh {
					continue // a new edge is initialised with the first contribution's marks
				}
				n++
				key := "sticky:" + fnName(f) + ":" + F
				ok2, how := stickyValue(st.Val, fa, want)
				if ok2 {
					c.ok("C05-R7", key, p.relFile(st.Pos()), fmt.Sprintf("Edge.%s of an existing edge only moves to %v in %s", F, want, fnName(f)), how)
				} else {
					c.bad("C05-R7", key, p.relFile(st.Pos()), fmt.Sprintf("%s overwrites Edge.%s of an existing edge with %s: the mark then depends on which sample contributes last (an edge that bypasses removed entries in one sample loses its residual mark when a direct sample follows)", fnName(f), F, describeValue(st.Val)))
				}
			}
		}
	})
	if n < 2 {
		c.undecided("C05-R7", "sticky", "", fmt.Sprintf("expected stores to Edge.Residual / Edge.Inline of existing edges, found %d", n))
	}
}

// residualFlag (R6): in newGraph the residual flag is a function of the frames dropped
// since the last kept frame: at the head of the frame loop it is either false (start of a
// sample, or a kept frame was just processed) or true on the path where the frame's node
// is nil.  Any other incoming value (e.g. the flag carried around the loop unchanged by a
// `continue`) lets a stale flag mark a direct edge residual or drop a leaf's flat value.
func (c *Check) residualFlag() {
	p := c.P
	f := c.anchorFn("C05-R6", "internal/graph", "newGraph")
	if f == nil {
		return
	}
	// the flag is identified by its use, not by its name: the value handed to
	// AddToEdgeDiv as the `residual` argument, and the phis it is merged from
	flag := map[*ssa.Phi]bool{}
	var grow func(v ssa.Value)
	grow = func(v ssa.Value) {
		if ph, ok := v.(*ssa.Phi); ok && !flag[ph] {
			flag[ph] = true
			for _, e := range ph.Edges {
				grow(e)
			}
		}
	}
	// the per-sample walk may live in newGraph or in a helper/method it calls
	body := f
	for _, b := range helperBlocks(f, 2) {
		for _, ins := range b.Instrs {
			if call, ok := ins.(*ssa.Call); ok && call.Call.StaticCallee() != nil && call.Call.StaticCallee().Name() == "AddToEdgeDiv" && len(call.Call.Args) >= 5 {
				if par, isPar := call.Call.Args[4].(*ssa.Parameter); isPar && par.Parent() == call.Parent() && call.Parent() != f {
					// added through a wrapper that is handed the flag: the flag at the wrapper's calls
					w := call.Parent()
					idx := -1
					for i, q := range w.Params {
						if q == par {
							idx = i
						}
					}
					sites, _ := directCallSites(p, w)
					for _, cs := range sites {
						if wc, ok := cs.(*ssa.Call); ok && idx >= 0 && idx < len(wc.Call.Args) && wc.Parent().Name() != "newTree" {
							if _, isConst := wc.Call.Args[idx].(*ssa.Const); isConst {
								continue
							}
							grow(wc.Call.Args[idx])
							body = wc.Parent()
						}
					}
					continue
				}
				grow(call.Call.Args[4])
				body = b.Parent()
			}
		}
	}
	n := 0
	for _, b := range body.Blocks {
		for _, ins := range b.Instrs {
			phi, ok := ins.(*ssa.Phi)
			if !ok || !flag[phi] {
				continue
			}
			header := false
			for _, pred := range b.Preds {
				if b.Dominates(pred) {
					header = true
				}
			}
			for i, e := range phi.Edges {
				n++
				key := fmt.Sprintf("residual:block%d:edge%d", b.Index, i)
				switch x := e.(type) {
				case *ssa.Const:
					c.ok("C05-R6", key, p.relFile(phi.Pos()), "residual flag "+x.Value.String()+" on this path", "constant: reset after a kept frame / start of sample, or set on a dropped frame")
				case *ssa.Phi:
					if header && flag[x] {
						c.ok("C05-R6", key, p.relFile(phi.Pos()), "residual flag enters or continues a loop", "loop-head merge of the flag of the enclosing / previous iteration, which is itself built from constants")
					} else {
						c.bad("C05-R6", "residual:carried", p.relFile(phi.Pos()), "a path through the frame loop body leaves the residual flag as it was (neither reset after a kept frame nor set on a dropped one): a stale flag marks a direct edge residual or drops a leaf's flat value")
					}
				default:
					c.bad("C05-R6", "residual:carried", p.relFile(phi.Pos()), "the residual flag takes a value that is not a constant ("+describeValue(e)+")")
				}
			}
		}
	}
	if n < 3 {
		c.undecided("C05-R6", "residual:count", p.relFile(f.Pos()), "the residual flag of newGraph was not found")
	}
	// the flat value of a sample goes to its leaf frame only: when the frames below the last
	// kept one were dropped (the flag is set at the end of the walk) nobody receives it.  The
	// addSample call that adds flat weight is decided by a test of the flag.
	for _, b := range body.Blocks {
		for _, ins := range b.Instrs {
			call, ok := ins.(*ssa.Call)
			if !ok || call.Call.StaticCallee() == nil || call.Call.StaticCallee().Name() != "addSample" || len(call.Call.Args) == 0 {
				continue
			}
			if k, isK := call.Call.Args[len(call.Call.Args)-1].(*ssa.Const); !isK || !constBool(k) {
				continue
			}
			decided := false
			for d := b; d != nil && !decided; d = d.Idom() {
				id := d.Idom()
				if id == nil {
					break
				}
				if iff, ok := id.Instrs[len(id.Instrs)-1].(*ssa.If); ok {
					for ph := range flag {
						if dependsOnValue(iff.Cond, ph, map[ssa.Value]bool{}, 0) {
							decided = true
						}
					}
				}
			}
			if decided {
				c.ok("C05-R6", "residual:flat-leaf", p.relFile(call.Pos()), "flat weight is added only when the walk ended on a kept frame", "the addSample(…, flat) call is dominated by a test of the residual flag")
			} else {
				c.bad("C05-R6", "residual:flat-leaf", p.relFile(call.Pos()), "flat weight is added without consulting the residual flag: when the leaf frame of a sample was dropped (only an inlined caller at the same address is kept, or the leaf is not in the kept set) its caller is credited with the sample's flat value, which it does not have in the untrimmed report")
			}
		}
	}
}

// legendTotals (R3)
func (c *Check) legendTotals() {
	p := c.P
	rl := c.anchorFn("C05-R3", "internal/report", "reportLabels")
	ntg := c.anchorFn("C05-R3", "internal/report", "(*Report).newTrimmedGraph")
	if rl == nil || ntg == nil {
		return
	}
	// fromTrimmed: g is the graph newTrimmedGraph returned, in this function or (when g is a
	// parameter) at every call of it
	var fromTrimmed func(g ssa.Value, depth int) bool
	fromTrimmed = func(g ssa.Value, depth int) bool {
		if ex, ok := g.(*ssa.Extract); ok {
			if tc, ok := ex.Tuple.(*ssa.Call); ok && tc.Call.StaticCallee() == ntg && ex.Index == 0 {
				return true
			}
		}
		par, ok := g.(*ssa.Parameter)
		if !ok || depth > 2 {
			return false
		}
		fn := par.Parent()
		calls, asValue := directCallSites(p, fn)
		if asValue || len(calls) == 0 {
			return false
		}
		for i, q := range fn.Params {
			if q != par {
				continue
			}
			for _, call := range calls {
				if i >= len(call.Common().Args) || !fromTrimmed(call.Common().Args[i], depth+1) {
					return false
				}
			}
			return true
		}
		return false
	}
	nSum := 0
	forAllPkgFuncs(p, "internal/report", func(f *ssa.Function) {
		for _, b := range f.Blocks {
			for _, ins := range b.Instrs {
				call, ok := ins.(*ssa.Call)
				if !ok || call.Call.StaticCallee() != rl {
					continue
				}
				key := "legend:" + fnName(f)
				args := call.Call.Args
				// the flame-graph legend shows every stack: total is the report total
				if isFieldLoad(args[1], "report.Report", "total") {
					c.ok("C05-R3", key, p.relFile(call.Pos()), "legend of the untrimmed stack view in "+fnName(f), "shown total is the report total and node counts are equal (nothing trimmed)")
					continue
				}
				// the 'accounting for' figure: Σ FlatValue over the nodes of a graph g, computed in
				// place or by a helper
				g, how := flatSumGraph(args[1], 0)
				if g == nil {
					c.bad("C05-R3", key, p.relFile(call.Pos()), "'accounting for' argument of reportLabels in "+fnName(f)+" is not the sum of FlatValue over the nodes of the graph that is shown ("+how+")")
					continue
				}
				nSum++
				// len(g.Nodes) of the same g
				okLen := false
				if lc, ok := args[2].(*ssa.Call); ok {
					if b, ok := lc.Call.Value.(*ssa.Builtin); ok && b.Name() == "len" {
						if ld, ok := lc.Call.Args[0].(*ssa.UnOp); ok {
							if fa, ok := ld.X.(*ssa.FieldAddr); ok && fa.X == g {
								okLen = true
							}
						}
					}
				}
				fromTrim := fromTrimmed(g, 0)
				if okLen && fromTrim {
					c.ok("C05-R3", key, p.relFile(call.Pos()), "legend figures in "+fnName(f), "shown total = Σ FlatValue over g.Nodes ("+how+"), node count = len(g.Nodes), g = result of newTrimmedGraph")
				} else {
					c.bad("C05-R3", key, p.relFile(call.Pos()), fmt.Sprintf("legend figures in %s are not computed from the trimmed graph that is printed (len of same g: %v, g from newTrimmedGraph: %v)", fnName(f), okLen, fromTrim))
				}
			}
		}
	})
	if nSum > 0 {
		c.ok("C05-R3", "graphTotal", p.relFile(rl.Pos()), "the shown total is the sum of FlatValue over the graph's nodes", fmt.Sprintf("result = 0 + Σ n.FlatValue() for n in range g.Nodes at %d legend sites", nSum))
	} else {
		c.bad("C05-R3", "graphTotal", p.relFile(rl.Pos()), "no legend is given the plain sum of FlatValue over the printed graph's nodes")
	}
	c.Floor("C05-R3", 4)
}

// flatSumGraph: v is 0 + Σ n.FlatValue() for n in a forward loop over g.Nodes (computed in
// place, or returned by a module helper that is given g); returns g.
func flatSumGraph(v ssa.Value, depth int) (ssa.Value, string) {
	if depth > 2 {
		return nil, "too deep"
	}
	if call, ok := v.(*ssa.Call); ok {
		h := call.Call.StaticCallee()
		if h != nil && fnInModule(h) && len(h.Blocks) > 0 && h.Signature.Results().Len() == 1 && h.Name() != "FlatValue" {
			var g ssa.Value
			for _, b := range h.Blocks {
				ret, ok := b.Instrs[len(b.Instrs)-1].(*ssa.Return)
				if !ok {
					continue
				}
				hg, how := flatSumGraph(ret.Results[0], depth+1)
				par, isPar := hg.(*ssa.Parameter)
				if !isPar {
					return nil, "helper " + h.Name() + ": " + how
				}
				for i, q := range h.Params {
					if q == par && i < len(call.Call.Args) {
						if g != nil && g != call.Call.Args[i] {
							return nil, "helper sums different graphs"
						}
						g = call.Call.Args[i]
					}
				}
			}
			if g != nil {
				return g, "computed by " + h.Name()
			}
			return nil, "helper " + h.Name() + " does not sum its graph parameter"
		}
	}
	var g ssa.Value
	bad := ""
	seen := map[ssa.Value]bool{}
	nCalls := 0
	var walk func(x ssa.Value)
	walk = func(x ssa.Value) {
		if seen[x] || bad != "" {
			return
		}
		seen[x] = true
		switch y := x.(type) {
		case *ssa.Phi:
			for _, e := range y.Edges {
				walk(e)
			}
		case *ssa.BinOp:
			if y.Op != token.ADD {
				bad = "operator " + y.Op.String()
				return
			}
			walk(y.X)
			walk(y.Y)
		case *ssa.Const:
			if k, ok := constInt(y); !ok || k != 0 {
				bad = "constant " + y.String()
			}
		case *ssa.Call:
			sc := y.Call.StaticCallee()
			if sc == nil || sc.Name() != "FlatValue" || len(y.Call.Args) != 1 {
				bad = "a term that is not n.FlatValue()"
				return
			}
			ld, ok := y.Call.Args[0].(*ssa.UnOp)
			if !ok {
				bad = "FlatValue of something that is not a node of the list"
				return
			}
			ia, ok := ld.X.(*ssa.IndexAddr)
			if !ok || !isForwardIndex(ia.Index) {
				bad = "FlatValue of a node that is not the element of a forward loop"
				return
			}
			ld2, ok := ia.X.(*ssa.UnOp)
			if !ok {
				bad = "the node list is not g.Nodes"
				return
			}
			fa, ok := ld2.X.(*ssa.FieldAddr)
			if !ok {
				bad = "the node list is not g.Nodes"
				return
			}
			if T, F := fieldOf(fa.X.Type(), fa.Field); T != "graph.Graph" || F != "Nodes" {
				bad = "the node list is not g.Nodes"
				return
			}
			if g != nil && g != fa.X {
				bad = "nodes of different graphs"
				return
			}
			g = fa.X
			nCalls++
		default:
			bad = "a term " + describeValue(x)
		}
	}
	walk(v)
	if bad != "" || g == nil || nCalls == 0 {
		if bad == "" {
			bad = "no FlatValue term"
		}
		return nil, bad
	}
	return g, "summed in place"
}

func sumLeaves(v ssa.Value, leaves map[string]bool, seen map[ssa.Value]bool) {
	if seen[v] {
		return
	}
	seen[v] = true
	switch x := v.(type) {
	case *ssa.Phi:
		for _, e := range x.Edges {
			sumLeaves(e, leaves, seen)
		}
	case *ssa.BinOp:
		if x.Op == token.ADD {
			sumLeaves(x.X, leaves, seen)
			sumLeaves(x.Y, leaves, seen)
			return
		}
		leaves["op "+x.Op.String()] = true
	case *ssa.Const:
		leaves[x.Value.String()] = true
	case *ssa.Call:
		if sc := x.Call.StaticCallee(); sc != nil && len(x.Call.Args) == 1 {
			arg := x.Call.Args[0]
			d := describeValue(arg)
			if ld, ok := arg.(*ssa.UnOp); ok {
				if ia, ok := ld.X.(*ssa.IndexAddr); ok && rangeIndex(ia.Index) {
					if ld2, ok := ia.X.(*ssa.UnOp); ok {
						if fa, ok := ld2.X.(*ssa.FieldAddr); ok {
							if _, isParam := fa.X.(*ssa.Parameter); isParam {
								_, F := fieldOf(fa.X.Type(), fa.Field)
								d = "range " + fa.X.Name() + "." + F
							}
						}
					}
				}
			}
			leaves[strings.ReplaceAll(sc.String(), modPath+"/internal/", "")+"("+d+")"] = true
			return
		}
		leaves["call"] = true
	default:
		leaves[describeValue(v)] = true
	}
}

func forAllPkgFuncs(p *Program, rel string, visit func(*ssa.Function)) {
	path := modPath
	if rel != "" {
		path += "/" + rel
	}
	var fns []*ssa.Function
	for f := range p.AllFns {
		if f.Blocks != nil && fnPkgPath(f) == path && f.Synthetic == "" {
			fns = append(fns, f)
		}
	}
	sortFns(fns)
	for _, f := range fns {
		visit(f)
	}
}

func sortFns(fns []*ssa.Function) {
	for i := 1; i < len(fns); i++ {
		for j := i; j > 0 && (fns[j].Pos() < fns[j-1].Pos() || (fns[j].Pos() == fns[j-1].Pos() && fns[j].String() < fns[j-1].String())); j-- {
			fns[j], fns[j-1] = fns[j-1], fns[j]
		}
	}
}

type edgeOp struct {
	kind  string // update | delete
	field string // In | Out
	owner ssa.Value
	key   ssa.Value
	val   ssa.Value
	pos   token.Pos
}

// edgeSymmetry (R4)
func (c *Check) edgeSymmetry() {
	p := c.P
	forAllPkgFuncs(p, "internal/graph", func(f *ssa.Function) {
		var ops []edgeOp
		for _, b := range f.Blocks {
			for _, ins := range b.Instrs {
				switch x := ins.(type) {
				case *ssa.MapUpdate:
					if fld, owner := edgeMapOf(x.Map); fld != "" {
						ops = append(ops, edgeOp{"update", fld, owner, x.Key, x.Value, x.Pos()})
					}
				case *ssa.Call:
					if bi, ok := x.Call.Value.(*ssa.Builtin); ok && bi.Name() == "delete" {
						if fld, owner := edgeMapOf(x.Call.Args[0]); fld != "" {
							ops = append(ops, edgeOp{"delete", fld, owner, x.Call.Args[1], nil, x.Pos()})
						}
					}
				}
			}
		}
		used := make([]bool, len(ops))
		for i, a := range ops {
			if used[i] {
				continue
			}
			for j, b := range ops {
				if i == j || used[j] || a.kind != b.kind || a.field == b.field {
					continue
				}
				if sameNode(a.owner, b.key) && sameNode(a.key, b.owner) && (a.kind == "delete" || sameNode(a.val, b.val)) {
					used[i], used[j] = true, true
					break
				}
			}
		}
		for i, a := range ops {
			key := fmt.Sprintf("sym:%s:%s %s[%s]", fnName(f), a.kind, a.field, nodeDesc(a.key))
			if used[i] {
				c.ok("C05-R4", key, p.relFile(a.pos), fmt.Sprintf("%s of x.%s[y] in %s", a.kind, a.field, fnName(f)), "paired with the mirror operation on y."+map[string]string{"In": "Out", "Out": "In"}[a.field]+"[x] in the same function")
				continue
			}
			// exception: the node being removed by TrimTree (the range element that is not kept)
			if a.kind == "delete" && (removedByTrimTree(p, f, a.key, 0) || removedByTrimTree(p, f, a.owner, 0)) {
				c.ok("C05-R4", key, p.relFile(a.pos), fmt.Sprintf("unpaired delete on %s in TrimTree", a.field), "the other end is the node being removed from the graph (range element of the old node list that is not kept); its own maps are discarded with it")
				continue
			}
			c.bad("C05-R4", key, p.relFile(a.pos), fmt.Sprintf("%s of x.%s[y] in %s has no mirror operation on y.%s[x]: edge maps become asymmetric", a.kind, a.field, fnName(f), map[string]string{"In": "Out", "Out": "In"}[a.field]))
		}
	})
	c.Floor("C05-R4", 10)
}

func edgeMapOf(m ssa.Value) (string, ssa.Value) {
	ld, ok := m.(*ssa.UnOp)
	if !ok || ld.Op != token.MUL {
		return "", nil
	}
	fa, ok := ld.X.(*ssa.FieldAddr)
	if !ok {
		return "", nil
	}
	T, F := fieldOf(fa.X.Type(), fa.Field)
	if T == "graph.Node" && (F == "In" || F == "Out") {
		return F, fa.X
	}
	return "", nil
}

// sameNode: two SSA values denote the same node (identical value, or loads of the same
// field of the same object — go/ssa performs no CSE).
func sameNode(a, b ssa.Value) bool {
	if a == b {
		return true
	}
	if a == nil || b == nil {
		return false
	}
	la, ok1 := a.(*ssa.UnOp)
	lb, ok2 := b.(*ssa.UnOp)
	if ok1 && ok2 && la.Op == token.MUL && lb.Op == token.MUL {
		fa, ok1 := la.X.(*ssa.FieldAddr)
		fb, ok2 := lb.X.(*ssa.FieldAddr)
		if ok1 && ok2 && fa.Field == fb.Field {
			return sameNode(fa.X, fb.X)
		}
	}
	return false
}

func nodeDesc(v ssa.Value) string {
	if v == nil {
		return ""
	}
	if n := v.Name(); n != "" {
		if p, ok := v.(*ssa.Parameter); ok {
			return p.Name()
		}
	}
	return describeValue(v)
}

// removedByTrimTree: v is the node TrimTree is removing: the element of the old node list its
// loop is looking at, directly in TrimTree or handed as an argument to a helper that only
// TrimTree calls.
func removedByTrimTree(p *Program, f *ssa.Function, v ssa.Value, depth int) bool {
	if f.Name() == "TrimTree" {
		return isRangeElemOfNodes(v)
	}
	par, ok := v.(*ssa.Parameter)
	if !ok || depth > 2 {
		return false
	}
	idx := -1
	for i, q := range f.Params {
		if q == par {
			idx = i
		}
	}
	calls, asValue := directCallSites(p, f)
	if idx < 0 || asValue || len(calls) == 0 {
		return false
	}
	for _, call := range calls {
		if idx >= len(call.Common().Args) || !removedByTrimTree(p, call.Parent(), call.Common().Args[idx], depth+1) {
			return false
		}
	}
	return true
}

func isRangeElemOfNodes(v ssa.Value) bool {
	ld, ok := v.(*ssa.UnOp)
	if !ok || ld.Op != token.MUL {
		return false
	}
	ia, ok := ld.X.(*ssa.IndexAddr)
	if !ok || !rangeIndex(ia.Index) {
		return false
	}
	return strings.Contains(typeShort(ia.X.Type()), "graph.Nodes")
}

// keptSetUse (R5): Options.KeptNodes is read only to be handed to FindOrInsertNode, and
// there the kept set is only consulted for membership before a node is created.
func (c *Check) keptSetUse() {
	p := c.P
	n := 0
	for _, rel := range []string{"internal/graph", "internal/report", "internal/driver"} {
		forAllPkgFuncs(p, rel, func(f *ssa.Function) {
			for _, b := range f.Blocks {
				for _, ins := range b.Instrs {
					ld, ok := ins.(*ssa.UnOp)
					if !ok || ld.Op != token.MUL {
						continue
					}
					fa, ok := ld.X.(*ssa.FieldAddr)
					if !ok {
						continue
					}
					T, F := fieldOf(fa.X.Type(), fa.Field)
					if T != "graph.Options" || F != "KeptNodes" {
						continue
					}
					n++
					key := "kept:" + fnName(f)
					bad := ""
					for _, r := range *ld.Referrers() {
						call, ok := r.(*ssa.Call)
						if !ok || call.Call.StaticCallee() == nil || call.Call.StaticCallee().Name() != "FindOrInsertNode" {
							if _, dbg := r.(*ssa.DebugRef); dbg {
								continue
							}
							bad = fmt.Sprintf("used by %T", r)
						}
					}
					if bad == "" {
						c.ok("C05-R5", key, p.relFile(ld.Pos()), "Options.KeptNodes read in "+fnName(f), "only handed to NodeMap.FindOrInsertNode")
					} else {
						c.bad("C05-R5", key, p.relFile(ld.Pos()), "the kept-set is used outside node creation in "+fnName(f)+": "+bad)
					}
				}
			}
		})
	}
	fi := c.anchorFn("C05-R5", "internal/graph", "NodeMap.FindOrInsertNode")
	if fi != nil && len(fi.Params) == 3 {
		kept := fi.Params[2]
		bad := ""
		for _, r := range *kept.Referrers() {
			switch x := r.(type) {
			case *ssa.Lookup, *ssa.DebugRef:
			case *ssa.BinOp:
				if x.Op != token.EQL && x.Op != token.NEQ {
					bad = "arithmetic on kept"
				}
			default:
				bad = fmt.Sprintf("kept used by %T", r)
			}
		}
		// the membership test comes before any existing node can be returned
		if bad == "" {
			var keptLookup *ssa.Lookup
			for _, r := range *kept.Referrers() {
				if lk, ok := r.(*ssa.Lookup); ok {
					keptLookup = lk
				}
			}
			for _, b := range fi.Blocks {
				ret, isRet := b.Instrs[len(b.Instrs)-1].(*ssa.Return)
				if !isRet {
					continue
				}
				if k, isConst := ret.Results[0].(*ssa.Const); isConst && k.IsNil() {
					continue
				}
				// a non-nil node is returned: unreachable when kept != nil and the info is not in it
				reach := reachUnder(fi, func(cond ssa.Value) int {
					if cmp, ok := cond.(*ssa.BinOp); ok && (cmp.X == ssa.Value(kept) || cmp.Y == ssa.Value(kept)) {
						if cmp.Op == token.NEQ {
							return 1
						}
						if cmp.Op == token.EQL {
							return -1
						}
					}
					if keptLookup != nil && isExtractOf(cond, keptLookup, 1) {
						return -1
					}
					return 0
				})
				if reach[b] {
					bad = "a node can be returned although a kept-set was given and does not contain it (the existing-node lookup is not preceded by the kept test)"
				}
			}
		}
		if bad == "" {
			c.ok("C05-R5", "kept:FindOrInsertNode", p.relFile(fi.Pos()), "the kept parameter of FindOrInsertNode", "only compared with nil and looked up (membership); never stored or passed on; no node is returned for an info outside a given kept-set")
		} else {
			c.bad("C05-R5", "kept:FindOrInsertNode", p.relFile(fi.Pos()), "FindOrInsertNode uses the kept set for more than a membership test: "+bad)
		}
	}
	if n == 0 {
		c.undecided("C05-R5", "kept:none", "", "no read of graph.Options.KeptNodes found")
	}
}

// stickyValue: the value stored into the bool field at fa can only move the field to
// `want` (never away from it): the constant itself, or a short-circuit combination of the
// field's previous value with a new contribution (old || x for want == true, old && x for
// want == false), recognised as a phi whose edges are the constant and either the old value
// or anything selected by a test of the old value.
func stickyValue(v ssa.Value, fa *ssa.FieldAddr, want bool) (bool, string) {
	isWant := func(v ssa.Value) bool {
		k, ok := v.(*ssa.Const)
		return ok && k.Value != nil && k.Value.Kind() == constant.Bool && constant.BoolVal(k.Value) == want
	}
	if isWant(v) {
		return true, fmt.Sprintf("constant %v", want)
	}
	ph, isPhi := v.(*ssa.Phi)
	if !isPhi {
		return false, ""
	}
	isOldLoad := func(e ssa.Value) bool {
		if ld, ok := e.(*ssa.UnOp); ok && ld.Op == token.MUL {
			if fa2, ok := ld.X.(*ssa.FieldAddr); ok && fa2.Field == fa.Field && sameNode(fa2.X, fa.X) {
				return true
			}
		}
		return false
	}
	hasConst, byOld, onlyOld := false, false, true
	for _, e := range ph.Edges {
		if isWant(e) {
			hasConst = true
			continue
		}
		if !isOldLoad(e) {
			onlyOld = false
		}
	}
	if hasConst && onlyOld {
		return true, "either the sticky constant or the field's own previous value"
	}
	for _, pred := range ph.Block().Preds {
		for d := pred; d != nil; d = d.Idom() {
			if iff, ok := d.Instrs[len(d.Instrs)-1].(*ssa.If); ok && isOldLoad(iff.Cond) {
				byOld = true
			}
			if d == ph.Block().Idom() {
				break
			}
		}
	}
	if hasConst && byOld {
		return true, "old value combined with the new contribution (short-circuit form keeps the sticky value)"
	}
	return false, ""
}
