package main

import (
	"go/token"

	"golang.org/x/tools/go/ssa"
)

// A "cell" is a local variable that go/ssa keeps in memory (an Alloc) because it is
// captured by a closure or has its address taken only for loads and stores.  cellValues
// returns every value stored into it (in the owner and in the closures that capture it)
// so analyses can look through it as through a phi.

var cellCache = map[*ssa.Alloc]*cellInfo{}

type cellInfo struct {
	vals   []ssa.Value
	simple bool
}

func simpleCellUse(v ssa.Value, info *cellInfo, seen map[ssa.Value]bool) {
	if seen[v] {
		return
	}
	seen[v] = true
	refs := v.Referrers()
	if refs == nil {
		info.simple = false
		return
	}
	for _, r := range *refs {
		switch x := r.(type) {
		case *ssa.Store:
			if x.Addr == v {
				info.vals = append(info.vals, x.Val)
			} else {
				info.simple = false // the address itself is stored somewhere
			}
		case *ssa.UnOp:
			if x.Op != token.MUL {
				info.simple = false
			}
		case *ssa.MakeClosure:
			fn := x.Fn.(*ssa.Function)
			for i, b := range x.Bindings {
				if b == v && i < len(fn.FreeVars) {
					simpleCellUse(fn.FreeVars[i], info, seen)
				}
			}
		case *ssa.DebugRef:
		default:
			info.simple = false
		}
	}
}

func cellValues(addr ssa.Value) ([]ssa.Value, bool) {
	cell, _ := resolveCell(addr)
	if cell == nil {
		return nil, false
	}
	if ci, ok := cellCache[cell]; ok {
		return ci.vals, ci.simple
	}
	ci := &cellInfo{simple: true}
	cellCache[cell] = ci
	simpleCellUse(cell, ci, map[ssa.Value]bool{})
	return ci.vals, ci.simple
}

// structCellValues: for a local struct variable that is only written as a whole and
// whose fields are only read, the values stored into it.
func structCellValues(addr ssa.Value) ([]ssa.Value, bool) {
	al, ok := addr.(*ssa.Alloc)
	if !ok || al.Referrers() == nil {
		return nil, false
	}
	var vals []ssa.Value
	for _, r := range *al.Referrers() {
		switch x := r.(type) {
		case *ssa.Store:
			if x.Addr != al {
				return nil, false
			}
			vals = append(vals, x.Val)
		case *ssa.UnOp:
			if x.Op != token.MUL {
				return nil, false
			}
		case *ssa.FieldAddr:
			if x.Referrers() == nil {
				return nil, false
			}
			for _, r2 := range *x.Referrers() {
				if u, ok := r2.(*ssa.UnOp); !ok || u.Op != token.MUL {
					if _, dbg := r2.(*ssa.DebugRef); !dbg {
						return nil, false
					}
				}
			}
		case *ssa.DebugRef:
		default:
			return nil, false
		}
	}
	return vals, true
}
