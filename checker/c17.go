package main

import (
	"fmt"
	"go/token"
	"go/types"
	"reflect"
	"strings"

	"golang.org/x/tools/go/ssa"
)

func init() { register("C17", true, runC17) }

func runC17(c *Check) {
	c.Explanation = "Decides only the structural clauses of C17: every slice-typed field of the flame-graph data model (StackSet.Stacks/Sources, Stack.Sources, StackSource.Display/Places) is given a non-nil value wherever such a value is built and is only ever re-assigned non-nil values (literal, make, append with elements, or a helper all of whose returns are non-nil), and no such field is tagged omitempty or '-' for JSON, so the client never sees null or a missing array (R1, R2); the page receives exactly json.Marshal of Report.Stacks() (R3); every stack starts with the synthetic root source 0 (R4); fillPlaces records a stack at most once per source, at the first occurrence, using a fresh seen-set per stack (R5); the source memo key is computed from name, file, line, column and inlined flag on every path (R6); each sample adds its value exactly once to the self value of the last source of its stack (R7). Also: inlined flag = index of the line read differs from len-1 (R8); fillPlaces walks every stack (R9); Stacks() always builds (R10). Round-I additions: the Nodes list served with the stack view gets one entry per source on every iteration. Not decided: the index and sum invariants (values, self, places completeness). Round L: nothing outside package report stores into the stack set or hands its slices to a slices/sort function, so the position cross-references built by report stay valid up to the JSON hand-off (R12)."
	p := c.P
	sp := p.SSAPkg("internal/report")
	if sp == nil {
		c.undecided("C17-R1", "anchor:report", "", "package report not loaded")
		return
	}
	model := map[string][]string{} // struct → slice-typed exported fields
	for _, t := range p.structsOf("internal/report", "StackSet", "Stack", "StackSource", "StackSlot") {
		st := t.Underlying().(*types.Struct)
		for i := 0; i < st.NumFields(); i++ {
			f := st.Field(i)
			if _, isSlice := f.Type().Underlying().(*types.Slice); isSlice && f.Exported() {
				model["report."+t.Obj().Name()] = append(model["report."+t.Obj().Name()], f.Name())
			}
			// JSON tags
			tag := reflect.StructTag(st.Tag(i)).Get("json")
			if _, isSlice := f.Type().Underlying().(*types.Slice); isSlice && f.Exported() {
				key := "json:" + t.Obj().Name() + "." + f.Name()
				if strings.Contains(tag, "omitempty") || tag == "-" {
					c.bad("C17-R1", key, p.relFile(f.Pos()), fmt.Sprintf("%s.%s is tagged %q: an empty array would be missing from the JSON the page reads", t.Obj().Name(), f.Name(), tag))
				} else {
					c.ok("C17-R1", key, p.relFile(f.Pos()), t.Obj().Name()+"."+f.Name()+" is always serialized", "no omitempty / '-' JSON tag")
				}
			}
		}
	}
	if len(model) < 3 {
		c.undecided("C17-R1", "anchor:model", "", "flame-graph structs not found")
		return
	}
	nn := &nonNil{p: p, memo: map[*ssa.Function]string{}}

	// R1: construction sites
	forAllPkgFuncs(p, "internal/report", func(f *ssa.Function) {
		for _, b := range f.Blocks {
			for _, ins := range b.Instrs {
				al, ok := ins.(*ssa.Alloc)
				if !ok {
					continue
				}
				et := al.Type().Underlying().(*types.Pointer).Elem()
				// struct value, or array of structs (slice literal)
				var bases []ssa.Value
				tn := structName(et)
				if arr, isArr := et.Underlying().(*types.Array); isArr {
					tn = structName(arr.Elem())
					for _, r := range *al.Referrers() {
						if ia, ok := r.(*ssa.IndexAddr); ok {
							bases = append(bases, ia)
						}
					}
				} else {
					bases = []ssa.Value{al}
				}
				fields := model[tn]
				if len(fields) == 0 {
					continue
				}
				for _, base := range bases {
					for _, F := range fields {
						key := fmt.Sprintf("init:%s:%s.%s", fnName(f), tn, F)
						var stores []*ssa.Store
						for _, r := range *base.Referrers() {
							fa, ok := r.(*ssa.FieldAddr)
							if !ok {
								continue
							}
							if _, fn := fieldOf(fa.X.Type(), fa.Field); fn != F {
								continue
							}
							for _, r2 := range *fa.Referrers() {
								if st, ok := r2.(*ssa.Store); ok && st.Addr == ssa.Value(fa) {
									stores = append(stores, st)
								}
							}
						}
						// zero-valued whole-struct copies (x := *y) are not constructions
						if len(stores) == 0 && wholeStored(base) {
							continue
						}
						if len(stores) == 0 {
							c.bad("C17-R1", key, p.relFile(al.Pos()), fmt.Sprintf("a %s built in %s leaves %s nil: the flame-graph page dereferences null", tn, fnName(f), F))
							continue
						}
						bad := ""
						for _, st := range stores {
							if why := nn.check(st.Val, 0, map[ssa.Value]bool{}); why != "" {
								bad = why
							}
						}
						// some store must lie on every path from the allocation to its first whole use
						if bad == "" && !coveredBeforeUse(base, stores) {
							bad = "some path from the construction to the use of the value does not assign the field"
						}
						if bad == "" {
							c.ok("C17-R1", key, p.relFile(al.Pos()), fmt.Sprintf("%s.%s is non-nil in the %s built in %s", tn, F, tn, fnName(f)), fmt.Sprintf("%d assignment(s), each a literal, make, append with elements or a non-nil helper result, covering every path to the value's use", len(stores)))
						} else {
							c.bad("C17-R1", key, p.relFile(al.Pos()), fmt.Sprintf("%s.%s may be nil in the %s built in %s: %s", tn, F, tn, fnName(f), bad))
						}
					}
				}
			}
		}
	})
	c.Floor("C17-R1", 8)

	// R2: every other assignment of those fields keeps them non-nil
	m := newModAnalyzer(p)
	n2 := 0
	for f := range p.AllFns {
		if !fnInModule(f) || f.Blocks == nil {
			continue
		}
		for _, e := range m.direct(f) {
			if e.Elem || e.What != "store" || e.Val == nil {
				continue
			}
			isModel := false
			for _, F := range model[e.T] {
				if F == e.F {
					isModel = true
				}
			}
			if !isModel || e.Root == rFresh {
				continue
			}
			n2++
			key := fmt.Sprintf("assign:%s:%s.%s", fnName(f), e.T, e.F)
			if why := nn.check(e.Val, 0, map[ssa.Value]bool{}); why == "" {
				c.ok("C17-R2", key, p.relFile(e.Pos), e.T+"."+e.F+" re-assigned in "+fnName(f), "the new value is non-nil by construction")
			} else {
				c.bad("C17-R2", key, p.relFile(e.Pos), e.T+"."+e.F+" is assigned a possibly nil value in "+fnName(f)+": "+why)
			}
		}
	}
	if n2 < 3 {
		c.undecided("C17-R2", "assign:count", "", fmt.Sprintf("only %d re-assignments of flame-graph slices found", n2))
	}

	// R3: hand-off
	if sv := c.anchorFn("C17-R3", "internal/driver", "(*webInterface).stackView"); sv != nil {
		ok := false
		// the encoding may be done in stackView or in a helper it hands the stack set to
		for _, b := range helperBlocks(sv, 2) {
			for _, ins := range b.Instrs {
				call, isCall := ins.(*ssa.Call)
				if !isCall || call.Call.StaticCallee() == nil || call.Call.StaticCallee().String() != "encoding/json.Marshal" {
					continue
				}
				arg := call.Call.Args[0]
				if mi, isMI := arg.(*ssa.MakeInterface); isMI {
					arg = mi.X
				}
				val := derefLoad(arg)
				// *param of a helper: what the caller's variable holds
				if ld, isLd := val.(*ssa.UnOp); isLd && ld.Op == token.MUL {
					if par, isPar := ld.X.(*ssa.Parameter); isPar {
						if al, isAl := argOfParam(p, par, 0).(*ssa.Alloc); isAl {
							val = derefLoad(&ssa.UnOp{Op: token.MUL, X: al})
						}
					}
				}
				if par, isPar := val.(*ssa.Parameter); isPar {
					val = derefLoad(argOfParam(p, par, 0))
				}
				if src := producerOf(val, map[ssa.Value]bool{}); src == "Stacks" {
					ok = true
				}
			}
		}
		if ok {
			c.ok("C17-R3", "handoff", p.relFile(sv.Pos()), "the flame-graph page receives json.Marshal(rpt.Stacks())", "value flow in stackView (the template.JS conversion is checked by C18-R3)")
		} else {
			c.bad("C17-R3", "handoff", p.relFile(sv.Pos()), "stackView does not marshal the result of Report.Stacks()")
		}
	}

	// R4: root
	if mis := c.anchorFn("C17-R4", "internal/report", "(*StackSet).makeInitialStacks"); mis != nil {
		okRoot := false
		for _, b := range mis.Blocks {
			for _, ins := range b.Instrs {
				st, ok := ins.(*ssa.Store)
				if !ok {
					continue
				}
				fa, ok := st.Addr.(*ssa.FieldAddr)
				if !ok {
					continue
				}
				if T, F := fieldOf(fa.X.Type(), fa.Field); T == "report.Stack" && F == "Sources" {
					if vals := variadicValues(st.Val); len(vals) == 1 {
						if k, ok := constInt(vals[0]); ok && k == 0 {
							okRoot = true
						}
					}
					// a preallocated list whose slot 0 keeps its zero value (the root is source
					// 0): at least one element, and every store goes to the slot of a fill
					// counter that starts at 1
					if mk, ok := st.Val.(*ssa.MakeSlice); ok && newGuardEngine(p).minLenByConstruction(mk, 0) >= 1 {
						if first, n := fillCounterStart(mk); n > 0 && first >= 1 {
							okRoot = true
						}
						// … or to slot k+i for the index i of a forward loop, k >= 1 (stores made
						// through the field the list was put in)
						nst, allShifted := 0, true
						for _, b2 := range mis.Blocks {
							for _, i2 := range b2.Instrs {
								st2, ok := i2.(*ssa.Store)
								if !ok {
									continue
								}
								ia, ok := st2.Addr.(*ssa.IndexAddr)
								if !ok {
									continue
								}
								fa2 := fieldAddrOf(ia.X)
								if !(ia.X == ssa.Value(mk)) && !(fa2 != nil && fa2.Field == fa.Field && fa2.X == fa.X) {
									continue
								}
								nst++
								add, ok := ia.Index.(*ssa.BinOp)
								shifted := false
								if ok && add.Op == token.ADD {
									for _, pair := range [][2]ssa.Value{{add.X, add.Y}, {add.Y, add.X}} {
										if k, isK := constInt(pair[0]); isK && k >= 1 {
											if _, fwd := forwardIndex(pair[1]); fwd {
												shifted = true
											}
										}
									}
								}
								if !shifted {
									allShifted = false
								}
							}
						}
						if nst > 0 && allShifted {
							okRoot = true
						}
					}
				}
			}
		}
		if okRoot {
			c.ok("C17-R4", "root", p.relFile(mis.Pos()), "every stack starts at the synthetic root", "Stack.Sources is initialised to []int{0} before frames are appended")
		} else {
			c.bad("C17-R4", "root", p.relFile(mis.Pos()), "stacks are no longer initialised with the root source 0")
		}
	}

	// R5: fillPlaces
	if fp := c.anchorFn("C17-R5", "internal/report", "(*StackSet).fillPlaces"); fp != nil {
		var app *ssa.Call
		var mk *ssa.MakeMap
		for _, b := range fp.Blocks {
			for _, ins := range b.Instrs {
				switch x := ins.(type) {
				case *ssa.Call:
					if bi, ok := x.Call.Value.(*ssa.Builtin); ok && bi.Name() == "append" {
						app = x
					}
				case *ssa.MakeMap:
					mk = x
				}
			}
		}
		if (app == nil || mk == nil) && c.placesByStamp(fp) {
			// decided by the stamp form
		} else if app == nil || mk == nil {
			c.undecided("C17-R5", "places", p.relFile(fp.Pos()), "fillPlaces keeps no per-stack set of the sources already recorded (no map is created in it): it cannot be shown that a source revisited later in the same stack (mutual recursion) is listed once, at its outermost occurrence")
		} else {
			// "the source is already in the set": m[src] for a map to bool, or the ok flag of a
			// comma-ok lookup for any other element type
			inSet := func(v ssa.Value) bool {
				if lk, ok := v.(*ssa.Lookup); ok && lk.X == ssa.Value(mk) && !lk.CommaOk {
					return true
				}
				if ex, ok := v.(*ssa.Extract); ok && ex.Index == 1 {
					if lk, ok := ex.Tuple.(*ssa.Lookup); ok && lk.X == ssa.Value(mk) && lk.CommaOk {
						return true
					}
				}
				return false
			}
			reach := reachUnder(fp, func(cond ssa.Value) int {
				if inSet(cond) {
					return 1
				}
				if u, ok := cond.(*ssa.UnOp); ok && u.Op == token.NOT && inSet(u.X) {
					return -1
				}
				return 0
			})
			perStack := loopDepth(mk.Block()) > 0 && mk.Block() != app.Block() && mk.Block().Dominates(app.Block())
			// the inner loop must not contain the MakeMap: the append's loop is nested deeper
			inner := blockReachesAvoid(app.Block(), app.Block(), mk.Block()) || app.Block() != mk.Block()
			switch {
			case reach[app.Block()]:
				c.bad("C17-R5", "places", p.relFile(app.Pos()), "fillPlaces appends a place for a source that was already seen in the same stack: a recursive stack is listed more than once")
			case !perStack || !inner:
				c.bad("C17-R5", "places", p.relFile(mk.Pos()), "the seen-set of fillPlaces is not re-created for every stack")
			default:
				c.ok("C17-R5", "places", p.relFile(app.Pos()), "each source lists a stack once, at its first occurrence", "the append is unreachable when the source is already in the per-stack seen-set, which is created inside the loop over stacks")
			}
		}
	}

	// R6: source interning key.  The key under which makeInitialStacks memoises a source
	// must, on every path, be computed from the function name, the file name, the line, the
	// column and the inlined flag: an attribute that reaches the key only on some paths lets
	// two different sources share one entry (equal names in different files).
	if mis := c.anchorFn("C17-R6", "internal/report", "(*StackSet).makeInitialStacks"); mis != nil {
		n := 0
		// the interning code: a closure of makeInitialStacks, or a helper/method it calls
		for _, g := range withHelpers(mis, 2) {
			for _, b := range g.Blocks {
				for _, ins := range b.Instrs {
					lk, ok := ins.(*ssa.Lookup)
					if !ok {
						continue
					}
					mt, ok := lk.X.Type().Underlying().(*types.Map)
					if !ok {
						continue
					}
					if bt, ok := mt.Elem().Underlying().(*types.Basic); !ok || bt.Kind() != types.Int {
						continue // the memo table maps a key to a source index
					}
					n++
					// the inlined flag is the bool parameter of the closure stored into StackSource.Inlined
					var inl *ssa.Parameter
					for _, pr := range g.Params {
						if bt, ok := pr.Type().Underlying().(*types.Basic); ok && bt.Kind() == types.Bool {
							inl = pr
						}
					}
					attrs := []struct {
						name string
						leaf func(ssa.Value) bool
					}{
						{"function name", func(v ssa.Value) bool { return fieldLoadOf(v, "profile.Function", "Name") }},
						{"file name", func(v ssa.Value) bool { return fieldLoadOf(v, "profile.Function", "Filename") }},
						{"line", func(v ssa.Value) bool { return fieldLoadOf(v, "profile.Line", "Line") || isWholeLine(v) }},
						{"column", func(v ssa.Value) bool { return fieldLoadOf(v, "profile.Line", "Column") || isWholeLine(v) }},
						{"inlined flag", func(v ssa.Value) bool { return inl != nil && v == ssa.Value(inl) }},
					}
					for _, a := range attrs {
						key := "intern:" + a.name
						if mustDepend(lk.Index, a.leaf) {
							c.ok("C17-R6", key, p.relFile(lk.Pos()), "the source memo key includes the "+a.name, "on every path the looked-up key is computed from it")
						} else {
							c.bad("C17-R6", key, p.relFile(lk.Pos()), "the key under which makeInitialStacks memoises sources is not computed from the "+a.name+" on every path: two frames differing only in it share one source (wrong file, merged self values and places)")
						}
					}
				}
			}
		}
		if n != 1 {
			c.undecided("C17-R6", "intern", p.relFile(mis.Pos()), fmt.Sprintf("expected one memo-table lookup in makeInitialStacks, found %d", n))
		}
		c.selfAccumulation(mis)
	}
	c.c17H()
	c.c17IndexOwnedByReport()
	c.searchNamesAlignedWithSources()
}

// selfAccumulation (R7): a source's self value is the sum of the stacks it terminates.
// The addition to StackSource.Self in makeInitialStacks happens exactly once per sample
// (directly in the sample loop, on every path through an iteration) and its target is the
// last element of that sample's stack (index len-1), whatever the frames were: for an
// empty stack that is the root, for a leaf location without lines its caller.
func (c *Check) selfAccumulation(mis *ssa.Function) {
	p := c.P
	n := 0
	forEachFuncAndAnon(mis, func(g *ssa.Function) {
		for _, b := range g.Blocks {
			for _, ins := range b.Instrs {
				st, ok := ins.(*ssa.Store)
				if !ok {
					continue
				}
				fa, ok := st.Addr.(*ssa.FieldAddr)
				if !ok {
					continue
				}
				if T, F := fieldOf(fa.X.Type(), fa.Field); T != "report.StackSource" || F != "Self" {
					continue
				}
				if _, fresh := fa.X.(*ssa.Alloc); fresh {
					continue
				}
				n++
				key := "self"
				pos := p.relFile(st.Pos())
				// which source: Sources[idx] with idx = stack.Sources[len-1]
				lastIdx := false
				if ia, ok := fa.X.(*ssa.IndexAddr); ok {
					if ld, ok := ia.Index.(*ssa.UnOp); ok && ld.Op == token.MUL {
						if ia2, ok := ld.X.(*ssa.IndexAddr); ok && isLenMinus(ia2.Index) {
							if k, ok := constInt(ia2.Index.(*ssa.BinOp).Y); ok && k == 1 {
								lastIdx = true
							}
						}
						// frames[next-1] with next the fill counter of frames (started at 1, so
						// next-1 is the last slot written, or the root's slot 0 when none was)
						if ia2, ok := ld.X.(*ssa.IndexAddr); ok {
							if sub, ok := ia2.Index.(*ssa.BinOp); ok && sub.Op == token.SUB && isConstInt(sub.Y, 1) {
								if mk, ok := ia2.X.(*ssa.MakeSlice); ok {
									if first, n := fillCounterStart(mk); n > 0 && first == 1 && isFillCounterOf(sub.X, mk) {
										lastIdx = true
									}
								}
							}
						}
					}
				}
				switch {
				case nestingDepth(b) != 1:
					c.bad("C17-R7", key, pos, "the self value is added inside the frame loops of makeInitialStacks instead of once per sample: samples whose innermost position has no frame (empty stack, leaf location without lines) credit nobody, so self values no longer sum to the stack values")
				case skippableInIteration(b):
					c.bad("C17-R7", key, pos, "a path through one sample of makeInitialStacks skips the addition to Self")
				case !lastIdx:
					c.bad("C17-R7", key, pos, "the self value is not credited to the last source of the sample's stack (stack.Sources[len-1])")
				default:
					c.ok("C17-R7", key, pos, "each sample's value is added once to the self value of the source that ends its stack", "the store is directly in the sample loop, unskippable, and targets Sources[stack.Sources[len-1]]")
				}
			}
		}
	})
	if n != 1 {
		c.undecided("C17-R7", "self", p.relFile(mis.Pos()), fmt.Sprintf("expected one addition to StackSource.Self in makeInitialStacks, found %d", n))
	}
}

// isWholeLine: the profile.Line value itself (a parameter passed on to a helper that
// formats line and column).
func isWholeLine(v ssa.Value) bool {
	if pr, ok := v.(*ssa.Parameter); ok {
		return typeShort(pr.Type()) == "profile.Line"
	}
	return false
}

func derefLoad(v ssa.Value) ssa.Value {
	if ld, ok := v.(*ssa.UnOp); ok && ld.Op == token.MUL {
		if vals, ok := cellValues(ld.X); ok && len(vals) == 1 {
			return vals[0]
		}
		if al, ok := ld.X.(*ssa.Alloc); ok {
			for _, r := range *al.Referrers() {
				if st, ok := r.(*ssa.Store); ok && st.Addr == ssa.Value(al) {
					return st.Val
				}
			}
		}
	}
	return v
}

func wholeStored(base ssa.Value) bool {
	for _, r := range *base.Referrers() {
		if st, ok := r.(*ssa.Store); ok && st.Addr == base {
			return true
		}
	}
	return false
}

// coveredBeforeUse: every path from the construction to the first use of the whole value
// passes through one of the stores (approximation: some store dominates every whole use).
func coveredBeforeUse(base ssa.Value, stores []*ssa.Store) bool {
	var uses []ssa.Instruction
	for _, r := range *base.Referrers() {
		switch x := r.(type) {
		case *ssa.UnOp:
			uses = append(uses, x) // load of the whole struct
		case *ssa.Store:
			if x.Val == base {
				uses = append(uses, x)
			}
		case ssa.CallInstruction:
			uses = append(uses, x)
		case *ssa.Return:
			uses = append(uses, x)
		case *ssa.MakeInterface:
			uses = append(uses, x)
		}
	}
	if len(uses) == 0 {
		return true // element of a literal array: stores are unconditional
	}
	isStore := map[ssa.Instruction]bool{}
	for _, st := range stores {
		isStore[st] = true
	}
	isUse := map[ssa.Instruction]bool{}
	for _, u := range uses {
		isUse[u] = true
	}
	def, ok := base.(ssa.Instruction)
	if !ok {
		return false
	}
	seen := map[*ssa.BasicBlock]bool{}
	var walk func(b *ssa.BasicBlock, from int) bool
	walk = func(b *ssa.BasicBlock, from int) bool {
		for _, ins := range b.Instrs[from:] {
			if isStore[ins] {
				return true
			}
			if isUse[ins] {
				return false
			}
		}
		for _, sc := range b.Succs {
			if seen[sc] {
				continue
			}
			seen[sc] = true
			if !walk(sc, 0) {
				return false
			}
		}
		return true
	}
	return walk(def.Block(), instrIndex(def)+1)
}

type nonNil struct {
	p    *Program
	memo map[*ssa.Function]string
}

// check returns "" when v is certainly a non-nil slice.
func (n *nonNil) check(v ssa.Value, depth int, seen map[ssa.Value]bool) string {
	if seen[v] {
		return ""
	}
	seen[v] = true
	if depth > 8 {
		return "value too deep to classify"
	}
	switch x := v.(type) {
	case *ssa.MakeSlice:
		return ""
	case *ssa.Slice:
		if _, ok := x.X.(*ssa.Alloc); ok {
			return "" // literal
		}
		return n.check(x.X, depth+1, seen)
	case *ssa.Const:
		if x.IsNil() {
			return "the nil constant"
		}
	case *ssa.Phi:
		for _, e := range x.Edges {
			if why := n.check(e, depth+1, seen); why != "" {
				return why
			}
		}
		return ""
	case *ssa.UnOp:
		if vals, ok := cellValues(x.X); ok && len(vals) > 0 {
			for _, e := range vals {
				if why := n.check(e, depth+1, seen); why != "" {
					return why
				}
			}
			return ""
		}
		// load of a model field: non-nil by R1/R2 (inductive)
		if fa, ok := x.X.(*ssa.FieldAddr); ok {
			if T, _ := fieldOf(fa.X.Type(), fa.Field); strings.HasPrefix(T, "report.Stack") {
				return ""
			}
		}
	case *ssa.Call:
		if bi, ok := x.Call.Value.(*ssa.Builtin); ok && bi.Name() == "append" {
			if len(variadicValues(x.Call.Args[1])) > 0 {
				return "" // at least one element appended
			}
			return n.check(x.Call.Args[0], depth+1, seen)
		}
		if sc := x.Call.StaticCallee(); sc != nil && fnInModule(sc) && sc.Blocks != nil {
			if why, ok := n.memo[sc]; ok {
				return why
			}
			n.memo[sc] = ""
			why := ""
			for _, b := range sc.Blocks {
				if ret, ok := b.Instrs[len(b.Instrs)-1].(*ssa.Return); ok && len(ret.Results) > 0 {
					if w := n.check(ret.Results[0], depth+1, map[ssa.Value]bool{}); w != "" {
						why = "a return of " + fnName(sc) + " yields " + w
					}
				}
			}
			n.memo[sc] = why
			return why
		}
		return "the result of " + x.Call.Value.Name()
	}
	return "a value of unknown origin (" + describeValue(v) + ")"
}

// placesByStamp: the per-stack "already listed" test written with stamps instead of a set:
// marks[src] == stamp is tested, marks[src] = stamp is stored, and the place is appended only
// when they differed, where stamp = (index of the stack in the loop over all stacks) + k with
// k >= 1 (so the zero value of a fresh mark never equals a stamp and two stacks never share
// one).  Returns false when fillPlaces is not of this form.
func (c *Check) placesByStamp(fp *ssa.Function) bool {
	p := c.P
	for _, g := range withHelpers(fp, 2) {
		for _, b := range g.Blocks {
			for _, ins := range b.Instrs {
				app, ok := ins.(*ssa.Call)
				if !ok {
					continue
				}
				if bi, ok := app.Call.Value.(*ssa.Builtin); !ok || bi.Name() != "append" || !isFieldLoad(app.Call.Args[0], "report.StackSource", "Places") {
					continue
				}
				// the test marks[src] == stamp
				for _, b2 := range g.Blocks {
					iff, ok := b2.Instrs[len(b2.Instrs)-1].(*ssa.If)
					if !ok {
						continue
					}
					cmp, ok := iff.Cond.(*ssa.BinOp)
					if !ok || (cmp.Op != token.EQL && cmp.Op != token.NEQ) {
						continue
					}
					ld, ok := cmp.X.(*ssa.UnOp)
					if !ok || ld.Op != token.MUL {
						continue
					}
					mark, ok := ld.X.(*ssa.IndexAddr)
					if !ok {
						continue
					}
					stamp := cmp.Y
					// the store marks[src] = stamp on the way to the append
					stored := false
					for _, b3 := range g.Blocks {
						for _, i3 := range b3.Instrs {
							st, ok := i3.(*ssa.Store)
							if !ok || st.Val != stamp {
								continue
							}
							ia, ok := st.Addr.(*ssa.IndexAddr)
							if ok && ia.X == mark.X && ia.Index == mark.Index && (instrDominates(st, app) || st.Block() == app.Block()) {
								stored = true
							}
						}
					}
					if !stored {
						continue
					}
					reach := reachUnder(g, func(cond ssa.Value) int {
						if cond == ssa.Value(cmp) {
							if cmp.Op == token.EQL {
								return 1
							}
							return -1
						}
						return 0
					})
					add, isAdd := stamp.(*ssa.BinOp)
					k := int64(0)
					if isAdd && add.Op == token.ADD {
						k, _ = constInt(add.Y)
					}
					switch {
					case reach[app.Block()]:
						c.bad("C17-R5", "places", p.relFile(app.Pos()), "fillPlaces appends a place for a source that was already seen in the same stack: a recursive stack is listed more than once")
					case !isAdd || k < 1 || !derivesFromStackIndex(p, add.X, 0):
						c.bad("C17-R5", "places", p.relFile(cmp.Pos()), "the stamp that marks a source as listed for the current stack is not the stack's index plus a positive constant: two stacks could share a stamp (or the zero value of a fresh mark could equal one), and a source would miss a stack")
					default:
						c.ok("C17-R5", "places", p.relFile(app.Pos()), "each source lists a stack once, at its first occurrence", fmt.Sprintf("the append is unreachable when the source's mark equals the stamp of the current stack (stack index + %d), which is stored before the append", k))
					}
					return true
				}
			}
		}
	}
	return false
}

// derivesFromStackIndex: v is the index of a forward loop over StackSet.Stacks, possibly
// handed on through parameters, struct fields and literals.
func derivesFromStackIndex(p *Program, v ssa.Value, depth int) bool {
	if depth > 6 {
		return false
	}
	if bound, ok := forwardIndex(v); ok {
		return fieldLoadOf(lenSlice(bound), "report.StackSet", "Stacks")
	}
	all := func(vals []ssa.Value, ok bool) bool {
		if !ok || len(vals) == 0 {
			return false
		}
		for _, e := range vals {
			if !derivesFromStackIndex(p, e, depth+1) {
				return false
			}
		}
		return true
	}
	// fv: the values field `field` of struct value x can hold, following by-value parameters
	// to the arguments of every call and local copies to what was copied
	var fv func(x ssa.Value, field int, d int) ([]ssa.Value, bool)
	fv = func(x ssa.Value, field int, d int) ([]ssa.Value, bool) {
		if d > 4 {
			return nil, false
		}
		switch y := x.(type) {
		case *ssa.Parameter:
			fn := y.Parent()
			calls, asValue := directCallSites(p, fn)
			if asValue || len(calls) == 0 {
				return nil, false
			}
			var out []ssa.Value
			for i, q := range fn.Params {
				if q != y {
					continue
				}
				for _, call := range calls {
					if i >= len(call.Common().Args) {
						return nil, false
					}
					sub, ok := fv(call.Common().Args[i], field, d+1)
					if !ok {
						return nil, false
					}
					out = append(out, sub...)
				}
			}
			return out, true
		case *ssa.UnOp:
			al, isAlloc := y.X.(*ssa.Alloc)
			if y.Op != token.MUL || !isAlloc || al.Referrers() == nil {
				return nil, false
			}
			var out []ssa.Value
			for _, r := range *al.Referrers() {
				switch z := r.(type) {
				case *ssa.FieldAddr:
					if z.Field != field || z.Referrers() == nil {
						continue
					}
					for _, r2 := range *z.Referrers() {
						if st, ok := r2.(*ssa.Store); ok && st.Addr == ssa.Value(z) {
							out = append(out, st.Val)
						}
					}
				case *ssa.Store:
					if z.Addr == ssa.Value(al) {
						sub, ok := fv(z.Val, field, d+1)
						if !ok {
							return nil, false
						}
						out = append(out, sub...)
					}
				}
			}
			return out, true
		}
		return fieldValues(x, field, 0)
	}
	switch x := v.(type) {
	case *ssa.Field:
		return all(fv(x.X, x.Field, 0))
	case *ssa.UnOp:
		if fa, ok := x.X.(*ssa.FieldAddr); ok && x.Op == token.MUL {
			if al, ok := fa.X.(*ssa.Alloc); ok {
				return all(fv(&ssa.UnOp{Op: token.MUL, X: al}, fa.Field, 0))
			}
		}
		if vals, ok := cellValues(x.X); ok {
			return all(vals, true)
		}
	case *ssa.Parameter:
		fn := x.Parent()
		calls, asValue := directCallSites(p, fn)
		if asValue || len(calls) == 0 {
			return false
		}
		for i, q := range fn.Params {
			if q != x {
				continue
			}
			var args []ssa.Value
			for _, call := range calls {
				if i >= len(call.Common().Args) {
					return false
				}
				args = append(args, call.Common().Args[i])
			}
			return all(args, true)
		}
	}
	return false
}

// fillCounterStart: every store into an element of the made slice mk uses, as its index, a
// counter that grows by one per stored element; returns the counter's initial constant and
// the number of such stores (n == 0 when some store does not have that form).
func fillCounterStart(mk *ssa.MakeSlice) (first int64, n int) {
	if mk.Referrers() == nil {
		return 0, 0
	}
	first = -1
	for _, r := range *mk.Referrers() {
		ia, ok := r.(*ssa.IndexAddr)
		if !ok || ia.Referrers() == nil {
			continue
		}
		for _, r2 := range *ia.Referrers() {
			st, ok := r2.(*ssa.Store)
			if !ok || st.Addr != ssa.Value(ia) {
				continue
			}
			k, ok := counterStart(ia.Index, map[ssa.Value]bool{})
			if !ok || (first >= 0 && k != first) {
				return 0, 0
			}
			first = k
			n++
		}
	}
	return first, n
}

// counterStart: v is a counter built only from one initial constant and +1 steps (through
// phis); returns the constant.
func counterStart(v ssa.Value, seen map[ssa.Value]bool) (int64, bool) {
	if seen[v] {
		return -1, true
	}
	seen[v] = true
	if k, ok := constInt(v); ok {
		return k, true
	}
	switch x := v.(type) {
	case *ssa.Phi:
		res := int64(-1)
		for _, e := range x.Edges {
			k, ok := counterStart(e, seen)
			if !ok {
				return 0, false
			}
			if k >= 0 {
				if res >= 0 && res != k {
					return 0, false
				}
				res = k
			}
		}
		return res, true
	case *ssa.BinOp:
		if x.Op == token.ADD && isConstInt(x.Y, 1) {
			k, ok := counterStart(x.X, seen)
			if ok && k >= 0 {
				return -1, true // a step: contributes no initial value of its own
			}
			return k, ok
		}
	}
	return 0, false
}

// isFillCounterOf: v is (a phi merging) the index values used to store into mk.
func isFillCounterOf(v ssa.Value, mk *ssa.MakeSlice) bool {
	idx := map[ssa.Value]bool{}
	for _, r := range *mk.Referrers() {
		if ia, ok := r.(*ssa.IndexAddr); ok && ia.Referrers() != nil {
			for _, r2 := range *ia.Referrers() {
				if st, ok := r2.(*ssa.Store); ok && st.Addr == ssa.Value(ia) {
					idx[ia.Index] = true
				}
			}
		}
	}
	seen := map[ssa.Value]bool{}
	var related func(x ssa.Value) bool
	related = func(x ssa.Value) bool {
		if seen[x] {
			return false
		}
		seen[x] = true
		if idx[x] {
			return true
		}
		switch y := x.(type) {
		case *ssa.Phi:
			for _, e := range y.Edges {
				if related(e) {
					return true
				}
			}
		case *ssa.BinOp:
			if y.Op == token.ADD && isConstInt(y.Y, 1) {
				return related(y.X)
			}
		}
		return false
	}
	return related(v)
}
