package main

import (
	"fmt"
	"go/constant"
	"go/token"
	"go/types"
	"sort"
	"strings"

	"golang.org/x/tools/go/ssa"
)

// mustDepend reports whether, on every path, the value v is computed from a value that
// satisfies leaf.  Phis (and local cells, which behave like phis) need every incoming
// value to depend on it; every other instruction needs one operand that does.  Module
// callees are looked into (their returns must all depend on a parameter whose argument
// depends on it); other callees are assumed to depend on all their arguments.
func mustDepend(v ssa.Value, leaf func(ssa.Value) bool) bool {
	return mustDependRec(v, leaf, map[ssa.Value]bool{}, 0)
}

// mustDependMem is mustDepend that also treats a value loaded from a container element or
// field as depending on the container (x.f, a[i] depend on x, a).
func mustDependMem(v ssa.Value, leaf func(ssa.Value) bool) bool {
	throughMemory = true
	defer func() { throughMemory = false }()
	return mustDependRec(v, leaf, map[ssa.Value]bool{}, 0)
}

var throughMemory bool

func mustDependRec(v ssa.Value, leaf func(ssa.Value) bool, seen map[ssa.Value]bool, depth int) bool {
	if v == nil || depth > 40 {
		return false
	}
	if leaf(v) {
		return true
	}
	if seen[v] {
		return false // a cycle contributes nothing by itself
	}
	seen[v] = true
	defer delete(seen, v)
	rec := func(x ssa.Value) bool { return mustDependRec(x, leaf, seen, depth+1) }
	switch x := v.(type) {
	case *ssa.Phi:
		for i, e := range x.Edges {
			if !rec(e) && !edgeDetermines(x.Block().Preds[i], x.Block(), leaf) {
				return false
			}
		}
		return len(x.Edges) > 0
	case *ssa.UnOp:
		if x.Op == token.MUL {
			// load of a local struct/variable cell: all stored values, or for a struct built
			// field by field, any field
			if al, ok := x.X.(*ssa.Alloc); ok {
				whole, fields := allocStores(al)
				if len(whole) > 0 {
					for _, w := range whole {
						if !rec(w) {
							return false
						}
					}
					return true
				}
				for _, fv := range fields {
					if rec(fv) {
						return true
					}
				}
				return false
			}
			if vals, simple := cellValues(x.X); simple && len(vals) > 0 {
				for _, w := range vals {
					if !rec(w) {
						return false
					}
				}
				return true
			}
			if throughMemory {
				switch a := x.X.(type) {
				case *ssa.IndexAddr:
					return rec(a.X)
				case *ssa.FieldAddr:
					return rec(a.X)
				}
			}
			return false
		}
		return rec(x.X)
	case *ssa.BinOp:
		return rec(x.X) || rec(x.Y)
	case *ssa.Convert:
		return rec(x.X)
	case *ssa.ChangeType:
		return rec(x.X)
	case *ssa.MakeInterface:
		return rec(x.X)
	case *ssa.ChangeInterface:
		return rec(x.X)
	case *ssa.Slice:
		return rec(x.X)
	case *ssa.Field:
		return rec(x.X)
	case *ssa.Extract:
		return rec(x.Tuple)
	case *ssa.Call:
		if callee := x.Call.StaticCallee(); callee != nil && fnInModule(callee) && len(callee.Blocks) > 0 && depth < 6 {
			// every return value must depend on a parameter whose argument depends on the leaf
			dep := map[*ssa.Parameter]bool{}
			for i, a := range x.Call.Args {
				if i < len(callee.Params) && rec(a) {
					dep[callee.Params[i]] = true
				}
			}
			if len(dep) == 0 {
				return false
			}
			isDep := func(w ssa.Value) bool {
				if p, ok := w.(*ssa.Parameter); ok && dep[p] {
					return true
				}
				// field of a struct parameter that was spilled
				return false
			}
			all := false // a helper with one return that uses the argument is taken to encode it (its other returns are the argument's zero-value cases)
			nret := 0
			for _, b := range callee.Blocks {
				if ret, ok := b.Instrs[len(b.Instrs)-1].(*ssa.Return); ok {
					for _, r := range ret.Results {
						nret++
						if mustDependRec(r, func(w ssa.Value) bool { return isDep(w) || spilledParam(w, dep) }, map[ssa.Value]bool{}, depth+1) {
							all = true
						}
					}
				}
			}
			return all && nret > 0
		}
		for _, a := range x.Call.Args {
			if rec(a) {
				return true
			}
		}
		return false
	case *ssa.Alloc:
		// variadic argument array / composite literal: any element or field
		whole, fields := allocStores(x)
		for _, w := range append(whole, fields...) {
			if rec(w) {
				return true
			}
		}
		return false
	}
	return false
}

// spilledParam: a load from the Alloc a parameter was spilled into (address-taken
// parameters), or a field of it.
func spilledParam(v ssa.Value, dep map[*ssa.Parameter]bool) bool {
	ld, ok := v.(*ssa.UnOp)
	if !ok || ld.Op != token.MUL {
		return false
	}
	addr := ld.X
	if fa, ok := addr.(*ssa.FieldAddr); ok {
		addr = fa.X
	}
	al, ok := addr.(*ssa.Alloc)
	if !ok || al.Referrers() == nil {
		return false
	}
	for _, r := range *al.Referrers() {
		if st, ok := r.(*ssa.Store); ok && st.Addr == al {
			if p, ok := st.Val.(*ssa.Parameter); ok && dep[p] {
				return true
			}
		}
	}
	return false
}

// allocStores returns the values stored to a local Alloc as a whole and those stored
// through FieldAddr/IndexAddr of it (composite literals, variadic arrays).
func allocStores(al *ssa.Alloc) (whole, parts []ssa.Value) {
	if al.Referrers() == nil {
		return
	}
	for _, r := range *al.Referrers() {
		switch x := r.(type) {
		case *ssa.Store:
			if x.Addr == al {
				whole = append(whole, x.Val)
			}
		case *ssa.FieldAddr:
			if x.Referrers() != nil {
				for _, r2 := range *x.Referrers() {
					if st, ok := r2.(*ssa.Store); ok && st.Addr == x {
						parts = append(parts, st.Val)
					}
				}
			}
		case *ssa.IndexAddr:
			if x.Referrers() != nil {
				for _, r2 := range *x.Referrers() {
					if st, ok := r2.(*ssa.Store); ok && st.Addr == x {
						parts = append(parts, st.Val)
					}
				}
			}
		case *ssa.Slice:
			// the array is only sliced to be passed on
		}
	}
	return
}

// fieldLoadOf reports whether v reads field T.F (through FieldAddr+load or Field).
func fieldLoadOf(v ssa.Value, T, F string) bool {
	switch x := v.(type) {
	case *ssa.UnOp:
		if x.Op == token.MUL {
			if fa, ok := x.X.(*ssa.FieldAddr); ok {
				t, f := fieldOf(fa.X.Type(), fa.Field)
				return f == F && (T == "" || t == T)
			}
		}
	case *ssa.Field:
		t, f := fieldOf(x.X.Type(), x.Field)
		return f == F && (T == "" || t == T)
	}
	return false
}

// ---- linear forms

// linForm writes an integer SSA value as a sum of signed leaf terms.  Leaves are named by
// name(v); a leaf for which name returns "" makes the form opaque (ok=false).
func linForm(v ssa.Value, name func(ssa.Value) string) (map[string]int, bool) {
	out := map[string]int{}
	ok := linRec(v, 1, name, out, 0)
	for k, n := range out {
		if n == 0 {
			delete(out, k)
		}
	}
	return out, ok
}

func linRec(v ssa.Value, sign int, name func(ssa.Value) string, out map[string]int, depth int) bool {
	if depth > 30 {
		return false
	}
	if n := name(v); n != "" {
		out[n] += sign
		return true
	}
	switch x := v.(type) {
	case *ssa.BinOp:
		switch x.Op {
		case token.ADD:
			return linRec(x.X, sign, name, out, depth+1) && linRec(x.Y, sign, name, out, depth+1)
		case token.SUB:
			return linRec(x.X, sign, name, out, depth+1) && linRec(x.Y, -sign, name, out, depth+1)
		}
	case *ssa.UnOp:
		if x.Op == token.SUB {
			return linRec(x.X, -sign, name, out, depth+1)
		}
		if x.Op == token.MUL {
			// a local that lives in a cell because a closure captures it
			if vals, simple := cellValues(x.X); simple && len(vals) == 1 {
				return linRec(vals[0], sign, name, out, depth+1)
			}
		}
	case *ssa.Convert:
		if sameWidthInt(x.X.Type(), x.Type()) {
			return linRec(x.X, sign, name, out, depth+1)
		}
	case *ssa.ChangeType:
		return linRec(x.X, sign, name, out, depth+1)
	case *ssa.Const:
		if x.Value != nil && x.Value.Kind() == constant.Int {
			if n, exact := constant.Int64Val(x.Value); exact {
				if n != 0 {
					out[fmt.Sprint("#", 1)] += sign * int(n)
				}
				return true
			}
		}
	}
	return false
}

func sameWidthInt(a, b types.Type) bool {
	ba, ok1 := a.Underlying().(*types.Basic)
	bb, ok2 := b.Underlying().(*types.Basic)
	if !ok1 || !ok2 || ba.Info()&types.IsInteger == 0 || bb.Info()&types.IsInteger == 0 {
		return false
	}
	w := func(k types.BasicKind) int {
		switch k {
		case types.Int8, types.Uint8:
			return 8
		case types.Int16, types.Uint16:
			return 16
		case types.Int32, types.Uint32:
			return 32
		}
		return 64
	}
	return w(ba.Kind()) == w(bb.Kind())
}

func linString(m map[string]int) string {
	var ks []string
	for k := range m {
		ks = append(ks, k)
	}
	sort.Strings(ks)
	var sb strings.Builder
	for _, k := range ks {
		n := m[k]
		switch {
		case n == 1:
			sb.WriteString(" + " + k)
		case n == -1:
			sb.WriteString(" - " + k)
		default:
			fmt.Fprintf(&sb, " %+d*%s", n, k)
		}
	}
	return strings.TrimPrefix(strings.TrimSpace(sb.String()), "+ ")
}

func sameLin(a, b map[string]int) bool {
	if len(a) != len(b) {
		return false
	}
	for k, n := range a {
		if b[k] != n {
			return false
		}
	}
	return true
}

// edgeDetermines: the control-flow edge pred→blk is only taken when a value satisfying
// leaf has been compared equal to a constant, so on that edge the leaf's value is known
// and a phi operand that ignores it loses no information.
func edgeDetermines(pred, blk *ssa.BasicBlock, leaf func(ssa.Value) bool) bool {
	cur := pred
	child := blk
	for cur != nil {
		if iff, ok := cur.Instrs[len(cur.Instrs)-1].(*ssa.If); ok {
			if cmp, ok := iff.Cond.(*ssa.BinOp); ok && (cmp.Op == token.EQL || cmp.Op == token.NEQ) {
				_, cx := cmp.X.(*ssa.Const)
				_, cy := cmp.Y.(*ssa.Const)
				if (cy && leaf(cmp.X)) || (cx && leaf(cmp.Y)) {
					want := cur.Succs[0]
					if cmp.Op == token.NEQ {
						want = cur.Succs[1]
					}
					if want == child || (want.Dominates(pred) && len(want.Preds) == 1) {
						return true
					}
				}
			}
		}
		child = cur
		cur = cur.Idom()
	}
	return false
}

// ---- virtual inlining of same-package helpers

// effSite: an instruction `actual` matching a predicate is executed at instruction `at` of
// the function being examined: either at == actual, or `at` is the call (or closure call)
// in that function to a helper of the same package whose body (transitively) contains it.
type effSite struct {
	at     ssa.Instruction
	actual ssa.Instruction
	via    *ssa.Function // nil when direct
}

// effectiveSites finds where in f instructions matching match are executed, looking into
// helpers of the same package that f calls statically and into closures it creates and
// calls, to the given depth.  Rules that anchor on a function by name use it so that
// extracting part of the function into a helper does not hide the construct.
func effectiveSites(f *ssa.Function, match func(ssa.Instruction) bool, depth int) []effSite {
	var out []effSite
	seen := map[*ssa.Function]bool{f: true}
	var contains func(g *ssa.Function, d int) ssa.Instruction
	contains = func(g *ssa.Function, d int) ssa.Instruction {
		if seen[g] || d < 0 || len(g.Blocks) == 0 {
			return nil
		}
		seen[g] = true
		defer delete(seen, g)
		for _, b := range g.Blocks {
			for _, ins := range b.Instrs {
				if match(ins) {
					return ins
				}
				if callee := helperCallee(g, ins); callee != nil {
					if a := contains(callee, d-1); a != nil {
						return a
					}
				}
			}
		}
		return nil
	}
	for _, b := range f.Blocks {
		for _, ins := range b.Instrs {
			if match(ins) {
				out = append(out, effSite{ins, ins, nil})
				continue
			}
			if callee := helperCallee(f, ins); callee != nil {
				if a := contains(callee, depth-1); a != nil {
					out = append(out, effSite{ins, a, callee})
				}
			}
		}
	}
	return out
}

// helperCallee: ins is a call (or go/defer) of a function of the same package as g with a
// body, or of a closure created in g; returns that function.
func helperCallee(g *ssa.Function, ins ssa.Instruction) *ssa.Function {
	call, ok := ins.(ssa.CallInstruction)
	if !ok {
		return nil
	}
	if callee := call.Common().StaticCallee(); callee != nil {
		if len(callee.Blocks) > 0 && fnPkgPath(callee) == fnPkgPath(g) && callee != g {
			return callee
		}
		return nil
	}
	// call of a closure value held in a local
	v := call.Common().Value
	for i := 0; i < 4 && v != nil; i++ {
		switch x := v.(type) {
		case *ssa.MakeClosure:
			if fn, ok := x.Fn.(*ssa.Function); ok {
				return fn
			}
			return nil
		case *ssa.UnOp:
			if vals, simple := cellValues(x.X); simple && len(vals) == 1 {
				v = vals[0]
				continue
			}
			return nil
		case *ssa.Phi:
			return nil
		default:
			return nil
		}
	}
	return nil
}

// calleeNamed: ins is a static call of a function with that simple name.
func calleeNamed(ins ssa.Instruction, names ...string) bool {
	call, ok := ins.(ssa.CallInstruction)
	if !ok || call.Common().StaticCallee() == nil {
		return false
	}
	for _, n := range names {
		if call.Common().StaticCallee().Name() == n {
			return true
		}
	}
	return false
}

// withHelpers: f together with the same-package helpers and closures it (transitively)
// calls, to the given depth; for rules that only ask whether a construct exists in the code
// that implements f.
func withHelpers(f *ssa.Function, depth int) []*ssa.Function {
	out := []*ssa.Function{f}
	seen := map[*ssa.Function]bool{f: true}
	var walk func(g *ssa.Function, d int)
	walk = func(g *ssa.Function, d int) {
		if d <= 0 {
			return
		}
		for _, b := range g.Blocks {
			for _, ins := range b.Instrs {
				if h := helperCallee(g, ins); h != nil && !seen[h] {
					seen[h] = true
					out = append(out, h)
					walk(h, d-1)
				}
			}
		}
		for _, a := range g.AnonFuncs {
			if !seen[a] {
				seen[a] = true
				out = append(out, a)
				walk(a, d-1)
			}
		}
	}
	walk(f, depth)
	return out
}

// helperBlocks: the basic blocks of f and of the same-package helpers and closures it calls
// (withHelpers), for rules that ask whether an instruction exists in the code implementing f.
// Relations between two instructions (dominance, loops) are meaningful only within one
// function: callers compare Parent() first.
func helperBlocks(f *ssa.Function, depth int) []*ssa.BasicBlock {
	var out []*ssa.BasicBlock
	for _, g := range withHelpers(f, depth) {
		out = append(out, g.Blocks...)
	}
	return out
}

// directCallSites: every static call of f in the module, and whether f is also used as a
// value (stored, passed, deferred through a variable), in which case its callers are unknown.
func directCallSites(p *Program, f *ssa.Function) (calls []ssa.CallInstruction, asValue bool) {
	for g := range p.AllFns {
		if g.Blocks == nil || !fnInModule(g) {
			continue
		}
		for _, b := range g.Blocks {
			for _, ins := range b.Instrs {
				if call, ok := ins.(ssa.CallInstruction); ok && call.Common().StaticCallee() == f {
					calls = append(calls, call)
					// f passed to itself as an argument would still be a value use
					for _, a := range call.Common().Args {
						if a == ssa.Value(f) {
							asValue = true
						}
					}
					continue
				}
				var ops []*ssa.Value
				for _, op := range ins.Operands(ops) {
					if op != nil && *op == ssa.Value(f) {
						asValue = true
					}
				}
			}
		}
	}
	sort.Slice(calls, func(i, j int) bool { return calls[i].Pos() < calls[j].Pos() })
	return calls, asValue
}

// fieldValues: the values that field `field` of the struct value v can hold, when v is a
// local struct (built field by field or as a literal), the struct result of a module helper,
// or a phi of those.  ok is false when v's origin is not understood.
func fieldValues(v ssa.Value, field int, depth int) (vals []ssa.Value, ok bool) {
	if depth > 4 {
		return nil, false
	}
	switch x := v.(type) {
	case *ssa.Const:
		return nil, true // the zero value of the struct: every field holds its zero value
	case *ssa.UnOp:
		if x.Op != token.MUL {
			return nil, false
		}
		al, isAlloc := x.X.(*ssa.Alloc)
		if !isAlloc || al.Referrers() == nil {
			return nil, false
		}
		for _, r := range *al.Referrers() {
			switch y := r.(type) {
			case *ssa.FieldAddr:
				if y.Field != field || y.Referrers() == nil {
					continue
				}
				for _, r2 := range *y.Referrers() {
					if st, isSt := r2.(*ssa.Store); isSt && st.Addr == ssa.Value(y) {
						vals = append(vals, st.Val)
					}
				}
			case *ssa.Store:
				if y.Addr == ssa.Value(al) {
					if ld, isLd := y.Val.(*ssa.UnOp); isLd && ld.X == ssa.Value(al) {
						continue // `return f, err` with a named result f re-assigns f to itself
					}
					sub, ok := fieldValues(y.Val, field, depth+1)
					if !ok {
						return nil, false
					}
					vals = append(vals, sub...)
				}
			}
		}
		return vals, true
	case *ssa.Extract:
		if call, isCall := x.Tuple.(*ssa.Call); isCall {
			return fieldValuesOfResult(call, x.Index, field, depth)
		}
	case *ssa.Call:
		return fieldValuesOfResult(x, 0, field, depth)
	case *ssa.Phi:
		for _, e := range x.Edges {
			sub, ok := fieldValues(e, field, depth+1)
			if !ok {
				return nil, false
			}
			vals = append(vals, sub...)
		}
		return vals, true
	}
	return nil, false
}

func fieldValuesOfResult(call *ssa.Call, idx, field, depth int) ([]ssa.Value, bool) {
	callee := call.Call.StaticCallee()
	if callee == nil || !fnInModule(callee) || len(callee.Blocks) == 0 {
		return nil, false
	}
	var vals []ssa.Value
	for _, b := range callee.Blocks {
		ret, ok := b.Instrs[len(b.Instrs)-1].(*ssa.Return)
		if !ok {
			continue
		}
		if idx >= len(ret.Results) {
			return nil, false
		}
		sub, ok := fieldValues(ret.Results[idx], field, depth+1)
		if !ok {
			return nil, false
		}
		vals = append(vals, sub...)
	}
	return vals, true
}

// allCallSites: the static calls of f plus the calls made through package-level function
// variables that only ever hold f (`var hook = f`, replaced in tests only).  ok is false when
// f escapes in any other way.
func allCallSites(p *Program, f *ssa.Function) (calls []ssa.CallInstruction, ok bool) {
	holders := map[*ssa.Global]bool{}
	for g := range p.AllFns {
		if g.Blocks == nil || !fnInModule(g) {
			continue
		}
		for _, b := range g.Blocks {
			for _, ins := range b.Instrs {
				if call, isCall := ins.(ssa.CallInstruction); isCall && call.Common().StaticCallee() == f {
					calls = append(calls, call)
					continue
				}
				var ops []*ssa.Value
				for _, op := range ins.Operands(ops) {
					if op == nil || *op != ssa.Value(f) {
						continue
					}
					st, isStore := ins.(*ssa.Store)
					gl, isGlobal := (ssa.Value)(nil), false
					if isStore {
						gl, isGlobal = st.Addr, false
						if _, okG := st.Addr.(*ssa.Global); okG {
							isGlobal = true
						}
					}
					if !isStore || !isGlobal || st.Val != ssa.Value(f) {
						return nil, false
					}
					holders[gl.(*ssa.Global)] = true
				}
			}
		}
	}
	for h := range holders {
		for _, ins := range globalRefs(p, h) {
			switch x := ins.(type) {
			case *ssa.Store:
				if x.Val != ssa.Value(f) {
					return nil, false // the variable can hold another function
				}
			case *ssa.UnOp:
				// every use of the loaded value is a call of it
				if x.Referrers() == nil {
					continue
				}
				for _, r := range *x.Referrers() {
					call, isCall := r.(ssa.CallInstruction)
					if !isCall || call.Common().Value != ssa.Value(x) {
						if _, isDbg := r.(*ssa.DebugRef); isDbg {
							continue
						}
						return nil, false
					}
					calls = append(calls, call)
				}
			default:
				return nil, false
			}
		}
	}
	return calls, true
}

// argOfParam: when v is a parameter of a function that has exactly one call site (and is
// never used as a value), the argument passed there (followed through further parameters);
// otherwise v itself.
func argOfParam(p *Program, v ssa.Value, depth int) ssa.Value {
	par, ok := v.(*ssa.Parameter)
	if !ok || depth > 3 {
		return v
	}
	fn := par.Parent()
	idx := -1
	for i, q := range fn.Params {
		if q == par {
			idx = i
		}
	}
	calls, asValue := directCallSites(p, fn)
	if idx < 0 || asValue || len(calls) != 1 || idx >= len(calls[0].Common().Args) {
		return v
	}
	return argOfParam(p, calls[0].Common().Args[idx], depth+1)
}

// structFieldValues: fieldValues that also follows a struct handed in as a parameter (by value
// or by pointer) to the arguments of every call, and local copies to what was copied.
func structFieldValues(p *Program, x ssa.Value, field int, d int) ([]ssa.Value, bool) {
	if d > 4 {
		return nil, false
	}
	switch y := x.(type) {
	case *ssa.Parameter:
		fn := y.Parent()
		calls, asValue := directCallSites(p, fn)
		if asValue || len(calls) == 0 {
			return nil, false
		}
		var out []ssa.Value
		for i, q := range fn.Params {
			if q != y {
				continue
			}
			for _, call := range calls {
				if i >= len(call.Common().Args) {
					return nil, false
				}
				arg := call.Common().Args[i]
				if _, isPtr := arg.Type().Underlying().(*types.Pointer); isPtr {
					// pointer to a struct variable of the caller
					if al, ok := arg.(*ssa.Alloc); ok {
						arg = &ssa.UnOp{Op: token.MUL, X: al}
					} else {
						return nil, false
					}
				}
				sub, ok := structFieldValues(p, arg, field, d+1)
				if !ok {
					return nil, false
				}
				out = append(out, sub...)
			}
		}
		return out, true
	case *ssa.UnOp:
		al, isAlloc := y.X.(*ssa.Alloc)
		if y.Op != token.MUL || !isAlloc || al.Referrers() == nil {
			if par, ok := y.X.(*ssa.Parameter); ok && y.Op == token.MUL {
				return structFieldValues(p, par, field, d) // *p for a pointer parameter
			}
			return nil, false
		}
		var out []ssa.Value
		for _, r := range *al.Referrers() {
			switch z := r.(type) {
			case *ssa.FieldAddr:
				if z.Field != field || z.Referrers() == nil {
					continue
				}
				for _, r2 := range *z.Referrers() {
					if st, ok := r2.(*ssa.Store); ok && st.Addr == ssa.Value(z) {
						out = append(out, st.Val)
					}
				}
			case *ssa.Store:
				if z.Addr == ssa.Value(al) {
					if ld, isLd := z.Val.(*ssa.UnOp); isLd && ld.X == ssa.Value(al) {
						continue
					}
					sub, ok := structFieldValues(p, z.Val, field, d+1)
					if !ok {
						return nil, false
					}
					out = append(out, sub...)
				}
			}
		}
		return out, true
	}
	return fieldValues(x, field, 0)
}
