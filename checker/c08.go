package main

import (
	"fmt"
	"go/ast"
	"sort"
	"strings"

	"golang.org/x/tools/go/ssa"
)

func init() { register("C08", true, runC08) }

// mapExceptions: reviewed map-range sites whose order-sensitive-looking effects are
// harmless, with the invariant relied on.  Keyed by function + ranged expression.
type mapException struct {
	why    string
	verify func(c *Check, s *mapSite) string // "" = the invariant relied on still holds
}

var mapExceptions = map[string]mapException{
	"driver.installConfigFlags:range map[string]*bool": {why: "the collected names are used only when exactly one flag is set (len(set) == 1, a single element has no order); with two or more the only effect is the order of names inside the 'conflicting options' error text, which is not report output"},
	"driver.outputFormat:range map[string]*bool":       {why: "zero or one flag set: the result is that flag whatever the order; two or more set: the second one met returns the same constant error whatever the order", verify: verifyConstErrorReturns},
	"driver.outputFormat:range map[string]*string":     {why: "same argument as for bcmd (result fixed when at most one is set, constant error otherwise)", verify: verifyConstErrorReturns},
	"driver.completeConfig:range configFieldMap": {why: "the only caller, matchVariableOrCommand, uses the result only when the combined match list has exactly one element", verify: func(c *Check, s *mapSite) string {
		return onlyCalledFrom(c, "internal/driver", "completeConfig", "matchVariableOrCommand")
	}},
	"driver.matchVariableOrCommand:range pprofCommands": {why: "the match list is used only under len(matches) == 1", verify: func(c *Check, s *mapSite) string {
		if len(s.appends) == 0 {
			return "the loop no longer collects matches"
		}
		return usedOnlyUnderLenOne(c, s, s.appends[0])
	}},
	"graph.*builder.addNodelets:range graph.TagMap": {why: "the per-label tag lists are handed only to numericNodelets → collapsedTags, which sorts them (SortTags) before any other use", verify: func(c *Check, s *mapSite) string {
		return calleeSortsFirst(c, "internal/graph", "(*builder).collapsedTags", 0)
	}},
	"graph.newTree:range map[*graph.Node]graph.NodeMap": {why: "Graph.Nodes is unordered by design; every consumer sorts it or only aggregates it (verified separately as C08-R2 consumers)"},
	"graph.NodeMap.nodes:range graph.NodeMap":           {why: "Graph.Nodes is unordered by design; every consumer sorts it or only aggregates it (verified separately as C08-R2 consumers)"},
	"graph.*Graph.TrimTree:range graph.Node.In": {why: "the loop picks the single parent: len(cur.In) == 1 is asserted (panic otherwise) immediately before the loop", verify: func(c *Check, s *mapSite) string {
		return precededByLenAssert(c, s, s.expr)
	}},
	"graph.*Graph.String:range graph.Node.In":   {why: "debugging dump (Graph.String), not part of any report format; not reachable from driver.PProf", verify: verifyGraphStringUnreachable},
	"graph.*Graph.String:range graph.Node.Out":  {why: "debugging dump (Graph.String), not part of any report format; not reachable from driver.PProf", verify: verifyGraphStringUnreachable},
	"graph.isRedundantEdge:range graph.Node.In": {why: "breadth-first reachability: the set of visited nodes and the boolean result are the same for every visiting order (the function returns a constant as soon as the source is met and false when the closure is exhausted)"},
	"profile.cpuProfile:range map[uint64]int":   {why: "at most one address can reach the majority threshold count >= n - n/32 (two keys would need 2(n - n/32) <= n), so the element that triggers the break is unique"},
}

func runC08(c *Check) {
	c.Explanation = "Decides the ordering clauses of C08 for every input and every map-iteration seed: every function that can run as a sort's less is a well-formed lexicographic chain whose guards and ordering keys coincide and whose operands are mirror images (strict weak order, R1); the orders of report entries, edges and tags contain an identity key of what they order (total order, R3); every range over a map in non-test code is order-insensitive, or feeds a slice that is sorted by one of those orders before any other use, or is covered by a reviewed exception naming the invariant relied on (R2). Round-I additions: the scratch fields are rebuilt and read inside one critical section of encodeMu (shared with C20-R1). Not decided: equality of floating-point layout hints, the external dot binary, goroutine completion order (C16)."
	parsed := c.comparatorRules()
	c.totalityRules(parsed)
	// "however often it has been run in the session": serializing the same profile again
	// gives the same bytes, because every scratch field is rebuilt from nothing each time
	c.scratchReset("C08-R5")
	c.scratchAssignedOnEveryPath("C08-R5")
	c.mapRules()
	c.graphConsumers()
	c.fetchOrder()
	// "regardless of goroutine interleavings": the bytes of one serialization are built from
	// scratch fields that only the holder of encodeMu rebuilds and reads (shared with C20-R1)
	c.relabel(c.scratchFields, "C20-R1", "C08-R6", func(o *Obligation) bool { return strings.HasPrefix(o.Key, "scratch:") })
}

// fetchOrder (R4): concurrently fetched profiles are combined in command-line order (the
// collection rule of C16, which C08 depends on for schedule independence).
func (c *Check) fetchOrder() {
	before := len(c.Obls)
	c.collectRules()
	for _, o := range c.Obls[before:] {
		o.Rule = strings.Replace(o.Rule, "C16-R4", "C08-R4", 1)
		o.Rule = strings.Replace(o.Rule, "C16-R5", "C08-R4", 1)
	}
}

func (c *Check) mapRules() {
	p := c.P
	sites := collectMapSites(p)
	c.Extra["map_range_sites"] = len(sites)
	for _, s := range sites {
		key := s.key()
		pos := p.relFile(s.rng.Pos())
		desc := "range over map " + s.expr + " in " + s.fn
		var problems []string
		problems = append(problems, s.issues...)
		var sorted []string
		for _, v := range dedup(s.appends) {
			how, ok := s.sortAfter(p, v)
			if ok {
				sorted = append(sorted, v+" ← "+how)
			} else {
				if how == "" {
					how = "no later use found in the enclosing blocks (escapes unsorted)"
				}
				problems = append(problems, fmt.Sprintf("E1 slice %s is filled in map order and not sorted before use: %s", v, how))
			}
		}
		switch {
		case len(problems) == 0 && len(sorted) == 0:
			o := c.ok("C08-R2", key, pos, desc, "E0: body has only order-insensitive effects (keyed writes/deletes, integer accumulation, constant flags, constant-valued existence returns)")
			o.Trivial = len(s.rng.Body.List) == 0
		case len(problems) == 0:
			c.ok("C08-R2", key, pos, desc, "E1: "+strings.Join(sorted, "; "))
		default:
			ex, ok := mapExceptions[key]
			if !ok {
				// the same map kept in a struct field instead of a local (or the reverse): the
				// entry written for the map's type still describes it
				if tv, okT := s.pkg.TypesInfo.Types[s.rng.X]; okT && tv.Type != nil {
					ex, ok = mapExceptions["range:"+s.fn+":range "+typeShort(tv.Type)]
					if !ok {
						ex, ok = mapExceptions[s.fn+":range "+typeShort(tv.Type)]
					}
				}
			}
			if !ok {
				// several functions may call the helper: the first (in key order) whose
				// invariant is verified for this loop applies, else the first one
				for i, cand := range inheritedMapExceptions(p, s) {
					if i == 0 {
						ex, ok = cand, true
					}
					if cand.verify == nil || cand.verify(c, s) == "" {
						ex, ok = cand, true
						break
					}
				}
			}
			if ok {
				broken := ""
				if ex.verify != nil {
					broken = ex.verify(c, s)
				}
				if broken == "" {
					c.ok("C08-R2", key, pos, desc, "reviewed exception: "+ex.why+" [effects: "+strings.Join(problems, "; ")+"]")
				} else {
					c.bad("C08-R2", key, pos, desc+" relied on an invariant that no longer holds ("+broken+"): "+strings.Join(problems, "; "))
				}
			} else {
				c.bad("C08-R2", key, pos, desc+" has map-order-dependent effects: "+strings.Join(problems, "; "))
			}
		}
	}
	c.Floor("C08-R2", 50)
}

// ---- verification hooks for the reviewed exceptions

func verifyConstErrorReturns(c *Check, s *mapSite) string {
	// every return inside the loop body returns (nil, errors.New(<constant>))
	bad := ""
	ast.Inspect(s.rng.Body, func(n ast.Node) bool {
		ret, ok := n.(*ast.ReturnStmt)
		if !ok {
			return true
		}
		for _, r := range ret.Results {
			if id, ok := r.(*ast.Ident); ok && id.Name == "nil" {
				continue
			}
			if call, ok := r.(*ast.CallExpr); ok && exprStr(c.P.Fset, call.Fun) == "errors.New" && len(call.Args) == 1 {
				if _, ok := call.Args[0].(*ast.BasicLit); ok {
					continue
				}
			}
			bad = "a return inside the loop yields a non-constant value"
		}
		return true
	})
	return bad
}

func onlyCalledFrom(c *Check, rel, fn string, callers ...string) string {
	f := c.P.Func(rel, fn)
	if f == nil {
		return fn + " not found"
	}
	allowed := map[string]bool{}
	for _, x := range callers {
		allowed[x] = true
	}
	bad := ""
	for g := range c.P.AllFns {
		if !fnInModule(g) || g.Blocks == nil {
			continue
		}
		for _, b := range g.Blocks {
			for _, ins := range b.Instrs {
				var ops []*ssa.Value
				for _, op := range ins.Operands(ops) {
					if op != nil && *op == ssa.Value(f) && !allowedCaller(c.P, g, allowed, 0) {
						bad = fn + " is also used in " + fnName(g)
					}
				}
			}
		}
	}
	return bad
}

// allowedCaller: g is one of the named functions, a closure of one, or a helper that is only
// ever called (never used as a value) from allowed callers: a piece split out of one of them.
func allowedCaller(p *Program, g *ssa.Function, allowed map[string]bool, depth int) bool {
	if allowed[g.Name()] {
		return true
	}
	if depth > 2 {
		return false
	}
	if par := g.Parent(); par != nil {
		return allowedCaller(p, par, allowed, depth+1)
	}
	calls, asValue := directCallSites(p, g)
	if asValue || len(calls) == 0 {
		return false
	}
	for _, call := range calls {
		if call.Parent() == g {
			continue
		}
		if !allowedCaller(p, call.Parent(), allowed, depth+1) {
			return false
		}
	}
	return true
}

// usedOnlyUnderLenOne: after the loop, variable v is only appended to, measured with
// len(), or indexed inside an `if len(v) == 1` body.
func usedOnlyUnderLenOne(c *Check, s *mapSite, v string) string {
	var fnBody *ast.BlockStmt
	for i := len(s.stack) - 1; i >= 0; i-- {
		if fd, ok := s.stack[i].(*ast.FuncDecl); ok {
			fnBody = fd.Body
			break
		}
	}
	if fnBody == nil {
		return "enclosing function not found"
	}
	bad := ""
	var walk func(n ast.Node, guarded bool)
	walk = func(n ast.Node, guarded bool) {
		if n == nil || bad != "" {
			return
		}
		switch x := n.(type) {
		case *ast.IfStmt:
			g := guarded || exprStr(c.P.Fset, x.Cond) == "len("+v+") == 1"
			walk(x.Body, g)
			if x.Else != nil {
				walk(x.Else, guarded)
			}
			return
		case *ast.CallExpr:
			name := exprStr(c.P.Fset, x.Fun)
			if (name == "len" || name == "append") && len(x.Args) > 0 && exprStr(c.P.Fset, x.Args[0]) == v {
				for _, a := range x.Args[1:] {
					walk(a, guarded)
				}
				return
			}
		case *ast.AssignStmt:
			for _, r := range x.Rhs {
				walk(r, guarded)
			}
			for _, l := range x.Lhs {
				if exprStr(c.P.Fset, l) != v {
					walk(l, guarded)
				}
			}
			return
		case *ast.ValueSpec:
			for _, val := range x.Values {
				walk(val, guarded)
			}
			return
		case *ast.Ident:
			if x.Name == v && !guarded {
				bad = v + " is used outside `if len(" + v + ") == 1`"
			}
			return
		}
		ast.Inspect(n, func(m ast.Node) bool {
			if m == nil || m == n {
				return true
			}
			walk(m, guarded)
			return false
		})
	}
	walk(fnBody, false)
	return bad
}

// calleeSortsFirst: in fn, the first statement that mentions parameter param sorts it.
func calleeSortsFirst(c *Check, rel, fn string, paramIdx int) string {
	f := c.P.Func(rel, fn)
	if f == nil {
		return fn + " not found"
	}
	fd, ok := f.Syntax().(*ast.FuncDecl)
	if !ok {
		return fn + " has no syntax"
	}
	param := ""
	k := 0
	for _, fl := range fd.Type.Params.List {
		for _, n := range fl.Names {
			if k == paramIdx {
				param = n.Name
			}
			k++
		}
	}
	if param == "" {
		return fmt.Sprintf("%s has no parameter #%d", fn, paramIdx)
	}
	how, ok, used := firstUseIsSort(c.P, fd.Body.List, param)
	if !used || !ok {
		return fn + " does not sort " + param + " before using it: " + how
	}
	// and numericNodelets hands its list only to collapsedTags
	nn := c.P.Func(rel, "(*builder).numericNodelets")
	if nn == nil {
		return "numericNodelets not found"
	}
	nfd := nn.Syntax().(*ast.FuncDecl)
	// the tag list: the parameter of slice type (whatever its position)
	p0 := ""
	for _, fl := range nfd.Type.Params.List {
		if _, isSlice := fl.Type.(*ast.ArrayType); isSlice && len(fl.Names) > 0 && p0 == "" {
			p0 = fl.Names[0].Name
		}
	}
	if p0 == "" {
		return "numericNodelets has no slice parameter"
	}
	bad := ""
	ast.Inspect(nfd.Body, func(n ast.Node) bool {
		if call, ok := n.(*ast.CallExpr); ok && strings.HasSuffix(exprStr(c.P.Fset, call.Fun), ".collapsedTags") {
			return false
		}
		if id, ok := n.(*ast.Ident); ok && id.Name == p0 {
			bad = "numericNodelets uses its tag list outside collapsedTags"
		}
		return true
	})
	return bad
}

func precededByLenAssert(c *Check, s *mapSite, expr string) string {
	// the statement just before the range (skipping declarations) in the same block is
	// `if len(expr) != 1 { panic(…) }`
	for i := len(s.stack) - 2; i >= 0; i-- {
		blk, ok := s.stack[i].(*ast.BlockStmt)
		if !ok {
			continue
		}
		idx := -1
		for k, st := range blk.List {
			if st == ast.Stmt(s.rng) {
				idx = k
			}
		}
		if idx < 0 {
			continue
		}
		for k := idx - 1; k >= 0; k-- {
			switch st := blk.List[k].(type) {
			case *ast.DeclStmt:
				continue
			case *ast.IfStmt:
				if exprStr(c.P.Fset, st.Cond) == "len("+expr+") != 1" && len(st.Body.List) == 1 {
					if es, ok := st.Body.List[0].(*ast.ExprStmt); ok {
						if call, ok := es.X.(*ast.CallExpr); ok && exprStr(c.P.Fset, call.Fun) == "panic" {
							return ""
						}
					}
				}
				return "the statement before the loop is not the len(" + expr + ") != 1 assertion"
			default:
				return "the statement before the loop is not the len(" + expr + ") != 1 assertion"
			}
		}
		return "no assertion before the loop"
	}
	return "enclosing block not found"
}

func verifyGraphStringUnreachable(c *Check, s *mapSite) string {
	gs := c.P.Func("internal/graph", "(*Graph).String")
	root := c.P.Func("internal/driver", "PProf")
	if gs == nil || root == nil {
		return "anchors not found"
	}
	parent, _ := c.P.MG().Reach([]*ssa.Function{root}, nil)
	if _, ok := parent[gs]; ok {
		return "(*Graph).String is reachable from driver.PProf: " + callPath(parent, gs)
	}
	return ""
}

// graphConsumers: every function of package report that obtains an unsorted graph is in
// the reviewed list, and newTrimmedGraph sorts before returning.
func (c *Check) graphConsumers() {
	p := c.P
	reviewed := map[string]string{
		"newTrimmedGraph":   "calls g.SortNodes before returning (checked below); before that only Sum (integer), set construction and tree trimming",
		"PrintAssembly":     "nodes are grouped per symbol; each group is summed (integers) and sorted by annotateAssembly (Sort(AddressOrder)) before use",
		"printSource":       "nodes are grouped by function name / file; representatives are sorted (NameOrder/FileOrder) and used only through the grouping key; groups are only summed per line",
		"MakeWebList":       "node list only feeds address-keyed maps and integer sums (makeSourcePrinter)",
		"makeSourcePrinter": "node list only feeds address-keyed maps and integer sums",
	}
	ng := p.Func("internal/report", "(*Report).newGraph")
	if ng == nil {
		c.undecided("C08-R2", "consumers:anchor", "", "(*Report).newGraph not found")
		return
	}
	forAllPkgFuncs(p, "internal/report", func(f *ssa.Function) {
		for _, b := range f.Blocks {
			for _, ins := range b.Instrs {
				call, ok := ins.(*ssa.Call)
				if !ok || call.Call.StaticCallee() != ng {
					continue
				}
				key := "consumers:" + f.Name()
				if why, ok := reviewed[f.Name()]; ok {
					c.ok("C08-R2", key, p.relFile(call.Pos()), f.Name()+" consumes the map-ordered node list of a freshly built graph", "reviewed: "+why)
				} else if allowedCaller(p, f, map[string]bool{"newTrimmedGraph": true}, 0) {
					c.ok("C08-R2", key, p.relFile(call.Pos()), f.Name()+" is a piece of newTrimmedGraph (only called from it)", "its graph is handed back to newTrimmedGraph, whose sort discipline is checked below")
				} else {
					c.bad("C08-R2", key, p.relFile(call.Pos()), f.Name()+" consumes the map-ordered node list of rpt.newGraph but is not a reviewed consumer (it must sort the nodes or only aggregate them)")
				}
			}
		}
	})
	// newTrimmedGraph: a SortNodes call that every return passes through
	ntg := p.Func("internal/report", "(*Report).newTrimmedGraph")
	if ntg == nil {
		c.undecided("C08-R2", "consumers:newTrimmedGraph.sort", "", "newTrimmedGraph not found")
		return
	}
	var sortBlocks []*ssa.BasicBlock
	var rets []*ssa.BasicBlock
	for _, b := range ntg.Blocks {
		for _, ins := range b.Instrs {
			if call, ok := ins.(*ssa.Call); ok && call.Call.StaticCallee() != nil && call.Call.StaticCallee().Name() == "SortNodes" {
				sortBlocks = append(sortBlocks, b)
			}
			if _, ok := ins.(*ssa.Return); ok {
				rets = append(rets, b)
			}
		}
	}
	ok := len(sortBlocks) > 0 && len(rets) > 0
	for _, r := range rets {
		dominated := false
		for _, sb := range sortBlocks {
			if sb.Dominates(r) {
				dominated = true
			}
		}
		ok = ok && dominated
	}
	if ok {
		c.ok("C08-R2", "consumers:newTrimmedGraph.sort", p.relFile(ntg.Pos()), "newTrimmedGraph returns a sorted node list", "a g.SortNodes call dominates every return")
	} else {
		c.bad("C08-R2", "consumers:newTrimmedGraph.sort", p.relFile(ntg.Pos()), "newTrimmedGraph has a return that is not dominated by g.SortNodes: report entries would appear in map order")
	}
	// the rebuilt graph after top-N selection must be re-sorted: every newGraph(nodesKept) call
	// (in newTrimmedGraph or in a piece split out of it) is followed by SortNodes on every path
	// to the return of newTrimmedGraph
	var sortedAfter func(call ssa.CallInstruction, depth int) bool
	sortedAfter = func(call ssa.CallInstruction, depth int) bool {
		if sortOnAllPaths(call.Block(), call) {
			return true
		}
		h := call.Parent()
		if h == ntg || depth > 2 {
			return false
		}
		// unsorted on some path to the helper's return: every call of the helper must be
		// followed by a sort in its caller
		sites, asValue := directCallSites(p, h)
		if asValue || len(sites) == 0 {
			return false
		}
		for _, s2 := range sites {
			if !sortedAfter(s2, depth+1) {
				return false
			}
		}
		return true
	}
	for _, b := range helperBlocks(ntg, 2) {
		for _, ins := range b.Instrs {
			call, ok := ins.(*ssa.Call)
			if !ok || call.Call.StaticCallee() != ng {
				continue
			}
			if k, isConst := call.Call.Args[1].(*ssa.Const); isConst && k.IsNil() {
				continue
			}
			key := fmt.Sprintf("consumers:newTrimmedGraph.rebuild@%d", len(c.Obls))
			if sortedAfter(call, 0) {
				c.ok("C08-R2", key, p.relFile(call.Pos()), "graph rebuilt with a kept-set in newTrimmedGraph", "a SortNodes call follows on every path to return")
			} else {
				c.bad("C08-R2", key, p.relFile(call.Pos()), "a graph rebuilt with a kept-set in newTrimmedGraph can be returned without being re-sorted")
			}
		}
	}
}

func sortOnAllPaths(b *ssa.BasicBlock, after ssa.Instruction) bool {
	isSort := func(ins ssa.Instruction) bool {
		call, ok := ins.(*ssa.Call)
		return ok && call.Call.StaticCallee() != nil && call.Call.StaticCallee().Name() == "SortNodes"
	}
	seen := map[*ssa.BasicBlock]bool{}
	var walk func(bb *ssa.BasicBlock, instrs []ssa.Instruction) bool
	walk = func(bb *ssa.BasicBlock, instrs []ssa.Instruction) bool {
		for _, ins := range instrs {
			if isSort(ins) {
				return true
			}
			if _, ok := ins.(*ssa.Return); ok {
				return false
			}
		}
		for _, s := range bb.Succs {
			if seen[s] {
				continue
			}
			seen[s] = true
			if !walk(s, s.Instrs) {
				return false
			}
		}
		return true
	}
	idx := instrIndex(after)
	return walk(b, b.Instrs[idx+1:])
}

func sortAfterIn(b *ssa.BasicBlock, after ssa.Instruction) bool {
	seen := false
	for _, ins := range b.Instrs {
		if ins == after {
			seen = true
			continue
		}
		if call, ok := ins.(*ssa.Call); ok && seen && call.Call.StaticCallee() != nil && call.Call.StaticCallee().Name() == "SortNodes" {
			return true
		}
	}
	return false
}

func blockReachesPlain(from, to *ssa.BasicBlock) bool {
	return blockReaches(from, to, func(ssa.Value) int { return 0 })
}

// inheritedMapException: a loop that was moved into a helper keeps the reviewed exception
// of the function (same package) that calls the helper, when the ranged map is the same.
func inheritedMapException(p *Program, s *mapSite) (mapException, bool) {
	cands := inheritedMapExceptions(p, s)
	if len(cands) == 0 {
		return mapException{}, false
	}
	return cands[0], true
}

// inheritedMapExceptions lists, in a fixed order (sorted by key), the reviewed exceptions of
// the functions that call the helper containing s.
func inheritedMapExceptions(p *Program, s *mapSite) []mapException {
	var out []mapException
	dot := strings.LastIndex(s.fn, ".")
	if dot < 0 {
		return nil
	}
	pkgPrefix, helper := s.fn[:strings.Index(s.fn, ".")+1], s.fn[dot+1:]
	var keys []string
	for key := range mapExceptions {
		keys = append(keys, key)
	}
	sort.Strings(keys)
	for _, key := range keys {
		ex := mapExceptions[key]
		parts := strings.SplitN(key, ":range ", 2)
		if len(parts) != 2 || parts[1] != s.stableExpr() || !strings.HasPrefix(parts[0], pkgPrefix) || parts[0] == s.fn {
			continue
		}
		// does the excepted function call the helper (directly or through other pieces split
		// out of it)?
		owner := parts[0][strings.LastIndex(parts[0], ".")+1:]
		calleesOf := func(fn string) []string {
			var out []string
			for _, file := range s.pkg.Syntax {
				for _, d := range file.Decls {
					fd, ok := d.(*ast.FuncDecl)
					if !ok || fd.Name.Name != fn || fd.Body == nil {
						continue
					}
					ast.Inspect(fd.Body, func(n ast.Node) bool {
						if call, ok := n.(*ast.CallExpr); ok {
							name := exprStr(p.Fset, call.Fun)
							if i := strings.LastIndex(name, "."); i >= 0 {
								name = name[i+1:]
							}
							out = append(out, name)
						}
						return true
					})
				}
			}
			return out
		}
		calls := false
		seenFn := map[string]bool{}
		var walk func(fn string, depth int)
		walk = func(fn string, depth int) {
			if seenFn[fn] || depth > 3 || calls {
				return
			}
			seenFn[fn] = true
			for _, cal := range calleesOf(fn) {
				if cal == helper {
					calls = true
					return
				}
				walk(cal, depth+1)
			}
		}
		walk(owner, 0)
		if calls {
			ex.why += " [loop now in helper " + s.fn + "]"
			out = append(out, ex)
		}
	}
	return out
}
