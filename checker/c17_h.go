package main

import (
	"fmt"
	"go/token"
	"go/types"

	"golang.org/x/tools/go/ssa"
)

// c17H: three more shape clauses of the stack view.
//
// R8: the inlined flag given to the source memo for line k of a location is "k is not the
// location's last (outermost) line": a comparison, in linear form, of the index the line was
// read with against len(lines)-1.  (Any other predicate agrees with it for one- and two-line
// locations only.)
//
// R9: fillPlaces visits the sources of every stack: no iteration of the loop over the stacks
// avoids the loop over that stack's sources, so the root's places list every stack.
//
// R10: Stacks() installs the root and builds the stacks before every return: the calls of
// makeInitialStacks and fillPlaces dominate each return (a client may index Sources[0]
// whatever the totals are).
func (c *Check) c17H() {
	p := c.P
	if mis := c.anchorFn("C17-R8", "internal/report", "(*StackSet).makeInitialStacks"); mis != nil {
		n := 0
		for _, g := range withHelpers(mis, 2) {
			for _, b := range g.Blocks {
				for _, ins := range b.Instrs {
					call, ok := ins.(*ssa.Call)
					if !ok || len(call.Call.Args) < 2 {
						continue
					}
					args := call.Call.Args
					if call.Call.StaticCallee() != nil && call.Call.StaticCallee().Signature.Recv() != nil {
						args = args[1:]
					}
					if len(args) != 2 || typeShort(args[0].Type()) != "profile.Line" {
						continue
					}
					if bt, ok := args[1].Type().Underlying().(*types.Basic); !ok || bt.Kind() != types.Bool {
						continue
					}
					n++
					key := fmt.Sprintf("inlined-flag:%s#%d", fnName(g), n)
					// line and flag read back from a list of (line, inlined) records that was
					// built first: what was stored into those two fields of the records
					if f0, ok0 := args[0].(*ssa.Field); ok0 {
						if f1, ok1 := args[1].(*ssa.Field); ok1 && f0.X == f1.X {
							lv := elemFieldValues(f0.X, f0.Field)
							fv := elemFieldValues(f1.X, f1.Field)
							if len(lv) == 1 && len(fv) == 1 {
								args = []ssa.Value{lv[0], fv[0]}
							}
						}
					}
					// (the same with the record's fields read through the slot's address)
					if a0, a1 := fieldAddrOf(args[0]), fieldAddrOf(args[1]); a0 != nil && a1 != nil && a0.X == a1.X {
						slot, _ := a0.X.(*ssa.IndexAddr)
						if al, isAlloc := a0.X.(*ssa.Alloc); isAlloc {
							// a copy of the record in a local variable (the range variable)
							if vals := storesTo(al.Parent(), al); len(vals) == 1 {
								if cp, ok := vals[0].(*ssa.UnOp); ok {
									slot, _ = cp.X.(*ssa.IndexAddr)
								}
							}
						}
						if ia := slot; ia != nil {
							probe := &ssa.UnOp{Op: token.MUL, X: ia}
							lv := elemFieldValues(probe, a0.Field)
							fv := elemFieldValues(probe, a1.Field)
							if len(lv) == 1 && len(fv) == 1 {
								args = []ssa.Value{lv[0], fv[0]}
							}
						}
					}
					ld, ok := args[0].(*ssa.UnOp)
					var ia *ssa.IndexAddr
					if ok {
						ia, _ = ld.X.(*ssa.IndexAddr)
					}
					if ia == nil {
						c.undecided("C17-R8", key, p.relFile(call.Pos()), "the line handed to the source memo is not read by index from a line list")
						continue
					}
					name := func(v ssa.Value) string {
						if lenArg(v) != nil {
							return "len"
						}
						switch v.(type) {
						case *ssa.Phi, *ssa.Parameter:
							return fmt.Sprintf("%p", v)
						}
						return ""
					}
					want, okW := linForm(ia.Index, name)
					cmp, isCmp := args[1].(*ssa.BinOp)
					neg := false
					if un, ok := args[1].(*ssa.UnOp); ok && un.Op == token.NOT {
						cmp, isCmp = un.X.(*ssa.BinOp)
						neg = true
					}
					good := false
					why := "the flag is not a single comparison"
					if isCmp && okW {
						lx, ok1 := linForm(cmp.X, name)
						ly, ok2 := linForm(cmp.Y, name)
						if ok1 && ok2 {
							// diff = X - Y ; expect ±(idx - len + 1)
							diff := map[string]int{}
							for k, v := range lx {
								diff[k] += v
							}
							for k, v := range ly {
								diff[k] -= v
							}
							exp := map[string]int{}
							for k, v := range want {
								exp[k] += v
							}
							exp["len"]--
							exp["#1"]++
							sign := 0
							if sameLin(diff, exp) {
								sign = 1
							} else {
								negExp := map[string]int{}
								for k, v := range exp {
									negExp[k] = -v
								}
								if sameLin(diff, negExp) {
									sign = -1
								}
							}
							op := cmp.Op
							switch {
							case sign == 0:
								why = "the comparison is not between the line's index and len(lines)-1"
							case !neg && (op == token.NEQ || (op == token.LSS && sign == 1) || (op == token.GTR && sign == -1)):
								good = true
							case neg && (op == token.EQL || (op == token.GEQ && sign == 1) || (op == token.LEQ && sign == -1)):
								good = true
							default:
								why = "the comparison has the wrong sense (" + op.String() + ")"
							}
						} else {
							why = "the operands of the comparison are not linear in the index and the length"
						}
					}
					if good {
						c.ok("C17-R8", key, p.relFile(call.Pos()), "a line is flagged inlined iff it is not the last line of its location", "flag = (index of the line read) ≠ len(lines)-1 in linear form")
					} else {
						c.bad("C17-R8", key, p.relFile(call.Pos()), fnName(g)+" flags a frame as inlined by something other than \"not the outermost line of its location\" ("+why+"): in a location with three or more lines the middle frames are reported as physical frames and merge with non-inlined sources of the same function")
					}
				}
			}
		}
		if n == 0 {
			c.undecided("C17-R8", "inlined-flag", p.relFile(mis.Pos()), "no call handing a line and an inlined flag to the source memo found in makeInitialStacks")
		}
	}
	if fp := c.anchorFn("C17-R9", "internal/report", "(*StackSet).fillPlaces"); fp != nil {
		n := 0
		for _, g := range withHelpers(fp, 1) {
			// the loop over a stack's sources: a loop whose body loads Stack.Sources elements
			for _, b := range g.Blocks {
				for _, ins := range b.Instrs {
					ia, ok := ins.(*ssa.IndexAddr)
					if !ok {
						continue
					}
					ld, ok := ia.X.(*ssa.UnOp)
					if !ok || !isFieldLoad(ld, "report.Stack", "Sources") {
						if f2, ok2 := ia.X.(*ssa.Field); !ok2 || f2.X.Type().String() == "" {
							continue
						} else if T, F := fieldOfValue(f2); T != "report.Stack" || F != "Sources" {
							continue
						}
					}
					inner := loopHeaderAround(b)
					if inner == nil || inner.Idom() == nil {
						continue
					}
					outer := loopHeaderAround(inner.Idom())
					if outer == nil {
						continue
					}
					n++
					if n > 1 {
						continue
					}
					if iterationSkips(outer, inner, func(ssa.Value) int { return 0 }) {
						c.bad("C17-R9", "places-every-stack", p.relFile(ia.Pos()), fnName(g)+" can finish a stack without walking its sources: a stack that holds only the root is not listed in the root's places, so the sum over the root's places is no longer the sum over all stacks")
					} else {
						c.ok("C17-R9", "places-every-stack", p.relFile(ia.Pos()), "the sources of every stack are indexed", "no path through an iteration of the loop over the stacks avoids the loop over that stack's sources")
					}
				}
			}
		}
		if n == 0 {
			c.undecided("C17-R9", "places-every-stack", p.relFile(fp.Pos()), "the nested loops (stacks, sources of a stack) of fillPlaces were not recognised")
		}
	}
	if st := c.anchorFn("C17-R10", "internal/report", "(*Report).Stacks"); st != nil {
		for _, name := range []string{"makeInitialStacks", "fillPlaces"} {
			var call ssa.Instruction
			for _, b := range st.Blocks {
				for _, ins := range b.Instrs {
					if cl, ok := ins.(*ssa.Call); ok && cl.Call.StaticCallee() != nil && cl.Call.StaticCallee().Name() == name {
						call = cl
					}
				}
			}
			key := "always-built:" + name
			if call == nil {
				c.undecided("C17-R10", key, p.relFile(st.Pos()), "Stacks no longer calls "+name)
				continue
			}
			bad := ""
			for _, b := range st.Blocks {
				if ret, ok := b.Instrs[len(b.Instrs)-1].(*ssa.Return); ok && !instrDominates(call, ret) {
					bad = p.relFile(ret.Pos())
				}
			}
			if bad != "" {
				c.bad("C17-R10", key, bad, "Stacks() can return without having called "+name+": the synthetic root is not installed and no stack is produced although the profile has samples (a total of 0 does not mean there is nothing to show: values can cancel or round to zero under -mean), so a client indexing Sources[0] finds nothing")
			} else {
				c.ok("C17-R10", key, p.relFile(call.Pos()), name+" runs before every return of Stacks()", "the call dominates each return")
			}
		}
	}
}

// fieldOfValue: owner type and name of the field selected by a Field instruction.
func fieldOfValue(f *ssa.Field) (string, string) {
	st, ok := f.X.Type().Underlying().(*types.Struct)
	if !ok || f.Field >= st.NumFields() {
		return "", ""
	}
	return typeShort(f.X.Type()), st.Field(f.Field).Name()
}

// elemFieldValues: elem is an element read from a slice of structs (by index or by range)
// that was built in the module - made in this function or returned by a helper - by storing
// whole records into its slots; the values those records had in the given field.
func elemFieldValues(elem ssa.Value, field int) []ssa.Value {
	ld, ok := elem.(*ssa.UnOp)
	if !ok {
		return nil
	}
	ia, ok := ld.X.(*ssa.IndexAddr)
	if !ok {
		return nil
	}
	var makes []*ssa.MakeSlice
	var origin func(v ssa.Value, d int)
	origin = func(v ssa.Value, d int) {
		if d > 4 {
			return
		}
		switch x := v.(type) {
		case *ssa.MakeSlice:
			makes = append(makes, x)
		case *ssa.Phi:
			for _, e := range x.Edges {
				origin(e, d+1)
			}
		case *ssa.Slice:
			origin(x.X, d+1)
		case *ssa.Call:
			if h := x.Call.StaticCallee(); h != nil && fnInModule(h) && len(h.Blocks) > 0 {
				for _, b := range h.Blocks {
					if ret, ok := b.Instrs[len(b.Instrs)-1].(*ssa.Return); ok && len(ret.Results) >= 1 {
						origin(ret.Results[0], d+1)
					}
				}
			}
		}
	}
	origin(ia.X, 0)
	var out []ssa.Value
	for _, mk := range makes {
		if mk.Referrers() == nil {
			continue
		}
		for _, r := range *mk.Referrers() {
			sia, ok := r.(*ssa.IndexAddr)
			if !ok || sia.Referrers() == nil {
				continue
			}
			for _, r2 := range *sia.Referrers() {
				// the record built in place: stores into the fields of the slot
				if fa, ok := r2.(*ssa.FieldAddr); ok && fa.Field == field && fa.Referrers() != nil {
					for _, r3 := range *fa.Referrers() {
						if st, ok := r3.(*ssa.Store); ok && st.Addr == ssa.Value(fa) {
							out = append(out, st.Val)
						}
					}
					continue
				}
				st, ok := r2.(*ssa.Store)
				if !ok || st.Addr != ssa.Value(sia) {
					continue
				}
				vals, ok := fieldValues(st.Val, field, 0)
				if !ok {
					return nil
				}
				out = append(out, vals...)
			}
		}
	}
	return out
}
