package main

// Module-level call graph.  Reachability never runs *through* standard-library code
// (the whole-program VTA graph connects, e.g., an http client call to every registered
// handler).  Instead, for a call from a module function:
//   - a static module callee is an edge;
//   - a dynamic call (interface method, function value) uses the VTA edges of that site;
//   - a call into non-module code adds edges to the callbacks handed over at the site:
//     function values among the arguments, and the methods of module types that are
//     passed (as interface or concrete values), since the callee may invoke them.

import (
	"go/types"

	"golang.org/x/tools/go/ssa"
)

type modGraph struct {
	inProgress map[*ssa.Function]bool
	p          *Program
	succ       map[*ssa.Function][]*ssa.Function
	addrTake   map[string][]*ssa.Function // signature string -> module functions used as values
	built      bool
}

func (p *Program) MG() *modGraph {
	if p.mg == nil {
		p.mg = &modGraph{p: p, succ: map[*ssa.Function][]*ssa.Function{}}
	}
	return p.mg
}

// funcValues resolves a function-typed value to the functions it may denote.
func (g *modGraph) funcValues(v ssa.Value, seen map[ssa.Value]bool) (fns []*ssa.Function, unknown bool) {
	if seen[v] {
		return nil, false
	}
	seen[v] = true
	switch x := v.(type) {
	case *ssa.Function:
		return []*ssa.Function{x}, false
	case *ssa.MakeClosure:
		return []*ssa.Function{x.Fn.(*ssa.Function)}, false
	case *ssa.Const:
		return nil, false
	case *ssa.ChangeType:
		return g.funcValues(x.X, seen)
	case *ssa.MakeInterface:
		return g.funcValues(x.X, seen)
	case *ssa.Phi:
		for _, e := range x.Edges {
			f, u := g.funcValues(e, seen)
			fns = append(fns, f...)
			unknown = unknown || u
		}
		return
	case *ssa.UnOp:
		if vals, ok := cellValues(x.X); ok {
			for _, e := range vals {
				f, u := g.funcValues(e, seen)
				fns = append(fns, f...)
				unknown = unknown || u
			}
			return
		}
	case *ssa.Call:
		// the result of a module function that builds the function value (a predicate
		// factory): what its returns hand back
		if h := x.Call.StaticCallee(); h != nil && fnInModule(h) && len(h.Blocks) > 0 && h.Signature.Results().Len() == 1 {
			n := 0
			for _, b := range h.Blocks {
				if ret, ok := b.Instrs[len(b.Instrs)-1].(*ssa.Return); ok {
					n++
					f, u := g.funcValues(ret.Results[0], seen)
					fns = append(fns, f...)
					unknown = unknown || u
				}
			}
			if n > 0 {
				return
			}
		}
	}
	return nil, true
}

func (g *modGraph) buildAddrTaken() {
	if g.addrTake != nil {
		return
	}
	g.addrTake = map[string][]*ssa.Function{}
	for f := range g.p.AllFns {
		if !fnInModule(f) || f.Blocks == nil {
			continue
		}
		for _, b := range f.Blocks {
			for _, ins := range b.Instrs {
				var ops []*ssa.Value
				ops = ins.Operands(ops)
				for i, op := range ops {
					if op == nil || *op == nil {
						continue
					}
					// skip the callee position of a call
					if ci, ok := ins.(ssa.CallInstruction); ok && i == 0 && !ci.Common().IsInvoke() {
						if _, isFn := (*op).(*ssa.Function); isFn {
							continue
						}
					}
					switch fv := (*op).(type) {
					case *ssa.Function:
						if fnInModule(fv) {
							k := fv.Signature.String()
							g.addrTake[k] = append(g.addrTake[k], fv)
						}
					case *ssa.MakeClosure:
						fn := fv.Fn.(*ssa.Function)
						k := fn.Signature.String()
						g.addrTake[k] = append(g.addrTake[k], fn)
					}
				}
			}
		}
	}
}

// methodsOf returns the module methods of the dynamic type t that a callee receiving it
// as static type iface may invoke (all methods when iface has no methods).
func (g *modGraph) methodsOf(t types.Type, iface *types.Interface) []*ssa.Function {
	n := namedOf(t)
	if n == nil || n.Obj().Pkg() == nil || !inModule(n.Obj().Pkg().Path()) {
		return nil
	}
	var out []*ssa.Function
	for _, tt := range []types.Type{t, types.NewPointer(n)} {
		ms := g.p.SSA.MethodSets.MethodSet(tt)
		for i := 0; i < ms.Len(); i++ {
			sel := ms.At(i)
			if !sel.Obj().Exported() {
				continue // code outside the module cannot name, and so cannot call, an unexported method
			}
			if iface != nil && iface.NumMethods() > 0 {
				found := false
				for j := 0; j < iface.NumMethods(); j++ {
					if iface.Method(j).Name() == sel.Obj().Name() {
						found = true
					}
				}
				if !found {
					continue
				}
			}
			if mf := g.p.SSA.MethodValue(sel); mf != nil {
				out = append(out, mf)
			}
		}
		if _, isPtr := t.(*types.Pointer); !isPtr {
			break // value in an interface: only the value method set is callable
		}
	}
	return out
}

func (g *modGraph) callbacksOf(f *ssa.Function, args []ssa.Value, params *types.Tuple, variadicRecvOffset int) []*ssa.Function {
	var out []*ssa.Function
	for i, a := range args {
		var pt types.Type
		pi := i - variadicRecvOffset
		if params != nil && pi >= 0 {
			if pi < params.Len() {
				pt = params.At(pi).Type()
			} else if params.Len() > 0 {
				pt = params.At(params.Len() - 1).Type()
			}
		}
		out = append(out, g.valueCallbacks(a, pt, map[ssa.Value]bool{})...)
	}
	return out
}

func (g *modGraph) valueCallbacks(a ssa.Value, paramType types.Type, seen map[ssa.Value]bool) []*ssa.Function {
	if seen[a] {
		return nil
	}
	seen[a] = true
	var out []*ssa.Function
	switch a.Type().Underlying().(type) {
	case *types.Signature:
		fns, unknown := g.funcValues(a, map[ssa.Value]bool{})
		out = append(out, fns...)
		if unknown {
			g.buildAddrTaken()
			out = append(out, g.addrTake[a.Type().Underlying().(*types.Signature).String()]...)
		}
		return out
	}
	var iface *types.Interface
	if paramType != nil {
		if sl, ok := paramType.Underlying().(*types.Slice); ok {
			paramType = sl.Elem()
		}
		iface, _ = paramType.Underlying().(*types.Interface)
	}
	switch x := a.(type) {
	case *ssa.MakeInterface:
		out = append(out, g.methodsOf(x.X.Type(), iface)...)
		// closures stored in struct fields handed over are not followed
		return out
	case *ssa.Slice:
		// variadic ...interface{} arguments: the elements stored in the backing array
		return append(out, g.arrayElems(x.X, iface)...)
	case *ssa.Phi:
		for _, e := range x.Edges {
			out = append(out, g.valueCallbacks(e, paramType, seen)...)
		}
		return out
	}
	if _, isIface := a.Type().Underlying().(*types.Interface); isIface {
		// interface value of unknown dynamic type: every module type implementing it
		it := a.Type().Underlying().(*types.Interface)
		if it.NumMethods() == 0 {
			return out
		}
		for _, t := range g.p.moduleNamedTypes() {
			for _, tt := range []types.Type{t, types.NewPointer(t)} {
				if types.Implements(tt, it) {
					out = append(out, g.methodsOf(tt, it)...)
					break
				}
			}
		}
		return out
	}
	// concrete module value passed directly (e.g. a receiver)
	out = append(out, g.methodsOf(a.Type(), iface)...)
	return out
}

func (g *modGraph) arrayElems(arr ssa.Value, iface *types.Interface) []*ssa.Function {
	al, ok := arr.(*ssa.Alloc)
	if !ok {
		return nil
	}
	var out []*ssa.Function
	for _, ref := range *al.Referrers() {
		ia, ok := ref.(*ssa.IndexAddr)
		if !ok {
			continue
		}
		for _, r2 := range *ia.Referrers() {
			if st, ok := r2.(*ssa.Store); ok && st.Addr == ia {
				out = append(out, g.valueCallbacks(st.Val, nil, map[ssa.Value]bool{})...)
			}
		}
	}
	return out
}

func (p *Program) moduleNamedTypes() []*types.Named {
	if p.modTypes != nil {
		return p.modTypes
	}
	for _, pk := range p.Pkgs {
		sc := pk.Types.Scope()
		for _, n := range sc.Names() {
			if tn, ok := sc.Lookup(n).(*types.TypeName); ok {
				if nt, ok := tn.Type().(*types.Named); ok && nt.TypeParams().Len() == 0 {
					p.modTypes = append(p.modTypes, nt)
				}
			}
		}
	}
	return p.modTypes
}

// Callees returns the module functions that f may call or hand to non-module code.
func (g *modGraph) Callees(f *ssa.Function) []*ssa.Function {
	if s, ok := g.succ[f]; ok {
		return s
	}
	if g.inProgress == nil {
		g.inProgress = map[*ssa.Function]bool{}
	}
	if g.inProgress[f] {
		return nil
	}
	g.inProgress[f] = true
	defer delete(g.inProgress, f)
	set := map[*ssa.Function]bool{}
	var out []*ssa.Function
	add := func(c *ssa.Function) {
		if c != nil && !set[c] && fnInModule(c) {
			set[c] = true
			out = append(out, c)
		}
	}
	vta := g.p.CG()
	for _, b := range f.Blocks {
		for _, ins := range b.Instrs {
			ci, ok := ins.(ssa.CallInstruction)
			if !ok {
				// closures created here are edges when they are stored rather than called
				// directly: covered at the site that invokes them, or when handed to
				// non-module code below.
				continue
			}
			cc := ci.Common()
			if _, isB := cc.Value.(*ssa.Builtin); isB {
				continue
			}
			var callees []*ssa.Function
			if sc := cc.StaticCallee(); sc != nil {
				callees = []*ssa.Function{sc}
			} else {
				callees = dynCallees(vta, f, ci)
			}
			for _, c := range callees {
				if fnInModule(c) {
					add(c)
					continue
				}
				// an instantiated generic of the standard library (slices.Contains,
				// slices.SortFunc, maps.Keys …) has a body in this program: what it calls back
				// is read off that body instead of being guessed from the argument types
				if len(c.TypeArgs()) > 0 && len(c.Blocks) > 0 {
					for _, cb := range g.Callees(c) {
						add(cb)
					}
					continue
				}
				// non-module callee: callbacks
				args := cc.Args
				off := 0
				var params *types.Tuple
				if c.Signature != nil {
					params = c.Signature.Params()
					if c.Signature.Recv() != nil && !cc.IsInvoke() {
						off = 1
					}
				}
				if cc.IsInvoke() {
					// receiver is cc.Value
					for _, cb := range g.valueCallbacks(cc.Value, nil, map[ssa.Value]bool{}) {
						add(cb)
					}
				}
				for _, cb := range g.callbacksOf(f, args, params, off) {
					add(cb)
				}
			}
		}
	}
	g.succ[f] = out
	return out
}

// Reach computes module functions reachable from roots; parent gives a BFS tree.
func (g *modGraph) Reach(roots []*ssa.Function, stop func(*ssa.Function) bool) (map[*ssa.Function]*ssa.Function, []*ssa.Function) {
	parent := map[*ssa.Function]*ssa.Function{}
	var order, queue []*ssa.Function
	for _, r := range roots {
		if r != nil {
			if _, ok := parent[r]; !ok {
				parent[r] = nil
				queue = append(queue, r)
			}
		}
	}
	for len(queue) > 0 {
		f := queue[0]
		queue = queue[1:]
		order = append(order, f)
		next := append([]*ssa.Function{}, g.Callees(f)...)
		// closures created by f: in scope even when the site invoking them is elsewhere
		next = append(next, f.AnonFuncs...)
		for _, c := range next {
			if _, ok := parent[c]; ok {
				continue
			}
			if stop != nil && stop(c) {
				continue
			}
			parent[c] = f
			queue = append(queue, c)
		}
	}
	return parent, order
}
