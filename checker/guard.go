package main

// A-GUARD: dominating-guard check for index and slice expressions.
//
// A site is an index x[i], a string index s[i], or a slice expression x[a:b] whose
// bounds are constants, len(x)-k, or variables.  It is discharged when the length it
// needs is established by the producer of x (literal, make, Split, append …) or by a
// comparison that dominates the site on the branch taken.  No solver: facts are read off
// comparison shapes and matched against the site by structural equality of pure
// expressions.

import (
	"fmt"
	"go/constant"
	"go/token"
	"go/types"
	"regexp/syntax"
	"strings"

	"golang.org/x/tools/go/ssa"
)

type guardSite struct {
	fn   *ssa.Function
	ins  ssa.Instruction
	x    ssa.Value // container
	desc string    // printable form, part of the key (free of local names)
	old  string    // legacy description (with local names), only used to migrate exception tables
	// requirement: one of
	needLen    int64     // len(x) >= needLen  (constant requirements)
	idx        ssa.Value // or: 0 <= idx < len(x) (variable index), idx <= len(x) for slice bounds
	idxIsBound bool      // slice bound (<=) instead of index (<)
}

type guardEngine struct {
	p        *Program
	regexLen map[*ssa.Global]int // package-level regexps: NumSubexp+1
	keyMemo  map[ssa.Value]string
	// search helpers that scan a field of their k-th parameter: the field's index
	searchField map[*ssa.Function]int
}

func newGuardEngine(p *Program) *guardEngine {
	g := &guardEngine{p: p, regexLen: map[*ssa.Global]int{}, keyMemo: map[ssa.Value]string{}, searchField: map[*ssa.Function]int{}}
	g.scanRegexps()
	return g
}

// scanRegexps evaluates package-level `var re = regexp.MustCompile(<const>)`.
func (g *guardEngine) scanRegexps() {
	for _, sp := range g.p.SSAPkgs {
		if !inModule(sp.Pkg.Path()) {
			continue
		}
		init := sp.Func("init")
		if init == nil {
			continue
		}
		for _, b := range init.Blocks {
			for _, ins := range b.Instrs {
				st, ok := ins.(*ssa.Store)
				if !ok {
					continue
				}
				gl, ok := st.Addr.(*ssa.Global)
				if !ok {
					continue
				}
				call, ok := st.Val.(*ssa.Call)
				if !ok || call.Call.StaticCallee() == nil || call.Call.StaticCallee().String() != "regexp.MustCompile" {
					continue
				}
				if pat, ok := constString(call.Call.Args[0]); ok {
					if re, err := syntax.Parse(pat, syntax.Perl); err == nil {
						g.regexLen[gl] = re.MaxCap() + 1
					}
				}
			}
		}
	}
}

// valKey renders a pure expression canonically ("" when v is not pure/recognised).
func (g *guardEngine) valKey(v ssa.Value) string {
	if k, ok := g.keyMemo[v]; ok {
		return k
	}
	k := g.valKey1(v, 0)
	g.keyMemo[v] = k
	return k
}

func (g *guardEngine) valKey1(v ssa.Value, depth int) string {
	if depth > 8 {
		return ""
	}
	switch x := v.(type) {
	case *ssa.Parameter:
		return "p:" + x.Name()
	case *ssa.FreeVar:
		return "fv:" + x.Name()
	case *ssa.Global:
		return "g:" + x.Name()
	case *ssa.Const:
		return "c:" + x.String()
	case *ssa.Alloc:
		return fmt.Sprintf("a:%s@%d", x.Comment, x.Pos())
	case *ssa.FieldAddr:
		b := g.valKey1(x.X, depth+1)
		if b == "" {
			return ""
		}
		_, f := fieldOf(x.X.Type(), x.Field)
		return b + "." + f
	case *ssa.Field:
		b := g.valKey1(x.X, depth+1)
		if b == "" {
			return ""
		}
		_, f := fieldOf(x.X.Type(), x.Field)
		return b + "." + f
	case *ssa.UnOp:
		if x.Op == token.MUL {
			b := g.valKey1(x.X, depth+1)
			if b == "" {
				return ""
			}
			return "*" + b
		}
	case *ssa.IndexAddr:
		b, i := g.valKey1(x.X, depth+1), g.valKey1(x.Index, depth+1)
		if b == "" || i == "" {
			return ""
		}
		return b + "[" + i + "]"
	case *ssa.TypeAssert:
		// a non-comma-ok assertion of a pure value to a fixed type is itself pure: m.(*T) twice
		// denotes the same object
		if !x.CommaOk {
			if b := g.valKey1(x.X, depth+1); b != "" && !strings.HasPrefix(b, "r:") {
				return b + ".(" + x.AssertedType.String() + ")"
			}
		}
		return fmt.Sprintf("r:%s", v.Name())
	case *ssa.Phi, *ssa.Call, *ssa.Extract, *ssa.Slice, *ssa.Lookup, *ssa.BinOp, *ssa.Convert, *ssa.ChangeType, *ssa.MakeSlice, *ssa.Index, *ssa.Next:
		// SSA registers are single-assignment: identity is the name within the function
		return fmt.Sprintf("r:%s", v.Name())
	}
	return ""
}

func (g *guardEngine) same(a, b ssa.Value) bool {
	if a == b {
		return true
	}
	ka, kb := g.valKey(a), g.valKey(b)
	return ka != "" && ka == kb && !strings.HasPrefix(ka, "r:")
}

// lenOfValue: if v is len(x) returns x.
func lenArg(v ssa.Value) ssa.Value {
	if cv, ok := v.(*ssa.Convert); ok {
		return lenArg(cv.X)
	}
	call, ok := v.(*ssa.Call)
	if !ok {
		return nil
	}
	if b, ok := call.Call.Value.(*ssa.Builtin); ok && b.Name() == "len" {
		return call.Call.Args[0]
	}
	return nil
}

// safeInt64: the value of an integer constant; a sentinel that equals no small number for
// nil and non-integer constants (Const.Int64 panics on those).
func safeInt64(k *ssa.Const) int64 {
	if k == nil || k.Value == nil || k.Value.Kind() != constant.Int {
		return -1 << 62
	}
	n, _ := constant.Int64Val(k.Value)
	return n
}

func constInt(v ssa.Value) (int64, bool) {
	k, ok := v.(*ssa.Const)
	if !ok || k.Value == nil || k.Value.Kind() != constant.Int {
		return 0, false
	}
	n, ok := constant.Int64Val(k.Value)
	return n, ok
}

// minLenByConstruction: a lower bound on len(x) implied by how x was produced.
func (g *guardEngine) minLenByConstruction(x ssa.Value, depth int) int64 {
	if depth > 6 {
		return 0
	}
	switch v := x.(type) {
	case *ssa.Const:
		if s, ok := constString(v); ok {
			return int64(len(s))
		}
	case *ssa.MakeSlice:
		if n, ok := constInt(v.Len); ok {
			return n
		}
		if add, ok := v.Len.(*ssa.BinOp); ok && add.Op == token.ADD {
			// k + (a count that cannot be negative)
			if k, ok := constInt(add.X); ok && k > 0 && nonNegInt(add.Y, 0, map[ssa.Value]bool{}) {
				return k
			}
			if k, ok := constInt(add.Y); ok && k > 0 && nonNegInt(add.X, 0, map[ssa.Value]bool{}) {
				return k
			}
			if lenArg(add.X) != nil {
				if k, ok := constInt(add.Y); ok && k > 0 {
					return k
				}
			}
			if lenArg(add.Y) != nil {
				if k, ok := constInt(add.X); ok && k > 0 {
					return k
				}
			}
		}
	case *ssa.UnOp:
		// element of a FindAll* result: every element has the full submatch length
		if v.Op == token.MUL {
			if ia, ok := v.X.(*ssa.IndexAddr); ok {
				if n := g.findAllElemLen(ia.X); n > 0 {
					return int64(n)
				}
			}
		}
	case *ssa.Slice:
		// array literal backing: [N]T sliced whole
		if al, ok := v.X.(*ssa.Alloc); ok && v.Low == nil && v.High == nil {
			if arr, ok := al.Type().Underlying().(*types.Pointer).Elem().Underlying().(*types.Array); ok {
				return arr.Len()
			}
		}
		lo, hi := int64(0), int64(-1)
		if v.Low != nil {
			if n, ok := constInt(v.Low); ok {
				lo = n
			} else {
				return 0
			}
		}
		if v.High != nil {
			if n, ok := constInt(v.High); ok {
				hi = n
			} else {
				return 0
			}
		}
		if hi >= 0 {
			return hi - lo
		}
		if m := g.minLenByConstruction(v.X, depth+1); m > lo {
			return m - lo
		}
	case *ssa.Call:
		if b, ok := v.Call.Value.(*ssa.Builtin); ok && b.Name() == "append" {
			n := g.minLenByConstruction(v.Call.Args[0], depth+1)
			if len(v.Call.Args) > 1 {
				n += g.minLenByConstruction(v.Call.Args[1], depth+1)
			}
			return n
		}
		if sc := v.Call.StaticCallee(); sc != nil {
			switch sc.String() {
			case "strings.Split", "strings.SplitN", "strings.SplitAfter", "bytes.Split":
				return 1
			}
		}
	case *ssa.Phi:
		min := int64(-1)
		for _, e := range v.Edges {
			if e == x {
				continue
			}
			m := g.minLenByConstruction(e, depth+1)
			if min < 0 || m < min {
				min = m
			}
		}
		if min > 0 {
			return min
		}
	case *ssa.Convert:
		return g.minLenByConstruction(v.X, depth+1)
	case *ssa.ChangeType:
		return g.minLenByConstruction(v.X, depth+1)
	case *ssa.Parameter:
		return g.paramMinLen(v, depth)
	}
	// the result of a module function every return of which hands back a value of known
	// minimum length (cmd := input[:1]; … return cmd, …)
	{
		var call *ssa.Call
		idx := 0
		switch v := x.(type) {
		case *ssa.Extract:
			call, _ = v.Tuple.(*ssa.Call)
			idx = v.Index
		case *ssa.Call:
			call = v
		}
		if call != nil && depth < 3 {
			if h := call.Call.StaticCallee(); h != nil && fnInModule(h) && len(h.Blocks) > 0 {
				min := int64(-1)
				for _, b := range h.Blocks {
					ret, ok := b.Instrs[len(b.Instrs)-1].(*ssa.Return)
					if !ok || idx >= len(ret.Results) {
						continue
					}
					m := g.minLenByConstruction(ret.Results[idx], depth+1)
					if min < 0 || m < min {
						min = m
					}
				}
				if min > 0 {
					return min
				}
			}
		}
	}
	// a slice whose length is a known constant (made, cut, or returned by a helper with it)
	switch x.(type) {
	case *ssa.Extract, *ssa.Call, *ssa.Slice:
		if n := g.symLen(x, depth); n != nil {
			if k, ok := constInt(n); ok && k > 0 {
				return k
			}
		}
	}
	// field of an object handed in as a parameter: what the callers' guards establish about
	// that field of their argument
	if ld, ok := x.(*ssa.UnOp); ok && ld.Op == token.MUL && depth < 2 {
		if fa, ok := ld.X.(*ssa.FieldAddr); ok {
			if par, ok := fa.X.(*ssa.Parameter); ok {
				if m := g.paramFieldMinLen(par, fa.Field, depth); m > 0 {
					return m
				}
			}
		}
	}
	// field of a struct allocated in this function, assigned exactly once
	if ld, ok := x.(*ssa.UnOp); ok && ld.Op == token.MUL {
		if fa, ok := ld.X.(*ssa.FieldAddr); ok {
			if al, ok := fa.X.(*ssa.Alloc); ok {
				var vals []ssa.Value
				for _, r := range *al.Referrers() {
					if fa2, ok := r.(*ssa.FieldAddr); ok && fa2.Field == fa.Field {
						for _, r2 := range *fa2.Referrers() {
							if st, ok := r2.(*ssa.Store); ok && st.Addr == fa2 {
								vals = append(vals, st.Val)
							}
						}
					}
				}
				if len(vals) == 1 {
					return g.minLenByConstruction(vals[0], depth+1)
				}
			}
		}
	}
	return 0
}

// paramMinLen: the smallest length any static caller passes for this parameter (0 when
// the function is used as a value or has no static caller).
func (g *guardEngine) paramMinLen(par *ssa.Parameter, depth int) int64 {
	f := par.Parent()
	idx := -1
	for i, q := range f.Params {
		if q == par {
			idx = i
		}
	}
	if idx < 0 || depth > 3 {
		return 0
	}
	min := int64(-1)
	for h := range g.p.AllFns {
		if !fnInModule(h) || h.Blocks == nil {
			continue
		}
		for _, b := range h.Blocks {
			for _, ins := range b.Instrs {
				var ops []*ssa.Value
				for _, op := range ins.Operands(ops) {
					if op == nil || *op != ssa.Value(f) {
						continue
					}
					call, ok := ins.(ssa.CallInstruction)
					if !ok || call.Common().StaticCallee() != f {
						return 0 // used as a value
					}
					if idx >= len(call.Common().Args) {
						return 0
					}
					m := g.minLenByConstruction(call.Common().Args[idx], depth+1)
					// a length test that guards the call in the caller
					if depth < 2 {
						if gm := g.guardedMin(guardSite{fn: h, ins: ins, x: call.Common().Args[idx]}, call.Common().Args[idx]); gm > m {
							m = gm
						}
					}
					if min < 0 || m < min {
						min = m
					}
				}
			}
		}
	}
	if min < 0 {
		return 0
	}
	return min
}

type lenFact struct {
	x        ssa.Value
	min      int64     // len(x) >= min
	gtIdx    ssa.Value // len(x) > gtIdx
	geIdx    ssa.Value // len(x) >= geIdx
	exact    int64     // len(x) == exact when exactSet
	exactSet bool
	neq      int64 // len(x) != neq when neqSet
	neqSet   bool
	eqLenOf  ssa.Value // len(x) == len(eqLenOf)
}

// factsFromCond derives length facts from cond being true (pol) or false (!pol).
func (g *guardEngine) factsFromCond(cond ssa.Value, pol bool) []lenFact {
	switch c := cond.(type) {
	case *ssa.Phi:
		// a || b / a && b computed as a value: when the constant edges all carry the other
		// outcome, the value came through the one remaining edge, so that operand has the
		// outcome and everything known on entry to its block holds
		if e, pred := soleLiveEdge(c, pol); e != nil {
			return append(g.factsFromCond(e, pol), g.factsAt(pred)...)
		}
		return nil
	case *ssa.UnOp:
		if c.Op == token.NOT {
			return g.factsFromCond(c.X, !pol)
		}
	case *ssa.Call:
		if sc := c.Call.StaticCallee(); sc != nil && pol {
			switch sc.String() {
			case "strings.HasPrefix", "strings.HasSuffix", "bytes.HasPrefix":
				if s, ok := constString(c.Call.Args[1]); ok {
					return []lenFact{{x: c.Call.Args[0], min: int64(len(s))}}
				}
			}
			// a boolean module helper that answers false whenever a slice argument is shorter
			// than k: its true outcome establishes len >= k
			if fnInModule(sc) && len(sc.Blocks) > 0 && len(sc.Params) == len(c.Call.Args) && sc.Signature.Results().Len() == 1 {
				var out []lenFact
				for i, par := range sc.Params {
					if _, isSlice := par.Type().Underlying().(*types.Slice); !isSlice {
						continue
					}
					best := int64(0)
					for _, hb := range sc.Blocks {
						for _, hi := range hb.Instrs {
							cmp, ok := hi.(*ssa.BinOp)
							if !ok {
								continue
							}
							var k int64
							var isK bool
							lenLeft := false
							if lenArg(cmp.X) == ssa.Value(par) {
								k, isK = constInt(cmp.Y)
								lenLeft = true
							} else if lenArg(cmp.Y) == ssa.Value(par) {
								k, isK = constInt(cmp.X)
							}
							if !isK {
								continue
							}
							op := cmp.Op
							if !lenLeft {
								switch op {
								case token.LSS:
									op = token.GTR
								case token.LEQ:
									op = token.GEQ
								case token.GTR:
									op = token.LSS
								case token.GEQ:
									op = token.LEQ
								}
							}
							// the bound m such that this comparison separates len < m from len >= m,
							// and the comparison's value when len < m
							var m int64
							short := 0
							switch op {
							case token.LSS: // len < k
								m, short = k, 1
							case token.LEQ: // len <= k
								m, short = k+1, 1
							case token.GTR: // len > k
								m, short = k+1, -1
							case token.GEQ: // len >= k
								m, short = k, -1
							default:
								continue
							}
							the := cmp
							if boolResultUnder(sc, func(cond ssa.Value) int {
								if cond == ssa.Value(the) {
									return short
								}
								return 0
							}) == -1 && m > best {
								best = m
							}
						}
					}
					if best > 0 {
						out = append(out, lenFact{x: c.Call.Args[i], min: best})
					}
				}
				if len(out) > 0 {
					return out
				}
			}
		}
	case *ssa.BinOp:
		op := c.Op
		l, r := c.X, c.Y
		if !pol {
			switch op {
			case token.EQL:
				op = token.NEQ
			case token.NEQ:
				op = token.EQL
			case token.LSS:
				op = token.GEQ
			case token.LEQ:
				op = token.GTR
			case token.GTR:
				op = token.LEQ
			case token.GEQ:
				op = token.LSS
			default:
				return nil
			}
		}
		// normalise so that len(x) is on the left
		if lenArg(l) == nil && lenArg(r) != nil {
			l, r = r, l
			switch op {
			case token.LSS:
				op = token.GTR
			case token.LEQ:
				op = token.GEQ
			case token.GTR:
				op = token.LSS
			case token.GEQ:
				op = token.LEQ
			}
		}
		if x := lenArg(l); x != nil {
			// len(x) == len(y)
			if y := lenArg(r); y != nil && op == token.EQL {
				return []lenFact{{x: x, eqLenOf: y}, {x: y, eqLenOf: x}}
			}
			if k, ok := constInt(r); ok {
				switch op {
				case token.EQL:
					return []lenFact{{x: x, min: k, exact: k, exactSet: true}}
				case token.GTR:
					return []lenFact{{x: x, min: k + 1}}
				case token.GEQ:
					return []lenFact{{x: x, min: k}}
				case token.NEQ:
					if k == 0 {
						return []lenFact{{x: x, min: 1}}
					}
					return []lenFact{{x: x, neq: k, neqSet: true}}
				}
				return nil
			}
			switch op {
			case token.GTR:
				if rangeIndex(r) {
					return []lenFact{{x: x, gtIdx: r, min: 1}}
				}
				return []lenFact{{x: x, gtIdx: r}}
			case token.GEQ:
				return []lenFact{{x: x, geIdx: r}}
			}
			return nil
		}
		// idx < len(x) written with len on the right was normalised above; string emptiness:
		if s, ok := constString(r); ok && s == "" && op == token.NEQ {
			return []lenFact{{x: l, min: 1}}
		}
		if s, ok := constString(l); ok && s == "" && op == token.NEQ {
			return []lenFact{{x: r, min: 1}}
		}
		// regexp submatch: m != nil  ⇒ len(m) == NumSubexp+1
		if op == token.NEQ {
			var v ssa.Value
			if k, ok := r.(*ssa.Const); ok && k.IsNil() {
				v = l
			} else if k, ok := l.(*ssa.Const); ok && k.IsNil() {
				v = r
			}
			if v != nil {
				if n := g.submatchLen(v); n > 0 {
					return []lenFact{{x: v, min: int64(n), exact: int64(n), exactSet: true}}
				}
			}
		}
	}
	return nil
}

// findAllElemLen: v is the result of re.FindAll*(…) for a package-level re; returns the
// length of each element.
func (g *guardEngine) findAllElemLen(v ssa.Value) int {
	call, ok := v.(*ssa.Call)
	if !ok || call.Call.StaticCallee() == nil {
		return 0
	}
	switch call.Call.StaticCallee().String() {
	case "(*regexp.Regexp).FindAllStringSubmatch", "(*regexp.Regexp).FindAllSubmatch":
		return g.regexpOf(call.Call.Args[0])
	case "(*regexp.Regexp).FindAllStringSubmatchIndex", "(*regexp.Regexp).FindAllSubmatchIndex":
		return 2 * g.regexpOf(call.Call.Args[0])
	case "(*regexp.Regexp).FindAllStringIndex", "(*regexp.Regexp).FindAllIndex":
		return 2
	}
	return 0
}

// submatchLen: v is the result of re.FindStringSubmatch(…) for a package-level re.
func (g *guardEngine) submatchLen(v ssa.Value) int {
	call, ok := v.(*ssa.Call)
	if !ok || call.Call.StaticCallee() == nil {
		return 0
	}
	switch call.Call.StaticCallee().String() {
	case "(*regexp.Regexp).FindStringSubmatch", "(*regexp.Regexp).FindSubmatch":
	case "(*regexp.Regexp).FindStringSubmatchIndex", "(*regexp.Regexp).FindSubmatchIndex":
		if n := g.regexpOf(call.Call.Args[0]); n > 0 {
			return 2 * n
		}
		return 0
	case "(*regexp.Regexp).FindStringIndex", "(*regexp.Regexp).FindIndex":
		return 2
	default:
		return 0
	}
	return g.regexpOf(call.Call.Args[0])
}

func (g *guardEngine) regexpOf(v ssa.Value) int {
	if ld, ok := v.(*ssa.UnOp); ok && ld.Op == token.MUL {
		if gl, ok := ld.X.(*ssa.Global); ok {
			return g.regexLen[gl]
		}
	}
	return 0
}

// factsAt collects the facts that hold on entry to block b (from dominating branches).
func (g *guardEngine) factsAt(b *ssa.BasicBlock) []lenFact {
	var out []lenFact
	for d := b; d != nil; d = d.Idom() {
		id := d.Idom()
		if id == nil || len(id.Instrs) == 0 {
			continue
		}
		iff, ok := id.Instrs[len(id.Instrs)-1].(*ssa.If)
		if !ok {
			continue
		}
		// d is entered only through one edge of id?
		if len(d.Preds) == 1 && d.Preds[0] == id {
			if id.Succs[0] == d && id.Succs[1] != d {
				out = append(out, g.factsFromCond(iff.Cond, true)...)
			} else if id.Succs[1] == d && id.Succs[0] != d {
				out = append(out, g.factsFromCond(iff.Cond, false)...)
			}
		}
	}
	return out
}

// earlyExitFacts: facts established by `if cond { return/continue/panic }` blocks that
// precede b: for an If in a dominator whose one successor cannot reach b, the other
// polarity holds at b.
func (g *guardEngine) earlyExitFacts(b *ssa.BasicBlock) []lenFact {
	var out []lenFact
	for d := b.Idom(); d != nil; d = d.Idom() {
		if len(d.Instrs) == 0 {
			continue
		}
		iff, ok := d.Instrs[len(d.Instrs)-1].(*ssa.If)
		if !ok {
			continue
		}
		t, f := d.Succs[0], d.Succs[1]
		tr := t == b || blockReachesAvoid(t, b, d)
		fr := f == b || blockReachesAvoid(f, b, d)
		if tr && !fr {
			out = append(out, g.factsFromCond(iff.Cond, true)...)
		} else if fr && !tr {
			out = append(out, g.factsFromCond(iff.Cond, false)...)
		}
	}
	return out
}

func blockReachesAvoid(from, to, avoid *ssa.BasicBlock) bool {
	if from == to {
		return true
	}
	seen := map[*ssa.BasicBlock]bool{avoid: true}
	var walk func(b *ssa.BasicBlock) bool
	walk = func(b *ssa.BasicBlock) bool {
		if b == to {
			return true
		}
		if seen[b] {
			return false
		}
		seen[b] = true
		for _, s := range b.Succs {
			if walk(s) {
				return true
			}
		}
		return false
	}
	return walk(from)
}

// guardedMin: the largest lower bound on len(x) implied by dominating branches and by
// earlier index/slice operations on the same value that dominate the site.
func (g *guardEngine) guardedMin(s guardSite, x ssa.Value) int64 {
	var min int64
	neq := map[int64]bool{}
	for _, f := range append(g.factsAt(s.ins.Block()), g.earlyExitFacts(s.ins.Block())...) {
		if f.x == nil || !g.same(f.x, x) {
			continue
		}
		if f.min > min {
			min = f.min
		}
		if f.neqSet {
			neq[f.neq] = true
		}
	}
	if m := g.minLenByConstruction(x, 0); m > min {
		min = m
	}
	// an index or slice on the same value that dominates this site has already succeeded
	for _, o := range g.collectSites(s.fn, true) {
		if o.ins == s.ins || o.idx != nil || !g.same(o.x, x) {
			continue
		}
		if instrDominates(o.ins, s.ins) && o.needLen > min {
			min = o.needLen
		}
	}
	for neq[min] {
		min++
	}
	return min
}

// dischargeBasic: discharge without using other sites (avoids recursion).
func (g *guardEngine) dischargeBasic(s guardSite) string {
	if s.idx != nil {
		return ""
	}
	if m := g.minLenByConstruction(s.x, 0); m >= s.needLen {
		return "by construction"
	}
	var min int64
	for _, f := range append(g.factsAt(s.ins.Block()), g.earlyExitFacts(s.ins.Block())...) {
		if f.x != nil && g.same(f.x, s.x) && f.min > min {
			min = f.min
		}
	}
	if min >= s.needLen {
		return "guard"
	}
	return ""
}

// discharge returns "" when undecided, else the argument.
func (g *guardEngine) discharge(s guardSite) string {
	x := s.x
	if dbgGuard {
		b := s.ins.Block()
		fmt.Printf("DBG site %s idx=%v facts=%d early=%d block=%d idom=%v preds=%d fn=%s\n", s.desc, s.idx, len(g.factsAt(b)), len(g.earlyExitFacts(b)), b.Index, b.Idom(), len(b.Preds), s.ins.Parent())
		if id := b.Idom(); id != nil {
			fmt.Printf("DBG   idom last=%v succs=%v\n", id.Instrs[len(id.Instrs)-1], id.Succs)
		}
	}
	// look through re-slicing of the same value for facts about the original? no: facts are per value
	if s.idx == nil {
		if s.needLen <= 0 {
			return "no length needed"
		}
		if m := g.minLenByConstruction(x, 0); m >= s.needLen {
			return fmt.Sprintf("producer guarantees len >= %d", m)
		}
		if m := g.guardedMin(s, x); m >= s.needLen {
			return fmt.Sprintf("dominating guard establishes len >= %d", m)
		}
		if s.needLen == 1 && g.ensuredNonEmpty(s, x) {
			return "ensure-non-empty idiom: a dominating `if len(x.F) == 0 { x.F = <non-empty> }` precedes the site"
		}
		if m := g.storedMinLen(s, x); m >= s.needLen {
			return fmt.Sprintf("the field was just assigned a value of length >= %d (append of an element, or a callee that appends on success)", m)
		}
		if s.needLen == 1 && g.validIndexExists(s, x) {
			return "an index of the same slice returned by a search helper is known to be >= 0 here, so the slice is not empty"
		}
		return g.dischargeBySymLen(s)
	}
	// the index was returned by a search helper (an index of its slice argument, or a negative
	// constant for "not found") and is tested to be non-negative
	// x[:k+copy(x[k:], …)]: copy returns at most len(x[k:]) = len(x)-k
	if s.idxIsBound {
		if add, ok := s.idx.(*ssa.BinOp); ok && add.Op == token.ADD {
			for _, pair := range [][2]ssa.Value{{add.X, add.Y}, {add.Y, add.X}} {
				k, isK := constInt(pair[0])
				cp, isCall := pair[1].(*ssa.Call)
				if !isK || !isCall || k < 0 {
					continue
				}
				if bi, ok := cp.Call.Value.(*ssa.Builtin); !ok || bi.Name() != "copy" {
					continue
				}
				if dst, ok := cp.Call.Args[0].(*ssa.Slice); ok && dst.High == nil && (dst.X == x || g.same(dst.X, x)) {
					if lo, ok := constInt(dst.Low); ok && lo == k {
						return "bound k + copy(x[k:], …): the count copied is at most len(x)-k"
					}
				}
			}
		}
	}
	// the index was returned by slices.Index / IndexFunc over the same slice and is used only
	// where it is known to be >= 0 (it is then smaller than the length)
	if call, ok := s.idx.(*ssa.Call); ok {
		if sc := call.Call.StaticCallee(); sc != nil && fnPkgPath(sc) == "slices" && strings.HasPrefix(sc.Name(), "Index") && len(call.Call.Args) == 2 && (call.Call.Args[0] == x || g.same(call.Call.Args[0], x)) && g.intMinFrom(call, s.ins.Block(), -1) >= 0 {
			return "position returned by slices." + sc.Name() + " over the same slice, used only where it is >= 0"
		}
	}
	// the index was returned by strings.Index & co. over the same string and is used only
	// where it is known to be >= 0: 0 <= r <= len(s) for a bound, r < len(s) for an element
	// when the needle cannot be empty
	if call, ok := s.idx.(*ssa.Call); ok {
		if sc := call.Call.StaticCallee(); sc != nil && (fnPkgPath(sc) == "strings" || fnPkgPath(sc) == "bytes") && strings.Contains(sc.Name(), "Index") && len(call.Call.Args) == 2 && (call.Call.Args[0] == x || g.same(call.Call.Args[0], x)) && g.intMinFrom(call, s.ins.Block(), -1) >= 0 {
			nonEmptyNeedle := strings.HasSuffix(sc.Name(), "Byte") || strings.HasSuffix(sc.Name(), "Rune")
			if k, ok := constString(call.Call.Args[1]); ok && k != "" {
				nonEmptyNeedle = true
			}
			if s.idxIsBound || nonEmptyNeedle {
				return "position returned by " + sc.Name() + " over the same string, used only where it is >= 0"
			}
		}
	}
	if call, ok := s.idx.(*ssa.Call); ok && !s.idxIsBound {
		if k, ok := g.indexResultOver(call); ok && k < len(call.Call.Args) && g.searchedIs(call, k, x) && g.intMinFrom(call, s.ins.Block(), -1) >= 0 {
			return "index returned by a search helper over the same slice, used only where it is >= 0"
		}
	}
	// the length of x is a known value n (x = make(T, n), possibly built by a helper, or nil
	// when n == 0): facts about n and loops bounded by n discharge the site
	if why := g.dischargeBySymLen(s); why != "" {
		return why
	}
	// a bound that is a capped length of the same value: min(len(x), k), or
	// `n := len(x); if n > k { n = k }`
	if s.idxIsBound && g.leLen(s.idx, x, 0) {
		return "slice bound is len(x) capped from above"
	}
	// index i (or bound i+1) for the index i of a forward loop over x[:h] with h <= len(x)
	{
		iv := s.idx
		if add, ok := iv.(*ssa.BinOp); ok && s.idxIsBound && add.Op == token.ADD {
			if k, ok := constInt(add.Y); ok && k == 1 {
				iv = add.X
			}
		}
		if bound, ok := forwardIndex(iv); ok {
			if y := lenSlice(bound); y != nil {
				if sl, ok := y.(*ssa.Slice); ok && sl.Low == nil && (sl.X == x || g.same(sl.X, x)) && sl.High != nil && g.leLen(sl.High, x, 0) {
					return "index of a forward loop over a capped prefix of the same value"
				}
				if iv != s.idx && (y == x || g.same(y, x)) {
					return "slice bound i+1 for the index i of a forward loop over the same value"
				}
				if y != x && g.prefixOf(y, x, 0) {
					return "index of a forward loop over a prefix of the same value"
				}
				// a loop over y after len(x) == len(y) was established
				for _, f := range append(g.factsAt(s.ins.Block()), g.earlyExitFacts(s.ins.Block())...) {
					if f.eqLenOf != nil && f.x != nil && (f.x == x || g.same(f.x, x)) && (f.eqLenOf == y || g.same(f.eqLenOf, y)) {
						return "index of a forward loop over a slice whose length was checked to equal this one's"
					}
				}
			}
		}
	}
	// variable index
	if rangeIndex(s.idx) {
		// the loop header compares idx < len(x') with x' ≡ x
		if hdr := s.idx.(*ssa.BinOp).Block(); hdr != nil {
			for _, ins := range hdr.Instrs {
				if cmp, ok := ins.(*ssa.BinOp); ok && cmp.Op == token.LSS && cmp.X == s.idx {
					if lx := lenArg(cmp.Y); lx != nil && (g.same(lx, x) || g.sameThroughSlice(lx, x)) {
						return "index of a range loop over the same value"
					}
				}
			}
		}
	}
	for _, f := range append(g.factsAt(s.ins.Block()), g.earlyExitFacts(s.ins.Block())...) {
		if dbgGuard {
			fmt.Printf("DBG fact x=%v same=%v gtIdx=%v geIdx=%v min=%d | site x=%v key=%q idx=%v\n", f.x, f.x != nil && g.same(f.x, x), f.gtIdx, f.geIdx, f.min, x, g.valKey(x), s.idx)
		}
		if f.x == nil || !g.same(f.x, x) {
			continue
		}
		if f.gtIdx != nil && (f.gtIdx == s.idx || g.same(f.gtIdx, s.idx) || sameModConvert(f.gtIdx, s.idx)) {
			// an index that a call handed back (a search or a lookup by name) can be negative:
			// idx < len alone does not make it valid
			if signUnknownCallResult(s.idx) && !nonNegInt(s.idx, 0, map[ssa.Value]bool{}) && g.intMinFrom(s.idx, s.ins.Block(), -1) < 0 {
				continue
			}
			return "dominating guard idx < len"
		}
		if f.geIdx != nil && !s.idxIsBound {
			// idx <= len is not enough for an index
		}
		if s.idxIsBound && f.gtIdx != nil {
			// bound = idx+1 with idx < len
			if add, ok := s.idx.(*ssa.BinOp); ok && add.Op == token.ADD {
				if k, ok := constInt(add.Y); ok && k == 1 && (add.X == f.gtIdx || g.same(add.X, f.gtIdx)) {
					return "slice bound idx+1 under dominating guard idx < len"
				}
			}
			if f.gtIdx == s.idx || g.same(f.gtIdx, s.idx) {
				return "slice bound under dominating guard bound < len"
			}
		}
		if s.idxIsBound && f.geIdx != nil && sameModConvert(f.geIdx, s.idx) {
			return "dominating guard bound <= len"
		}
		if s.idxIsBound && f.geIdx != nil && (f.geIdx == s.idx || g.same(f.geIdx, s.idx)) {
			return "dominating guard bound <= len"
		}
	}
	// the element just appended: x.f = append(y, e…); x.f[len(y)]
	if y := lenArg(s.idx); y != nil && !s.idxIsBound {
		if st := g.dominatingFieldStore(s, x); st != nil {
			if call, ok := st.Val.(*ssa.Call); ok {
				if bi, ok := call.Call.Value.(*ssa.Builtin); ok && bi.Name() == "append" && len(call.Call.Args) == 2 && (call.Call.Args[0] == y || g.same(call.Call.Args[0], y)) && g.minLenByConstruction(call.Call.Args[1], 0) >= 1 {
					return "index of the element just appended (len of the slice before the append)"
				}
			}
		}
	}
	// len(x)-k with len(x) >= k established
	if sub, ok := s.idx.(*ssa.BinOp); ok && sub.Op == token.SUB {
		if lx := lenArg(sub.X); lx != nil && g.same(lx, x) {
			if k, ok := constInt(sub.Y); ok && k >= 1 {
				if m := g.storedMinLen(s, x); m >= k {
					return fmt.Sprintf("len-%d right after the field was assigned a value of length >= %d", k, m)
				}
				if m := g.minLenByConstruction(x, 0); m >= k {
					return fmt.Sprintf("len-%d with len >= %d by construction", k, m)
				}
				for _, f := range append(g.factsAt(s.ins.Block()), g.earlyExitFacts(s.ins.Block())...) {
					if f.x != nil && g.same(f.x, x) && f.min >= k {
						return fmt.Sprintf("len-%d under a dominating guard len >= %d", k, f.min)
					}
				}
			}
		}
	}
	return ""
}

// stripSafeConvert removes integer conversions that cannot change the mathematical value:
// same signedness to an equal or wider type, or unsigned to a strictly wider signed type.
// uint64 → int (which can turn a huge length into a negative number) is NOT stripped.
func stripSafeConvert(v ssa.Value) ssa.Value {
	for {
		c, ok := v.(*ssa.Convert)
		if !ok {
			return v
		}
		src, ok1 := c.X.Type().Underlying().(*types.Basic)
		dst, ok2 := c.Type().Underlying().(*types.Basic)
		if !ok1 || !ok2 || src.Info()&types.IsInteger == 0 || dst.Info()&types.IsInteger == 0 {
			return v
		}
		ss, ds := intSize(src), intSize(dst)
		su, du := src.Info()&types.IsUnsigned != 0, dst.Info()&types.IsUnsigned != 0
		safe := (su == du && ds >= ss) || (su && !du && ds > ss)
		// a non-negative length converted to an unsigned type of at least the same size
		if !safe && !su && du && ds >= ss && lenArg(c.X) != nil {
			safe = true
		}
		if !safe {
			return v
		}
		v = c.X
	}
}

func intSize(b *types.Basic) int {
	switch b.Kind() {
	case types.Int8, types.Uint8:
		return 8
	case types.Int16, types.Uint16:
		return 16
	case types.Int32, types.Uint32:
		return 32
	default:
		return 64
	}
}

func sameModConvert(a, b ssa.Value) bool {
	return stripSafeConvert(a) == stripSafeConvert(b)
}

func (g *guardEngine) sameThroughSlice(a, b ssa.Value) bool {
	return false
}

// collectSites lists the index/slice sites of f.
func (g *guardEngine) collectSites(f *ssa.Function, constOnly bool) []guardSite {
	var out []guardSite
	add := func(ins ssa.Instruction, x ssa.Value, what [2]string, need int64, idx ssa.Value, bound bool) {
		out = append(out, guardSite{fn: f, ins: ins, x: x, desc: what[0], old: what[1], needLen: need, idx: idx, idxIsBound: bound})
	}
	both := func(format string, x ssa.Value, rest ...interface{}) [2]string {
		// rest may contain an ssa.Value (index expression) or plain values
		var a1, a2 []interface{}
		a1 = append(a1, stableDesc(x))
		a2 = append(a2, describeValue(x))
		for _, r := range rest {
			if v, ok := r.(ssa.Value); ok {
				a1 = append(a1, stableIdx(v))
				a2 = append(a2, describeIdx(v))
			} else {
				a1 = append(a1, r)
				a2 = append(a2, r)
			}
		}
		return [2]string{fmt.Sprintf(format, a1...), fmt.Sprintf(format, a2...)}
	}
	for _, b := range f.Blocks {
		for _, ins := range b.Instrs {
			switch x := ins.(type) {
			case *ssa.Slice:
				if _, isArr := x.X.Type().Underlying().(*types.Pointer); isArr {
					continue
				}
				for _, bd := range []struct {
					v    ssa.Value
					name string
				}{{x.Low, "low"}, {x.High, "high"}} {
					if bd.v == nil {
						continue
					}
					if k, ok := constInt(bd.v); ok {
						if k > 0 {
							add(ins, x.X, both("%s[%s=%d]", x.X, bd.name, k), k, nil, true)
						}
					} else if !constOnly || isLenMinus(bd.v) {
						add(ins, x.X, both("%s[%s=%s]", x.X, bd.name, bd.v), 0, bd.v, true)
					}
				}
			case *ssa.IndexAddr:
				if _, isArr := x.X.Type().Underlying().(*types.Pointer); isArr {
					continue
				}
				if k, ok := constInt(x.Index); ok {
					add(ins, x.X, both("%s[%d]", x.X, k), k+1, nil, false)
				} else if !constOnly || isLenMinus(x.Index) {
					add(ins, x.X, both("%s[%s]", x.X, x.Index), 0, x.Index, false)
				}
			case *ssa.Lookup:
				if _, isMap := x.X.Type().Underlying().(*types.Map); isMap {
					continue
				}
				if k, ok := constInt(x.Index); ok {
					add(ins, x.X, both("%s[%d]", x.X, k), k+1, nil, false)
				} else if !constOnly || isLenMinus(x.Index) {
					add(ins, x.X, both("%s[%s]", x.X, x.Index), 0, x.Index, false)
				}
			case *ssa.Index:
				// string index (arrays are in range by type for constant indices)
				if bt, ok := x.X.Type().Underlying().(*types.Basic); !ok || bt.Info()&types.IsString == 0 {
					continue
				}
				if k, ok := constInt(x.Index); ok {
					add(ins, x.X, both("%s[%d]", x.X, k), k+1, nil, false)
				} else if !constOnly || isLenMinus(x.Index) {
					add(ins, x.X, both("%s[%s]", x.X, x.Index), 0, x.Index, false)
				}
			}
		}
	}
	return out
}

func isLenMinus(v ssa.Value) bool {
	sub, ok := v.(*ssa.BinOp)
	return ok && sub.Op == token.SUB && lenArg(sub.X) != nil
}

func describeIdx(v ssa.Value) string {
	if sub, ok := v.(*ssa.BinOp); ok {
		return describeIdx(sub.X) + sub.Op.String() + describeIdx(sub.Y)
	}
	if lx := lenArg(v); lx != nil {
		return "len(" + describeValue(lx) + ")"
	}
	if k, ok := v.(*ssa.Const); ok {
		return k.Value.String()
	}
	if p, ok := v.(*ssa.Phi); ok {
		return "φ" + p.Comment
	}
	return describeValue(v)
}

// ensuredNonEmpty recognises the idiom
//
//	if len(o.F) == 0 { o.F = <value with at least one element> }
//	... o.F[0] ...
//
// The test must be exactly the emptiness of the field (no further conjunct), its taken
// branch must store a non-empty value into the same field of the same object and fall
// through to the join, and the join must dominate the site.
func (g *guardEngine) ensuredNonEmpty(s guardSite, x ssa.Value) bool {
	ld, ok := x.(*ssa.UnOp)
	if !ok || ld.Op != token.MUL {
		return false
	}
	fa, ok := ld.X.(*ssa.FieldAddr)
	if !ok {
		return false
	}
	for d := s.ins.Block().Idom(); d != nil; d = d.Idom() {
		iff, ok := d.Instrs[len(d.Instrs)-1].(*ssa.If)
		if !ok {
			continue
		}
		cmp, ok := iff.Cond.(*ssa.BinOp)
		if !ok || cmp.Op != token.EQL {
			continue
		}
		lx := lenArg(cmp.X)
		if k, ok := constInt(cmp.Y); lx == nil || !ok || k != 0 {
			continue
		}
		ll, ok := lx.(*ssa.UnOp)
		if !ok || ll.Op != token.MUL {
			continue
		}
		fa2, ok := ll.X.(*ssa.FieldAddr)
		if !ok || fa2.Field != fa.Field || !sameNode(fa2.X, fa.X) {
			continue
		}
		then, join := d.Succs[0], d.Succs[1]
		if len(then.Preds) != 1 || !join.Dominates(s.ins.Block()) {
			continue
		}
		// the then-region stores a non-empty value into the field and every path from it reaches the join
		stored := false
		for _, ins := range then.Instrs {
			if st, ok := ins.(*ssa.Store); ok {
				if fa3, ok := st.Addr.(*ssa.FieldAddr); ok && fa3.Field == fa.Field && sameNode(fa3.X, fa.X) && g.minLenByConstruction(st.Val, 0) >= 1 {
					stored = true
				}
			}
		}
		if !stored {
			continue
		}
		// no later store to the field between the join and the site that could empty it again
		clean := true
		for _, b := range s.fn.Blocks {
			if b == then || !join.Dominates(b) || !(b == s.ins.Block() || blockReachesPlain(b, s.ins.Block())) {
				continue
			}
			for _, ins := range b.Instrs {
				if st, ok := ins.(*ssa.Store); ok {
					if fa3, ok := st.Addr.(*ssa.FieldAddr); ok && fa3.Field == fa.Field && sameNode(fa3.X, fa.X) && g.minLenByConstruction(st.Val, 0) < 1 {
						clean = false
					}
				}
			}
		}
		if clean {
			return true
		}
	}
	return false
}

// stableDesc describes a value without using the names of locals or parameters, so that
// the key of an index/slice site survives renames: parameters by position and type, locals
// by type, fields and callees by their declared names.
func stableDesc(v ssa.Value) string {
	switch x := v.(type) {
	case *ssa.UnOp:
		if x.Op == token.MUL {
			if fa, ok := x.X.(*ssa.FieldAddr); ok {
				T, F := fieldOf(fa.X.Type(), fa.Field)
				return T + "." + F
			}
			return "*" + stableDesc(x.X)
		}
	case *ssa.FieldAddr:
		T, F := fieldOf(x.X.Type(), x.Field)
		return "&" + T + "." + F
	case *ssa.Parameter:
		idx := -1
		if x.Parent() != nil {
			for i, p := range x.Parent().Params {
				if p == x {
					idx = i
				}
			}
		}
		return fmt.Sprintf("param#%d %s", idx, typeShort(x.Type()))
	case *ssa.Const:
		return x.String()
	case *ssa.Slice:
		return stableDesc(x.X) + "[:]"
	case *ssa.Call:
		return "call " + x.Call.Value.Name()
	case *ssa.FreeVar:
		return "captured " + typeShort(x.Type())
	case *ssa.Alloc:
		return "local " + typeShort(x.Type())
	case *ssa.IndexAddr:
		return "&" + stableDesc(x.X) + "[…]"
	case *ssa.Extract:
		return stableDesc(x.Tuple) + fmt.Sprintf("#%d", x.Index)
	case *ssa.Phi:
		return "var " + typeShort(x.Type())
	case *ssa.MakeSlice:
		return "make"
	case *ssa.Lookup:
		return stableDesc(x.X) + "[…]"
	}
	return fmt.Sprintf("%T", v)
}

func stableIdx(v ssa.Value) string {
	if sub, ok := v.(*ssa.BinOp); ok {
		return stableIdx(sub.X) + sub.Op.String() + stableIdx(sub.Y)
	}
	if lx := lenArg(v); lx != nil {
		return "len(" + stableDesc(lx) + ")"
	}
	if k, ok := v.(*ssa.Const); ok {
		return k.Value.String()
	}
	if _, ok := v.(*ssa.Phi); ok {
		return "φ"
	}
	return stableDesc(v)
}

// leLen: v <= len(x) on structural grounds: v is len(x); min(…, len(x), …); or a phi whose
// every incoming value is len(x) or a constant k that arrives only from the taken branch of
// `len(x) > k` / `len(x) >= k`.
func (g *guardEngine) leLen(v, x ssa.Value, depth int) bool {
	if depth > 4 {
		return false
	}
	if lx := lenArg(v); lx != nil {
		return lx == x || g.same(lx, x)
	}
	switch t := v.(type) {
	case *ssa.Call:
		if bi, ok := t.Call.Value.(*ssa.Builtin); ok && bi.Name() == "min" {
			for _, a := range t.Call.Args {
				if g.leLen(a, x, depth+1) {
					return true
				}
			}
		}
	case *ssa.Phi:
		for i, e := range t.Edges {
			if g.leLen(e, x, depth+1) {
				continue
			}
			k, ok := constInt(e)
			if !ok || k < 0 {
				return false
			}
			// the edge's predecessor is entered only when len(x) >= k holds
			pred := t.Block().Preds[i]
			proven := false
			for _, f := range append(g.factsAt(pred), g.earlyExitFacts(pred)...) {
				if f.x != nil && (f.x == x || g.same(f.x, x)) && f.min >= k {
					proven = true
				}
			}
			// the edge comes straight from the test block: pred ends in `if len(x) > k` and
			// the phi's block is its taken successor
			if !proven {
				if iff, ok := pred.Instrs[len(pred.Instrs)-1].(*ssa.If); ok {
					pol := pred.Succs[0] == t.Block()
					if pred.Succs[0] != pred.Succs[1] {
						for _, f := range g.factsFromCond(iff.Cond, pol) {
							if f.x != nil && (f.x == x || g.same(f.x, x)) && f.min >= k {
								proven = true
							}
						}
					}
				}
			}
			if !proven {
				return false
			}
		}
		return len(t.Edges) > 0
	}
	return false
}

// stripIntConvert removes every integer-to-integer conversion.  Only used to compare a loop
// bound or a guard with the length a slice was made with: make(T, n) has already succeeded
// when the site is reached, so 0 <= n <= MaxInt and every conversion of n preserves it.
func stripIntConvert(v ssa.Value) ssa.Value {
	for {
		cv, ok := v.(*ssa.Convert)
		if !ok {
			return v
		}
		if bt, ok := cv.X.Type().Underlying().(*types.Basic); !ok || bt.Info()&types.IsInteger == 0 {
			return v
		}
		v = cv.X
	}
}

// symLen: a value n with len(x) == n wherever x is defined: x = make(T, n); x returned by a
// module helper whose every return hands out a slice made with one of its parameters; a phi
// of such values with, possibly, nil on an edge taken only when n == 0.
func (g *guardEngine) symLen(x ssa.Value, depth int) ssa.Value {
	if depth > 4 {
		return nil
	}
	switch v := x.(type) {
	case *ssa.MakeSlice:
		return stripIntConvert(v.Len)
	case *ssa.Slice:
		if v.Low == nil && v.High != nil {
			return stripIntConvert(v.High) // x[:h] has length h (the slice expression succeeded)
		}
	case *ssa.Extract:
		if call, ok := v.Tuple.(*ssa.Call); ok {
			return g.symLenOfResult(call, v.Index, depth)
		}
	case *ssa.Call:
		return g.symLenOfResult(v, 0, depth)
	case *ssa.Phi:
		var n ssa.Value
		for _, e := range v.Edges {
			if k, ok := e.(*ssa.Const); ok && k.IsNil() {
				continue
			}
			m := g.symLen(e, depth+1)
			if m == nil || (n != nil && !g.sameInt(n, m)) {
				return nil
			}
			n = m
		}
		if n == nil {
			return nil
		}
		for i, e := range v.Edges {
			if k, ok := e.(*ssa.Const); ok && k.IsNil() {
				if !g.zeroOnEdge(n, v.Block().Preds[i], v.Block()) {
					return nil
				}
			}
		}
		return n
	}
	return nil
}

func (g *guardEngine) symLenOfResult(call *ssa.Call, idx int, depth int) ssa.Value {
	callee := call.Call.StaticCallee()
	if callee == nil || !fnInModule(callee) || len(callee.Blocks) == 0 {
		return nil
	}
	param := -1
	for _, b := range callee.Blocks {
		ret, ok := b.Instrs[len(b.Instrs)-1].(*ssa.Return)
		if !ok {
			continue
		}
		if idx >= len(ret.Results) {
			return nil
		}
		if k, isConst := ret.Results[idx].(*ssa.Const); isConst && k.IsNil() && len(ret.Results) > 1 {
			if e, isE := ret.Results[len(ret.Results)-1].(*ssa.Const); !isE || !e.IsNil() {
				continue // an error return: the caller does not use the slice
			}
		}
		n := g.symLen(ret.Results[idx], depth+1)
		par, ok := n.(*ssa.Parameter)
		if !ok {
			return nil
		}
		k := -1
		for i, q := range callee.Params {
			if q == par {
				k = i
			}
		}
		if k < 0 || (param >= 0 && param != k) {
			return nil
		}
		param = k
	}
	if param < 0 || param >= len(call.Call.Args) {
		return nil
	}
	return stripIntConvert(call.Call.Args[param])
}

// sameInt: the two integer values are the same (the same SSA value, equal pure expressions,
// or len() of the same slice), conversions aside.
func (g *guardEngine) sameInt(a, b ssa.Value) bool {
	a, b = stripIntConvert(a), stripIntConvert(b)
	if a == b || g.same(a, b) {
		return true
	}
	if la, lb := lenArg(a), lenArg(b); la != nil && lb != nil {
		return la == lb || g.same(la, lb)
	}
	return false
}

// zeroOnEdge: the edge pred→blk is taken only when n == 0 (n a length or an unsigned count):
// pred ends in a test `n > 0`, `n != 0`, `n == 0`, `n < 1` … whose outcome on this edge
// leaves only zero.
func (g *guardEngine) zeroOnEdge(n ssa.Value, pred, blk *ssa.BasicBlock) bool {
	for d := pred; d != nil; d = d.Idom() {
		if len(d.Instrs) == 0 {
			continue
		}
		iff, ok := d.Instrs[len(d.Instrs)-1].(*ssa.If)
		if !ok || d.Succs[0] == d.Succs[1] {
			if d == pred {
				continue
			}
			break
		}
		var pol, known bool
		switch {
		case d == pred:
			pol, known = d.Succs[0] == blk, true
		default:
			t := blockReachesAvoid(d.Succs[0], pred, d)
			f := blockReachesAvoid(d.Succs[1], pred, d)
			if t != f {
				pol, known = t, true
			}
		}
		if !known {
			continue
		}
		cmp, ok := iff.Cond.(*ssa.BinOp)
		if !ok {
			continue
		}
		l, r, op := cmp.X, cmp.Y, cmp.Op
		if _, isConst := l.(*ssa.Const); isConst {
			l, r = r, l
			switch op {
			case token.LSS:
				op = token.GTR
			case token.GTR:
				op = token.LSS
			case token.LEQ:
				op = token.GEQ
			case token.GEQ:
				op = token.LEQ
			}
		}
		k, isK := constInt(r)
		if !isK || !g.sameInt(l, n) {
			continue
		}
		// nonNeg: lengths and unsigned counts
		zero := false
		switch {
		case op == token.GTR && k == 0 && !pol, op == token.NEQ && k == 0 && !pol, op == token.GEQ && k == 1 && !pol:
			zero = true
		case op == token.EQL && k == 0 && pol, op == token.LSS && k == 1 && pol, op == token.LEQ && k == 0 && pol:
			zero = true
		}
		if zero {
			return true
		}
	}
	return false
}

// intMin: a lower bound on the integer value n at block b from dominating comparisons with
// constants (n == k, n >= k, n > k and their negated forms).
func (g *guardEngine) intMin(n ssa.Value, b *ssa.BasicBlock) int64 {
	return g.intMinFrom(n, b, 0)
}

// intMinFrom: like intMin, starting from the given floor (use a negative floor to ask whether
// a signed value is known to be non-negative).
func (g *guardEngine) intMinFrom(n ssa.Value, b *ssa.BasicBlock, floor int64) int64 {
	min := floor
	var consider func(cond ssa.Value, pol bool)
	consider = func(cond ssa.Value, pol bool) {
		if ph, isPhi := cond.(*ssa.Phi); isPhi {
			if e, pred := soleLiveEdge(ph, pol); e != nil {
				consider(e, pol)
				if m := g.intMinFrom(n, pred, min); m > min {
					min = m
				}
			}
			return
		}
		cmp, ok := cond.(*ssa.BinOp)
		if !ok {
			return
		}
		l, r, op := cmp.X, cmp.Y, cmp.Op
		if _, isConst := l.(*ssa.Const); isConst {
			l, r = r, l
			switch op {
			case token.LSS:
				op = token.GTR
			case token.GTR:
				op = token.LSS
			case token.LEQ:
				op = token.GEQ
			case token.GEQ:
				op = token.LEQ
			}
		}
		k, isK := constInt(r)
		if !isK || !g.sameInt(l, n) {
			return
		}
		if !pol {
			switch op {
			case token.LSS:
				op = token.GEQ
			case token.LEQ:
				op = token.GTR
			case token.NEQ:
				op = token.EQL
			case token.EQL:
				op = token.NEQ
			default:
				return
			}
		}
		m := int64(-1)
		switch op {
		case token.EQL, token.GEQ:
			m = k
		case token.GTR:
			m = k + 1
		case token.NEQ:
			// the caller vouches for n >= floor: excluding the floor itself raises the bound
			if k == floor && min == floor {
				m = k + 1
			}
		}
		if m > min {
			min = m
		}
	}
	for d := b; d != nil; d = d.Idom() {
		id := d.Idom()
		if id == nil || len(id.Instrs) == 0 {
			continue
		}
		iff, ok := id.Instrs[len(id.Instrs)-1].(*ssa.If)
		if !ok || id.Succs[0] == id.Succs[1] {
			continue
		}
		t := id.Succs[0] == d && len(d.Preds) == 1 || id.Succs[0] != b && blockReachesAvoid(id.Succs[0], b, id) && !blockReachesAvoid(id.Succs[1], b, id)
		f := id.Succs[1] == d && len(d.Preds) == 1 || id.Succs[1] != b && blockReachesAvoid(id.Succs[1], b, id) && !blockReachesAvoid(id.Succs[0], b, id)
		if id.Succs[0] == d && len(d.Preds) == 1 {
			consider(iff.Cond, true)
		} else if id.Succs[1] == d && len(d.Preds) == 1 {
			consider(iff.Cond, false)
		} else if t && !f {
			consider(iff.Cond, true)
		} else if f && !t {
			consider(iff.Cond, false)
		}
	}
	return min
}

func (g *guardEngine) dischargeBySymLen(s guardSite) string {
	n := g.symLen(s.x, 0)
	if n == nil {
		// a field that was last assigned a slice of known length before the site
		if st := g.dominatingFieldStore(s, s.x); st != nil {
			n = g.symLen(st.Val, 0)
		}
	}
	if n == nil {
		return ""
	}
	if s.idx == nil {
		if g.intMin(n, s.ins.Block()) >= s.needLen {
			return fmt.Sprintf("the slice was made with a length that a dominating comparison shows to be >= %d", s.needLen)
		}
		return ""
	}
	iv := s.idx
	if add, ok := iv.(*ssa.BinOp); ok && s.idxIsBound && add.Op == token.ADD {
		if k, ok := constInt(add.Y); ok && k == 1 {
			iv = add.X
		}
	}
	if bound, ok := forwardIndex(iv); ok && g.sameInt(bound, n) {
		return "index of a forward loop bounded by the length the slice was made with"
	}
	return ""
}

// prefixOf: y is x or x[:h] (so len(y) <= len(x)), possibly chosen by a phi
// (`w := x; if len(w) > k { w = w[:k] }`).
func (g *guardEngine) prefixOf(y, x ssa.Value, depth int) bool {
	if depth > 4 {
		return false
	}
	if y == x || g.same(y, x) {
		return true
	}
	switch v := y.(type) {
	case *ssa.Slice:
		return v.Low == nil && g.prefixOf(v.X, x, depth+1)
	case *ssa.Phi:
		for _, e := range v.Edges {
			if !g.prefixOf(e, x, depth+1) {
				return false
			}
		}
		return len(v.Edges) > 0
	}
	return false
}

// paramFieldMinLen: the smallest length that the callers' dominating guards establish for
// field `field` of the argument bound to par (0 when the function escapes, has no caller, or
// is written to between the guard and the call — not tracked: the guard must dominate the call).
func (g *guardEngine) paramFieldMinLen(par *ssa.Parameter, field int, depth int) int64 {
	fn := par.Parent()
	idx := -1
	for i, q := range fn.Params {
		if q == par {
			idx = i
		}
	}
	calls, asValue := directCallSites(g.p, fn)
	if idx < 0 || asValue || len(calls) == 0 {
		return 0
	}
	min := int64(-1)
	for _, call := range calls {
		if idx >= len(call.Common().Args) {
			return 0
		}
		arg := call.Common().Args[idx]
		var m int64
		for _, f := range append(g.factsAt(call.Block()), g.earlyExitFacts(call.Block())...) {
			ld, ok := f.x.(*ssa.UnOp)
			if !ok || ld.Op != token.MUL {
				continue
			}
			fa, ok := ld.X.(*ssa.FieldAddr)
			if !ok || fa.Field != field || !(fa.X == arg || g.same(fa.X, arg)) {
				continue
			}
			if f.min > m {
				m = f.min
			}
		}
		if min < 0 || m < min {
			min = m
		}
	}
	if min < 0 {
		return 0
	}
	return min
}

// indexResultOver: every return of the called module function is a negative integer constant
// or the index of a forward loop over its k-th parameter; returns k.
func (g *guardEngine) indexResultOver(call *ssa.Call) (int, bool) {
	callee := call.Call.StaticCallee()
	if callee == nil || !fnInModule(callee) || len(callee.Blocks) == 0 || callee.Signature.Results().Len() != 1 {
		return 0, false
	}
	k, nIdx := -1, 0
	for _, b := range callee.Blocks {
		ret, ok := b.Instrs[len(b.Instrs)-1].(*ssa.Return)
		if !ok {
			continue
		}
		r := ret.Results[0]
		if c, ok := constInt(r); ok {
			if c >= 0 {
				return 0, false
			}
			continue
		}
		bound, ok := forwardIndex(r)
		if !ok {
			return 0, false
		}
		par, ok := lenSlice(bound).(*ssa.Parameter)
		if !ok {
			// a loop over a field of a parameter (a method searching its receiver's list)
			if fa := fieldAddrOf(lenSlice(bound)); fa != nil {
				if fp, isPar := fa.X.(*ssa.Parameter); isPar {
					par, ok = fp, true
					g.searchField[callee] = fa.Field
				}
			}
		}
		if !ok {
			return 0, false
		}
		idx := -1
		for i, q := range callee.Params {
			if q == par {
				idx = i
			}
		}
		if idx < 0 || (k >= 0 && k != idx) {
			return 0, false
		}
		k = idx
		nIdx++
	}
	return k, nIdx > 0
}

// validIndexExists: some search-helper result over x is known to be >= 0 at the site.
func (g *guardEngine) validIndexExists(s guardSite, x ssa.Value) bool {
	for _, b := range s.fn.Blocks {
		for _, ins := range b.Instrs {
			call, ok := ins.(*ssa.Call)
			if !ok || !instrDominates(call, s.ins) {
				continue
			}
			if k, ok := g.indexResultOver(call); ok && k < len(call.Call.Args) && g.searchedIs(call, k, x) && g.intMinFrom(call, s.ins.Block(), -1) >= 0 {
				return true
			}
		}
	}
	return false
}

// fieldAddrOf: x is a load of a struct field; returns the FieldAddr.
func fieldAddrOf(x ssa.Value) *ssa.FieldAddr {
	ld, ok := x.(*ssa.UnOp)
	if !ok || ld.Op != token.MUL {
		return nil
	}
	fa, _ := ld.X.(*ssa.FieldAddr)
	return fa
}

// dominatingFieldStore: x is a load of field F of some object; the store to the same field of
// the same object that dominates the site, provided every other store to that field in the
// function dominates that store (so it is the last one before the site).
func (g *guardEngine) dominatingFieldStore(s guardSite, x ssa.Value) *ssa.Store {
	fa := fieldAddrOf(x)
	if fa == nil {
		return nil
	}
	var stores []*ssa.Store
	for _, b := range s.fn.Blocks {
		for _, ins := range b.Instrs {
			st, ok := ins.(*ssa.Store)
			if !ok {
				continue
			}
			fa2, ok := st.Addr.(*ssa.FieldAddr)
			if ok && fa2.Field == fa.Field && (fa2.X == fa.X || g.same(fa2.X, fa.X)) {
				stores = append(stores, st)
			}
		}
	}
	var last *ssa.Store
	for _, st := range stores {
		if instrDominates(st, s.ins) && (last == nil || instrDominates(last, st)) {
			last = st
		}
	}
	if last == nil {
		return nil
	}
	for _, st := range stores {
		if st != last && !instrDominates(st, last) && !instrDominates(s.ins, st) {
			return nil // another store may come between
		}
	}
	return last
}

// storedMinLen: a lower bound on len(x) for a field load x at the site, from the store that
// last assigned the field (an append of known minimum length), or from a dominating call of a
// module function that received the field's address and appends to it on every successful
// return, when the site is only reached after that call succeeded.
func (g *guardEngine) storedMinLen(s guardSite, x ssa.Value) int64 {
	fa := fieldAddrOf(x)
	if fa == nil {
		return 0
	}
	if st := g.dominatingFieldStore(s, x); st != nil {
		if m := g.minLenByConstruction(st.Val, 0); m > 0 {
			return m
		}
	}
	for _, b := range s.fn.Blocks {
		for _, ins := range b.Instrs {
			call, ok := ins.(*ssa.Call)
			if !ok || !instrDominates(call, s.ins) {
				continue
			}
			callee := call.Call.StaticCallee()
			if callee == nil || !fnInModule(callee) || len(callee.Blocks) == 0 {
				continue
			}
			for i, a := range call.Call.Args {
				fa2, ok := a.(*ssa.FieldAddr)
				if !ok || fa2.Field != fa.Field || !(fa2.X == fa.X || g.same(fa2.X, fa.X)) || i >= len(callee.Params) {
					continue
				}
				if !appendsOnSuccess(callee, callee.Params[i]) {
					continue
				}
				// the site is unreachable when the call's error is non-nil
				carriers := map[ssa.Value]bool{}
				var errv ssa.Value = call
				if tup, isTuple := call.Type().(*types.Tuple); isTuple && call.Referrers() != nil {
					errv = nil
					for _, r := range *call.Referrers() {
						if ex, ok := r.(*ssa.Extract); ok && ex.Index == tup.Len()-1 {
							errv = ex
						}
					}
				}
				if errv == nil {
					continue
				}
				for _, fl := range flowsOf(errv) {
					carriers[fl] = true
				}
				reach := reachUnder(s.fn, func(cond ssa.Value) int {
					if cmp, ok := cond.(*ssa.BinOp); ok && (carriers[cmp.X] || carriers[cmp.Y]) {
						switch cmp.Op {
						case token.NEQ:
							return 1
						case token.EQL:
							return -1
						}
					}
					return 0
				})
				if !reach[s.ins.Block()] {
					return 1
				}
			}
		}
	}
	return 0
}

// appendsOnSuccess: every return of h whose error result is the nil constant is dominated by
// a store *par = append(*par, one or more elements).
func appendsOnSuccess(h *ssa.Function, par *ssa.Parameter) bool {
	var appends []*ssa.Store
	for _, b := range h.Blocks {
		for _, ins := range b.Instrs {
			st, ok := ins.(*ssa.Store)
			if !ok || st.Addr != ssa.Value(par) {
				continue
			}
			call, ok := st.Val.(*ssa.Call)
			if !ok {
				continue
			}
			if bi, ok := call.Call.Value.(*ssa.Builtin); ok && bi.Name() == "append" && len(call.Call.Args) == 2 {
				if ld, ok := call.Call.Args[0].(*ssa.UnOp); ok && ld.X == ssa.Value(par) {
					appends = append(appends, st)
				}
			}
		}
	}
	if len(appends) == 0 {
		return false
	}
	n := 0
	for _, b := range h.Blocks {
		ret, ok := b.Instrs[len(b.Instrs)-1].(*ssa.Return)
		if !ok || len(ret.Results) == 0 {
			continue
		}
		if k, isConst := ret.Results[len(ret.Results)-1].(*ssa.Const); !isConst || !k.IsNil() {
			continue // an error return
		}
		n++
		covered := false
		for _, st := range appends {
			if instrDominates(st, ret) {
				covered = true
			}
		}
		if !covered {
			return false
		}
	}
	return n > 0
}

// nonNegInt: v is an integer that cannot be negative on structural grounds: a non-negative
// constant, a length, a sum of such values, a loop-carried sum of them, or the result of a
// module function all of whose returns are such values.
func nonNegInt(v ssa.Value, depth int, seen map[ssa.Value]bool) bool {
	if seen[v] {
		return true
	}
	seen[v] = true
	if depth > 6 {
		return false
	}
	if k, ok := constInt(v); ok {
		return k >= 0
	}
	if lenArg(v) != nil {
		return true
	}
	switch x := v.(type) {
	case *ssa.BinOp:
		if x.Op == token.ADD {
			return nonNegInt(x.X, depth+1, seen) && nonNegInt(x.Y, depth+1, seen)
		}
	case *ssa.Phi:
		for _, e := range x.Edges {
			if !nonNegInt(e, depth+1, seen) {
				return false
			}
		}
		return true
	case *ssa.Call:
		h := x.Call.StaticCallee()
		if h == nil || !fnInModule(h) || len(h.Blocks) == 0 || h.Signature.Results().Len() != 1 {
			return false
		}
		n := 0
		for _, b := range h.Blocks {
			if ret, ok := b.Instrs[len(b.Instrs)-1].(*ssa.Return); ok {
				n++
				if !nonNegInt(ret.Results[0], depth+1, seen) {
					return false
				}
			}
		}
		return n > 0
	}
	return false
}

// searchedIs: x is the list that the search helper called by call scans: its k-th argument,
// or - for a helper that scans a field of its k-th parameter - that field of the argument.
func (g *guardEngine) searchedIs(call *ssa.Call, k int, x ssa.Value) bool {
	arg := call.Call.Args[k]
	if f, ok := g.searchField[call.Call.StaticCallee()]; ok {
		fa := fieldAddrOf(x)
		return fa != nil && fa.Field == f && (fa.X == arg || g.same(fa.X, arg))
	}
	return arg == x || g.same(arg, x)
}

// signUnknownCallResult: v is a signed integer result of a (non-builtin) call, possibly one
// of several results.
func signUnknownCallResult(v ssa.Value) bool {
	bt, ok := v.Type().Underlying().(*types.Basic)
	if !ok || bt.Info()&types.IsInteger == 0 || bt.Info()&types.IsUnsigned != 0 {
		return false
	}
	if ex, ok := v.(*ssa.Extract); ok {
		v = ex.Tuple
	}
	call, ok := v.(*ssa.Call)
	if !ok {
		return false
	}
	_, isBuiltin := call.Call.Value.(*ssa.Builtin)
	return !isBuiltin
}

var dbgGuard = false

// soleLiveEdge: for a boolean phi whose constant edges all differ from pol and which has
// exactly one non-constant edge, that edge and the block it comes from.
func soleLiveEdge(ph *ssa.Phi, pol bool) (ssa.Value, *ssa.BasicBlock) {
	var live ssa.Value
	var pred *ssa.BasicBlock
	for i, e := range ph.Edges {
		if k, ok := e.(*ssa.Const); ok && k.Value != nil {
			if (k.Value.String() == "true") == pol {
				return nil, nil
			}
			continue
		}
		if live != nil {
			return nil, nil
		}
		live, pred = e, ph.Block().Preds[i]
	}
	return live, pred
}
