package main

// Checker self-test (thorough tier): canned single-edit variants of the current tree are
// fed to the same rules through packages.Config.Overlay, one fresh subprocess per variant.
// The outcome is recorded in the evidence and never changes the exit status.

import (
	"encoding/json"
	"fmt"
	"os"
	"os/exec"
	"path/filepath"
	"sort"
	"strings"
	"sync"
)

type variant struct {
	patchFile  string // seeded change: a unified diff applied to a scratch copy of the files it touches
	Property   string `json:"property"`
	Name       string `json:"name"`
	File       string `json:"file"`
	Old        string `json:"old"`
	New        string `json:"new"`
	Expect     string `json:"expect"`
	Preserving bool   `json:"behaviour_preserving"`
	ReplaceAll bool   `json:"replace_all"`
}

type variantResult struct {
	Name       string `json:"name"`
	Kind       string `json:"kind"` // breaking | behaviour-preserving
	Applicable bool   `json:"applicable"`
	Outcome    string `json:"outcome"` // fired | silent | not-applicable | error
	AsExpected bool   `json:"as_expected"`
	Report     string `json:"report,omitempty"`
}

func (c *Check) runSelfTests() {
	b, err := os.ReadFile(filepath.Join(c.VerifDir, "selftest", "variants.json"))
	if err != nil {
		c.Extra["selftest"] = "variants.json not readable: " + err.Error()
		return
	}
	var f struct {
		Variants []variant `json:"variants"`
	}
	if err := json.Unmarshal(b, &f); err != nil {
		c.Extra["selftest"] = "variants.json not parsable: " + err.Error()
		return
	}
	exe, _ := os.Executable()
	var mine []variant
	for _, v := range f.Variants {
		if v.Property == c.Prop {
			mine = append(mine, v)
		}
	}
	// the archived seeded changes of this property (confirmed breaking changes produced by
	// independent sub-agents) are replayed the same way
	if dirs, err := filepath.Glob(filepath.Join(c.VerifDir, "seeded", c.Prop+"-s*")); err == nil {
		for _, d := range dirs {
			pf := filepath.Join(d, "patch.diff")
			if _, err := os.Stat(pf); err == nil {
				mine = append(mine, variant{Property: c.Prop, Name: "seeded:" + filepath.Base(d), patchFile: pf})
			}
		}
	}
	// behaviour-preserving refactorings produced by sub-agents (refactors/<id>/patch.diff): the ones of
	// this property and the ones on which this check once raised a false alarm must stay silent
	if ib, err := os.ReadFile(filepath.Join(c.VerifDir, "refactors", "index.json")); err == nil {
		var idx map[string]struct {
			ReplayFor []string `json:"replay_for"`
		}
		if json.Unmarshal(ib, &idx) == nil {
			var ids []string
			for id, e := range idx {
				for _, q := range e.ReplayFor {
					if q == c.Prop {
						ids = append(ids, id)
					}
				}
			}
			sort.Strings(ids)
			for _, id := range ids {
				pf := filepath.Join(c.VerifDir, "refactors", id, "patch.diff")
				if _, err := os.Stat(pf); err == nil {
					mine = append(mine, variant{Property: c.Prop, Name: "refactor:" + id, patchFile: pf, Preserving: true})
				}
			}
		}
	}
	results := make([]variantResult, len(mine))
	var wg sync.WaitGroup
	sem := make(chan struct{}, 6)
	for i, v := range mine {
		wg.Add(1)
		go func(i int, v variant) {
			defer wg.Done()
			sem <- struct{}{}
			defer func() { <-sem }()
			r := variantResult{Name: v.Name, Kind: "breaking"}
			if v.Preserving {
				r.Kind = "behaviour-preserving"
			}
			var ov map[string]string
			if v.patchFile != "" {
				ov = patchOverlay(c.P.RepoDir, v.patchFile)
				if ov == nil {
					r.Outcome = "not-applicable"
					results[i] = r
					return
				}
			} else {
				path := filepath.Join(c.P.RepoDir, v.File)
				src, err := os.ReadFile(path)
				n := strings.Count(string(src), v.Old)
				if err != nil || n == 0 || (n != 1 && !v.ReplaceAll) {
					r.Outcome = "not-applicable"
					results[i] = r
					return
				}
				ov = map[string]string{path: strings.ReplaceAll(string(src), v.Old, v.New)}
			}
			r.Applicable = true
			tmp, err := os.CreateTemp("", "pprofcheck-variant-*.json")
			if err != nil {
				r.Outcome = "error"
				results[i] = r
				return
			}
			json.NewEncoder(tmp).Encode(ov)
			tmp.Close()
			defer os.Remove(tmp.Name())
			cmd := exec.Command(exe, "-property", c.Prop, "-tier", "quick", "-repo", c.P.RepoDir, "-verif", c.VerifDir, "-overlay", tmp.Name(), "-no-evidence")
			out, err := cmd.CombinedOutput()
			fired := err != nil
			if fired {
				r.Outcome = "fired"
				for _, line := range strings.Split(string(out), "\n") {
					if strings.Contains(line, "VIOLATION") || strings.Contains(line, "UNDECIDED") || strings.Contains(line, "cannot analyse") {
						if v.Expect == "" || strings.Contains(line, v.Expect) {
							r.Report = truncate(strings.TrimSpace(line), 260)
							break
						}
					}
				}
			} else {
				r.Outcome = "silent"
			}
			if v.Preserving {
				r.AsExpected = !fired
			} else {
				r.AsExpected = fired && r.Report != ""
			}
			results[i] = r
		}(i, v)
	}
	wg.Wait()
	applicable, ok := 0, 0
	for _, r := range results {
		if r.Applicable {
			applicable++
			if r.AsExpected {
				ok++
			}
		}
	}
	c.Extra["selftest"] = map[string]interface{}{
		"variants":    results,
		"applicable":  applicable,
		"as_expected": ok,
		"note":        "overlay variants of the current tree: canned single edits (selftest/variants.json), the archived seeded changes of this property (seeded/<id>/patch.diff) and behaviour-preserving refactorings (refactors/<id>/patch.diff, kind behaviour-preserving); breaking variants must fire (canned ones with a report naming the expected rule), behaviour-preserving ones must stay silent; evidence only",
	}
	fmt.Printf("  self-test: %d/%d applicable variants behaved as expected\n", ok, applicable)
	for _, r := range results {
		if r.Applicable && !r.AsExpected {
			fmt.Printf("  self-test: variant %s (%s) → %s, NOT as expected\n", r.Name, r.Kind, r.Outcome)
		}
	}
}

// patchOverlay applies a unified diff to a scratch copy of the files it names (outside the
// repository) and returns the patched contents keyed by their path in the repository;
// nil when the diff does not apply to the current tree.
func patchOverlay(repo, patchFile string) map[string]string {
	b, err := os.ReadFile(patchFile)
	if err != nil {
		return nil
	}
	var files []string
	for _, line := range strings.Split(string(b), "\n") {
		if strings.HasPrefix(line, "+++ b/") {
			files = append(files, strings.TrimSpace(strings.TrimPrefix(line, "+++ b/")))
		}
	}
	if len(files) == 0 {
		return nil
	}
	tmp, err := os.MkdirTemp("", "pprofcheck-seed-*")
	if err != nil {
		return nil
	}
	defer os.RemoveAll(tmp)
	for _, f := range files {
		src, err := os.ReadFile(filepath.Join(repo, f))
		if err != nil {
			continue // a file the change adds
		}
		dst := filepath.Join(tmp, f)
		os.MkdirAll(filepath.Dir(dst), 0o755)
		if os.WriteFile(dst, src, 0o644) != nil {
			return nil
		}
	}
	cmd := exec.Command("patch", "-p1", "-s", "-f", "-d", tmp, "-i", patchFile)
	if err := cmd.Run(); err != nil {
		return nil
	}
	ov := map[string]string{}
	for _, f := range files {
		out, err := os.ReadFile(filepath.Join(tmp, f))
		if err != nil {
			return nil
		}
		ov[filepath.Join(repo, f)] = string(out)
	}
	return ov
}
