package main

import (
	"crypto/sha1"
	"encoding/json"
	"fmt"
	"go/ast"
	"go/token"
	"go/types"
	"os"
	"path/filepath"
	"sort"
	"strconv"
	"strings"
	"time"

	"golang.org/x/tools/go/callgraph"
	"golang.org/x/tools/go/callgraph/cha"
	"golang.org/x/tools/go/callgraph/vta"
	"golang.org/x/tools/go/packages"
	"golang.org/x/tools/go/ssa"
	"golang.org/x/tools/go/ssa/ssautil"
)

const modPath = "github.com/google/pprof"

// Program is the resolved view of /repo's current working tree.
type Program struct {
	Fset     *token.FileSet
	Pkgs     []*packages.Package // module packages only, sorted by path
	ByPath   map[string]*packages.Package
	SSA      *ssa.Program
	SSAPkgs  map[string]*ssa.Package
	AllFns   map[*ssa.Function]bool
	cg       *callgraph.Graph
	chaCG    *callgraph.Graph
	RepoDir  string
	NumFns   int // module functions with bodies
	mg       *modGraph
	modTypes []*types.Named
}

func inModule(path string) bool {
	return path == modPath || strings.HasPrefix(path, modPath+"/")
}

// Load type-checks ./... in dir; needSSA additionally builds SSA for the whole
// program (dependencies included).
func Load(dir string, needSSA bool, overlay map[string][]byte) (*Program, error) {
	mode := packages.NeedName | packages.NeedFiles | packages.NeedCompiledGoFiles | packages.NeedImports |
		packages.NeedTypes | packages.NeedTypesSizes | packages.NeedSyntax | packages.NeedTypesInfo | packages.NeedDeps | packages.NeedModule
	env := append(os.Environ(), "GOFLAGS=-mod=mod", "GOPROXY=off", "GOSUMDB=off", "GOTOOLCHAIN=local", "GOWORK=off")
	overlay = normalizeIterators(dir, overlay)
	cfg := &packages.Config{Mode: mode, Dir: dir, Tests: false, Env: env, Overlay: overlay}
	pkgs, err := packages.Load(cfg, "./...")
	if err != nil {
		return nil, fmt.Errorf("packages.Load: %v", err)
	}
	if len(pkgs) == 0 {
		return nil, fmt.Errorf("no packages loaded from %s", dir)
	}
	var errs []string
	packages.Visit(pkgs, nil, func(p *packages.Package) {
		for _, e := range p.Errors {
			errs = append(errs, e.Error())
		}
	})
	if len(errs) > 0 {
		return nil, fmt.Errorf("load/type errors (%d): %s", len(errs), strings.Join(errs[:min(len(errs), 5)], "; "))
	}
	p := &Program{ByPath: map[string]*packages.Package{}, SSAPkgs: map[string]*ssa.Package{}, RepoDir: dir}
	for _, pk := range pkgs {
		if inModule(pk.PkgPath) {
			p.Pkgs = append(p.Pkgs, pk)
			p.ByPath[pk.PkgPath] = pk
		}
	}
	sort.Slice(p.Pkgs, func(i, j int) bool { return p.Pkgs[i].PkgPath < p.Pkgs[j].PkgPath })
	if len(p.Pkgs) < 10 {
		return nil, fmt.Errorf("only %d module packages loaded (expected >= 10)", len(p.Pkgs))
	}
	p.Fset = pkgs[0].Fset
	if needSSA {
		prog, spkgs := ssautil.AllPackages(pkgs, ssa.InstantiateGenerics)
		prog.Build()
		p.SSA = prog
		for i, sp := range spkgs {
			if sp != nil {
				p.SSAPkgs[pkgs[i].PkgPath] = sp
			}
		}
		p.AllFns = ssautil.AllFunctions(prog)
		for f := range p.AllFns {
			if f.Blocks != nil && fnInModule(f) {
				p.NumFns++
			}
		}
	}
	return p, nil
}

func fnPkgPath(f *ssa.Function) string {
	if f == nil {
		return ""
	}
	if f.Pkg != nil {
		return f.Pkg.Pkg.Path()
	}
	if f.Parent() != nil {
		return fnPkgPath(f.Parent())
	}
	if o := f.Origin(); o != nil && o != f {
		return fnPkgPath(o)
	}
	if obj := f.Object(); obj != nil && obj.Pkg() != nil {
		return obj.Pkg().Path()
	}
	return ""
}

func fnInModule(f *ssa.Function) bool { return inModule(fnPkgPath(f)) }

// CG returns the VTA call graph (seeded with CHA).
func (p *Program) CG() *callgraph.Graph {
	if p.cg == nil {
		p.cg = vta.CallGraph(p.AllFns, p.CHA())
	}
	return p.cg
}

func (p *Program) CHA() *callgraph.Graph {
	if p.chaCG == nil {
		p.chaCG = cha.CallGraph(p.SSA)
	}
	return p.chaCG
}

// Pkg returns the module package with the given module-relative path ("profile").
func (p *Program) Pkg(rel string) *packages.Package {
	if rel == "" {
		return p.ByPath[modPath]
	}
	return p.ByPath[modPath+"/"+rel]
}

func (p *Program) SSAPkg(rel string) *ssa.Package {
	if rel == "" {
		return p.SSAPkgs[modPath]
	}
	return p.SSAPkgs[modPath+"/"+rel]
}

// Func resolves a package-level function or a method "T.m" / "(*T).m" in pkg rel.
func (p *Program) Func(rel, name string) *ssa.Function {
	sp := p.SSAPkg(rel)
	if sp == nil {
		return nil
	}
	if !strings.Contains(name, ".") {
		return sp.Func(name)
	}
	ptr := false
	n := name
	if strings.HasPrefix(n, "(*") {
		ptr = true
		n = strings.Replace(strings.TrimPrefix(n, "(*"), ")", "", 1)
	}
	parts := strings.SplitN(n, ".", 2)
	tn := sp.Type(parts[0])
	if tn == nil {
		return nil
	}
	var t types.Type = tn.Type()
	if ptr {
		t = types.NewPointer(t)
	}
	ms := p.SSA.MethodSets.MethodSet(t)
	for i := 0; i < ms.Len(); i++ {
		if ms.At(i).Obj().Name() == parts[1] {
			return p.SSA.MethodValue(ms.At(i))
		}
	}
	if !ptr {
		return p.Func(rel, "(*"+parts[0]+")."+parts[1])
	}
	return nil
}

func (p *Program) relFile(pos token.Pos) string {
	if !pos.IsValid() {
		return "?"
	}
	ps := p.Fset.Position(pos)
	f := ps.Filename
	if r, err := filepath.Rel(p.RepoDir, f); err == nil && !strings.HasPrefix(r, "..") {
		f = r
	}
	return fmt.Sprintf("%s:%d", f, ps.Line)
}

// fnName gives a stable, readable name: pkg.(*T).m, pkg.f, pkg.f$1.
func fnName(f *ssa.Function) string {
	if f == nil {
		return "<nil>"
	}
	s := f.String()
	s = strings.ReplaceAll(s, modPath+"/", "")
	s = strings.ReplaceAll(s, "internal/", "")
	return s
}

// ---------------------------------------------------------------------------
// Obligations, findings, evidence

type Obligation struct {
	Rule   string `json:"rule"`
	Key    string `json:"key"` // rule-independent construct key: function + normalised construct
	Pos    string `json:"pos,omitempty"`
	Desc   string `json:"desc"`
	Status string `json:"status"` // discharged | violation | undecided | known
	How    string `json:"how,omitempty"`
	// Trivial obligations are discharged without a non-vacuous argument (e.g. E0 loops
	// with empty effect); they are not counted in distinct_nontrivial.
	Trivial bool `json:"-"`
}

type KnownFinding struct {
	Property  string `json:"property"`
	Rule      string `json:"rule"`
	Construct string `json:"construct"`
	Status    string `json:"status"` // known | fixed
	Commit    string `json:"commit,omitempty"`
	What      string `json:"what"`
}

type Check struct {
	Prop        string
	Tier        string
	Seed        int64
	P           *Program
	Obls        []*Obligation
	varIdxScope func(*ssa.Function) bool // guardRule: functions whose variable-index sites are collected too
	Explanation string
	Assumptions []string
	Trusted     []string
	Extra       map[string]interface{}
	floors      []floor
	start       time.Time
	VerifDir    string
	noEvidence  bool
	keyCount    map[string]int
}

type floor struct {
	rule string
	min  int
}

func (c *Check) add(rule, key, pos, desc, status, how string) *Obligation {
	if c.keyCount == nil {
		c.keyCount = map[string]int{}
	}
	c.keyCount[rule+"|"+key]++
	if n := c.keyCount[rule+"|"+key]; n > 1 {
		key = fmt.Sprintf("%s#%d", key, n)
	}
	o := &Obligation{Rule: rule, Key: key, Pos: pos, Desc: desc, Status: status, How: how}
	c.Obls = append(c.Obls, o)
	return o
}

// rollback drops the obligations filed after index n (a rule that tries another anchor).
func (c *Check) rollback(n int) {
	for _, o := range c.Obls[n:] {
		k := o.Key
		if i := strings.LastIndex(k, "#"); i > 0 {
			k = k[:i]
		}
		if c.keyCount[o.Rule+"|"+k] > 0 {
			c.keyCount[o.Rule+"|"+k]--
		}
	}
	c.Obls = c.Obls[:n]
}

func (c *Check) ok(rule, key, pos, desc, how string) *Obligation {
	return c.add(rule, key, pos, desc, "discharged", how)
}
func (c *Check) bad(rule, key, pos, desc string) *Obligation {
	return c.add(rule, key, pos, desc, "violation", "")
}
func (c *Check) undecided(rule, key, pos, desc string) *Obligation {
	return c.add(rule, key, pos, desc, "undecided", "")
}

// Floor registers a vacuity guard: the rule must have produced at least min obligations.
func (c *Check) Floor(rule string, min int) { c.floors = append(c.floors, floor{rule, min}) }

// anchorFn resolves a function anchor; an unresolved anchor is a failed obligation.
func (c *Check) anchorFn(rule, rel, name string) *ssa.Function {
	f := c.P.Func(rel, name)
	if f == nil || f.Blocks == nil {
		c.undecided(rule, "anchor:"+rel+"."+name, "", "anchor function "+rel+"."+name+" not found in the type-checked program")
		return nil
	}
	return f
}

func loadKnown(verifDir string) ([]KnownFinding, error) {
	b, err := os.ReadFile(filepath.Join(verifDir, "known_findings.json"))
	if err != nil {
		if os.IsNotExist(err) {
			return nil, nil
		}
		return nil, err
	}
	var f struct {
		Findings []KnownFinding `json:"findings"`
	}
	if err := json.Unmarshal(b, &f); err != nil {
		return nil, err
	}
	return f.Findings, nil
}

// Finish applies floors and known findings, writes evidence and replays, prints the
// verdict and returns the process exit code.
func (c *Check) Finish() int {
	for _, fl := range c.floors {
		n := 0
		for _, o := range c.Obls {
			if o.Rule == fl.rule {
				n++
			}
		}
		// Merging two sites into a shared helper legitimately lowers a count, so the guard
		// trips when more than a third of the confirmed instances are gone (the rule has then
		// stopped matching the code), not on the first one.
		if need := (fl.min*2 + 2) / 3; n < need {
			c.undecided(fl.rule, "floor:"+fl.rule, "", fmt.Sprintf("vacuity guard: rule %s matched %d instances; %d were confirmed by hand and fewer than %d means the rule no longer sees the code", fl.rule, n, fl.min, need))
		}
	}
	known, err := loadKnown(c.VerifDir)
	if err != nil {
		c.undecided("core", "known_findings", "", "cannot read known_findings.json: "+err.Error())
	}
	var knownLines []string
	for _, o := range c.Obls {
		if o.Status != "violation" {
			continue
		}
		for _, k := range known {
			if k.Status == "known" && k.Property == c.Prop && k.Rule == o.Rule && k.Construct == o.Key {
				o.Status = "known"
				o.How = "listed in known_findings.json: " + k.What
				knownLines = append(knownLines, fmt.Sprintf("KNOWN-FINDING: property=%s %s [%s %s]", c.Prop, k.What, o.Rule, o.Key))
			}
		}
	}
	sort.Strings(knownLines)
	var viol []*Obligation
	total, discharged, nontriv := 0, 0, map[string]bool{}
	byRule := map[string][2]int{}
	for _, o := range c.Obls {
		total++
		r := byRule[o.Rule]
		r[0]++
		switch o.Status {
		case "discharged":
			discharged++
			r[1]++
			if !o.Trivial {
				nontriv[o.Rule+"|"+o.Key] = true
			}
		case "known":
			nontriv[o.Rule+"|"+o.Key] = true
		default:
			viol = append(viol, o)
			nontriv[o.Rule+"|"+o.Key] = true
		}
		byRule[o.Rule] = r
	}
	// samples: a seed-selected window plus every non-discharged obligation
	var samples []interface{}
	for _, o := range viol {
		samples = append(samples, o)
	}
	if total > 0 {
		n := 12
		if c.Tier == "thorough" {
			n = 40
		}
		step := total / n
		if step == 0 {
			step = 1
		}
		off := int(c.Seed % int64(step))
		if off < 0 {
			off = -off
		}
		for i := off; i < total && len(samples) < n+len(viol); i += step {
			if c.Obls[i].Status == "discharged" || c.Obls[i].Status == "known" {
				samples = append(samples, c.Obls[i])
			}
		}
	}
	rules := map[string]interface{}{}
	for r, v := range byRule {
		rules[r] = map[string]int{"obligations": v[0], "discharged": v[1]}
	}
	cov := map[string]interface{}{
		"explanation":         c.Explanation,
		"obligations":         total,
		"discharged":          discharged,
		"evaluations":         total,
		"distinct_nontrivial": len(nontriv),
		"rule":                "obligations are rule instances discovered in the type-checked program of /repo's working tree (see DESIGN.md); one is distinct by rule+construct key and non-trivial when discharging it needed an argument (not a vacuous/empty instance)",
		"samples":             samples,
		"checker_cmd":         fmt.Sprintf("bin/pprofcheck -property %s -tier %s", c.Prop, c.Tier),
		"trusted_base":        append([]string{"go/types, go/packages, go/ssa, callgraph/vta from golang.org/x/tools v0.29.0", "the rule tables in /verif/checker"}, c.Trusted...),
		"per_rule":            rules,
		"packages":            len(c.P.Pkgs),
		"module_functions":    c.P.NumFns,
		"known_findings":      len(knownLines),
		"exhaustive":          true,
	}
	for k, v := range c.Extra {
		cov[k] = v
	}
	ev := map[string]interface{}{
		"property_id": c.Prop,
		"tier":        c.Tier,
		"seed":        c.Seed,
		"level":       "other",
		"coverage":    cov,
		"assumptions": c.Assumptions,
		"wall_s":      time.Since(c.start).Seconds(),
		"violations":  len(viol),
	}
	os.MkdirAll(filepath.Join(c.VerifDir, "evidence"), 0o755)
	b, _ := json.MarshalIndent(ev, "", " ")
	if c.noEvidence {
		fmt.Printf("%s %s: %d obligations, %d discharged, %d known findings, %d violations/undecided\n", c.Prop, c.Tier, total, discharged, len(knownLines), len(viol))
		for _, o := range viol {
			fmt.Printf("  %s %s %s: %s [%s]\n", strings.ToUpper(o.Status), o.Rule, o.Pos, o.Desc, o.Key)
		}
		if len(viol) > 0 {
			return 1
		}
		return 0
	}
	if err := os.WriteFile(filepath.Join(c.VerifDir, "evidence", c.Prop+".json"), append(b, '\n'), 0o644); err != nil {
		fmt.Printf("cannot write evidence: %v\n", err)
		return 2
	}
	for _, l := range knownLines {
		fmt.Println(l)
	}
	fmt.Printf("%s %s: %d obligations, %d discharged, %d known findings, %d violations/undecided (%d packages, %d functions, %.1fs)\n",
		c.Prop, c.Tier, total, discharged, len(knownLines), len(viol), len(c.P.Pkgs), c.P.NumFns, time.Since(c.start).Seconds())
	rs := make([]string, 0, len(byRule))
	for r := range byRule {
		rs = append(rs, r)
	}
	sort.Strings(rs)
	for _, r := range rs {
		fmt.Printf("  rule %-10s %4d obligations, %4d discharged\n", r, byRule[r][0], byRule[r][1])
	}
	if len(viol) == 0 {
		return 0
	}
	os.MkdirAll(filepath.Join(c.VerifDir, "replays"), 0o755)
	sort.SliceStable(viol, func(i, j int) bool { return viol[i].Rule+viol[i].Key < viol[j].Rule+viol[j].Key })
	for _, o := range viol {
		h := sha1.Sum([]byte(o.Rule + "|" + o.Key))
		path := filepath.Join(c.VerifDir, "replays", fmt.Sprintf("%s-%x.json", c.Prop, h[:6]))
		rb, _ := json.MarshalIndent(map[string]interface{}{"property": c.Prop, "rule": o.Rule, "construct": o.Key, "pos": o.Pos, "desc": o.Desc, "status": o.Status,
			"replay": fmt.Sprintf("bin/pprofcheck -property %s -tier %s  # re-evaluates the rule on the current tree; the instance is identified by rule+construct", c.Prop, c.Tier)}, "", " ")
		os.WriteFile(path, append(rb, '\n'), 0o644)
		fmt.Printf("  %s %s %s: %s [%s]\n", strings.ToUpper(o.Status), o.Rule, o.Pos, o.Desc, o.Key)
		fmt.Printf("VIOLATION property=%s replay=%s\n", c.Prop, path)
	}
	return 1
}

// ---------------------------------------------------------------------------
// small AST/type helpers shared by the rules

func exprStr(fset *token.FileSet, e ast.Node) string {
	var sb strings.Builder
	printerFprint(&sb, fset, e)
	s := sb.String()
	return strings.Join(strings.Fields(s), " ")
}

// enclosingFuncName finds the name of the function declaration or literal chain enclosing pos.
func enclosingFuncName(pk *packages.Package, pos token.Pos) string {
	for _, f := range pk.Syntax {
		if f.Pos() <= pos && pos <= f.End() {
			for _, d := range f.Decls {
				if fd, ok := d.(*ast.FuncDecl); ok && fd.Pos() <= pos && pos <= fd.End() {
					n := fd.Name.Name
					if fd.Recv != nil && len(fd.Recv.List) > 0 {
						n = types.ExprString(fd.Recv.List[0].Type) + "." + n
					}
					return n
				}
			}
			return "<file-scope>"
		}
	}
	return "?"
}

func namedOf(t types.Type) *types.Named {
	for {
		switch x := t.(type) {
		case *types.Pointer:
			t = x.Elem()
		case *types.Named:
			return x
		case *types.Alias:
			t = types.Unalias(x)
		default:
			return nil
		}
	}
}

func typeShort(t types.Type) string {
	return types.TypeString(t, func(p *types.Package) string {
		path := p.Path()
		if inModule(path) {
			return p.Name()
		}
		return p.Name()
	})
}

func readOverlay(file string) (map[string][]byte, error) {
	b, err := os.ReadFile(file)
	if err != nil {
		return nil, err
	}
	var m map[string]string
	if err := json.Unmarshal(b, &m); err != nil {
		return nil, err
	}
	out := map[string][]byte{}
	for k, v := range m {
		out[k] = []byte(v)
	}
	return out, nil
}

func sortStrings(s []string) { sort.Strings(s) }

func unquoteGo(s string) (string, error) { return strconv.Unquote(s) }
