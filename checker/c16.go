package main

import (
	"fmt"
	"go/constant"
	"go/token"
	"go/types"
	"strings"

	"golang.org/x/tools/go/ssa"
)

func init() { register("C16", true, runC16) }

func runC16(c *Check) {
	c.Explanation = "Decides the barrier, slot, error-routing and tiling clauses of C16 for every completion order and every subset of failing sources: each goroutine started by the fetch code begins with a deferred wg.Done on the WaitGroup whose Add count equals the number of goroutines launched; wg.Wait dominates every read of what the goroutines write; each goroutine writes only its own slot (its &sources[i], or variables no other goroutine touches) (R1-R3); after the barrier results are collected by a forward index loop, a source's error only reaches PrintErr and never a return value, and 'no profile' is decided from counts (R4, R5); consecutive chunks sources[start:end] tile [0,len) exactly (same step for start and end, end clamped to len) (R6). Also: profiles handed to combineProfiles across chunks are nil-tested on the path (R7) and grabProfile validates every profile it returns without error (R8). Also: no package-level lock is held across per-source work (R9); files created in the fetch tree are created exclusively (R10); the collecting loop looks at every source (R5). Round-I additions: combineProfiles updates only maps it made; nothing is read through a result slot after it was cleared. Not decided: what is fetched and merged, HTTP/file behaviour, Merge errors."
	c.goroutineRules("C16", "internal/driver", []string{"grabSourcesAndBases", "concurrentGrab"})
	c.collectRules()
	c.chunkTiling()
	c.combineNonNil()
	c.validatedPerSource()
	c.chunkOrder()
	c.mergedIffNoError()
	c.fetchSharesNothing("C16-R3")
	c.noGlobalLockAcrossFetch()
	c.fetchFilesExclusive()
	c.combinedSourcesFresh()
	c.readAfterSlotCleared()
}

// combineNonNil (R7): a profile handed to combineProfiles is known to be non-nil at the
// call: every element of the list built for the call is either freshly produced there or
// tested against nil on the path (x == nil left / x != nil taken).  Deciding "first chunk"
// by anything other than the accumulator's own state (for instance by the chunk index)
// passes a nil accumulator when the first chunk yielded nothing.
func (c *Check) combineNonNil() {
	p := c.P
	f := c.anchorFn("C16-R7", "internal/driver", "chunkedGrab")
	if f == nil {
		return
	}
	n := 0
	// (the accumulation may sit in a helper or method that chunkedGrab calls)
	for _, b := range helperBlocks(f, 1) {
		for _, ins := range b.Instrs {
			call, ok := ins.(*ssa.Call)
			if !ok || call.Call.StaticCallee() == nil || call.Call.StaticCallee().Name() != "combineProfiles" {
				continue
			}
			for i, v := range variadicValues(call.Call.Args[0]) {
				if v == nil {
					continue
				}
				if _, isPtr := v.Type().Underlying().(*types.Pointer); !isPtr {
					continue
				}
				n++
				key := fmt.Sprintf("combine-non-nil:%d", i)
				if nonNilAt(v, b) {
					c.ok("C16-R7", key, p.relFile(call.Pos()), "profile #"+fmt.Sprint(i)+" passed to combineProfiles is non-nil", "a nil test of that value decides the path to the call")
				} else {
					c.bad("C16-R7", key, p.relFile(call.Pos()), "chunkedGrab passes "+describeValue(v)+" to combineProfiles without having tested it against nil on that path: when every source of the first chunk fails the accumulated profile is still nil, and merging it with a later chunk dereferences nil although a source was fetched")
				}
			}
		}
	}
	if n < 2 {
		c.undecided("C16-R7", "combine-non-nil", p.relFile(f.Pos()), fmt.Sprintf("expected two profiles in the combineProfiles call of chunkedGrab, found %d", n))
	}
}

// nonNilAt: on every path to block b the pointer v was compared with nil and found non-nil.
func nonNilAt(v ssa.Value, b *ssa.BasicBlock) bool {
	for d, child := b.Idom(), b; d != nil; child, d = d, d.Idom() {
		iff, ok := d.Instrs[len(d.Instrs)-1].(*ssa.If)
		if !ok || len(child.Preds) != 1 {
			continue
		}
		cmp, ok := iff.Cond.(*ssa.BinOp)
		if !ok || (cmp.Op != token.EQL && cmp.Op != token.NEQ) {
			continue
		}
		var other ssa.Value
		if cmp.X == v || sameFieldLoad(cmp.X, v) {
			other = cmp.Y
		} else if cmp.Y == v || sameFieldLoad(cmp.Y, v) {
			other = cmp.X
		} else {
			continue
		}
		if k, ok := other.(*ssa.Const); !ok || !k.IsNil() {
			continue
		}
		if (cmp.Op == token.EQL && d.Succs[1] == child) || (cmp.Op == token.NEQ && d.Succs[0] == child) {
			return true
		}
	}
	return false
}

// validatedPerSource (R8): a source counts as fetched only if its profile is valid,
// whoever produced it (the built-in fetch parses and validates, a plug-in fetcher need
// not).  In grabProfile every return reachable with all error tests negative is dominated
// by a CheckValid call on the profile.
func (c *Check) validatedPerSource() {
	p := c.P
	f := c.anchorFn("C16-R8", "internal/driver", "grabProfile")
	if f == nil {
		return
	}
	var cv *ssa.Call
	for _, b := range f.Blocks {
		for _, ins := range b.Instrs {
			if call, ok := ins.(*ssa.Call); ok && call.Call.StaticCallee() != nil && call.Call.StaticCallee().Name() == "CheckValid" {
				cv = call
			}
		}
	}
	if cv == nil {
		c.bad("C16-R8", "valid-per-source", p.relFile(f.Pos()), "grabProfile no longer validates the profile it returns: an invalid profile from a plug-in fetcher is counted as fetched, gets no per-source error, is merged, and makes the whole command fail later")
		return
	}
	reach := reachUnder(f, func(cond ssa.Value) int {
		if cmp, ok := cond.(*ssa.BinOp); ok && (cmp.Op == token.NEQ || cmp.Op == token.EQL) {
			isErr := func(v ssa.Value) bool { return typeShort(v.Type()) == "error" }
			isNil := func(v ssa.Value) bool { k, ok := v.(*ssa.Const); return ok && k.IsNil() }
			if (isErr(cmp.X) && isNil(cmp.Y)) || (isErr(cmp.Y) && isNil(cmp.X)) {
				if cmp.Op == token.NEQ {
					return -1
				}
				return 1
			}
		}
		return 0
	})
	bad := ""
	for _, b := range f.Blocks {
		if _, ok := b.Instrs[len(b.Instrs)-1].(*ssa.Return); ok && reach[b] && !cv.Block().Dominates(b) {
			bad = p.relFile(b.Instrs[len(b.Instrs)-1].Pos())
		}
	}
	if bad == "" {
		c.ok("C16-R8", "valid-per-source", p.relFile(cv.Pos()), "every profile grabProfile returns without error was validated", "CheckValid dominates every return reachable when all error tests are negative")
	} else {
		c.bad("C16-R8", "valid-per-source", bad, "grabProfile can return a profile without error before validating it")
	}
}

// goroutineRules: barrier and slot discipline for the go statements of the listed functions.
func (c *Check) goroutineRules(prop, rel string, fns []string) {
	p := c.P
	for _, name := range fns {
		f := c.anchorFn(prop+"-R1", rel, name)
		if f == nil {
			continue
		}
		var gos []*ssa.Go
		var adds, waits []*ssa.Call
		for _, b := range f.Blocks {
			for _, ins := range b.Instrs {
				switch x := ins.(type) {
				case *ssa.Go:
					gos = append(gos, x)
				case *ssa.Call:
					if sc := x.Call.StaticCallee(); sc != nil {
						switch sc.String() {
						case "(*sync.WaitGroup).Add":
							adds = append(adds, x)
						case "(*sync.WaitGroup).Wait":
							waits = append(waits, x)
						}
					}
				}
			}
		}
		if len(gos) == 0 {
			c.undecided(prop+"-R1", "go:"+name, p.relFile(f.Pos()), name+" starts no goroutine")
			continue
		}
		if len(adds) == 0 || len(waits) != 1 {
			c.undecided(prop+"-R1", "wg:"+name, p.relFile(f.Pos()), fmt.Sprintf("%s has %d wg.Add and %d wg.Wait calls; the rule expects one barrier", name, len(adds), len(waits)))
			continue
		}
		wait := waits[0]
		wg := wait.Call.Args[0]
		sameWG := true
		for _, a := range adds {
			if a.Call.Args[0] != wg {
				sameWG = false
			}
		}
		if !sameWG {
			c.undecided(prop+"-R1", "wg:"+name, p.relFile(f.Pos()), name+" uses more than one WaitGroup; the rule expects one barrier")
			continue
		}
		// Two accepted accounting forms (R2): one Add(k) before all launches, or one Add(1) paired
		// with each go statement (the k-th Add with the k-th go statement in source order).
		perLaunch := len(adds) > 1 || isConstInt(adds[0].Call.Args[1], 1) && loopDepth(adds[0].Block()) > 0
		addFor := func(i int) *ssa.Call {
			if !perLaunch {
				return adds[0]
			}
			if i < len(adds) {
				return adds[i]
			}
			return nil
		}
		// --- R1: Add precedes every launch; each body defers Done on the same wg
		inLoop := false
		for i, g := range gos {
			key := fmt.Sprintf("go:%s@%s", name, closureName(g))
			cl := goClosure(g)
			if cl == nil {
				c.undecided(prop+"-R1", key, p.relFile(g.Pos()), "go statement does not start a function literal")
				continue
			}
			if loopDepth(g.Block()) > 0 {
				inLoop = true
			}
			if add := addFor(i); add == nil || !instrDominates(add, g) {
				c.bad(prop+"-R1", key, p.relFile(g.Pos()), "goroutine is started before wg.Add")
				continue
			}
			if !doneOnAllPaths(cl, wg, g) {
				c.bad(prop+"-R1", key, p.relFile(g.Pos()), "goroutine body does not call wg.Done() on the barrier's WaitGroup on every path (deferred at entry, or before every return): wg.Wait would block forever or be released early")
				continue
			}
			if !instrDominates(g, wait) && !blockReachesPlain(g.Block(), wait.Block()) {
				c.bad(prop+"-R1", key, p.relFile(g.Pos()), "wg.Wait is not reached after this goroutine is started")
				continue
			}
			c.ok(prop+"-R1", key, p.relFile(g.Pos()), "goroutine in "+name, "started after wg.Add, wg.Done() runs on every exit of the body, wg.Wait follows")
		}
		// --- R2: Add count equals the number of launches
		key := "count:" + name
		switch {
		case perLaunch:
			why := ""
			if len(adds) != len(gos) {
				why = fmt.Sprintf("%d wg.Add calls for %d go statements", len(adds), len(gos))
			}
			for i := 0; why == "" && i < len(gos); i++ {
				a, g := adds[i], gos[i]
				switch {
				case !isConstInt(a.Call.Args[1], 1):
					why = "a per-launch wg.Add whose argument is not 1"
				case !instrDominates(a, g):
					why = "a wg.Add(1) that does not precede its go statement"
				case a.Block() != g.Block() && (blockReachesAvoid(a.Block(), wait.Block(), g.Block()) || cycleAvoiding(a.Block(), g.Block())):
					why = "a wg.Add(1) after which the go statement can be skipped"
				case a.Block() != g.Block() && cycleAvoiding(g.Block(), a.Block()):
					why = "a go statement that can run more than once per wg.Add(1)"
				}
			}
			if why == "" {
				c.ok(prop+"-R2", key, p.relFile(adds[0].Pos()), fmt.Sprintf("each of the %d go statements in %s is preceded by its own wg.Add(1)", len(gos), name), "k-th Add(1) dominates the k-th go statement, which cannot be skipped or repeated between that Add and the next one or the Wait")
			} else {
				c.bad(prop+"-R2", key, p.relFile(adds[0].Pos()), name+" has "+why+": the barrier's count would not equal the number of goroutines")
			}
		case !inLoop:
			n := adds[0].Call.Args[1]
			if k, ok := n.(*ssa.Const); ok && int(safeInt64(k)) == len(gos) {
				c.ok(prop+"-R2", key, p.relFile(adds[0].Pos()), fmt.Sprintf("wg.Add(%d) matches %d go statements in %s", safeInt64(k), len(gos), name), "constant count equals the number of launches")
			} else {
				c.bad(prop+"-R2", key, p.relFile(adds[0].Pos()), fmt.Sprintf("wg.Add argument %s does not equal the %d goroutines started in %s", describeValue(n), len(gos), name))
			}
		default:
			// one go statement inside a forward loop over xs: Add(len(xs)) over the same xs
			okCount := false
			if xs := lenSlice(adds[0].Call.Args[1]); xs != nil && len(gos) == 1 && loopDepth(adds[0].Block()) == 0 {
				if bound := loopBoundOf(gos[0].Block()); bound != nil && bound == xs {
					okCount = true
				}
			}
			if okCount {
				c.ok(prop+"-R2", key, p.relFile(adds[0].Pos()), "wg.Add(len(sources)) matches one goroutine per element in "+name, "the go statement sits in a forward loop over the same slice whose length is added")
			} else {
				c.bad(prop+"-R2", key, p.relFile(adds[0].Pos()), "wg.Add count in "+name+" is not the length of the slice whose loop starts the goroutines")
			}
		}
		// --- R3: slots
		written := map[*ssa.Alloc][]*ssa.Go{}
		for _, g := range gos {
			cl := goClosure(g)
			if cl == nil {
				continue
			}
			key := fmt.Sprintf("slot:%s@%s", name, closureName(g))
			gInLoop := loopDepth(g.Block()) > 0
			bad := ""
			nw := 0
			writtenParams := map[int]bool{}
			for _, b := range cl.Blocks {
				for _, ins := range b.Instrs {
					st, ok := ins.(*ssa.Store)
					if !ok {
						continue
					}
					base, loads := addrBase(st.Addr)
					switch bx := base.(type) {
					case *ssa.Parameter:
						nw++ // through its own argument; checked at the launch below
						for i, q := range cl.Params {
							if q == bx {
								writtenParams[i] = true
								// the argument is the address of a variable of the launching function
								if i < len(g.Call.Args) {
									if cell, owner := resolveCell(g.Call.Args[i]); cell != nil && owner == f && loads <= 1 {
										if gInLoop && !perIteration(cell, g) {
											bad = "a goroutine started in a loop writes the shared variable " + cell.Comment
										} else if !containsGo(written[cell], g) {
											written[cell] = append(written[cell], g)
										}
									}
								}
							}
						}
					case *ssa.FreeVar:
						cell, owner := resolveCell(bx)
						switch {
						case cell == nil || owner != f:
							bad = "writes through a captured pointer that is not a simple variable"
						case loads == 0:
							// the captured variable itself (or one of its fields)
							if gInLoop && !perIteration(cell, g) {
								bad = "a goroutine started in a loop writes the shared variable " + cell.Comment
							} else {
								if !containsGo(written[cell], g) {
									written[cell] = append(written[cell], g)
								}
								nw++
							}
						default:
							// through a captured pointer: it must be this iteration's own &xs[i]
							if gInLoop && perIteration(cell, g) && holdsOwnSlot(cell, f) {
								nw++
							} else {
								bad = "writes through the captured pointer " + cell.Comment + ", which is not this iteration's own &sources[i]"
							}
						}
					default:
						if rk, _ := rootOf(st.Addr, 0, map[ssa.Value]bool{}); rk != rFresh {
							bad = "writes to " + describeValue(st.Addr) + " (" + rk.String() + ")"
						}
					}
				}
			}
			if gInLoop {
				// a pointer argument must be &xs[i] with i the loop index
				for i, a := range g.Call.Args {
					if _, isPtr := a.Type().Underlying().(*types.Pointer); !isPtr || !writtenParams[i] {
						continue // not a pointer, or one the body never writes through (e.g. the WaitGroup)
					}
					ia, ok := a.(*ssa.IndexAddr)
					if !ok || !isForwardIndex(ia.Index) {
						bad = "the goroutine's argument is not &sources[i] for the loop index i"
					}
				}
			}
			if bad != "" {
				c.bad(prop+"-R3", key, p.relFile(g.Pos()), "goroutine in "+name+" "+bad)
			} else {
				c.ok(prop+"-R3", key, p.relFile(g.Pos()), "goroutine in "+name+" writes only its own slot", fmt.Sprintf("%d stores, all through its own argument or variables private to it", nw))
			}
		}
		for cell, fns := range written {
			if len(fns) > 1 {
				c.bad(prop+"-R3", "slot:"+name+":"+cell.Comment, p.relFile(cell.Pos()), "variable "+cell.Comment+" is written by more than one goroutine in "+name)
			}
		}
		// reads in the parent of anything the goroutines write must follow the barrier
		nReads := 0
		okReads := true
		for _, b := range f.Blocks {
			for _, ins := range b.Instrs {
				ld, ok := ins.(*ssa.UnOp)
				if !ok || ld.Op != token.MUL {
					continue
				}
				shared := false
				addr := ld.X
				for {
					fa, ok := addr.(*ssa.FieldAddr)
					if !ok {
						break
					}
					addr = fa.X
				}
				if al, ok := addr.(*ssa.Alloc); ok {
					if _, w := written[al]; w {
						shared = true
					}
				}
				if ia, ok := addr.(*ssa.IndexAddr); ok && inLoop {
					if _, isParam := ia.X.(*ssa.Parameter); isParam {
						shared = true
					}
				}
				if !shared {
					continue
				}
				nReads++
				if !instrDominates(wait, ld) {
					okReads = false
					c.bad(prop+"-R3", fmt.Sprintf("barrier:%s:%s", name, describeValue(ld.X)), p.relFile(ld.Pos()), "a result written by a goroutine is read in "+name+" at a point not dominated by wg.Wait()")
				}
			}
		}
		// results handed to a helper that reads them (the harvesting loop split out): the call
		// is a read of every slot
		if inLoop {
			for _, b := range f.Blocks {
				for _, ins := range b.Instrs {
					h := helperCallee(f, ins)
					if h == nil {
						continue
					}
					if _, isGo := ins.(*ssa.Go); isGo {
						continue
					}
					call := ins.(ssa.CallInstruction)
					for i, a := range call.Common().Args {
						if _, isParam := a.(*ssa.Parameter); !isParam || i >= len(h.Params) || !readsElementsOf(h, h.Params[i]) {
							continue
						}
						if _, isSlice := a.Type().Underlying().(*types.Slice); !isSlice {
							continue
						}
						nReads++
						if !instrDominates(wait, ins) {
							okReads = false
							c.bad(prop+"-R3", fmt.Sprintf("barrier:%s:%s", name, fnName(h)), p.relFile(ins.Pos()), "the results written by the goroutines are handed to "+fnName(h)+" in "+name+" at a point not dominated by wg.Wait()")
						}
					}
				}
			}
		}
		if okReads {
			c.ok(prop+"-R3", "barrier:"+name, p.relFile(wait.Pos()), "results are read only after the barrier in "+name, fmt.Sprintf("wg.Wait dominates all %d reads of goroutine-written state", nReads))
		}
		if nReads == 0 {
			c.undecided(prop+"-R3", "barrier-reads:"+name, p.relFile(wait.Pos()), "no read of goroutine-written state found in "+name)
		}
	}
	c.Floor(prop+"-R1", 3)
}

func isConstInt(v ssa.Value, n int64) bool {
	k, ok := v.(*ssa.Const)
	return ok && k.Value != nil && k.Value.Kind() == constant.Int && safeInt64(k) == n
}

// lenSlice: v is len(xs); returns xs.
func lenSlice(v ssa.Value) ssa.Value {
	if lc, ok := v.(*ssa.Call); ok {
		if bi, ok := lc.Call.Value.(*ssa.Builtin); ok && bi.Name() == "len" {
			return lc.Call.Args[0]
		}
	}
	return nil
}

// addrBase strips field/element selections and pointer loads from an address and
// reports how many loads were crossed.
func addrBase(a ssa.Value) (ssa.Value, int) {
	loads := 0
	for {
		switch x := a.(type) {
		case *ssa.FieldAddr:
			a = x.X
		case *ssa.IndexAddr:
			a = x.X
		case *ssa.UnOp:
			if x.Op != token.MUL {
				return a, loads
			}
			loads++
			a = x.X
		default:
			return a, loads
		}
	}
}

// perIteration: the variable is declared inside the loop body that contains the go
// statement g (a new cell on every iteration) and before it.
func perIteration(cell *ssa.Alloc, g *ssa.Go) bool {
	return cell.Block() != nil && loopDepth(cell.Block()) > 0 && instrDominates(cell, g) && (cell.Block() == g.Block() || !cycleAvoiding(g.Block(), cell.Block()))
}

// holdsOwnSlot: the only value ever stored in the variable is &xs[i] for the index i
// of a forward loop.
func holdsOwnSlot(cell *ssa.Alloc, f *ssa.Function) bool {
	n := 0
	ok := true
	forEachFuncAndAnon(f, func(fn *ssa.Function) {
		for _, b := range fn.Blocks {
			for _, ins := range b.Instrs {
				st, isSt := ins.(*ssa.Store)
				if !isSt {
					continue
				}
				if a, _ := resolveCell(st.Addr); a != cell {
					continue
				}
				n++
				ia, isIA := st.Val.(*ssa.IndexAddr)
				if !isIA || fn != f || !isForwardIndex(ia.Index) {
					ok = false
				}
			}
		}
	})
	return ok && n == 1
}

// forwardIndex: v is the index of a loop that visits 0, 1, 2, … in ascending order
// (`for i := range xs` or `for i := 0; i < n; i++`); the result is the bound it is
// compared with in the loop header.
func forwardIndex(v ssa.Value) (ssa.Value, bool) {
	var counter ssa.Value
	if rangeIndex(v) {
		counter = v
	} else if phi, ok := v.(*ssa.Phi); ok && len(phi.Edges) == 2 {
		zero, step := 0, 0
		for _, e := range phi.Edges {
			if isConstInt(e, 0) {
				zero++
			} else if add, ok := e.(*ssa.BinOp); ok && add.Op == token.ADD && add.X == phi && isConstInt(add.Y, 1) {
				step++
			}
		}
		if zero == 1 && step == 1 {
			counter = phi
		}
	}
	if counter == nil {
		return nil, false
	}
	for _, r := range *counter.Referrers() {
		cmp, ok := r.(*ssa.BinOp)
		if !ok || cmp.Op != token.LSS || cmp.X != counter {
			continue
		}
		for _, rr := range *cmp.Referrers() {
			if _, isIf := rr.(*ssa.If); isIf && blockReachesPlain(rr.Block(), rr.Block()) {
				return cmp.Y, true
			}
		}
	}
	return nil, false
}

func isForwardIndex(v ssa.Value) bool {
	_, ok := forwardIndex(v)
	return ok
}

func dedupFns(fns []*ssa.Function) []*ssa.Function {
	m := map[*ssa.Function]bool{}
	var out []*ssa.Function
	for _, f := range fns {
		if !m[f] {
			m[f] = true
			out = append(out, f)
		}
	}
	return out
}

func goClosure(g *ssa.Go) *ssa.Function {
	switch v := g.Call.Value.(type) {
	case *ssa.MakeClosure:
		return v.Fn.(*ssa.Function)
	case *ssa.Function:
		return v
	}
	return nil
}

func closureName(g *ssa.Go) string {
	if cl := goClosure(g); cl != nil {
		return cl.Name()
	}
	return "?"
}

// doneOnAllPaths: wg.Done() on the parent's WaitGroup is deferred in the entry block, or
// a direct call dominates every return of the body.
func doneOnAllPaths(cl *ssa.Function, wg ssa.Value, g *ssa.Go) bool {
	if deferDoneFirst(cl, wg, g) {
		return true
	}
	target, _ := resolveCell(wg)
	var dones []ssa.Instruction
	for _, b := range cl.Blocks {
		for _, ins := range b.Instrs {
			if call, ok := ins.(*ssa.Call); ok && call.Call.StaticCallee() != nil && call.Call.StaticCallee().String() == "(*sync.WaitGroup).Done" {
				if a := goBodyCell(call.Call.Args[0], cl, g); a != nil && a == target {
					dones = append(dones, call)
				}
			}
		}
	}
	if len(dones) == 0 {
		return false
	}
	for _, b := range cl.Blocks {
		ret, ok := b.Instrs[len(b.Instrs)-1].(*ssa.Return)
		if !ok {
			continue
		}
		covered := false
		for _, d := range dones {
			if instrDominates(d, ret) {
				covered = true
			}
		}
		if !covered {
			return false
		}
	}
	return true
}

// deferDoneFirst: the first instruction with an effect in cl's entry block is
// `defer wg.Done()` on the WaitGroup wg of parent f.
func deferDoneFirst(cl *ssa.Function, wg ssa.Value, g *ssa.Go) bool {
	if len(cl.Blocks) == 0 {
		return false
	}
	for _, ins := range cl.Blocks[0].Instrs {
		switch x := ins.(type) {
		case *ssa.Defer:
			sc := x.Call.StaticCallee()
			if sc == nil || sc.String() != "(*sync.WaitGroup).Done" {
				return false
			}
			// same WaitGroup: the captured variable resolves to the parent's wg
			a := goBodyCell(x.Call.Args[0], cl, g)
			b, _ := resolveCell(wg)
			return a != nil && a == b
		case *ssa.DebugRef:
			continue
		default:
			if _, isVal := ins.(ssa.Value); isVal {
				if _, isCall := ins.(*ssa.Call); !isCall {
					continue // address computations, loads
				}
			}
			return false
		}
	}
	return false
}

// loopDepth: is block b inside a CFG cycle?
func loopDepth(b *ssa.BasicBlock) int {
	if blockReachesPlain(b, b) {
		return 1
	}
	return 0
}

// loopBoundOf: for a block inside a forward loop over xs (`for i := range xs`, or
// `for i := 0; i < len(xs); i++` with the length possibly hoisted), the slice xs.
func loopBoundOf(b *ssa.BasicBlock) ssa.Value {
	for _, blk := range b.Parent().Blocks {
		if len(blk.Instrs) == 0 {
			continue
		}
		iff, ok := blk.Instrs[len(blk.Instrs)-1].(*ssa.If)
		if !ok {
			continue
		}
		cmp, ok := iff.Cond.(*ssa.BinOp)
		if !ok || cmp.Op != token.LSS {
			continue
		}
		bound, ok := forwardIndex(cmp.X)
		if !ok || bound != cmp.Y {
			continue
		}
		if !blockReachesPlain(blk, b) || !blockReachesPlain(b, blk) {
			continue
		}
		if xs := lenSlice(cmp.Y); xs != nil {
			return xs
		}
	}
	return nil
}

// collectRules (R4, R5)
func (c *Check) collectRules() {
	p := c.P
	cgTop := c.anchorFn("C16-R4", "internal/driver", "concurrentGrab")
	if cgTop == nil {
		return
	}
	// the loop that harvests the results: in concurrentGrab itself, or in a helper it hands
	// its sources to after the barrier
	cg := collectionFunction(cgTop)
	// R4: results appended in index order
	nApp := 0
	for _, hs := range harvestSites(cg) {
		{
			call := hs.ins
			elems := []ssa.Value{hs.val}
			// sources[i].F read in place (s := &sources[i]; s.F) or from a snapshot (got := sources[i]; got.F)
			var elemAddr ssa.Value
			var T, F string
			switch x := elems[0].(type) {
			case *ssa.UnOp:
				if fa, ok := x.X.(*ssa.FieldAddr); ok && x.Op == token.MUL {
					T, F = fieldOf(fa.X.Type(), fa.Field)
					elemAddr = fa.X
				}
			case *ssa.Field:
				T, F = fieldOf(x.X.Type(), x.Field)
				if ld, ok := x.X.(*ssa.UnOp); ok && ld.Op == token.MUL {
					elemAddr = ld.X
				}
			}
			if T != "driver.profileSource" {
				continue
			}
			if al, ok := elemAddr.(*ssa.Alloc); ok {
				// a local copy: its only assignment is `got := sources[i]`, before the append
				elemAddr = nil
				n := 0
				for _, b2 := range cg.Blocks {
					for _, ins2 := range b2.Instrs {
						st, ok := ins2.(*ssa.Store)
						if !ok {
							continue
						}
						if base, _ := addrBase(st.Addr); base != ssa.Value(al) {
							continue
						}
						n++
						if ld, ok := st.Val.(*ssa.UnOp); ok && ld.Op == token.MUL && st.Addr == ssa.Value(al) && instrDominates(st, call) {
							elemAddr = ld.X
						}
					}
				}
				if n != 1 {
					elemAddr = nil
				}
			}
			nApp++
			key := "order:" + F
			ia, ok := elemAddr.(*ssa.IndexAddr)
			if ok && isForwardIndex(ia.Index) {
				if _, isParam := ia.X.(*ssa.Parameter); isParam {
					c.ok("C16-R4", key, p.relFile(call.Pos()), "fetched "+F+" values are collected in command-line order", "append of sources[i]."+F+" for the index of a forward loop over the sources")
					continue
				}
			}
			c.bad("C16-R4", key, p.relFile(call.Pos()), "results ("+F+") are not collected by a forward index loop over the sources: the merge order would depend on something other than command-line order")
		}
	}
	if nApp < 2 {
		c.undecided("C16-R4", "order", p.relFile(cg.Pos()), "collection of profiles and mapping sources not found in concurrentGrab")
	}
	// R5: a source's error never reaches a return value
	for _, b := range cgTop.Blocks {
		ret, ok := b.Instrs[len(b.Instrs)-1].(*ssa.Return)
		if !ok {
			continue
		}
		errv := ret.Results[len(ret.Results)-1]
		key := fmt.Sprintf("errflow:return@%d", len(c.Obls))
		switch x := errv.(type) {
		case *ssa.Const:
			c.ok("C16-R5", key, p.relFile(ret.Pos()), "concurrentGrab returns a nil error", "constant")
		case *ssa.Extract:
			if call, ok := x.Tuple.(*ssa.Call); ok && call.Call.StaticCallee() != nil && call.Call.StaticCallee().Name() == "combineProfiles" {
				c.ok("C16-R5", key, p.relFile(ret.Pos()), "concurrentGrab returns the merge error", "the only non-nil error is combineProfiles' (incompatible profiles), never a per-source fetch error")
			} else {
				c.bad("C16-R5", key, p.relFile(ret.Pos()), "concurrentGrab returns an error that is not the merge error")
			}
		default:
			c.bad("C16-R5", key, p.relFile(ret.Pos()), "concurrentGrab can return "+describeValue(errv)+" as its error: one failing source would fail the whole fetch")
		}
	}
	// each per-source error is printed
	printed := false
	for _, b := range cg.Blocks {
		for _, ins := range b.Instrs {
			if call, ok := ins.(*ssa.Call); ok && call.Call.IsInvoke() && call.Call.Method.Name() == "PrintErr" {
				// control-dependent on s.err != nil: the block is not reachable when err == nil
				reach := reachUnder(cg, func(cond ssa.Value) int {
					if cmp, ok := cond.(*ssa.BinOp); ok && (cmp.Op == token.NEQ || cmp.Op == token.EQL) {
						if isFieldLoad(cmp.X, "driver.profileSource", "err") || isFieldLoad(cmp.Y, "driver.profileSource", "err") {
							if cmp.Op == token.NEQ {
								return -1
							}
							return 1
						}
					}
					return 0
				})
				if !reach[b] {
					printed = true
				}
			}
		}
	}
	if printed {
		c.ok("C16-R5", "errflow:printed", p.relFile(cg.Pos()), "a failing source produces one PrintErr and is skipped", "the PrintErr call is reachable only when the source's err is non-nil")
	} else {
		c.bad("C16-R5", "errflow:printed", p.relFile(cg.Pos()), "no PrintErr guarded by the source's err != nil in concurrentGrab")
	}
	// 'no profile' decided from counts in grabSourcesAndBases
	gsb := c.anchorFn("C16-R5", "internal/driver", "grabSourcesAndBases")
	if gsb != nil {
		// the count each goroutine receives from chunkedGrab (its int result) is compared with 0 in the parent
		type slot struct {
			cell *ssa.Alloc
			path string
			pos  token.Pos
		}
		var slots []slot
		for _, gb := range gsb.Blocks {
			for _, gi := range gb.Instrs {
				g, isGo := gi.(*ssa.Go)
				if !isGo {
					continue
				}
				an := goClosure(g)
				if an == nil {
					continue
				}
				for _, b := range an.Blocks {
					for _, ins := range b.Instrs {
						st, ok := ins.(*ssa.Store)
						if !ok {
							continue
						}
						isCount := func(v ssa.Value) bool {
							ex, ok := v.(*ssa.Extract)
							if !ok || !isIntType(ex.Type()) {
								return false
							}
							call, ok := ex.Tuple.(*ssa.Call)
							return ok && call.Call.StaticCallee() != nil && call.Call.StaticCallee().Name() == "chunkedGrab"
						}
						// the whole outcome stored as one struct value (built here or by a helper):
						// the field that holds chunkedGrab's count
						if sty, isStruct := st.Val.Type().Underlying().(*types.Struct); isStruct {
							if cell, _ := resolveCell(st.Addr); cell != nil {
								for fi := 0; fi < sty.NumFields(); fi++ {
									if !isIntType(sty.Field(fi).Type()) {
										continue
									}
									if vals, ok := structFieldValues(p, st.Val, fi, 0); ok {
										for _, fv := range vals {
											if isCount(fv) {
												slots = append(slots, slot{cell, "." + sty.Field(fi).Name(), st.Pos()})
											}
										}
									}
								}
							}
							continue
						}
						if !isCount(st.Val) {
							continue
						}
						base, loads := addrBase(st.Addr)
						if _, isPar := base.(*ssa.Parameter); isPar && loads <= 1 {
							// through a pointer parameter bound to &variable at the go statement
							if cell := goBodyCell(base, an, g); cell != nil {
								slots = append(slots, slot{cell, fieldPath(st.Addr), st.Pos()})
							}
							continue
						}
						if cell, _ := resolveCell(base); cell != nil && loads == 0 {
							slots = append(slots, slot{cell, fieldPath(st.Addr), st.Pos()})
						}
					}
				}
			}
		}
		if len(slots) < 2 {
			c.undecided("C16-R5", "count", p.relFile(gsb.Pos()), fmt.Sprintf("found %d variables receiving chunkedGrab's count in grabSourcesAndBases's goroutines (expected one for the sources and one for the bases)", len(slots)))
		}
		for i, sl := range slots {
			found := false
			for _, b := range gsb.Blocks {
				for _, ins := range b.Instrs {
					cmp, ok := ins.(*ssa.BinOp)
					if !ok || cmp.Op != token.EQL || !isConstInt(cmp.Y, 0) {
						continue
					}
					if ld, ok := cmp.X.(*ssa.UnOp); ok && ld.Op == token.MUL {
						base, loads := addrBase(ld.X)
						if base == ssa.Value(sl.cell) && loads == 0 && fieldPath(ld.X) == sl.path {
							found = true
						}
					}
				}
			}
			key := fmt.Sprintf("count:group%d", i)
			what := sl.cell.Comment + sl.path
			if found {
				c.ok("C16-R5", key, p.relFile(gsb.Pos()), "failure of a whole group is decided from "+what+" == 0", "the count a goroutine stores from chunkedGrab is compared with zero after the barrier")
			} else {
				c.bad("C16-R5", key, p.relFile(sl.pos), "grabSourcesAndBases no longer tests "+what+" == 0")
			}
		}
	}
}

func isIntType(t types.Type) bool {
	b, ok := t.Underlying().(*types.Basic)
	return ok && b.Kind() == types.Int
}

// fieldPath: the field selections of an address, e.g. ".count".
func fieldPath(a ssa.Value) string {
	path := ""
	for {
		fa, ok := a.(*ssa.FieldAddr)
		if !ok {
			return path
		}
		_, f := fieldOf(fa.X.Type(), fa.Field)
		path = "." + f + path
		a = fa.X
	}
}

func (c *Check) chunkTiling() {
	p := c.P
	f := c.anchorFn("C16-R6", "internal/driver", "chunkedGrab")
	if f == nil {
		return
	}
	var sl *ssa.Slice
	for _, b := range f.Blocks {
		for _, ins := range b.Instrs {
			if s, ok := ins.(*ssa.Slice); ok {
				if _, isParam := s.X.(*ssa.Parameter); isParam && strings.Contains(typeShort(s.X.Type()), "profileSource") {
					sl = s
				}
			}
		}
	}
	if sl == nil {
		if c.chunkTilingByRemainder(f) {
			return
		}
		c.undecided("C16-R6", "tiling", p.relFile(f.Pos()), "chunkedGrab does not slice its sources parameter")
		return
	}
	key := "tiling"
	start, ok := sl.Low.(*ssa.Phi)
	if !ok {
		c.undecided("C16-R6", key, p.relFile(sl.Pos()), "chunk start is not a loop variable")
		return
	}
	// start = phi[0, start + K]
	var step int64 = -1
	okStart := true
	for _, e := range start.Edges {
		if k, ok := e.(*ssa.Const); ok {
			if safeInt64(k) != 0 {
				okStart = false
			}
			continue
		}
		if add, ok := e.(*ssa.BinOp); ok && add.Op == token.ADD && add.X == ssa.Value(start) {
			if k, ok := add.Y.(*ssa.Const); ok {
				step = safeInt64(k)
				continue
			}
		}
		okStart = false
	}
	// end = phi[start + K', len(sources)]  or  min(start+K', len(sources))
	var endStep int64 = -2
	clamp := false
	lenOf := func(v ssa.Value) bool {
		lc, ok := v.(*ssa.Call)
		if !ok {
			return false
		}
		bi, ok := lc.Call.Value.(*ssa.Builtin)
		return ok && bi.Name() == "len" && lc.Call.Args[0] == sl.X
	}
	plusK := func(v ssa.Value) (int64, bool) {
		add, ok := v.(*ssa.BinOp)
		if !ok || add.Op != token.ADD || add.X != ssa.Value(start) {
			return 0, false
		}
		k, ok := add.Y.(*ssa.Const)
		if !ok {
			return 0, false
		}
		return safeInt64(k), true
	}
	switch e := sl.High.(type) {
	case *ssa.Phi:
		for _, ed := range e.Edges {
			if k, ok := plusK(ed); ok {
				endStep = k
			} else if lenOf(ed) {
				clamp = true
			} else {
				endStep = -3
			}
		}
	case *ssa.Call:
		if bi, ok := e.Call.Value.(*ssa.Builtin); ok && bi.Name() == "min" && len(e.Call.Args) == 2 {
			for _, a := range e.Call.Args {
				if k, ok := plusK(a); ok {
					endStep = k
				} else if lenOf(a) {
					clamp = true
				}
			}
		}
	}
	switch {
	case !okStart || step <= 0:
		c.bad("C16-R6", key, p.relFile(sl.Pos()), "chunk start does not advance from 0 by a positive constant step")
	case endStep != step:
		c.bad("C16-R6", key, p.relFile(sl.Pos()), fmt.Sprintf("chunk end is start+%d but start advances by %d: consecutive chunks overlap or leave a gap at the chunk boundary", endStep, step))
	case !clamp:
		c.bad("C16-R6", key, p.relFile(sl.Pos()), "chunk end is not clamped to len(sources): the last chunk would slice past the end")
	default:
		c.ok("C16-R6", key, p.relFile(sl.Pos()), "chunks sources[start:end] tile the source list", fmt.Sprintf("start = 0, +%d; end = min(start+%d, len(sources)); both steps equal", step, endStep))
	}
	// R7: the chunk loop is left only through its condition or through an error return
	if hdrBlock := start.Block(); hdrBlock != nil {
		inLoop := naturalLoop(hdrBlock)
		bad := ""
		for b := range inLoop {
			for _, sc := range b.Succs {
				if inLoop[sc] || b == hdrBlock {
					continue
				}
				// an exit from inside the loop body: must be an error return
				if ret, ok := sc.Instrs[len(sc.Instrs)-1].(*ssa.Return); ok && len(sc.Instrs) <= 2 {
					if k, isConst := ret.Results[len(ret.Results)-1].(*ssa.Const); !isConst || !k.IsNil() {
						continue
					}
				}
				bad = p.relFile(b.Instrs[len(b.Instrs)-1].Pos())
			}
		}
		if bad == "" {
			c.ok("C16-R6", "tiling:exits", p.relFile(f.Pos()), "the chunk loop visits every chunk", "it is left only through its condition or through an error return")
		} else {
			c.bad("C16-R6", "tiling:exits", p.relFile(f.Pos()), "the chunk loop can be left early without an error (a break): the remaining chunks are never fetched although their sources may be fine")
		}
	}
	// the loop runs while start < len(sources)
	okCond := false
	for _, b := range f.Blocks {
		if iff, ok := b.Instrs[len(b.Instrs)-1].(*ssa.If); ok {
			if cmp, ok := iff.Cond.(*ssa.BinOp); ok && cmp.Op == token.LSS && cmp.X == ssa.Value(start) && lenOf(cmp.Y) {
				okCond = true
			}
		}
	}
	if okCond {
		c.ok("C16-R6", "tiling:cond", p.relFile(f.Pos()), "chunk loop runs while start < len(sources)", "loop condition found")
	} else {
		c.bad("C16-R6", "tiling:cond", p.relFile(f.Pos()), "chunk loop condition is not start < len(sources): the last partial chunk could be skipped")
	}
}

// cycleAvoiding: b can be executed again (a path from one of its successors back to b)
// without passing through avoid.
func cycleAvoiding(b, avoid *ssa.BasicBlock) bool {
	if b == avoid {
		return false
	}
	for _, s := range b.Succs {
		if s == avoid {
			continue
		}
		if s == b || blockReachesAvoid(s, b, avoid) {
			return true
		}
	}
	return false
}

// goBodyCell: the variable of the launching function that the value v, used in the body cl
// of the goroutine started by g, refers to: a captured variable, or a pointer parameter
// bound to &variable at the go statement.
func goBodyCell(v ssa.Value, cl *ssa.Function, g *ssa.Go) *ssa.Alloc {
	if par, ok := v.(*ssa.Parameter); ok && g != nil {
		for i, q := range cl.Params {
			if q == par && i < len(g.Call.Args) {
				a, _ := resolveCell(g.Call.Args[i])
				return a
			}
		}
		return nil
	}
	a, _ := resolveCell(v)
	return a
}

func containsGo(gs []*ssa.Go, g *ssa.Go) bool {
	for _, x := range gs {
		if x == g {
			return true
		}
	}
	return false
}

// collectionFunction: concurrentGrab, or the same-package helper it passes its sources
// parameter to that appends the sources' profiles (the harvesting loop split out).
func collectionFunction(cg *ssa.Function) *ssa.Function {
	appendsProfiles := func(f *ssa.Function) bool {
		for _, hs := range harvestSites(f) {
			if isFieldLoad(hs.val, "driver.profileSource", "p") {
				return true
			}
		}
		return false
	}
	if appendsProfiles(cg) {
		return cg
	}
	for _, b := range cg.Blocks {
		for _, ins := range b.Instrs {
			h := helperCallee(cg, ins)
			if h == nil || !appendsProfiles(h) {
				continue
			}
			for _, a := range ins.(ssa.CallInstruction).Common().Args {
				if _, isParam := a.(*ssa.Parameter); isParam {
					return h
				}
			}
		}
	}
	return cg
}

// readsElementsOf: function h loads (a field of) an element of its slice parameter par.
func readsElementsOf(h *ssa.Function, par *ssa.Parameter) bool {
	for _, b := range h.Blocks {
		for _, ins := range b.Instrs {
			ld, ok := ins.(*ssa.UnOp)
			if !ok || ld.Op != token.MUL {
				continue
			}
			addr := ld.X
			for {
				fa, ok := addr.(*ssa.FieldAddr)
				if !ok {
					break
				}
				addr = fa.X
			}
			if ia, ok := addr.(*ssa.IndexAddr); ok && ia.X == ssa.Value(par) {
				return true
			}
		}
	}
	return false
}

// chunkTilingByRemainder: the chunk loop written as "consume the remainder":
//
//	for rest := sources; len(rest) > 0; { n := min(K, len(rest)); chunk := rest[:n]; rest = rest[n:]; … }
//
// The chunks tile the list when chunk and the new remainder are cut from the same remainder
// at the same n, n is K capped by len(rest) with K > 0, and the loop runs while len(rest) > 0.
// Returns false when the function is not of this form (nothing is reported then).
func (c *Check) chunkTilingByRemainder(f *ssa.Function) bool {
	p := c.P
	var chunk *ssa.Slice
	for _, b := range f.Blocks {
		for _, ins := range b.Instrs {
			call, ok := ins.(*ssa.Call)
			if !ok || call.Call.StaticCallee() == nil || call.Call.StaticCallee().Name() != "concurrentGrab" || len(call.Call.Args) == 0 {
				continue
			}
			if sl, ok := call.Call.Args[0].(*ssa.Slice); ok {
				chunk = sl
			}
		}
	}
	if chunk == nil {
		return false
	}
	rest, ok := chunk.X.(*ssa.Phi)
	if !ok || chunk.Low != nil || chunk.High == nil {
		return false
	}
	// rest = phi[sources, rest[n:]]
	var next *ssa.Slice
	fromParam := false
	for _, e := range rest.Edges {
		switch x := e.(type) {
		case *ssa.Parameter:
			fromParam = true
		case *ssa.Slice:
			next = x
		default:
			return false
		}
	}
	if !fromParam || next == nil {
		return false
	}
	key := "tiling"
	n := chunk.High
	g := newGuardEngine(p)
	var step int64
	okStep := false
	if call, ok := n.(*ssa.Call); ok {
		if bi, ok := call.Call.Value.(*ssa.Builtin); ok && bi.Name() == "min" {
			for _, a := range call.Call.Args {
				if k, ok := constInt(a); ok && k > 0 {
					step, okStep = k, true
				}
			}
		}
	}
	if ph, ok := n.(*ssa.Phi); ok {
		for _, e := range ph.Edges {
			if k, ok := constInt(e); ok && k > 0 {
				step, okStep = k, true
			}
		}
	}
	switch {
	case next.X != ssa.Value(rest) || next.High != nil || next.Low != n:
		c.bad("C16-R6", key, p.relFile(chunk.Pos()), "the chunk and the remaining sources are not cut from the same list at the same position: consecutive chunks overlap or leave a gap at the chunk boundary")
	case !okStep || !g.leLen(n, rest, 0):
		c.bad("C16-R6", key, p.relFile(chunk.Pos()), "the chunk length is not a positive constant capped by the number of remaining sources: the last chunk would slice past the end, or the loop would not advance")
	default:
		c.ok("C16-R6", key, p.relFile(chunk.Pos()), "chunks rest[:n] tile the source list", fmt.Sprintf("n = min(%d, len(rest)); the remainder continues at rest[n:]", step))
	}
	hdr := rest.Block()
	inLoop := naturalLoop(hdr)
	bad := ""
	for b := range inLoop {
		for _, sc := range b.Succs {
			if inLoop[sc] || b == hdr {
				continue
			}
			if ret, ok := sc.Instrs[len(sc.Instrs)-1].(*ssa.Return); ok && len(sc.Instrs) <= 2 {
				if k, isConst := ret.Results[len(ret.Results)-1].(*ssa.Const); !isConst || !k.IsNil() {
					continue
				}
			}
			bad = p.relFile(b.Instrs[len(b.Instrs)-1].Pos())
		}
	}
	if bad == "" {
		c.ok("C16-R6", "tiling:exits", p.relFile(f.Pos()), "the chunk loop visits every chunk", "it is left only through its condition or through an error return")
	} else {
		c.bad("C16-R6", "tiling:exits", p.relFile(f.Pos()), "the chunk loop can be left early without an error (a break): the remaining chunks are never fetched although their sources may be fine")
	}
	okCond := false
	if iff, ok := hdr.Instrs[len(hdr.Instrs)-1].(*ssa.If); ok {
		if cmp, ok := iff.Cond.(*ssa.BinOp); ok {
			if k, isK := constInt(cmp.Y); isK && lenSlice(cmp.X) == ssa.Value(rest) && (cmp.Op == token.GTR && k == 0 || cmp.Op == token.NEQ && k == 0 || cmp.Op == token.GEQ && k == 1) {
				okCond = true
			}
		}
	}
	if okCond {
		c.ok("C16-R6", "tiling:cond", p.relFile(f.Pos()), "chunk loop runs while sources remain", "loop condition len(rest) > 0")
	} else {
		c.bad("C16-R6", "tiling:cond", p.relFile(f.Pos()), "chunk loop condition is not \"sources remain\": the last partial chunk could be skipped")
	}
	return true
}

// harvestSite: one place where a fetched result is put into the list that is merged: an
// append of the value, or a store into the next free slot of a preallocated list (a counter
// that starts at 0 and grows by one per stored element), which keeps the order as well.
type harvestSite struct {
	ins ssa.Instruction
	val ssa.Value
}

func harvestSites(f *ssa.Function) []harvestSite {
	var out []harvestSite
	for _, b := range f.Blocks {
		for _, ins := range b.Instrs {
			switch x := ins.(type) {
			case *ssa.Call:
				bi, ok := x.Call.Value.(*ssa.Builtin)
				if !ok || bi.Name() != "append" || len(x.Call.Args) < 2 {
					continue
				}
				elems := variadicValues(x.Call.Args[1])
				if len(elems) == 1 && elems[0] != nil {
					out = append(out, harvestSite{x, elems[0]})
				}
			case *ssa.Store:
				ia, ok := x.Addr.(*ssa.IndexAddr)
				if !ok {
					continue
				}
				ph, ok := ia.Index.(*ssa.Phi)
				if !ok {
					continue
				}
				// a fill counter: 0 on entry, and on every other edge itself or itself + 1
				counter := true
				for _, e := range ph.Edges {
					switch {
					case isConstInt(e, 0):
					case e == ssa.Value(ph):
					default:
						counter = counter && isCounterStep(e, ph, map[ssa.Value]bool{})
					}
				}
				if counter {
					out = append(out, harvestSite{x, x.Val})
				}
			}
		}
	}
	return out
}

// isCounterStep: v is ph, ph+1, or a phi of such values.
func isCounterStep(v ssa.Value, ph *ssa.Phi, seen map[ssa.Value]bool) bool {
	if seen[v] {
		return true
	}
	seen[v] = true
	if v == ssa.Value(ph) {
		return true
	}
	switch x := v.(type) {
	case *ssa.BinOp:
		return x.Op == token.ADD && x.X == ssa.Value(ph) && isConstInt(x.Y, 1)
	case *ssa.Phi:
		for _, e := range x.Edges {
			if !isCounterStep(e, ph, seen) {
				return false
			}
		}
		return true
	}
	return false
}
