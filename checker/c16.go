package main

import (
	"fmt"
	"go/token"
	"go/types"
	"strings"

	"golang.org/x/tools/go/ssa"
)

func init() { register("C16", true, runC16) }

func runC16(c *Check) {
	c.Explanation = "Decides the barrier, slot, error-routing and tiling clauses of C16 for every completion order and every subset of failing sources: each goroutine started by the fetch code begins with a deferred wg.Done on the WaitGroup whose Add count equals the number of goroutines launched; wg.Wait dominates every read of what the goroutines write; each goroutine writes only its own slot (its &sources[i], or variables no other goroutine touches) (R1-R3); after the barrier results are collected by a forward index loop, a source's error only reaches PrintErr and never a return value, and 'no profile' is decided from counts (R4, R5); consecutive chunks sources[start:end] tile [0,len) exactly (same step for start and end, end clamped to len) (R6). Also: profiles handed to combineProfiles across chunks are nil-tested on the path (R7) and grabProfile validates every profile it returns without error (R8). Not decided: what is fetched and merged, HTTP/file behaviour, Merge errors."
	c.goroutineRules("C16", "internal/driver", []string{"grabSourcesAndBases", "concurrentGrab"})
	c.collectRules()
	c.chunkTiling()
	c.combineNonNil()
	c.validatedPerSource()
	c.chunkOrder()
	c.mergedIffNoError()
	c.fetchSharesNothing("C16-R3")
}

// combineNonNil (R7): a profile handed to combineProfiles is known to be non-nil at the
// call: every element of the list built for the call is either freshly produced there or
// tested against nil on the path (x == nil left / x != nil taken).  Deciding "first chunk"
// by anything other than the accumulator's own state (for instance by the chunk index)
// passes a nil accumulator when the first chunk yielded nothing.
func (c *Check) combineNonNil() {
	p := c.P
	f := c.anchorFn("C16-R7", "internal/driver", "chunkedGrab")
	if f == nil {
		return
	}
	n := 0
	for _, b := range f.Blocks {
		for _, ins := range b.Instrs {
			call, ok := ins.(*ssa.Call)
			if !ok || call.Call.StaticCallee() == nil || call.Call.StaticCallee().Name() != "combineProfiles" {
				continue
			}
			for i, v := range variadicValues(call.Call.Args[0]) {
				if v == nil {
					continue
				}
				if _, isPtr := v.Type().Underlying().(*types.Pointer); !isPtr {
					continue
				}
				n++
				key := fmt.Sprintf("combine-non-nil:%d", i)
				if nonNilAt(v, b) {
					c.ok("C16-R7", key, p.relFile(call.Pos()), "profile #"+fmt.Sprint(i)+" passed to combineProfiles is non-nil", "a nil test of that value decides the path to the call")
				} else {
					c.bad("C16-R7", key, p.relFile(call.Pos()), "chunkedGrab passes "+describeValue(v)+" to combineProfiles without having tested it against nil on that path: when every source of the first chunk fails the accumulated profile is still nil, and merging it with a later chunk dereferences nil although a source was fetched")
				}
			}
		}
	}
	if n < 2 {
		c.undecided("C16-R7", "combine-non-nil", p.relFile(f.Pos()), fmt.Sprintf("expected two profiles in the combineProfiles call of chunkedGrab, found %d", n))
	}
}

// nonNilAt: on every path to block b the pointer v was compared with nil and found non-nil.
func nonNilAt(v ssa.Value, b *ssa.BasicBlock) bool {
	for d, child := b.Idom(), b; d != nil; child, d = d, d.Idom() {
		iff, ok := d.Instrs[len(d.Instrs)-1].(*ssa.If)
		if !ok || len(child.Preds) != 1 {
			continue
		}
		cmp, ok := iff.Cond.(*ssa.BinOp)
		if !ok || (cmp.Op != token.EQL && cmp.Op != token.NEQ) {
			continue
		}
		var other ssa.Value
		if cmp.X == v {
			other = cmp.Y
		} else if cmp.Y == v {
			other = cmp.X
		} else {
			continue
		}
		if k, ok := other.(*ssa.Const); !ok || !k.IsNil() {
			continue
		}
		if (cmp.Op == token.EQL && d.Succs[1] == child) || (cmp.Op == token.NEQ && d.Succs[0] == child) {
			return true
		}
	}
	return false
}

// validatedPerSource (R8): a source counts as fetched only if its profile is valid,
// whoever produced it (the built-in fetch parses and validates, a plug-in fetcher need
// not).  In grabProfile every return reachable with all error tests negative is dominated
// by a CheckValid call on the profile.
func (c *Check) validatedPerSource() {
	p := c.P
	f := c.anchorFn("C16-R8", "internal/driver", "grabProfile")
	if f == nil {
		return
	}
	var cv *ssa.Call
	for _, b := range f.Blocks {
		for _, ins := range b.Instrs {
			if call, ok := ins.(*ssa.Call); ok && call.Call.StaticCallee() != nil && call.Call.StaticCallee().Name() == "CheckValid" {
				cv = call
			}
		}
	}
	if cv == nil {
		c.bad("C16-R8", "valid-per-source", p.relFile(f.Pos()), "grabProfile no longer validates the profile it returns: an invalid profile from a plug-in fetcher is counted as fetched, gets no per-source error, is merged, and makes the whole command fail later")
		return
	}
	reach := reachUnder(f, func(cond ssa.Value) int {
		if cmp, ok := cond.(*ssa.BinOp); ok && (cmp.Op == token.NEQ || cmp.Op == token.EQL) {
			isErr := func(v ssa.Value) bool { return typeShort(v.Type()) == "error" }
			isNil := func(v ssa.Value) bool { k, ok := v.(*ssa.Const); return ok && k.IsNil() }
			if (isErr(cmp.X) && isNil(cmp.Y)) || (isErr(cmp.Y) && isNil(cmp.X)) {
				if cmp.Op == token.NEQ {
					return -1
				}
				return 1
			}
		}
		return 0
	})
	bad := ""
	for _, b := range f.Blocks {
		if _, ok := b.Instrs[len(b.Instrs)-1].(*ssa.Return); ok && reach[b] && !cv.Block().Dominates(b) {
			bad = p.relFile(b.Instrs[len(b.Instrs)-1].Pos())
		}
	}
	if bad == "" {
		c.ok("C16-R8", "valid-per-source", p.relFile(cv.Pos()), "every profile grabProfile returns without error was validated", "CheckValid dominates every return reachable when all error tests are negative")
	} else {
		c.bad("C16-R8", "valid-per-source", bad, "grabProfile can return a profile without error before validating it")
	}
}

// goroutineRules: barrier and slot discipline for the go statements of the listed functions.
func (c *Check) goroutineRules(prop, rel string, fns []string) {
	p := c.P
	for _, name := range fns {
		f := c.anchorFn(prop+"-R1", rel, name)
		if f == nil {
			continue
		}
		var gos []*ssa.Go
		var adds, waits []*ssa.Call
		for _, b := range f.Blocks {
			for _, ins := range b.Instrs {
				switch x := ins.(type) {
				case *ssa.Go:
					gos = append(gos, x)
				case *ssa.Call:
					if sc := x.Call.StaticCallee(); sc != nil {
						switch sc.String() {
						case "(*sync.WaitGroup).Add":
							adds = append(adds, x)
						case "(*sync.WaitGroup).Wait":
							waits = append(waits, x)
						}
					}
				}
			}
		}
		if len(gos) == 0 {
			c.undecided(prop+"-R1", "go:"+name, p.relFile(f.Pos()), name+" starts no goroutine")
			continue
		}
		if len(adds) != 1 || len(waits) != 1 {
			c.undecided(prop+"-R1", "wg:"+name, p.relFile(f.Pos()), fmt.Sprintf("%s has %d wg.Add and %d wg.Wait calls; the rule expects one barrier", name, len(adds), len(waits)))
			continue
		}
		add, wait := adds[0], waits[0]
		wg := add.Call.Args[0]
		// --- R1: Add precedes every launch; each body defers Done on the same wg
		inLoop := false
		for _, g := range gos {
			key := fmt.Sprintf("go:%s@%s", name, closureName(g))
			cl := goClosure(g)
			if cl == nil {
				c.undecided(prop+"-R1", key, p.relFile(g.Pos()), "go statement does not start a function literal")
				continue
			}
			if loopDepth(g.Block()) > 0 {
				inLoop = true
			}
			if !instrDominates(add, g) {
				c.bad(prop+"-R1", key, p.relFile(g.Pos()), "goroutine is started before wg.Add")
				continue
			}
			if !doneOnAllPaths(cl, wg) {
				c.bad(prop+"-R1", key, p.relFile(g.Pos()), "goroutine body does not call wg.Done() on the barrier's WaitGroup on every path (deferred at entry, or before every return): wg.Wait would block forever or be released early")
				continue
			}
			if !instrDominates(g, wait) && !blockReachesPlain(g.Block(), wait.Block()) {
				c.bad(prop+"-R1", key, p.relFile(g.Pos()), "wg.Wait is not reached after this goroutine is started")
				continue
			}
			c.ok(prop+"-R1", key, p.relFile(g.Pos()), "goroutine in "+name, "started after wg.Add, wg.Done() runs on every exit of the body, wg.Wait follows")
		}
		// --- R2: Add count equals the number of launches
		key := "count:" + name
		n := add.Call.Args[1]
		switch {
		case !inLoop:
			if k, ok := n.(*ssa.Const); ok && int(k.Int64()) == len(gos) {
				c.ok(prop+"-R2", key, p.relFile(add.Pos()), fmt.Sprintf("wg.Add(%d) matches %d go statements in %s", k.Int64(), len(gos), name), "constant count equals the number of launches")
			} else {
				c.bad(prop+"-R2", key, p.relFile(add.Pos()), fmt.Sprintf("wg.Add argument %s does not equal the %d goroutines started in %s", describeValue(n), len(gos), name))
			}
		default:
			// one go statement inside `for i := range xs`: Add(len(xs)) over the same xs
			okCount := false
			if lc, ok := n.(*ssa.Call); ok {
				if b, ok := lc.Call.Value.(*ssa.Builtin); ok && b.Name() == "len" && len(gos) == 1 {
					if bound := loopBoundOf(gos[0].Block()); bound != nil && bound == lc.Call.Args[0] {
						okCount = true
					}
				}
			}
			if okCount {
				c.ok(prop+"-R2", key, p.relFile(add.Pos()), "wg.Add(len(sources)) matches one goroutine per element in "+name, "the go statement sits in a range loop over the same slice whose length is added")
			} else {
				c.bad(prop+"-R2", key, p.relFile(add.Pos()), "wg.Add count in "+name+" is not the length of the slice whose range loop starts the goroutines")
			}
		}
		// --- R3: slots
		written := map[*ssa.Alloc][]*ssa.Function{}
		for _, g := range gos {
			cl := goClosure(g)
			if cl == nil {
				continue
			}
			key := fmt.Sprintf("slot:%s@%s", name, closureName(g))
			bad := ""
			nw := 0
			for _, b := range cl.Blocks {
				for _, ins := range b.Instrs {
					st, ok := ins.(*ssa.Store)
					if !ok {
						continue
					}
					rk, _ := rootOf(st.Addr, 0, map[ssa.Value]bool{})
					switch rk {
					case rFresh:
					case rFreeVar:
						cell, _ := resolveCell(st.Addr)
						if cell == nil {
							bad = "writes through a captured pointer that is not a simple variable"
						} else {
							written[cell] = append(written[cell], cl)
							nw++
						}
					case rParam:
						nw++ // through its own argument; checked at the launch below
					default:
						bad = "writes to " + describeValue(st.Addr) + " (" + rk.String() + ")"
					}
				}
			}
			if loopDepth(g.Block()) > 0 {
				// the argument must be &xs[i] with i the loop index, and no captured variable may be written
				okArg := len(g.Call.Args) > 0
				for _, a := range g.Call.Args {
					if ia, ok := a.(*ssa.IndexAddr); ok {
						if !rangeIndex(ia.Index) {
							okArg = false
						}
					} else if _, isPtr := a.Type().Underlying().(interface{ Elem() interface{} }); isPtr {
						okArg = false
					}
				}
				for cell, fns := range written {
					for _, fn := range fns {
						if fn == cl {
							bad = "a goroutine started in a loop writes the shared variable " + cell.Comment
						}
					}
				}
				if !okArg {
					bad = "the goroutine's argument is not &sources[i] for the loop index i"
				}
			}
			if bad != "" {
				c.bad(prop+"-R3", key, p.relFile(g.Pos()), "goroutine in "+name+" "+bad)
			} else {
				c.ok(prop+"-R3", key, p.relFile(g.Pos()), "goroutine in "+name+" writes only its own slot", fmt.Sprintf("%d stores, all through its own argument or variables private to it", nw))
			}
		}
		for cell, fns := range written {
			if len(dedupFns(fns)) > 1 {
				c.bad(prop+"-R3", "slot:"+name+":"+cell.Comment, p.relFile(cell.Pos()), "variable "+cell.Comment+" is written by more than one goroutine in "+name)
			}
		}
		// reads in the parent of anything the goroutines write must follow the barrier
		nReads := 0
		okReads := true
		for _, b := range f.Blocks {
			for _, ins := range b.Instrs {
				ld, ok := ins.(*ssa.UnOp)
				if !ok || ld.Op != token.MUL {
					continue
				}
				shared := false
				if al, ok := ld.X.(*ssa.Alloc); ok {
					if _, w := written[al]; w {
						shared = true
					}
				}
				if fa, ok := ld.X.(*ssa.FieldAddr); ok && inLoop {
					if ia, ok := fa.X.(*ssa.IndexAddr); ok {
						if _, isParam := ia.X.(*ssa.Parameter); isParam {
							shared = true
						}
					}
				}
				if !shared {
					continue
				}
				nReads++
				if !instrDominates(wait, ld) {
					okReads = false
					c.bad(prop+"-R3", fmt.Sprintf("barrier:%s:%s", name, describeValue(ld.X)), p.relFile(ld.Pos()), "a result written by a goroutine is read in "+name+" at a point not dominated by wg.Wait()")
				}
			}
		}
		if okReads {
			c.ok(prop+"-R3", "barrier:"+name, p.relFile(wait.Pos()), "results are read only after the barrier in "+name, fmt.Sprintf("wg.Wait dominates all %d reads of goroutine-written state", nReads))
		}
		if nReads == 0 {
			c.undecided(prop+"-R3", "barrier-reads:"+name, p.relFile(wait.Pos()), "no read of goroutine-written state found in "+name)
		}
	}
	c.Floor(prop+"-R1", 3)
}

func dedupFns(fns []*ssa.Function) []*ssa.Function {
	m := map[*ssa.Function]bool{}
	var out []*ssa.Function
	for _, f := range fns {
		if !m[f] {
			m[f] = true
			out = append(out, f)
		}
	}
	return out
}

func goClosure(g *ssa.Go) *ssa.Function {
	switch v := g.Call.Value.(type) {
	case *ssa.MakeClosure:
		return v.Fn.(*ssa.Function)
	case *ssa.Function:
		return v
	}
	return nil
}

func closureName(g *ssa.Go) string {
	if cl := goClosure(g); cl != nil {
		return cl.Name()
	}
	return "?"
}

// doneOnAllPaths: wg.Done() on the parent's WaitGroup is deferred in the entry block, or
// a direct call dominates every return of the body.
func doneOnAllPaths(cl *ssa.Function, wg ssa.Value) bool {
	if deferDoneFirst(cl, wg, nil) {
		return true
	}
	target, _ := resolveCell(wg)
	var dones []ssa.Instruction
	for _, b := range cl.Blocks {
		for _, ins := range b.Instrs {
			if call, ok := ins.(*ssa.Call); ok && call.Call.StaticCallee() != nil && call.Call.StaticCallee().String() == "(*sync.WaitGroup).Done" {
				if a, _ := resolveCell(call.Call.Args[0]); a != nil && a == target {
					dones = append(dones, call)
				}
			}
		}
	}
	if len(dones) == 0 {
		return false
	}
	for _, b := range cl.Blocks {
		ret, ok := b.Instrs[len(b.Instrs)-1].(*ssa.Return)
		if !ok {
			continue
		}
		covered := false
		for _, d := range dones {
			if instrDominates(d, ret) {
				covered = true
			}
		}
		if !covered {
			return false
		}
	}
	return true
}

// deferDoneFirst: the first instruction with an effect in cl's entry block is
// `defer wg.Done()` on the WaitGroup wg of parent f.
func deferDoneFirst(cl *ssa.Function, wg ssa.Value, f *ssa.Function) bool {
	if len(cl.Blocks) == 0 {
		return false
	}
	for _, ins := range cl.Blocks[0].Instrs {
		switch x := ins.(type) {
		case *ssa.Defer:
			sc := x.Call.StaticCallee()
			if sc == nil || sc.String() != "(*sync.WaitGroup).Done" {
				return false
			}
			// same WaitGroup: the captured variable resolves to the parent's wg
			a, _ := resolveCell(x.Call.Args[0])
			b, _ := resolveCell(wg)
			return a != nil && a == b
		case *ssa.DebugRef:
			continue
		default:
			if _, isVal := ins.(ssa.Value); isVal {
				if _, isCall := ins.(*ssa.Call); !isCall {
					continue // address computations, loads
				}
			}
			return false
		}
	}
	return false
}

// loopDepth: is block b inside a CFG cycle?
func loopDepth(b *ssa.BasicBlock) int {
	if blockReachesPlain(b, b) {
		return 1
	}
	return 0
}

// loopBoundOf: for a block inside `for i := range xs`, the slice xs whose length bounds the loop.
func loopBoundOf(b *ssa.BasicBlock) ssa.Value {
	// find an enclosing header `if idx < len(xs)` with idx a range index
	for _, blk := range b.Parent().Blocks {
		if len(blk.Instrs) == 0 {
			continue
		}
		iff, ok := blk.Instrs[len(blk.Instrs)-1].(*ssa.If)
		if !ok {
			continue
		}
		cmp, ok := iff.Cond.(*ssa.BinOp)
		if !ok || cmp.Op != token.LSS || !rangeIndex(cmp.X) {
			continue
		}
		if !blockReachesPlain(blk, b) || !blockReachesPlain(b, blk) {
			continue
		}
		if lc, ok := cmp.Y.(*ssa.Call); ok {
			if bi, ok := lc.Call.Value.(*ssa.Builtin); ok && bi.Name() == "len" {
				return lc.Call.Args[0]
			}
		}
	}
	return nil
}

// collectRules (R4, R5)
func (c *Check) collectRules() {
	p := c.P
	cg := c.anchorFn("C16-R4", "internal/driver", "concurrentGrab")
	if cg == nil {
		return
	}
	// R4: results appended in index order
	nApp := 0
	for _, b := range cg.Blocks {
		for _, ins := range b.Instrs {
			call, ok := ins.(*ssa.Call)
			if !ok {
				continue
			}
			bi, ok := call.Call.Value.(*ssa.Builtin)
			if !ok || bi.Name() != "append" {
				continue
			}
			elems := variadicValues(call.Call.Args[1])
			if len(elems) != 1 {
				continue
			}
			ld, ok := elems[0].(*ssa.UnOp)
			if !ok {
				continue
			}
			fa, ok := ld.X.(*ssa.FieldAddr)
			if !ok {
				continue
			}
			T, F := fieldOf(fa.X.Type(), fa.Field)
			if T != "driver.profileSource" {
				continue
			}
			nApp++
			key := "order:" + F
			ia, ok := fa.X.(*ssa.IndexAddr)
			if ok && rangeIndex(ia.Index) {
				if _, isParam := ia.X.(*ssa.Parameter); isParam {
					c.ok("C16-R4", key, p.relFile(call.Pos()), "fetched "+F+" values are collected in command-line order", "append of sources[i]."+F+" for the index of a forward range loop over the sources")
					continue
				}
			}
			c.bad("C16-R4", key, p.relFile(call.Pos()), "results ("+F+") are not collected by a forward index loop over the sources: the merge order would depend on something other than command-line order")
		}
	}
	if nApp < 2 {
		c.undecided("C16-R4", "order", p.relFile(cg.Pos()), "collection of profiles and mapping sources not found in concurrentGrab")
	}
	// R5: a source's error never reaches a return value
	for _, b := range cg.Blocks {
		ret, ok := b.Instrs[len(b.Instrs)-1].(*ssa.Return)
		if !ok {
			continue
		}
		errv := ret.Results[len(ret.Results)-1]
		key := fmt.Sprintf("errflow:return@%d", len(c.Obls))
		switch x := errv.(type) {
		case *ssa.Const:
			c.ok("C16-R5", key, p.relFile(ret.Pos()), "concurrentGrab returns a nil error", "constant")
		case *ssa.Extract:
			if call, ok := x.Tuple.(*ssa.Call); ok && call.Call.StaticCallee() != nil && call.Call.StaticCallee().Name() == "combineProfiles" {
				c.ok("C16-R5", key, p.relFile(ret.Pos()), "concurrentGrab returns the merge error", "the only non-nil error is combineProfiles' (incompatible profiles), never a per-source fetch error")
			} else {
				c.bad("C16-R5", key, p.relFile(ret.Pos()), "concurrentGrab returns an error that is not the merge error")
			}
		default:
			c.bad("C16-R5", key, p.relFile(ret.Pos()), "concurrentGrab can return "+describeValue(errv)+" as its error: one failing source would fail the whole fetch")
		}
	}
	// each per-source error is printed
	printed := false
	for _, b := range cg.Blocks {
		for _, ins := range b.Instrs {
			if call, ok := ins.(*ssa.Call); ok && call.Call.IsInvoke() && call.Call.Method.Name() == "PrintErr" {
				// control-dependent on s.err != nil: the block is not reachable when err == nil
				reach := reachUnder(cg, func(cond ssa.Value) int {
					if cmp, ok := cond.(*ssa.BinOp); ok && (cmp.Op == token.NEQ || cmp.Op == token.EQL) {
						if isFieldLoad(cmp.X, "driver.profileSource", "err") || isFieldLoad(cmp.Y, "driver.profileSource", "err") {
							if cmp.Op == token.NEQ {
								return -1
							}
							return 1
						}
					}
					return 0
				})
				if !reach[b] {
					printed = true
				}
			}
		}
	}
	if printed {
		c.ok("C16-R5", "errflow:printed", p.relFile(cg.Pos()), "a failing source produces one PrintErr and is skipped", "the PrintErr call is reachable only when the source's err is non-nil")
	} else {
		c.bad("C16-R5", "errflow:printed", p.relFile(cg.Pos()), "no PrintErr guarded by the source's err != nil in concurrentGrab")
	}
	// 'no profile' decided from counts in grabSourcesAndBases
	gsb := c.anchorFn("C16-R5", "internal/driver", "grabSourcesAndBases")
	if gsb != nil {
		for _, want := range []string{"countsrc", "countbase"} {
			found := false
			for _, b := range gsb.Blocks {
				for _, ins := range b.Instrs {
					if cmp, ok := ins.(*ssa.BinOp); ok && cmp.Op == token.EQL {
						if ld, ok := cmp.X.(*ssa.UnOp); ok {
							if al, ok := ld.X.(*ssa.Alloc); ok && al.Comment == want {
								if k, ok := cmp.Y.(*ssa.Const); ok && k.Int64() == 0 {
									found = true
								}
							}
						}
					}
				}
			}
			if found {
				c.ok("C16-R5", "count:"+want, p.relFile(gsb.Pos()), "failure of a whole group is decided from "+want+" == 0", "comparison present")
			} else {
				c.bad("C16-R5", "count:"+want, p.relFile(gsb.Pos()), "grabSourcesAndBases no longer tests "+want+" == 0")
			}
		}
	}
}

// chunkTiling (R6)
func (c *Check) chunkTiling() {
	p := c.P
	f := c.anchorFn("C16-R6", "internal/driver", "chunkedGrab")
	if f == nil {
		return
	}
	var sl *ssa.Slice
	for _, b := range f.Blocks {
		for _, ins := range b.Instrs {
			if s, ok := ins.(*ssa.Slice); ok {
				if _, isParam := s.X.(*ssa.Parameter); isParam && strings.Contains(typeShort(s.X.Type()), "profileSource") {
					sl = s
				}
			}
		}
	}
	if sl == nil {
		c.undecided("C16-R6", "tiling", p.relFile(f.Pos()), "chunkedGrab does not slice its sources parameter")
		return
	}
	key := "tiling"
	start, ok := sl.Low.(*ssa.Phi)
	if !ok {
		c.undecided("C16-R6", key, p.relFile(sl.Pos()), "chunk start is not a loop variable")
		return
	}
	// start = phi[0, start + K]
	var step int64 = -1
	okStart := true
	for _, e := range start.Edges {
		if k, ok := e.(*ssa.Const); ok {
			if k.Int64() != 0 {
				okStart = false
			}
			continue
		}
		if add, ok := e.(*ssa.BinOp); ok && add.Op == token.ADD && add.X == ssa.Value(start) {
			if k, ok := add.Y.(*ssa.Const); ok {
				step = k.Int64()
				continue
			}
		}
		okStart = false
	}
	// end = phi[start + K', len(sources)]  or  min(start+K', len(sources))
	var endStep int64 = -2
	clamp := false
	lenOf := func(v ssa.Value) bool {
		lc, ok := v.(*ssa.Call)
		if !ok {
			return false
		}
		bi, ok := lc.Call.Value.(*ssa.Builtin)
		return ok && bi.Name() == "len" && lc.Call.Args[0] == sl.X
	}
	plusK := func(v ssa.Value) (int64, bool) {
		add, ok := v.(*ssa.BinOp)
		if !ok || add.Op != token.ADD || add.X != ssa.Value(start) {
			return 0, false
		}
		k, ok := add.Y.(*ssa.Const)
		if !ok {
			return 0, false
		}
		return k.Int64(), true
	}
	switch e := sl.High.(type) {
	case *ssa.Phi:
		for _, ed := range e.Edges {
			if k, ok := plusK(ed); ok {
				endStep = k
			} else if lenOf(ed) {
				clamp = true
			} else {
				endStep = -3
			}
		}
	case *ssa.Call:
		if bi, ok := e.Call.Value.(*ssa.Builtin); ok && bi.Name() == "min" && len(e.Call.Args) == 2 {
			for _, a := range e.Call.Args {
				if k, ok := plusK(a); ok {
					endStep = k
				} else if lenOf(a) {
					clamp = true
				}
			}
		}
	}
	switch {
	case !okStart || step <= 0:
		c.bad("C16-R6", key, p.relFile(sl.Pos()), "chunk start does not advance from 0 by a positive constant step")
	case endStep != step:
		c.bad("C16-R6", key, p.relFile(sl.Pos()), fmt.Sprintf("chunk end is start+%d but start advances by %d: consecutive chunks overlap or leave a gap at the chunk boundary", endStep, step))
	case !clamp:
		c.bad("C16-R6", key, p.relFile(sl.Pos()), "chunk end is not clamped to len(sources): the last chunk would slice past the end")
	default:
		c.ok("C16-R6", key, p.relFile(sl.Pos()), "chunks sources[start:end] tile the source list", fmt.Sprintf("start = 0, +%d; end = min(start+%d, len(sources)); both steps equal", step, endStep))
	}
	// R7: the chunk loop is left only through its condition or through an error return
	if hdrBlock := start.Block(); hdrBlock != nil {
		inLoop := naturalLoop(hdrBlock)
		bad := ""
		for b := range inLoop {
			for _, sc := range b.Succs {
				if inLoop[sc] || b == hdrBlock {
					continue
				}
				// an exit from inside the loop body: must be an error return
				if ret, ok := sc.Instrs[len(sc.Instrs)-1].(*ssa.Return); ok && len(sc.Instrs) <= 2 {
					if k, isConst := ret.Results[len(ret.Results)-1].(*ssa.Const); !isConst || !k.IsNil() {
						continue
					}
				}
				bad = p.relFile(b.Instrs[len(b.Instrs)-1].Pos())
			}
		}
		if bad == "" {
			c.ok("C16-R6", "tiling:exits", p.relFile(f.Pos()), "the chunk loop visits every chunk", "it is left only through its condition or through an error return")
		} else {
			c.bad("C16-R6", "tiling:exits", p.relFile(f.Pos()), "the chunk loop can be left early without an error (a break): the remaining chunks are never fetched although their sources may be fine")
		}
	}
	// the loop runs while start < len(sources)
	okCond := false
	for _, b := range f.Blocks {
		if iff, ok := b.Instrs[len(b.Instrs)-1].(*ssa.If); ok {
			if cmp, ok := iff.Cond.(*ssa.BinOp); ok && cmp.Op == token.LSS && cmp.X == ssa.Value(start) && lenOf(cmp.Y) {
				okCond = true
			}
		}
	}
	if okCond {
		c.ok("C16-R6", "tiling:cond", p.relFile(f.Pos()), "chunk loop runs while start < len(sources)", "loop condition found")
	} else {
		c.bad("C16-R6", "tiling:cond", p.relFile(f.Pos()), "chunk loop condition is not start < len(sources): the last partial chunk could be skipped")
	}
}
