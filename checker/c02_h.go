package main

import (
	"fmt"
	"go/token"

	"golang.org/x/tools/go/ssa"
)

// nilElementScans (R11): postDecode leaves nil for every reference it cannot resolve and
// relies on the gate to reject the profile.  Each scan of CheckValid that tests the elements
// of a list held by a sample (or location) for nil runs for every owner: no path through an
// iteration of the loop over the owners avoids the scan, other than leaving the loop with an
// error.
func (c *Check) nilElementScans() {
	p := c.P
	cv := c.anchorFn("C02-R11", "profile", "(*Profile).CheckValid")
	if cv == nil {
		return
	}
	n := 0
	for _, g := range withHelpers(cv, 2) {
		for _, b := range g.Blocks {
			iff, ok := b.Instrs[len(b.Instrs)-1].(*ssa.If)
			if !ok {
				continue
			}
			cmp, ok := iff.Cond.(*ssa.BinOp)
			if !ok || (cmp.Op != token.EQL && cmp.Op != token.NEQ) {
				continue
			}
			var elem ssa.Value
			if isNilConst(cmp.Y) {
				elem = cmp.X
			} else if isNilConst(cmp.X) {
				elem = cmp.Y
			}
			if elem == nil {
				continue
			}
			// elem is an element of a slice field of an owner object
			ld, ok := elem.(*ssa.UnOp)
			if !ok || ld.Op != token.MUL {
				continue
			}
			ia, ok := ld.X.(*ssa.IndexAddr)
			if !ok {
				continue
			}
			sl, ok := ia.X.(*ssa.UnOp)
			if !ok || sl.Op != token.MUL {
				continue
			}
			fa, ok := sl.X.(*ssa.FieldAddr)
			if !ok {
				continue
			}
			T, F := fieldOf(fa.X.Type(), fa.Field)
			if T != "profile.Sample" && T != "profile.Location" {
				continue
			}
			inner := loopHeaderAround(b)
			if inner == nil || inner.Idom() == nil {
				continue
			}
			n++
			key := fmt.Sprintf("nil-scan:%s.%s", T, F)
			outer := loopHeaderAround(inner.Idom())
			if outer == nil {
				// the scan of one owner is a helper: look at the loop around its call
				calls, asValue := directCallSites(p, g)
				if asValue || len(calls) != 1 {
					c.ok("C02-R11", key, p.relFile(cmp.Pos()), "elements of "+T+"."+F+" are tested for nil in "+fnName(g), "the scan is not nested in a loop over owners in this function")
					continue
				}
				cb := calls[0].(ssa.Instruction).Block()
				if o := loopHeaderAround(cb); o != nil && iterationSkips(o, cb, func(ssa.Value) int { return 0 }) {
					c.bad("C02-R11", key, p.relFile(calls[0].Pos()), "the nil scan of "+T+"."+F+" is skipped for some owners")
				} else {
					c.ok("C02-R11", key, p.relFile(cmp.Pos()), "elements of "+T+"."+F+" are tested for nil for every owner", "the call of "+fnName(g)+" is on every path through an iteration of the loop over the owners")
				}
				continue
			}
			if iterationSkips(outer, inner, func(ssa.Value) int { return 0 }) {
				c.bad("C02-R11", key, p.relFile(cmp.Pos()), "CheckValid can finish a "+T+" without scanning its "+F+" list for nil elements: a profile whose references could not be resolved (nil left by postDecode) is returned by the parser, and String, Write, Copy and Compact dereference the nil")
			} else {
				c.ok("C02-R11", key, p.relFile(cmp.Pos()), "every "+T+" has its "+F+" list scanned for nil elements", "no path through an iteration of the loop over the owners avoids the scan (other than returning an error)")
			}
		}
	}
	// the scan written as a library search for nil: slices.Contains(list, nil) / Index / ContainsFunc
	for _, g := range withHelpers(cv, 2) {
		for _, b := range g.Blocks {
			for _, ins := range b.Instrs {
				call, ok := ins.(*ssa.Call)
				if !ok || call.Call.StaticCallee() == nil || fnPkgPath(call.Call.StaticCallee()) != "slices" || len(call.Call.Args) != 2 {
					continue
				}
				sl, ok := call.Call.Args[0].(*ssa.UnOp)
				if !ok || sl.Op != token.MUL {
					continue
				}
				fa, ok := sl.X.(*ssa.FieldAddr)
				if !ok {
					continue
				}
				T, F := fieldOf(fa.X.Type(), fa.Field)
				if T != "profile.Sample" && T != "profile.Location" {
					continue
				}
				if k, isConst := call.Call.Args[1].(*ssa.Const); !isConst || !k.IsNil() {
					continue
				}
				n++
				key := fmt.Sprintf("nil-scan:%s.%s", T, F)
				outer := loopHeaderAround(b)
				if outer == nil {
					c.ok("C02-R11", key, p.relFile(call.Pos()), "elements of "+T+"."+F+" are searched for nil in "+fnName(g), "the search is not nested in a loop over owners in this function")
					continue
				}
				if iterationSkips(outer, b, func(ssa.Value) int { return 0 }) {
					c.bad("C02-R11", key, p.relFile(call.Pos()), "CheckValid can finish a "+T+" without searching its "+F+" list for nil elements: a profile whose references could not be resolved (nil left by postDecode) is returned by the parser, and String, Write, Copy and Compact dereference the nil")
				} else {
					c.ok("C02-R11", key, p.relFile(call.Pos()), "every "+T+" has its "+F+" list searched for nil elements", "no path through an iteration of the loop over the owners avoids the search (other than returning an error)")
				}
			}
		}
	}
	if n == 0 {
		c.undecided("C02-R11", "nil-scan", p.relFile(cv.Pos()), "no nil test on the elements of a list of a sample or location found in CheckValid")
	}
}
