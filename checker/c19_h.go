package main

import (
	"fmt"

	"golang.org/x/tools/go/ssa"
)

// c19H: two more clauses of the settings round trip.
//
// R5: the text form of an option is the exact value.  (*config).get feeds the URL that
// restores a saved view, and (*config).set parses it back with 64 bits; a strconv.FormatFloat
// in get (or its helpers) must ask for the shortest exact form of a 64-bit float (precision
// -1, bit size 64), or a value with more digits than a float32 holds comes back changed.
//
// R6: the function handed to editSettings is applied to the settings read inside the
// critical section.  Nothing it captures may come from a readSettings call made by the
// caller: a position or value looked up before the lock was taken describes a file that a
// concurrent request may have rewritten since.
func (c *Check) c19H() {
	p := c.P
	if get := c.anchorFn("C19-R5", "internal/driver", "(*config).get"); get != nil {
		n := 0
		for _, g := range withHelpers(get, 2) {
			for _, b := range g.Blocks {
				for _, ins := range b.Instrs {
					call, ok := ins.(*ssa.Call)
					if !ok || call.Call.StaticCallee() == nil || call.Call.StaticCallee().String() != "strconv.FormatFloat" || len(call.Call.Args) != 4 {
						continue
					}
					n++
					key := fmt.Sprintf("float-text:%s#%d", fnName(g), n)
					prec, ok1 := constInt(call.Call.Args[2])
					bits, ok2 := constInt(call.Call.Args[3])
					if ok1 && ok2 && prec == -1 && bits == 64 {
						c.ok("C19-R5", key, p.relFile(call.Pos()), "a float option is written in its shortest exact 64-bit form", "strconv.FormatFloat(v, _, -1, 64)")
					} else {
						c.bad("C19-R5", key, p.relFile(call.Pos()), fmt.Sprintf("(*config).get formats a float64 option with precision %d and bit size %d: the URL of a saved view carries a rounded value (nodefraction 0.0123456789 comes back as 0.012345679), and applying then saving the view stores the drifted value", prec, bits))
					}
				}
			}
		}
		if n == 0 {
			c.ok("C19-R5", "float-text:none", p.relFile(get.Pos()), "(*config).get does not format floats through strconv.FormatFloat", "fmt.Sprint of a float64 prints the shortest form that parses back to the same value")
		}
	}
	es := c.anchorFn("C19-R6", "internal/driver", "editSettings")
	rs := p.Func("internal/driver", "readSettings")
	if es == nil || rs == nil {
		return
	}
	var tainted func(v ssa.Value, seen map[ssa.Value]bool, d int) string
	tainted = func(v ssa.Value, seen map[ssa.Value]bool, d int) string {
		if seen[v] || d > 10 {
			return ""
		}
		seen[v] = true
		switch x := v.(type) {
		case *ssa.Call:
			if x.Call.StaticCallee() == rs {
				return p.relFile(x.Pos())
			}
			for _, a := range x.Call.Args {
				if w := tainted(a, seen, d+1); w != "" {
					return w
				}
			}
		case *ssa.Alloc:
			// a captured local: what was stored into it
			for _, st := range storesTo(x.Parent(), x) {
				if w := tainted(st, seen, d+1); w != "" {
					return w
				}
			}
		case ssa.Instruction:
			var ops []*ssa.Value
			for _, op := range x.Operands(ops) {
				if op != nil && *op != nil {
					if w := tainted(*op, seen, d+1); w != "" {
						return w
					}
				}
			}
		}
		return ""
	}
	calls, _ := allCallSites(p, es)
	n := 0
	for _, cs := range calls {
		args := cs.Common().Args
		if len(args) < 2 {
			continue
		}
		mc, ok := args[len(args)-1].(*ssa.MakeClosure)
		if !ok {
			continue
		}
		n++
		caller := cs.Parent()
		key := "edit-from-locked-read:" + fnName(caller)
		stale := ""
		for _, bnd := range mc.Bindings {
			if w := tainted(bnd, map[ssa.Value]bool{}, 0); w != "" {
				stale = w
			}
		}
		if stale != "" {
			c.bad("C19-R6", key, p.relFile(cs.Pos()), fnName(caller)+" hands editSettings a function that uses a value derived from its own readSettings call ("+stale+"), made before the lock was taken: when another request rewrites the file in between, the remembered position names a different configuration (a double click on delete removes two), or lies outside the list")
		} else {
			c.ok("C19-R6", key, p.relFile(cs.Pos()), "the edit made by "+fnName(caller)+" is computed from the settings read under the lock", "nothing captured by the function handed to editSettings derives from a readSettings call outside it")
		}
	}
	if n == 0 {
		c.undecided("C19-R6", "edit-from-locked-read", p.relFile(es.Pos()), "no call of editSettings with a function literal found")
	}
}
