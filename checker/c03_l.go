package main

import (
	"fmt"
	"go/constant"
	"go/token"
	"go/types"

	"golang.org/x/tools/go/ssa"
)

// Round L.  C03-R13: a sample key is a concatenation of tokens; a variable-length list
// inside one entry (the values of one label, the units of one numeric label) is
// self-delimiting only when its length is written ahead of its elements (or a constant
// delimiter follows it).  Without that, {a:[x], b:[y]} and {a:[x,b,y]} give one key.
func (c *Check) c03ListsLengthPrefixed(top *ssa.Function, anchors map[string]*ssa.Function) {
	p := c.P
	isAnchor := map[*ssa.Function]bool{}
	for _, f := range anchors {
		isAnchor[f] = true
	}
	// the encoder: sampleKey, its closures, and package helpers it calls (not the other anchors)
	helper := map[*ssa.Function]bool{}
	var fns []*ssa.Function
	seen := map[*ssa.Function]bool{}
	var add func(f *ssa.Function, isHelper bool, depth int)
	add = func(f *ssa.Function, isHelper bool, depth int) {
		if f == nil || seen[f] || len(f.Blocks) == 0 || depth > 4 {
			return
		}
		seen[f] = true
		helper[f] = isHelper
		fns = append(fns, f)
		for _, a := range f.AnonFuncs {
			add(a, isHelper, depth)
		}
		for _, b := range f.Blocks {
			for _, ins := range b.Instrs {
				if call, ok := ins.(ssa.CallInstruction); ok {
					g := call.Common().StaticCallee()
					if g != nil && g.Pkg == top.Pkg && !isAnchor[g] {
						add(g, true, depth+1)
					}
				}
			}
		}
	}
	add(top, false, 0)
	argOfCall := func(v ssa.Value) *ssa.Call {
		var found *ssa.Call
		var walk func(v ssa.Value, d int)
		walk = func(v ssa.Value, d int) {
			if d > 3 || v.Referrers() == nil || found != nil {
				return
			}
			for _, r := range *v.Referrers() {
				switch x := r.(type) {
				case *ssa.Convert:
					walk(x, d+1)
				case *ssa.ChangeType:
					walk(x, d+1)
				case *ssa.Call:
					if _, bi := x.Call.Value.(*ssa.Builtin); !bi {
						for _, a := range x.Call.Args {
							if a == v {
								found = x
							}
						}
					}
				}
			}
		}
		walk(v, 0)
		return found
	}
	n := 0
	for _, f := range fns {
		var hdrs []*ssa.BasicBlock
		for _, b := range f.Blocks {
			for _, pred := range b.Preds {
				if b.Dominates(pred) {
					hdrs = append(hdrs, b)
					break
				}
			}
		}
		for _, hdr := range hdrs {
			iff, ok := hdr.Instrs[len(hdr.Instrs)-1].(*ssa.If)
			if !ok {
				continue
			}
			cmp, ok := iff.Cond.(*ssa.BinOp)
			if !ok || cmp.Op != token.LSS {
				continue
			}
			xs := lenSlice(cmp.Y)
			if xs == nil {
				continue
			}
			if _, isSlice := xs.Type().Underlying().(*types.Slice); !isSlice {
				continue
			}
			loop := naturalLoop(hdr)
			// does the loop write a token (any non-builtin call or append)?
			writes := false
			for b := range loop {
				for _, ins := range b.Instrs {
					if call, ok := ins.(*ssa.Call); ok {
						if bi, isB := call.Call.Value.(*ssa.Builtin); !isB || bi.Name() == "append" {
							writes = true
						}
					}
				}
			}
			if !writes {
				continue
			}
			nested := false
			for _, h2 := range hdrs {
				if h2 != hdr && naturalLoop(h2)[hdr] {
					nested = true
				}
			}
			_, isParam := xs.(*ssa.Parameter)
			section := !nested && !(helper[f] && isParam) // a top-level section of the key, not a list inside one entry
			// the collections whose length fixes the number of iterations: the list itself, or
			// the map whose keys it holds (sortedKeys(m))
			sources := []ssa.Value{xs}
			if mk, ok := xs.(*ssa.Call); ok && mk.Call.StaticCallee() != nil {
				for _, a := range mk.Call.Args {
					if _, isMap := a.Type().Underlying().(*types.Map); isMap {
						sources = append(sources, a)
					}
				}
			}
			isSource := func(y ssa.Value) bool {
				for _, s := range sources {
					if y != nil && samePlace(y, s, 0) {
						return true
					}
				}
				return false
			}
			n++
			key := fmt.Sprintf("list-length:%s:%s", fnName(f), describeValue(xs))
			how := ""
			// (a) len(xs) is written ahead of the loop
			for _, b := range f.Blocks {
				for _, ins := range b.Instrs {
					l, ok := ins.(*ssa.Call)
					if !ok || !isSource(lenSlice(l)) {
						continue
					}
					if w := argOfCall(l); w != nil && !loop[w.Block()] && w.Block().Dominates(hdr) {
						how = "len of the list is written at " + p.relFile(w.Pos()) + ", ahead of its elements"
					}
				}
			}
			// (b) a constant delimiter follows the loop
			if how == "" {
				exit := iff.Block().Succs[1]
				for _, ins := range exit.Instrs {
					if call, ok := ins.(*ssa.Call); ok {
						for _, a := range call.Call.Args {
							if k, isK := a.(*ssa.Const); isK && k.Value != nil && k.Value.Kind() == constant.Int {
								how = "a constant delimiter is written after the list at " + p.relFile(call.Pos())
							}
						}
					}
				}
			}
			if how == "" && section {
				// the last section needs no terminator: is another token-writing loop reachable?
				later := false
				for _, h2 := range hdrs {
					if h2 != hdr && !loop[h2] && blockReachesPlain(iff.Block().Succs[1], h2) {
						for b := range naturalLoop(h2) {
							for _, ins := range b.Instrs {
								if call, ok := ins.(*ssa.Call); ok {
									if bi, isB := call.Call.Value.(*ssa.Builtin); !isB || bi.Name() == "append" {
										later = true
									}
								}
							}
						}
					}
				}
				if !later {
					if helper[f] {
						n--
						continue // what follows is decided by the caller; not claimed
					}
					how = "last section of the key: nothing of variable length follows it"
				} else {
					c.bad("C03-R13", key, posOr(p, cmp.Pos(), xs.Pos(), f.Pos()), "the section of the sample key that "+fnName(f)+" writes from "+describeValue(xs)+" has neither its entry count ahead of it nor a delimiter after it, and another variable-length section follows: the tokens of one section can be read as the other (string label k=\"\\x00\" and numeric label k=1 give one key) and the two samples are summed into one")
					continue
				}
			}
			if how != "" {
				c.ok("C03-R13", key, posOr(p, cmp.Pos(), xs.Pos(), f.Pos()), "variable-length list inside a sample-key entry in "+fnName(f), how)
			} else {
				c.bad("C03-R13", key, posOr(p, cmp.Pos(), xs.Pos(), f.Pos()), "the elements of "+describeValue(xs)+" are written to the sample key in "+fnName(f)+" without the list's length ahead of them (or a delimiter after them): label sets {a:[x], b:[y]} and {a:[x,b,y]} produce one key and their samples are summed into one")
			}
		}
	}
	if n == 0 {
		c.ok("C03-R13", "list-length:none", p.relFile(top.Pos()), "the sample key encoder has no loop over a list inside an entry", "nothing to delimit")
	}
}

// posOr: the first valid position.
func posOr(p *Program, ps ...token.Pos) string {
	for _, x := range ps {
		if x.IsValid() {
			return p.relFile(x)
		}
	}
	return ""
}

// samePlace: the same value, or loads of the same field of the same place.
func samePlace(a, b ssa.Value, d int) bool {
	if a == b {
		return true
	}
	if d > 4 {
		return false
	}
	la, ok1 := a.(*ssa.UnOp)
	lb, ok2 := b.(*ssa.UnOp)
	if !ok1 || !ok2 || la.Op != token.MUL || lb.Op != token.MUL {
		return false
	}
	fa, ok1 := la.X.(*ssa.FieldAddr)
	fb, ok2 := lb.X.(*ssa.FieldAddr)
	if ok1 && ok2 {
		return fa.Field == fb.Field && samePlace(fa.X, fb.X, d+1)
	}
	return sameCellOrValue(a, b)
}
