package main

import (
	"fmt"
	"go/token"
	"go/types"

	"golang.org/x/tools/go/ssa"
)

// duplicateLeafByEquality (R8): the duplicated leaf of a CPU / threadz sample is recognised
// by an equality: frame 1 is the return address already moved back by one, so the leaf is a
// duplicate exactly when Address[0] == Address[1]+1.  The re-slice that removes frame 1 in
// cleanupDuplicateLocations is dominated by an equality test between the addresses of the
// sample's first two locations; an inequality (difference at most one) also removes a real
// caller whose call site lies right behind the leaf.
func (c *Check) duplicateLeafByEquality() {
	p := c.P
	f := c.anchorFn("C14-R8", "profile", "cleanupDuplicateLocations")
	if f == nil {
		return
	}
	fromAddress := func(v ssa.Value) bool {
		found := false
		var walk func(v ssa.Value, d int)
		walk = func(v ssa.Value, d int) {
			if d > 4 || found {
				return
			}
			switch x := v.(type) {
			case *ssa.BinOp:
				walk(x.X, d+1)
				walk(x.Y, d+1)
			case *ssa.UnOp:
				if fa, ok := x.X.(*ssa.FieldAddr); ok && x.Op == token.MUL {
					if T, F := fieldOf(fa.X.Type(), fa.Field); T == "profile.Location" && F == "Address" {
						found = true
					}
				}
			case *ssa.Convert:
				walk(x.X, d+1)
			}
		}
		walk(v, 0)
		return found
	}
	n := 0
	{
		g := f
		for _, es := range effectiveSites(f, func(ins ssa.Instruction) bool {
			st, ok := ins.(*ssa.Store)
			if !ok {
				return false
			}
			fa, ok := st.Addr.(*ssa.FieldAddr)
			if !ok {
				return false
			}
			T, F := fieldOf(fa.X.Type(), fa.Field)
			return T == "profile.Sample" && F == "Location"
		}, 2) {
			{
				// the test is looked for where the removal is triggered in cleanupDuplicateLocations
				// (the statement itself, or the call of the helper that performs it)
				st := es.at
				b := st.Block()
				n++
				key := fmt.Sprintf("dup-leaf:%s#%d", fnName(g), n)
				eq, other := false, ""
				for d, child := b.Idom(), b; d != nil; child, d = d, d.Idom() {
					iff, ok := d.Instrs[len(d.Instrs)-1].(*ssa.If)
					if !ok {
						continue
					}
					onTrue := d.Succs[0] == child || d.Succs[0].Dominates(b)
					// the test written as a predicate helper: it must answer false whenever the
					// two addresses do not compare equal, and compare them with == / != only
					cnd, neg := iff.Cond, false
					if un, isNot := cnd.(*ssa.UnOp); isNot && un.Op == token.NOT {
						cnd, neg = un.X, true
					}
					if hc, isCall := cnd.(*ssa.Call); isCall {
						if h := helperCallee(hc.Parent(), hc); h != nil && h.Signature.Results().Len() == 1 {
							var cmps []*ssa.BinOp
							badOp := ""
							for _, hb := range h.Blocks {
								for _, hi := range hb.Instrs {
									if bo, ok := hi.(*ssa.BinOp); ok && (fromAddress(bo.X) || fromAddress(bo.Y)) {
										switch bo.Op {
										case token.EQL, token.NEQ:
											if fromAddress(bo.X) && fromAddress(bo.Y) {
												cmps = append(cmps, bo)
											}
										case token.LSS, token.LEQ, token.GTR, token.GEQ:
											badOp = bo.Op.String()
										}
									}
								}
							}
							if len(cmps) > 0 || badOp != "" {
								verdict := boolResultUnder(h, func(cond ssa.Value) int {
									for _, bo := range cmps {
										if cond == ssa.Value(bo) {
											if bo.Op == token.EQL {
												return -1
											}
											return 1
										}
									}
									return 0
								})
								switch {
								case badOp != "":
									other = "the predicate " + h.Name() + " compares the addresses with " + badOp
								case verdict == -1 && onTrue != neg:
									eq = true
								default:
									other = "the predicate " + h.Name() + " can hold although the two addresses do not compare equal"
								}
								continue
							}
						}
					}
					cmp, ok := iff.Cond.(*ssa.BinOp)
					if !ok || !(fromAddress(cmp.X) || fromAddress(cmp.Y)) {
						continue
					}
					switch {
					case cmp.Op == token.EQL && onTrue, cmp.Op == token.NEQ && !onTrue:
						if fromAddress(cmp.X) && fromAddress(cmp.Y) {
							eq = true
						} else {
							other = "the addresses are combined on one side and compared with a constant"
						}
					default:
						other = "the test on the addresses is " + cmp.Op.String()
					}
				}
				switch {
				case other != "":
					c.bad("C14-R8", key, p.relFile(st.Pos()), fnName(g)+" removes the second frame of a sample under a test that is not the equality Address[0] == Address[1]+1 ("+other+"): a genuine caller whose adjusted return address equals the leaf address is deleted from the stack")
				case eq:
					c.ok("C14-R8", key, p.relFile(st.Pos()), "the duplicated leaf is removed only under an equality of the two addresses", "the re-slice of Sample.Location is dominated by the true side of an == between values derived from both Location.Address loads")
				default:
					c.bad("C14-R8", key, p.relFile(st.Pos()), fnName(g)+" removes the second frame of a sample without comparing the addresses of the first two frames")
				}
			}
		}
	}
	if n == 0 {
		c.undecided("C14-R8", "dup-leaf", p.relFile(f.Pos()), "cleanupDuplicateLocations no longer re-assigns Sample.Location")
	}
}

// heapHeaderAllocColumns (R9): a heap header announces allocation columns when either of
// its bracketed totals is present and differs from the in-use total next to it.  The flag
// parseHeapHeader returns is evaluated under two scenarios - only the object counts differ,
// only the byte counts differ - following string comparisons on the submatch groups through
// short-circuit operators and through helpers that receive the groups as arguments; in both
// it must be true on every successful return.
func (c *Check) heapHeaderAllocColumns() {
	p := c.P
	f := c.anchorFn("C14-R9", "profile", "parseHeapHeader")
	if f == nil {
		return
	}
	res := f.Signature.Results()
	bi, ei := -1, -1
	for i := 0; i < res.Len(); i++ {
		if bt, ok := res.At(i).Type().Underlying().(*types.Basic); ok && bt.Kind() == types.Bool {
			bi = i
		}
		if types.Identical(res.At(i).Type(), types.Universe.Lookup("error").Type()) {
			ei = i
		}
	}
	if bi < 0 || ei < 0 {
		c.undecided("C14-R9", "heap-alloc", p.relFile(f.Pos()), "parseHeapHeader has no (bool, error) results")
		return
	}
	type env map[*ssa.Parameter]string
	var idOfRec func(v ssa.Value, e env) string
	idOf := func(v ssa.Value, e env) string {
		switch x := v.(type) {
		case *ssa.Parameter:
			return e[x]
		case *ssa.Const:
			if s, ok := constString(x); ok {
				return fmt.Sprintf("%q", s)
			}
		case *ssa.UnOp:
			if ia, ok := x.X.(*ssa.IndexAddr); ok && x.Op == token.MUL {
				if k, ok := constInt(ia.Index); ok {
					return fmt.Sprintf("h%d", k)
				}
			}
			// a group copied into a field of a local struct (named captures)
			if fa, ok := x.X.(*ssa.FieldAddr); ok && x.Op == token.MUL {
				if al, ok := fa.X.(*ssa.Alloc); ok {
					if vals, ok := fieldValues(&ssa.UnOp{Op: token.MUL, X: al}, fa.Field, 0); ok && len(vals) == 1 {
						return idOfRec(vals[0], e)
					}
				}
			}
		case *ssa.Field:
			if vals, ok := fieldValues(x.X, x.Field, 0); ok && len(vals) == 1 {
				return idOfRec(vals[0], e)
			}
		}
		return ""
	}
	idOfRec = idOf
	for _, sc := range []struct {
		name        string
		alloc, used string
	}{{"objects", "h3", "h1"}, {"bytes", "h4", "h2"}} {
		differ := map[[2]string]bool{{sc.alloc, sc.used}: true, {sc.used, sc.alloc}: true, {sc.alloc, `"0"`}: true, {`"0"`, sc.alloc}: true}
		var mk func(e env, depth int) func(ssa.Value) int
		mk = func(e env, depth int) func(ssa.Value) int {
			return func(cond ssa.Value) int {
				switch x := cond.(type) {
				case *ssa.BinOp:
					if x.Op != token.EQL && x.Op != token.NEQ {
						return 0
					}
					a, b := idOf(x.X, e), idOf(x.Y, e)
					if a == "" || b == "" || !differ[[2]string{a, b}] {
						return 0
					}
					if x.Op == token.NEQ {
						return 1
					}
					return -1
				case *ssa.Call:
					if depth > 2 {
						return 0
					}
					h := helperCallee(x.Parent(), x)
					if h == nil || h.Signature.Results().Len() != 1 || len(h.Params) != len(x.Call.Args) {
						return 0
					}
					e2 := env{}
					for i, a := range x.Call.Args {
						if id := idOf(a, e); id != "" {
							e2[h.Params[i]] = id
						}
					}
					return boolResultUnder(h, mk(e2, depth+1))
				}
				return 0
			}
		}
		reach, eval := reachUnderEval(f, mk(env{}, 0))
		key := "heap-alloc:" + sc.name
		verdict, pos := 1, f.Pos()
		nret := 0
		for _, b := range f.Blocks {
			if !reach[b] {
				continue
			}
			ret, ok := b.Instrs[len(b.Instrs)-1].(*ssa.Return)
			if !ok || len(ret.Results) <= bi || !isNilConst(ret.Results[ei]) {
				continue
			}
			nret++
			if d := eval(ret.Results[bi]); d != 1 {
				verdict, pos = d, ret.Pos()
			}
		}
		switch {
		case nret == 0:
			c.undecided("C14-R9", key, p.relFile(f.Pos()), "no successful return of parseHeapHeader is reachable in the scenario")
		case verdict == 1:
			c.ok("C14-R9", key, p.relFile(f.Pos()), "a heap header whose bracketed "+sc.name+" total differs from the in-use total is read as carrying allocation columns", fmt.Sprintf("flag evaluated to true on the %d successful returns with only that pair assumed different", nret))
		default:
			c.bad("C14-R9", key, p.relFile(pos), "parseHeapHeader does not report allocation columns when only the "+sc.name+" totals differ (bracketed total present and unequal to the in-use total): such a profile is parsed as two-column in-use data and the bracketed per-record values are dropped")
		}
	}
}

// rebaseCurrentFirstMapping (R10): the "start-offset is the usual load address" correction is
// applied to the mapping that is first in the list at that moment.  In remapMappingIDs no
// assignment of Profile.Mapping lies between reading the first mapping and writing its Start
// or Offset: after the /anon_hugepage entry was dropped, a pointer read earlier is stale.
func (c *Check) rebaseCurrentFirstMapping() {
	p := c.P
	f := c.anchorFn("C14-R10", "profile", "(*Profile).remapMappingIDs")
	if f == nil {
		return
	}
	n := 0
	for _, g := range withHelpers(f, 1) {
		var listStores []*ssa.Store
		for _, b := range g.Blocks {
			for _, ins := range b.Instrs {
				if st, ok := ins.(*ssa.Store); ok {
					if fa, ok := st.Addr.(*ssa.FieldAddr); ok {
						if T, F := fieldOf(fa.X.Type(), fa.Field); T == "profile.Profile" && F == "Mapping" {
							listStores = append(listStores, st)
						}
					}
				}
			}
		}
		for _, b := range g.Blocks {
			for _, ins := range b.Instrs {
				st, ok := ins.(*ssa.Store)
				if !ok {
					continue
				}
				fa, ok := st.Addr.(*ssa.FieldAddr)
				if !ok {
					continue
				}
				T, F := fieldOf(fa.X.Type(), fa.Field)
				if T != "profile.Mapping" || (F != "Start" && F != "Offset") {
					continue
				}
				// fa.X = *(&list[0]) with list = *(&p.Mapping)
				el, ok := fa.X.(*ssa.UnOp)
				if !ok {
					continue
				}
				ia, ok := el.X.(*ssa.IndexAddr)
				if !ok || !isConstInt(ia.Index, 0) {
					continue
				}
				list, ok := ia.X.(*ssa.UnOp)
				if !ok || !isFieldLoad(list, "profile.Profile", "Mapping") {
					continue
				}
				n++
				key := fmt.Sprintf("rebase-first:%s.%s#%d", T, F, n)
				stale := ""
				for _, ls := range listStores {
					after := (ls.Block() == list.Block() && instrIndex(ls) > instrIndex(list)) || (ls.Block() != list.Block() && blockReachesPlain(list.Block(), ls.Block()))
					before := (ls.Block() == st.Block() && instrIndex(ls) < instrIndex(st)) || (ls.Block() != st.Block() && blockReachesPlain(ls.Block(), st.Block()))
					if after && before {
						stale = p.relFile(ls.Pos())
					}
				}
				if stale != "" {
					c.bad("C14-R10", key, p.relFile(st.Pos()), fnName(g)+" writes "+F+" of a mapping that was read as the first one before Profile.Mapping was re-assigned ("+stale+"): when the /anon_hugepage entry is dropped the load-address correction lands on the discarded entry and the real main mapping keeps its raw start and offset")
				} else {
					c.ok("C14-R10", key, p.relFile(st.Pos()), "the correction of "+F+" is applied to the current first mapping", "no assignment of Profile.Mapping lies between the read of element 0 and the write")
				}
			}
		}
	}
	if n == 0 {
		c.undecided("C14-R10", "rebase-first", p.relFile(f.Pos()), "no write to Start/Offset of Profile.Mapping[0] found in remapMappingIDs")
	}
}
