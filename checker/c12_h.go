package main

import (
	"fmt"
	"go/token"
	"go/types"

	"golang.org/x/tools/go/ssa"
)

// forceOnlyWhenRequested (R7): mappings that already carry symbols are left alone unless
// force is requested.  In (*Symbolizer).Symbolize the value handed to the callees' force
// parameter becomes true only for the option tokens that ask for it: assuming the token is
// one of the options that do not ("local", "fastlocal", "remote", "demangle=default"), no
// assignment of true to that value is reachable.
func (c *Check) forceOnlyWhenRequested() {
	p := c.P
	f := c.anchorFn("C12-R7", "internal/symbolizer", "(*Symbolizer).Symbolize")
	if f == nil {
		return
	}
	// the value handed to a callee's bool parameter named force
	var force ssa.Value
	for _, b := range f.Blocks {
		for _, ins := range b.Instrs {
			call, ok := ins.(*ssa.Call)
			if !ok || call.Call.IsInvoke() {
				continue
			}
			// (the steps are called through package-level function variables)
			sig := call.Call.Signature()
			off := 0
			if sig.Recv() != nil {
				off = 1
			}
			for i := 0; i < sig.Params().Len(); i++ {
				pr := sig.Params().At(i)
				if pr.Name() == "force" && types.Identical(pr.Type(), types.Typ[types.Bool]) && i+off < len(call.Call.Args) {
					force = call.Call.Args[i+off]
				}
			}
		}
	}
	ph, ok := force.(*ssa.Phi)
	if !ok {
		c.undecided("C12-R7", "force-requested", p.relFile(f.Pos()), "the value handed to the force parameter of the symbolization steps is not a merge of the option loop")
		return
	}
	var setAt []*ssa.BasicBlock
	seen := map[*ssa.Phi]bool{}
	var walk func(ph *ssa.Phi)
	walk = func(ph *ssa.Phi) {
		if seen[ph] {
			return
		}
		seen[ph] = true
		for i, e := range ph.Edges {
			switch x := e.(type) {
			case *ssa.Const:
				if x.Value != nil && x.Value.String() == "true" {
					setAt = append(setAt, ph.Block().Preds[i])
				}
			case *ssa.Phi:
				walk(x)
			}
		}
	}
	walk(ph)
	if len(setAt) == 0 {
		c.undecided("C12-R7", "force-requested", p.relFile(f.Pos()), "no assignment of true to the force value found")
		return
	}
	for _, opt := range []string{"local", "fastlocal", "remote", "default"} {
		opt := opt
		assume := func(cond ssa.Value) int {
			cmp, ok := cond.(*ssa.BinOp)
			if !ok || (cmp.Op != token.EQL && cmp.Op != token.NEQ) {
				return 0
			}
			var k string
			var isK bool
			if k, isK = constString(cmp.Y); !isK {
				if k, isK = constString(cmp.X); !isK {
					return 0
				}
			}
			eq := k == opt
			if cmp.Op == token.NEQ {
				eq = !eq
			}
			if eq {
				return 1
			}
			return -1
		}
		reach := reachUnder(f, assume)
		bad := ""
		for _, b := range setAt {
			if reach[b] {
				for _, ins := range b.Instrs {
					if ins.Pos() != token.NoPos {
						bad = p.relFile(ins.Pos())
					}
				}
				if bad == "" {
					bad = p.relFile(f.Pos())
				}
			}
		}
		key := "force-requested:" + opt
		if bad != "" {
			c.bad("C12-R7", key, bad, fmt.Sprintf("Symbolize turns force on for the option %q, which does not ask for it: every already symbolized mapping is symbolized again and its names are replaced although the user did not request force", opt))
		} else {
			c.ok("C12-R7", key, p.relFile(f.Pos()), fmt.Sprintf("the option %q leaves force off", opt), fmt.Sprintf("with every comparison of the token decided for %q, none of the %d assignments of true to force is reachable", opt, len(setAt)))
		}
	}
}
