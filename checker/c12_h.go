package main

import (
	"fmt"
	"go/token"
	"go/types"

	"golang.org/x/tools/go/ssa"
)

// forceOnlyWhenRequested (R7): mappings that already carry symbols are left alone unless
// force is requested.  In (*Symbolizer).Symbolize the value handed to the callees' force
// parameter becomes true only for the option tokens that ask for it: assuming the token is
// one of the options that do not ("local", "fastlocal", "remote", "demangle=default"), no
// assignment of true to that value is reachable.
func (c *Check) forceOnlyWhenRequested() {
	p := c.P
	f := c.anchorFn("C12-R7", "internal/symbolizer", "(*Symbolizer).Symbolize")
	if f == nil {
		return
	}
	// the value handed to a callee's bool parameter named force
	var force ssa.Value
	for _, b := range f.Blocks {
		for _, ins := range b.Instrs {
			call, ok := ins.(*ssa.Call)
			if !ok || call.Call.IsInvoke() {
				continue
			}
			// (the steps are called through package-level function variables)
			sig := call.Call.Signature()
			off := 0
			if sig.Recv() != nil {
				off = 1
			}
			for i := 0; i < sig.Params().Len(); i++ {
				pr := sig.Params().At(i)
				if pr.Name() == "force" && types.Identical(pr.Type(), types.Typ[types.Bool]) && i+off < len(call.Call.Args) {
					force = call.Call.Args[i+off]
				}
			}
		}
	}
	// where the value becomes true: constant-true edges of the merge of the option loop, or
	// stores of true into the field that carries it (options kept in a struct, possibly filled
	// by a helper that parses the mode)
	type setSite struct {
		fn  *ssa.Function
		blk *ssa.BasicBlock
	}
	var setAt []setSite
	switch x := force.(type) {
	case *ssa.Phi:
		seen := map[*ssa.Phi]bool{}
		var walk func(ph *ssa.Phi)
		walk = func(ph *ssa.Phi) {
			if seen[ph] {
				return
			}
			seen[ph] = true
			for i, e := range ph.Edges {
				switch y := e.(type) {
				case *ssa.Const:
					if y.Value != nil && y.Value.String() == "true" {
						setAt = append(setAt, setSite{f, ph.Block().Preds[i]})
					}
				case *ssa.Phi:
					walk(y)
				}
			}
		}
		walk(x)
	default:
		var owner types.Type
		idx := -1
		switch y := force.(type) {
		case *ssa.Field:
			owner, idx = y.X.Type(), y.Field
		case *ssa.UnOp:
			if fa, ok := y.X.(*ssa.FieldAddr); ok && y.Op == token.MUL {
				owner, idx = fa.X.Type().Underlying().(*types.Pointer).Elem(), fa.Field
			}
		}
		if idx < 0 {
			c.undecided("C12-R7", "force-requested", p.relFile(f.Pos()), "the value handed to the force parameter of the symbolization steps is neither a merge of the option loop nor a field of an options struct")
			return
		}
		for _, g := range withHelpers(f, 2) {
			for _, b := range g.Blocks {
				for _, ins := range b.Instrs {
					st, ok := ins.(*ssa.Store)
					if !ok {
						continue
					}
					fa, ok := st.Addr.(*ssa.FieldAddr)
					if !ok || fa.Field != idx || !types.Identical(fa.X.Type().Underlying().(*types.Pointer).Elem(), owner) {
						continue
					}
					if k, ok := st.Val.(*ssa.Const); ok && k.Value != nil && k.Value.String() == "true" {
						setAt = append(setAt, setSite{g, b})
					} else if _, isConst := st.Val.(*ssa.Const); !isConst {
						// copied from elsewhere: treat as a set on this path
						setAt = append(setAt, setSite{g, b})
					}
				}
			}
		}
	}
	if len(setAt) == 0 {
		c.undecided("C12-R7", "force-requested", p.relFile(f.Pos()), "no assignment of true to the force value found")
		return
	}
	for _, opt := range []string{"local", "fastlocal", "remote", "default"} {
		opt := opt
		assume := func(cond ssa.Value) int {
			cmp, ok := cond.(*ssa.BinOp)
			if !ok || (cmp.Op != token.EQL && cmp.Op != token.NEQ) {
				return 0
			}
			var k string
			var isK bool
			if k, isK = constString(cmp.Y); !isK {
				if k, isK = constString(cmp.X); !isK {
					return 0
				}
			}
			eq := k == opt
			if cmp.Op == token.NEQ {
				eq = !eq
			}
			if eq {
				return 1
			}
			return -1
		}
		reachOf := map[*ssa.Function]map[*ssa.BasicBlock]bool{}
		bad := ""
		for _, site := range setAt {
			reach, ok := reachOf[site.fn]
			if !ok {
				reach = reachUnder(site.fn, assume)
				reachOf[site.fn] = reach
			}
			b := site.blk
			if reach[b] {
				for _, ins := range b.Instrs {
					if ins.Pos() != token.NoPos {
						bad = p.relFile(ins.Pos())
					}
				}
				if bad == "" {
					bad = p.relFile(f.Pos())
				}
			}
		}
		key := "force-requested:" + opt
		if bad != "" {
			c.bad("C12-R7", key, bad, fmt.Sprintf("Symbolize turns force on for the option %q, which does not ask for it: every already symbolized mapping is symbolized again and its names are replaced although the user did not request force", opt))
		} else {
			c.ok("C12-R7", key, p.relFile(f.Pos()), fmt.Sprintf("the option %q leaves force off", opt), fmt.Sprintf("with every comparison of the token decided for %q, none of the %d assignments of true to force is reachable", opt, len(setAt)))
		}
	}
}
