package main

import (
	"fmt"
	"go/constant"
	"go/token"
	"go/types"
	"strings"

	"golang.org/x/tools/go/ssa"
)

func init() { register("C18", true, runC18) }

func runC18(c *Check) {
	c.Explanation = "Decides the escaping discipline behind C18 for every name: each operand written to the DOT builder (every fmt.Fprint* on the builder in package graph) is traced back through concatenation, formatting, local struct copies and module callees; any string that can come from a struct field or parameter without passing through escapeForDot/escapeAllForDot is reported with its source (R1; value-format callbacks and fields that are never assigned in non-test code are treated as inert and listed). The callgrind emitter takes every ob=/fl=/fn=/cfl=/cfn= payload from callgrindName with one table per name space (files shared by fl/cfl, functions by fn/cfn), and callgrindName hands out '(n)' only on a table hit and defines new ids as len+1 together with the name (R2). HTML pages are rendered only by html/template (no text/template import) and the typed-string conversions that bypass escaping are exactly HTML(dot's svg) and JS(json.Marshal result) (R3). Also: the base of callgrind's relative positions is advanced on every cost line (R2). Round-I additions: a nodelet's declaration dominates every use of its name; the absolute callgrind position is the current address; no formatting call has data spliced into its format string. Not decided: validity of the document as a whole, the subposition arithmetic of callgrindAddress, newline characters inside callgrind names."
	c.dotTaint()
	c.nodeletIDs()
	c.dotEdgesDeclared()
	c.callgrindRules()
	c.htmlRules()
	c.formatIsLiteral()
	c.absoluteFormIsCurrent()
}

func (c *Check) dotTaint() {
	p := c.P
	// fields that no non-test module code ever assigns are unset hooks
	m := newModAnalyzer(p)
	assigned := map[string]bool{}
	for f := range p.AllFns {
		if !fnInModule(f) || f.Blocks == nil {
			continue
		}
		for _, e := range m.direct(f) {
			if e.T != "" {
				assigned[e.T+"."+e.F] = true
			}
		}
	}
	eng := &taintEngine{p: p,
		sanitizers: map[string]bool{"graph.escapeForDot": true, "graph.escapeAllForDot": true},
		inertCalls: map[string]bool{"graph.DotConfig.FormatValue": true},
		deadFields: map[string]bool{}, memo: map[string]taintSet{}, inProgress: map[string]bool{}, Sources: map[string]bool{}}
	for _, hook := range []string{"graph.DotConfig.LegendURL", "graph.DotNodeAttributes.URL", "graph.DotNodeAttributes.Shape", "graph.DotNodeAttributes.Formatter", "graph.DotAttributes.Nodes"} {
		key := "hook:" + hook
		if assigned[hook] {
			c.ok("C18-R1", key, "", hook+" is assigned by non-test code", "treated as a live source")
			continue
		}
		eng.deadFields[hook] = true
		c.ok("C18-R1", key, "", hook+" is an unset hook", "no store to this field in any non-test function of the module, so the value is always the zero value")
	}
	c.Assumptions = append(c.Assumptions, "filepath.Base applied to already escaped text cuts only at '/', which escapeForDot neither produces nor consumes (holds for '/'-separated platforms)")
	c.Assumptions = append(c.Assumptions, "DotConfig.FormatValue (value formatting callback) returns text free of DOT metacharacters (numbers and unit names)")

	nSinks := 0
	forAllPkgFuncs(p, "internal/graph", func(f *ssa.Function) {
		for _, b := range f.Blocks {
			for _, ins := range b.Instrs {
				call, ok := ins.(*ssa.Call)
				if !ok {
					continue
				}
				sc := call.Call.StaticCallee()
				if sc == nil {
					continue
				}
				switch sc.String() {
				case "fmt.Fprintf", "fmt.Fprint", "fmt.Fprintln":
				default:
					continue
				}
				// destination must be the DOT builder
				w := call.Call.Args[0]
				if mi, ok := w.(*ssa.MakeInterface); ok {
					w = mi.X
				}
				if structName(w.Type()) != "graph.builder" {
					continue
				}
				nSinks++
				var t taintSet
				for _, a := range call.Call.Args[1:] {
					t = t.add(eng.eval(a, f, nil, map[ssa.Value]bool{}))
				}
				key := fmt.Sprintf("sink:%s:%s", fnName(f), sinkLabel(call))
				delete(t, sanMarker)
				if len(t) == 0 {
					c.ok("C18-R1", key, p.relFile(call.Pos()), "DOT write in "+fnName(f), "every string operand is a constant, a number, an inert formatter result or has passed through escapeForDot")
				} else {
					c.bad("C18-R1", key, p.relFile(call.Pos()), "DOT write in "+fnName(f)+" emits unescaped text from: "+t.String())
				}
			}
		}
	})
	if nSinks < 5 { // eight on the reviewed tree; emitters that build their text first and write once have fewer
		c.undecided("C18-R1", "sinks", "", fmt.Sprintf("only %d DOT sinks found in package graph (expected the start, legend, node, nodelet, edge and finish emitters)", nSinks))
	}
	c.Extra["dot_sinks"] = nSinks
	c.Extra["dot_sources_seen"] = sortedKeys(eng.Sources)
}

func sinkLabel(call *ssa.Call) string {
	// the constant prefix of the format string / first operand identifies the sink
	for _, a := range call.Call.Args[1:] {
		if s, ok := constString(a); ok {
			s = strings.TrimSpace(s)
			if len(s) > 24 {
				s = s[:24]
			}
			return s
		}
		if b, ok := a.(*ssa.BinOp); ok {
			for _, l := range concatLeaves(b) {
				if s, ok := constString(l); ok {
					s = strings.TrimSpace(s)
					if len(s) > 24 {
						s = s[:24]
					}
					return s
				}
			}
		}
		break
	}
	// variadic slice: look at the first stored element
	if len(call.Call.Args) > 1 {
		if sl, ok := call.Call.Args[len(call.Call.Args)-1].(*ssa.Slice); ok {
			if al, ok := sl.X.(*ssa.Alloc); ok {
				for _, r := range *al.Referrers() {
					if ia, ok := r.(*ssa.IndexAddr); ok {
						for _, r2 := range *ia.Referrers() {
							if st, ok := r2.(*ssa.Store); ok {
								v := st.Val
								if mi, ok := v.(*ssa.MakeInterface); ok {
									v = mi.X
								}
								for _, l := range concatLeaves(v) {
									if s, ok := constString(l); ok {
										s = strings.TrimSpace(s)
										if len(s) > 24 {
											s = s[:24]
										}
										return s
									}
								}
								return describeValue(v)
							}
						}
					}
				}
			}
		}
	}
	return "?"
}

// callgrindRules (R2)
func (c *Check) callgrindRules() {
	p := c.P
	pc := c.anchorFn("C18-R2", "internal/report", "printCallgrind")
	if pc == nil {
		return
	}
	// the name compressor: the function of the package that formats "(%d) %s" definitions
	var cn *ssa.Function
	forAllPkgFuncs(p, "internal/report", func(f *ssa.Function) {
		for _, b := range f.Blocks {
			for _, ins := range b.Instrs {
				if call, ok := ins.(*ssa.Call); ok && call.Call.StaticCallee() != nil && call.Call.StaticCallee().String() == "fmt.Sprintf" {
					if format, ok := constString(call.Call.Args[0]); ok && format == "(%d) %s" {
						cn = f
					}
				}
			}
		}
	})
	if cn == nil {
		// by shape: the one function of the package that takes a map[string]int table and a
		// name, returns a string and inserts the name into the table
		var cands []*ssa.Function
		forAllPkgFuncs(p, "internal/report", func(f *ssa.Function) {
			if len(f.Params) != 2 || f.Signature.Results().Len() != 1 || f.Signature.Recv() != nil {
				return
			}
			mt, ok := f.Params[0].Type().Underlying().(*types.Map)
			if !ok {
				return
			}
			kb, ok1 := mt.Key().Underlying().(*types.Basic)
			vb, ok2 := mt.Elem().Underlying().(*types.Basic)
			sb, ok3 := f.Params[1].Type().Underlying().(*types.Basic)
			rb, ok4 := f.Signature.Results().At(0).Type().Underlying().(*types.Basic)
			if ok1 && ok2 && ok3 && ok4 && kb.Kind() == types.String && vb.Info()&types.IsInteger != 0 && sb.Kind() == types.String && rb.Kind() == types.String {
				cands = append(cands, f)
			}
		})
		if len(cands) == 1 {
			cn = cands[0]
		}
	}
	if cn == nil {
		c.undecided("C18-R2", "anchor:internal/report.callgrindName", "", "the callgrind name compressor (a function formatting \"(%d) %s\") was not found in package report")
		return
	}
	// its table and name parameters
	var names, name *ssa.Parameter
	for _, pr := range cn.Params {
		switch t := pr.Type().Underlying().(type) {
		case *types.Map:
			names = pr
		case *types.Basic:
			if t.Kind() == types.String {
				name = pr
			}
		}
	}
	if names == nil || name == nil {
		c.undecided("C18-R2", "name:shape", p.relFile(cn.Pos()), "the callgrind name compressor does not take a table and a name")
		return
	}
	tblIdx := 0
	for i, pr := range cn.Params {
		if pr == names {
			tblIdx = i
		}
	}
	// tableOrigin: the make(map) in printCallgrind that a table value denotes, followed through
	// conversions, struct fields, and parameters of printCallgrind's helpers
	var tableOrigin func(v ssa.Value, depth int) ssa.Value
	tableOrigin = func(v ssa.Value, depth int) ssa.Value {
		if depth > 6 {
			return nil
		}
		one := func(vals []ssa.Value, ok bool) ssa.Value {
			if !ok || len(vals) == 0 {
				return nil
			}
			var res ssa.Value
			for _, e := range vals {
				o := tableOrigin(e, depth+1)
				if o == nil || (res != nil && res != o) {
					return nil
				}
				res = o
			}
			return res
		}
		switch x := v.(type) {
		case *ssa.MakeMap:
			return x
		case *ssa.ChangeType:
			return tableOrigin(x.X, depth+1)
		case *ssa.Convert:
			return tableOrigin(x.X, depth+1)
		case *ssa.Field:
			return one(structFieldValues(p, x.X, x.Field, 0))
		case *ssa.UnOp:
			if x.Op != token.MUL {
				return nil
			}
			if fa, ok := x.X.(*ssa.FieldAddr); ok {
				switch base := fa.X.(type) {
				case *ssa.Alloc:
					return one(structFieldValues(p, &ssa.UnOp{Op: token.MUL, X: base}, fa.Field, 0))
				case *ssa.Parameter:
					return one(structFieldValues(p, base, fa.Field, 0))
				}
			}
			if vals, ok := cellValues(x.X); ok {
				return one(vals, true)
			}
		case *ssa.Parameter:
			fn := x.Parent()
			calls, asValue := directCallSites(p, fn)
			if asValue || len(calls) == 0 {
				return nil
			}
			for i, q := range fn.Params {
				if q != x {
					continue
				}
				var args []ssa.Value
				for _, call := range calls {
					if i >= len(call.Common().Args) {
						return nil
					}
					args = append(args, call.Common().Args[i])
				}
				return one(args, true)
			}
		}
		return nil
	}
	tables := map[string]ssa.Value{}
	tblName := func(v ssa.Value) string {
		if mk, ok := v.(*ssa.MakeMap); ok {
			return "the map made at " + p.relFile(mk.Pos())
		}
		return "?"
	}
	for _, blk := range helperBlocks(pc, 2) {
		for _, ins := range blk.Instrs {
			call, ok := ins.(*ssa.Call)
			if !ok || call.Call.StaticCallee() == nil || !strings.HasPrefix(call.Call.StaticCallee().String(), "fmt.Fprint") {
				continue
			}
			for _, a := range variadicValues(call.Call.Args[len(call.Call.Args)-1]) {
				if a == nil {
					continue
				}
				be, ok := a.(*ssa.BinOp)
				if !ok || be.Op != token.ADD {
					continue
				}
				prefix, ok := constString(be.X)
				if !ok || !strings.HasSuffix(prefix, "=") {
					continue
				}
				key := "payload:" + prefix
				inner, ok := be.Y.(*ssa.Call)
				if !ok || inner.Call.StaticCallee() != cn || tblIdx >= len(inner.Call.Args) {
					c.bad("C18-R2", key, p.relFile(call.Pos()), "callgrind line "+prefix+" does not take its payload from the name compressor "+fnName(cn)+"(table, name)")
					continue
				}
				tbl := tableOrigin(inner.Call.Args[tblIdx], 0)
				if tbl == nil {
					c.undecided("C18-R2", key, p.relFile(call.Pos()), "the compression table used for callgrind line "+prefix+" could not be traced to a map made in printCallgrind")
					continue
				}
				if prev, ok := tables[prefix]; ok && prev != tbl {
					c.bad("C18-R2", key, p.relFile(call.Pos()), "callgrind lines "+prefix+" use different compression tables ("+tblName(prev)+", "+tblName(tbl)+")")
					continue
				}
				tables[prefix] = tbl
				c.ok("C18-R2", key, p.relFile(call.Pos()), "callgrind line "+prefix+"…", "payload is "+fnName(cn)+"("+tblName(tbl)+", …)")
			}
		}
	}
	pairs := [][2]string{{"fl=", "cfl="}, {"fn=", "cfn="}}
	for _, pr := range pairs {
		key := "table:" + pr[0] + pr[1]
		a, okA := tables[pr[0]]
		b, okB := tables[pr[1]]
		switch {
		case !okA || !okB:
			c.undecided("C18-R2", key, "", "callgrind lines "+pr[0]+" / "+pr[1]+" not both found in printCallgrind")
		case a != b:
			c.bad("C18-R2", key, p.relFile(pc.Pos()), fmt.Sprintf("%s uses table %s but %s uses table %s: a '(n)' back-reference would resolve in the wrong name space", pr[0], tblName(a), pr[1], tblName(b)))
		default:
			c.ok("C18-R2", key, p.relFile(pc.Pos()), pr[0]+" and "+pr[1]+" share one compression table", "both use "+tblName(a))
		}
	}
	distinct := map[ssa.Value]string{}
	for _, pre := range []string{"ob=", "fl=", "fn="} {
		if t, ok := tables[pre]; ok {
			if other, dup := distinct[t]; dup {
				c.bad("C18-R2", "table:distinct:"+pre, p.relFile(pc.Pos()), pre+" and "+other+" share table "+tblName(t)+": ids of different name spaces would collide")
			} else {
				distinct[t] = pre
				c.ok("C18-R2", "table:distinct:"+pre, p.relFile(pc.Pos()), pre+" has its own compression table", tblName(t))
			}
		} else {
			c.undecided("C18-R2", "table:distinct:"+pre, "", "callgrind line "+pre+" not found")
		}
	}
	// callgrindName: "(n)" only on a hit; a new id is len(names)+1, recorded under the name, and printed with the name
	var upd *ssa.MapUpdate
	var lookups []*ssa.Lookup
	for _, b := range cn.Blocks {
		for _, ins := range b.Instrs {
			switch x := ins.(type) {
			case *ssa.MapUpdate:
				if x.Map == ssa.Value(names) {
					if upd != nil {
						c.bad("C18-R2", "name:update", p.relFile(x.Pos()), "callgrindName updates the table more than once")
					}
					upd = x
				}
			case *ssa.Lookup:
				if x.X == ssa.Value(names) && x.Index == ssa.Value(name) && x.CommaOk {
					lookups = append(lookups, x)
				}
			}
		}
	}
	if upd == nil || len(lookups) != 1 {
		c.undecided("C18-R2", "name:shape", p.relFile(cn.Pos()), "callgrindName does not have the expected lookup/insert shape")
		return
	}
	// id = len(names) + 1
	idOK := false
	if add, ok := upd.Value.(*ssa.BinOp); ok && add.Op == token.ADD {
		if lc, ok := add.X.(*ssa.Call); ok {
			if b, ok := lc.Call.Value.(*ssa.Builtin); ok && b.Name() == "len" && lc.Call.Args[0] == ssa.Value(names) {
				if k, ok := add.Y.(*ssa.Const); ok && safeInt64(k) == 1 {
					idOK = true
				}
			}
		}
	}
	if idOK && upd.Key == ssa.Value(name) {
		c.ok("C18-R2", "name:newid", p.relFile(upd.Pos()), "a new callgrind id is len(table)+1 and is recorded under the name", "names[name] = len(names)+1")
	} else {
		c.bad("C18-R2", "name:newid", p.relFile(upd.Pos()), "callgrindName does not record len(names)+1 under the name it was given")
	}
	// returns: what is handed back is, written as a sequence of text pieces, either
	// "(" id ")" with the id found in the table, on the path where the lookup succeeded, or
	// "(" id ") " name with the id just recorded for that name.  Sprintf("(%d)", …),
	// Sprintf("(%d) %s", …) and concatenations with strconv.Itoa are all read as such sequences;
	// an id that is a merge of "found" and "new" is resolved per path.
	seenFlag := func(v ssa.Value) bool { return isExtractOf(v, lookups[0], 1) }
	assumeSeen := func(val int) func(ssa.Value) int {
		return func(cond ssa.Value) int {
			if seenFlag(cond) {
				return val
			}
			if un, ok := cond.(*ssa.UnOp); ok && un.Op == token.NOT && seenFlag(un.X) {
				return -val
			}
			return 0
		}
	}
	reachHit := reachUnder(cn, assumeSeen(1))
	reachMiss := reachUnder(cn, assumeSeen(-1))
	// pieces of a string value
	var pieces func(v ssa.Value, d int) []ssa.Value
	pieces = func(v ssa.Value, d int) []ssa.Value {
		if d > 6 {
			return []ssa.Value{v}
		}
		switch x := v.(type) {
		case *ssa.BinOp:
			if x.Op == token.ADD {
				return append(pieces(x.X, d+1), pieces(x.Y, d+1)...)
			}
		case *ssa.Call:
			if sc := x.Call.StaticCallee(); sc != nil {
				switch sc.String() {
				case "strconv.Itoa":
					return []ssa.Value{x.Call.Args[0]}
				case "strconv.FormatInt":
					if cv, ok := x.Call.Args[0].(*ssa.Convert); ok {
						return []ssa.Value{cv.X}
					}
					return []ssa.Value{x.Call.Args[0]}
				case "fmt.Sprintf":
					format, _ := constString(x.Call.Args[0])
					args := variadicValues(x.Call.Args[1])
					var out []ssa.Value
					rest := format
					ai := 0
					for {
						i := strings.Index(rest, "%")
						if i < 0 || i+1 >= len(rest) || ai >= len(args) {
							break
						}
						if i > 0 {
							out = append(out, ssa.NewConst(constant.MakeString(rest[:i]), types.Typ[types.String]))
						}
						a := args[ai]
						if mi, ok := a.(*ssa.MakeInterface); ok {
							a = mi.X
						}
						out = append(out, a)
						ai++
						rest = rest[i+2:]
					}
					if rest != "" {
						out = append(out, ssa.NewConst(constant.MakeString(rest), types.Typ[types.String]))
					}
					return out
				}
			}
		}
		return []ssa.Value{v}
	}
	// the id an integer value denotes on a path (hit: lookup value, miss: new id)
	resolveID := func(v ssa.Value, reach map[*ssa.BasicBlock]bool, hitPath bool) ssa.Value {
		for i := 0; i < 3; i++ {
			ph, ok := v.(*ssa.Phi)
			if !ok {
				return v
			}
			var live []ssa.Value
			for k, e := range ph.Edges {
				pred := ph.Block().Preds[k]
				if !reach[pred] {
					continue
				}
				// the edge is pruned when pred branches on the flag the other way
				if iff, ok := pred.Instrs[len(pred.Instrs)-1].(*ssa.If); ok && (seenFlag(iff.Cond)) {
					want := 1 // the flag is false on the miss path
					if hitPath {
						want = 0
					}
					if pred.Succs[want] != ph.Block() {
						continue
					}
				}
				live = append(live, e)
			}
			if len(live) != 1 {
				return v
			}
			v = live[0]
		}
		return v
	}
	text := func(ps []ssa.Value) (string, []ssa.Value) {
		// the constant skeleton with \x00 for each value piece, and the value pieces
		sk := ""
		var vals []ssa.Value
		for _, q := range ps {
			if k, ok := constString(q); ok {
				sk += k
			} else {
				sk += "\x00"
				vals = append(vals, q)
			}
		}
		return sk, vals
	}
	for _, b := range cn.Blocks {
		ret, ok := b.Instrs[len(b.Instrs)-1].(*ssa.Return)
		if !ok {
			continue
		}
		r := ret.Results[0]
		if s, ok := constString(r); ok && s == "" {
			continue
		}
		sk, vals := text(pieces(r, 0))
		switch sk {
		case "(\x00)":
			// the id must be the looked-up value and the block must be on the hit branch
			hit := len(vals) == 1 && reachHit[b] && !reachMiss[b] && isExtractOf(resolveID(vals[0], reachHit, true), lookups[0], 0)
			if hit {
				c.ok("C18-R2", "name:backref", p.relFile(ret.Pos()), "'(n)' back-reference", "returned only on the branch where the table lookup succeeded, with the id stored in the table")
			} else {
				c.bad("C18-R2", "name:backref", p.relFile(ret.Pos()), "callgrindName can return a '(n)' back-reference that was not looked up in the table")
			}
		case "(\x00) \x00":
			def := len(vals) == 2 && resolveID(vals[0], reachMiss, false) == upd.Value && vals[1] == ssa.Value(name) && (upd.Block() == b || upd.Block().Dominates(b) || !reachMiss[b] || reachMiss[upd.Block()])
			if def && reachHit[b] && !reachMiss[b] {
				def = false // a definition on the path where the name was already known
			}
			if def {
				c.ok("C18-R2", "name:define", p.relFile(ret.Pos()), "'(n) name' definition", "printed with the id just recorded for that name")
			} else {
				c.bad("C18-R2", "name:define", p.relFile(ret.Pos()), "callgrindName defines '(n) name' with an id or name different from what it recorded")
			}
		default:
			c.bad("C18-R2", "name:format", p.relFile(ret.Pos()), fmt.Sprintf("callgrindName returns unexpected format %q", strings.ReplaceAll(sk, "\x00", "%v")))
		}
	}
	c.Floor("C18-R2", 10)

	// Relative positions: callgrindAddress compresses an address against the previous
	// cost line, so the base handed to it must be advanced on every node: the loop-carried
	// base of printCallgrind's node loop takes, on every back edge, the address of the
	// current node's Info (never its own previous value).
	var basePhi *ssa.Phi
	for _, b := range pc.Blocks {
		for _, ins := range b.Instrs {
			call, ok := ins.(*ssa.Call)
			if !ok || call.Call.StaticCallee() == nil || call.Call.StaticCallee().Name() != "callgrindAddress" {
				continue
			}
			if ph, ok := call.Call.Args[0].(*ssa.Phi); ok {
				basePhi = ph
			}
		}
	}
	if basePhi == nil {
		// the base kept in a field of a printer object: the field is assigned the address of the
		// current node's Info on every iteration of the node loop
		var fld *ssa.FieldAddr
		for _, g := range withHelpers(pc, 2) {
			for _, b := range g.Blocks {
				for _, ins := range b.Instrs {
					call, ok := ins.(*ssa.Call)
					if !ok || call.Call.StaticCallee() == nil || call.Call.StaticCallee().Name() != "callgrindAddress" {
						continue
					}
					if fa := fieldAddrOf(call.Call.Args[0]); fa != nil {
						fld = fa
					}
				}
			}
		}
		if fld == nil {
			c.undecided("C18-R2", "position-base", p.relFile(pc.Pos()), "the base of callgrindAddress is not a loop-carried value of printCallgrind")
		} else {
			T, F := fieldOf(fld.X.Type(), fld.Field)
			n, bad := 0, ""
			for _, b := range pc.Blocks {
				for _, ins := range b.Instrs {
					st, ok := ins.(*ssa.Store)
					if !ok {
						continue
					}
					fa, ok := st.Addr.(*ssa.FieldAddr)
					if !ok {
						continue
					}
					if T2, F2 := fieldOf(fa.X.Type(), fa.Field); T2 != T || F2 != F {
						continue
					}
					hdr := loopHeaderAround(b)
					if hdr == nil {
						continue // initialisation before the loop
					}
					n++
					if ifa, ok := st.Val.(*ssa.FieldAddr); !ok {
						bad = describeValue(st.Val)
					} else if _, IF := fieldOf(ifa.X.Type(), ifa.Field); IF != "Info" {
						bad = describeValue(st.Val)
					}
					if iterationSkips(hdr, b, func(ssa.Value) int { return 0 }) {
						bad = "its previous value on some iterations"
					}
				}
			}
			switch {
			case n == 0:
				c.bad("C18-R2", "position-base", p.relFile(pc.Pos()), "printCallgrind never advances "+T+"."+F+", the base of relative positions, inside its node loop")
			case bad != "":
				c.bad("C18-R2", "position-base", p.relFile(pc.Pos()), "printCallgrind does not advance the base of relative positions on every node (it can keep "+bad+"): from the third cost line of a block on, +n/-n offsets are relative to the wrong line and a reader reconstructs wrong addresses")
			default:
				c.ok("C18-R2", "position-base", p.relFile(pc.Pos()), "relative positions are computed against the previous cost line", T+"."+F+" is set to the current node's Info on every iteration of the node loop")
			}
		}
	} else {
		bad := ""
		var flat func(v ssa.Value, seen map[ssa.Value]bool)
		flat = func(v ssa.Value, seen map[ssa.Value]bool) {
			if seen[v] {
				return
			}
			seen[v] = true
			switch x := v.(type) {
			case *ssa.Phi:
				if x == basePhi {
					bad = "its own previous value"
					return
				}
				for _, e := range x.Edges {
					flat(e, seen)
				}
			case *ssa.FieldAddr:
				if _, F := fieldOf(x.X.Type(), x.Field); F != "Info" {
					bad = describeValue(v)
				}
			default:
				bad = describeValue(v)
			}
		}
		for i, e := range basePhi.Edges {
			if !basePhi.Block().Dominates(basePhi.Block().Preds[i]) {
				continue // entering edge (nil)
			}
			flat(e, map[ssa.Value]bool{})
		}
		if bad == "" {
			c.ok("C18-R2", "position-base", p.relFile(basePhi.Pos()), "relative positions are computed against the previous cost line", "the base is set to the current node's Info on every iteration")
		} else {
			c.bad("C18-R2", "position-base", p.relFile(basePhi.Pos()), "printCallgrind does not advance the base of relative positions on every node (it can keep "+bad+"): from the third cost line of a block on, +n/-n offsets are relative to the wrong line and a reader reconstructs wrong addresses")
		}
	}
}

func variadicValues(v ssa.Value) []ssa.Value {
	sl, ok := v.(*ssa.Slice)
	if !ok {
		return nil
	}
	al, ok := sl.X.(*ssa.Alloc)
	if !ok {
		return nil
	}
	n := 0
	if arr, ok := al.Type().Underlying().(*types.Pointer).Elem().Underlying().(*types.Array); ok {
		n = int(arr.Len())
	}
	out := make([]ssa.Value, n)
	for _, r := range *al.Referrers() {
		ia, ok := r.(*ssa.IndexAddr)
		if !ok {
			continue
		}
		idx, ok := ia.Index.(*ssa.Const)
		if !ok {
			continue
		}
		for _, r2 := range *ia.Referrers() {
			if st, ok := r2.(*ssa.Store); ok && st.Addr == ia && int(safeInt64(idx)) < n {
				v := st.Val
				if mi, ok := v.(*ssa.MakeInterface); ok {
					v = mi.X
				}
				out[safeInt64(idx)] = v
			}
		}
	}
	return out
}

func isExtractOf(v ssa.Value, tuple ssa.Value, idx int) bool {
	ex, ok := v.(*ssa.Extract)
	return ok && ex.Tuple == tuple && ex.Index == idx
}

// onTrueBranchOf: block b is reachable only through the true edge of the `if ok` that
// tests the comma-ok result of lookup.
func onTrueBranchOf(b *ssa.BasicBlock, lookup *ssa.Lookup) bool {
	for _, blk := range b.Parent().Blocks {
		iff, ok := blk.Instrs[len(blk.Instrs)-1].(*ssa.If)
		if !ok || !isExtractOf(iff.Cond, lookup, 1) {
			continue
		}
		t, f := blk.Succs[0], blk.Succs[1]
		return (t == b || t.Dominates(b)) && !(f == b || f.Dominates(b)) && len(t.Preds) == 1
	}
	return false
}

// htmlRules (R3)
func (c *Check) htmlRules() {
	p := c.P
	for _, pk := range p.Pkgs {
		for _, f := range pk.Syntax {
			for _, imp := range f.Imports {
				if strings.Trim(imp.Path.Value, `"`) == "text/template" {
					c.bad("C18-R3", "import:"+pk.Types.Name()+":"+p.relFile(imp.Pos()), p.relFile(imp.Pos()), "package "+pk.PkgPath+" imports text/template: pages rendered with it are not HTML-escaped")
				}
			}
		}
		key := "import:" + strings.TrimPrefix(pk.PkgPath, modPath)
		uses := false
		for _, f := range pk.Syntax {
			for _, imp := range f.Imports {
				if strings.Trim(imp.Path.Value, `"`) == "html/template" {
					uses = true
				}
			}
		}
		o := c.ok("C18-R3", key, "", "package "+pk.PkgPath, map[bool]string{true: "renders with html/template; no text/template import", false: "no template import"}[uses])
		o.Trivial = !uses
	}
	// typed-string conversions
	allowed := map[string]string{
		"html/template.HTML": "dotToSvg", // svg produced by Graphviz from the escaped DOT
		"html/template.JS":   "encoding/json.Marshal",
	}
	n := 0
	for f := range p.AllFns {
		if !fnInModule(f) || f.Blocks == nil {
			continue
		}
		for _, b := range f.Blocks {
			for _, ins := range b.Instrs {
				var val ssa.Value
				var x ssa.Value
				switch cv := ins.(type) {
				case *ssa.Convert:
					val, x = cv, cv.X
				case *ssa.ChangeType:
					val, x = cv, cv.X
				default:
					continue
				}
				nt, ok := val.Type().(*types.Named)
				if !ok || nt.Obj().Pkg() == nil || nt.Obj().Pkg().Path() != "html/template" {
					continue
				}
				tname := "html/template." + nt.Obj().Name()
				n++
				key := "typed:" + fnName(f) + ":" + nt.Obj().Name()
				want, ok := allowed[tname]
				if !ok {
					c.bad("C18-R3", key, p.relFile(ins.Pos()), "conversion to "+tname+" in "+fnName(f)+" bypasses HTML escaping and is not a reviewed producer")
					continue
				}
				if prod := producerOf(x, map[ssa.Value]bool{}); prod == want {
					c.ok("C18-R3", key, p.relFile(ins.Pos()), "conversion to "+tname+" in "+fnName(f), "operand is the result of "+want)
				} else {
					c.bad("C18-R3", key, p.relFile(ins.Pos()), "conversion to "+tname+" in "+fnName(f)+" wraps a value produced by "+prod+", expected "+want)
				}
			}
		}
	}
	if n < 2 {
		c.undecided("C18-R3", "typed:count", "", fmt.Sprintf("only %d typed-string conversions found; the svg and flame-graph hand-offs were expected", n))
	}
	c.Floor("C18-R3", 5)
}

func producerOf(v ssa.Value, seen map[ssa.Value]bool) string {
	if seen[v] {
		return "?"
	}
	seen[v] = true
	switch x := v.(type) {
	case *ssa.Convert:
		return producerOf(x.X, seen)
	case *ssa.ChangeType:
		return producerOf(x.X, seen)
	case *ssa.Extract:
		return producerOf(x.Tuple, seen)
	case *ssa.Call:
		if sc := x.Call.StaticCallee(); sc != nil {
			if fnInModule(sc) {
				return sc.Name()
			}
			return sc.String()
		}
		return "dynamic call"
	case *ssa.Phi:
		out := ""
		for _, e := range x.Edges {
			pr := producerOf(e, seen)
			if out != "" && pr != out {
				return out + "|" + pr
			}
			out = pr
		}
		return out
	}
	return describeValue(v)
}
