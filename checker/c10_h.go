package main

import (
	"fmt"
	"os"
	"sort"

	"golang.org/x/tools/go/ssa"
)

// noHiddenSessionState (R5): a report depends on the profile and the options in force, not on
// which commands or requests ran before.  No function reachable from a report generator, from
// the per-request profile copy or from a web handler writes a package-level variable of the
// module, apart from the reviewed registries that no report reads.
func (c *Check) noHiddenSessionState() {
	p := c.P
	allowed := map[string]string{
		"driver.tempFiles":     "registry of temporary files to delete at exit; never read by report generation",
		"driver.htmlTemplates": "parsed once under sync.Once; the templates are constants of the binary",
	}
	var roots []*ssa.Function
	for _, n := range []string{"generateReport", "generateRawReport", "profileCopier.newCopy"} {
		if f := c.anchorFn("C10-R5", "internal/driver", n); f != nil {
			roots = append(roots, f)
		}
	}
	forAllPkgFuncs(p, "internal/driver", func(f *ssa.Function) {
		if f.Parent() == nil && f.Signature.Recv() != nil && structName(f.Signature.Recv().Type()) == "driver.webInterface" && f.Synthetic == "" {
			forEachFuncAndAnon(f, func(g *ssa.Function) { roots = append(roots, g) })
		}
	})
	if len(roots) < 8 {
		c.undecided("C10-R5", "roots", "", fmt.Sprintf("only %d report-generation roots found", len(roots)))
		return
	}
	parent, order := p.MG().Reach(roots, nil)
	type hit struct {
		name string
		f    *ssa.Function
		ins  ssa.Instruction
	}
	var hits []hit
	for _, f := range order {
		if !fnInModule(f) || f.Blocks == nil {
			continue
		}
		if onlyRunsDuringInit(p, f, 0) {
			continue
		}
		for _, b := range f.Blocks {
			for _, ins := range b.Instrs {
				var g *ssa.Global
				switch x := ins.(type) {
				case *ssa.Store:
					g = globalOf(x.Addr)
				case *ssa.MapUpdate:
					g = globalOf(x.Map)
				case *ssa.Call:
					if bi, ok := x.Call.Value.(*ssa.Builtin); ok && (bi.Name() == "delete" || bi.Name() == "clear") && len(x.Call.Args) > 0 {
						g = globalOf(x.Call.Args[0])
					} else {
						g = syncMutator(x)
					}
				}
				if g == nil || g.Pkg == nil || !inModule(g.Pkg.Pkg.Path()) {
					continue
				}
				hits = append(hits, hit{g.Pkg.Pkg.Name() + "." + g.Name(), f, ins})
			}
		}
	}
	sort.Slice(hits, func(i, j int) bool { return hits[i].ins.Pos() < hits[j].ins.Pos() })
	seen := map[string]bool{}
	for _, h := range hits {
		key := "session-state:" + h.name + "@" + fnName(h.f)
		if seen[key] {
			continue
		}
		seen[key] = true
		if why, ok := allowed[h.name]; ok {
			c.ok("C10-R5", key, p.relFile(h.ins.Pos()), "package-level "+h.name+" is written while a report is generated", "reviewed: "+why)
		} else {
			c.bad("C10-R5", key, p.relFile(h.ins.Pos()), fmt.Sprintf("%s writes the package-level variable %s while a report is generated (%s): what a command or request prints then depends on the commands and requests that ran before it, and concurrent requests share it", fnName(h.f), h.name, callPath(parent, h.f)))
		}
	}
	c.ok("C10-R5", "session-state:scan", "", "no unreviewed package-level state is written on a report-generation path", fmt.Sprintf("%d module functions reachable from %d roots (report generators, per-request copy, web handlers) scanned for stores, map updates and deletes rooted at a package-level variable", len(order), len(roots)))
}

// outputFileTruncated (R6): an output file given with a command receives that command's
// report and nothing else.  The default Writer creates the file or truncates an existing one:
// every os.OpenFile in an Open method of package driver that can open an existing file for
// writing has O_TRUNC (or O_EXCL / O_APPEND is not a report writer's mode) in its flags.
func (c *Check) outputFileTruncated() {
	p := c.P
	n := 0
	forAllPkgFuncs(p, "internal/driver", func(f *ssa.Function) {
		if f.Name() != "Open" || f.Signature.Recv() == nil || f.Signature.Results().Len() != 2 {
			return
		}
		for _, g := range withHelpers(f, 1) {
			for _, b := range g.Blocks {
				for _, ins := range b.Instrs {
					call, ok := ins.(*ssa.Call)
					if !ok || call.Call.StaticCallee() == nil || fnPkgPath(call.Call.StaticCallee()) != "os" {
						continue
					}
					key := "truncate:" + fnName(f)
					switch call.Call.StaticCallee().Name() {
					case "Create":
						n++
						c.ok("C10-R6", key, p.relFile(call.Pos()), fnName(f)+" creates or truncates the output file", "os.Create")
					case "OpenFile":
						n++
						fl, ok := constInt(call.Call.Args[1])
						switch {
						case !ok:
							c.undecided("C10-R6", key, p.relFile(call.Pos()), "flags of os.OpenFile are not constant")
						case fl&int64(os.O_TRUNC) != 0 || fl&int64(os.O_EXCL) != 0:
							c.ok("C10-R6", key, p.relFile(call.Pos()), fnName(f)+" creates or truncates the output file", "os.OpenFile with O_TRUNC or O_EXCL")
						default:
							c.bad("C10-R6", key, p.relFile(call.Pos()), fnName(f)+" opens the output file for writing without truncating it: a shorter report written to a file that an earlier command of the session wrote keeps the tail of the earlier report")
						}
					}
				}
			}
		}
	})
	if n == 0 {
		c.undecided("C10-R6", "truncate", "", "no Open method in package driver creates the output file through package os")
	}
}
