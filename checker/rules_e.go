package main

// Rules added after the fifth round of seeded changes.  Each is called from the check of
// the property it belongs to.

import (
	"fmt"
	"go/token"
	"go/types"
	"regexp"
	"strings"

	"golang.org/x/tools/go/ssa"
)

// ---------------------------------------------------------------- C19: bool shortening

// boolShortening: makeURL shortens a value to its first letter only for options whose Go
// type is bool; the slice v[:1] is dominated by the taken branch of Kind() == reflect.Bool.
// Deciding by the value's text ("true"/"false") would also mangle a string option whose
// value happens to be that word.
func (c *Check) boolShortening() {
	p := c.P
	f := c.anchorFn("C19-R4", "internal/driver", "(*config).makeURL")
	if f == nil {
		return
	}
	n := 0
	var blocks []*ssa.BasicBlock
	for _, g := range withHelpers(f, 2) {
		blocks = append(blocks, g.Blocks...)
	}
	for _, b := range blocks {
		for _, ins := range b.Instrs {
			sl, ok := ins.(*ssa.Slice)
			if !ok || sl.High == nil {
				continue
			}
			if k, ok := constInt(sl.High); !ok || k != 1 {
				continue
			}
			if bt, ok := sl.X.Type().Underlying().(*types.Basic); !ok || bt.Kind() != types.String {
				continue
			}
			n++
			guarded := false
			for d, child := b.Idom(), b; d != nil; child, d = d, d.Idom() {
				iff, ok := d.Instrs[len(d.Instrs)-1].(*ssa.If)
				if !ok || d.Succs[0] != child || len(child.Preds) != 1 {
					continue
				}
				if cmp, ok := iff.Cond.(*ssa.BinOp); ok && cmp.Op == token.EQL {
					for _, side := range []ssa.Value{cmp.X, cmp.Y} {
						if call, ok := side.(*ssa.Call); ok {
							if (call.Call.StaticCallee() != nil && call.Call.StaticCallee().Name() == "Kind") || (call.Call.IsInvoke() && call.Call.Method.Name() == "Kind") {
								guarded = true
							}
						}
					}
				}
			}
			if guarded {
				c.ok("C19-R4", "url:bool-shortening", p.relFile(sl.Pos()), "only bool-typed options are shortened to one letter in URLs", "v[:1] is dominated by the taken branch of a comparison of the field's Kind()")
			} else {
				c.bad("C19-R4", "url:bool-shortening", p.relFile(sl.Pos()), "makeURL shortens a value to its first letter without testing that the option's type is bool: a string option whose value is the word true or false (focus=true) is written as f=t and restored as the expression t")
			}
		}
	}
	if n == 0 {
		c.undecided("C19-R4", "url:bool-shortening", p.relFile(f.Pos()), "the one-letter shortening of bool values was not found in makeURL")
	}
}

// ---------------------------------------------------------------- C14: signal-frame threshold, merge with the last kept mapping

// signalFrameThreshold: a second frame counts as the shared signal handler when nearly all
// samples have it; the bound it is compared with is len(p.Sample) - margin with the margin
// itself derived from len(p.Sample).
func (c *Check) signalFrameThreshold() {
	p := c.P
	f := c.anchorFn("C14-R6", "profile", "cpuProfile")
	if f == nil {
		return
	}
	isLenSamples := func(v ssa.Value) bool {
		lx := lenArg(v)
		// the sample list itself, or a parameter that receives it
		return lx != nil && fieldLoadOf(argOfParam(p, lx, 0), "profile.Profile", "Sample")
	}
	n := 0
	var blocks []*ssa.BasicBlock
	for _, g := range withHelpers(f, 3) {
		blocks = append(blocks, g.Blocks...)
	}
	for _, b := range blocks {
		for _, ins := range b.Instrs {
			cmp, ok := ins.(*ssa.BinOp)
			if !ok || cmp.Op != token.GEQ {
				continue
			}
			// the bound may be computed by the caller and handed in
			sub, ok := argOfParam(p, cmp.Y, 0).(*ssa.BinOp)
			if !ok || sub.Op != token.SUB {
				continue
			}
			n++
			key := "signal-frame:threshold"
			marginOK := false
			if q, ok := sub.Y.(*ssa.BinOp); ok && q.Op == token.QUO && isLenSamples(q.X) {
				marginOK = true
			}
			if isLenSamples(sub.X) && marginOK {
				c.ok("C14-R6", key, p.relFile(cmp.Pos()), "a frame is taken for the signal handler only when nearly all samples share it", "count >= len(p.Sample) - len(p.Sample)/k")
			} else {
				c.bad("C14-R6", key, p.relFile(cmp.Pos()), "the bound for \"shared by nearly all samples\" is not computed from the number of all samples (len(p.Sample) minus a margin of it): with samples of one frame mixed in, a caller shared only by the deeper samples is stripped as if it were the signal handler")
			}
		}
	}
	if n == 0 {
		c.undecided("C14-R6", "signal-frame:threshold", p.relFile(f.Pos()), "the comparison count >= len(samples) - margin was not found in cpuProfile")
	}
}

// mergeWithLastKept: massageMappings merges a range into the last mapping it kept, i.e.
// adjacent() is asked about result[len(result)-1] where result is the list the loop appends
// to and finally assigns to p.Mapping.  Comparing with the previous *input* entry loses the
// third of three adjacent ranges.
func (c *Check) mergeWithLastKept() {
	p := c.P
	f := c.anchorFn("C14-R7", "profile", "(*Profile).massageMappings")
	if f == nil {
		return
	}
	// the list finally assigned to p.Mapping
	var result ssa.Value
	for _, b := range f.Blocks {
		for _, ins := range b.Instrs {
			if st, ok := ins.(*ssa.Store); ok {
				if fa, ok := st.Addr.(*ssa.FieldAddr); ok {
					if T, F := fieldOf(fa.X.Type(), fa.Field); T == "profile.Profile" && F == "Mapping" {
						if result == nil {
							result = st.Val
						}
					}
				}
			}
		}
	}
	n := 0
	for _, b := range f.Blocks {
		for _, ins := range b.Instrs {
			call, ok := ins.(*ssa.Call)
			if !ok || call.Call.StaticCallee() == nil || call.Call.StaticCallee().Name() != "adjacent" {
				continue
			}
			n++
			arr, idx, isIdx := loadIndex(call.Call.Args[0])
			good := false
			if isIdx && isLenMinus(idx) {
				if lx := lenArg(idx.(*ssa.BinOp).X); lx == arr {
					// arr is the result list: a phi of the appended slice that reaches the final store
					if result != nil && (arr == result || phiReaches(result, arr, map[ssa.Value]bool{})) {
						good = true
					}
				}
			}
			// a cursor kept next to the list: a loop-carried value that starts as the list's first
			// element and is re-assigned exactly the element appended, where it is appended
			if ph, isPhi := call.Call.Args[0].(*ssa.Phi); !good && isPhi && result != nil {
				okCursor := true
				nApp := 0
				for i, e := range ph.Edges {
					if e == ssa.Value(ph) {
						continue
					}
					pred := ph.Block().Preds[i]
					if ph.Block().Dominates(pred) {
						// back edge: e must be appended to the result list on that path
						appended := false
						for _, hs := range harvestSites(f) {
							if hs.val == e && (hs.ins.Block() == pred || hs.ins.Block().Dominates(pred)) {
								if app, isCall := hs.ins.(*ssa.Call); isCall && phiReaches(result, app, map[ssa.Value]bool{}) {
									appended = true
								}
							}
						}
						if !appended {
							okCursor = false
						}
						nApp++
					} else {
						// entry: the first element of the list
						arr0, idx0, isIdx0 := loadIndex(e)
						if !isIdx0 || !isConstInt(idx0, 0) || arr0 == nil {
							okCursor = false
						}
					}
				}
				if okCursor && nApp > 0 {
					good = true
				}
			}
			if good {
				c.ok("C14-R7", "merge-last-kept", p.relFile(call.Pos()), "a range is merged into the last mapping kept so far", "adjacent(result[len(result)-1], m) with result the list assigned to p.Mapping")
			} else {
				c.bad("C14-R7", "merge-last-kept", p.relFile(call.Pos()), "massageMappings asks adjacent() about "+describeValue(call.Call.Args[0])+" instead of the last mapping it kept (result[len(result)-1]): of three consecutive adjacent ranges the third is compared with the already dropped second one and is lost")
			}
		}
	}
	if n == 0 {
		c.undecided("C14-R7", "merge-last-kept", p.relFile(f.Pos()), "massageMappings no longer calls adjacent")
	}
}

// phiReaches: target is among the values that flow into v through phis and appends.
func phiReaches(v, target ssa.Value, seen map[ssa.Value]bool) bool {
	if v == target {
		return true
	}
	if seen[v] {
		return false
	}
	seen[v] = true
	switch x := v.(type) {
	case *ssa.Phi:
		for _, e := range x.Edges {
			if phiReaches(e, target, seen) {
				return true
			}
		}
	case *ssa.Call:
		if bi, ok := x.Call.Value.(*ssa.Builtin); ok && bi.Name() == "append" {
			return phiReaches(x.Call.Args[0], target, seen)
		}
	}
	return false
}

// ---------------------------------------------------------------- C02: loop progress

// loopProgress: a loop of the parse path whose exit test depends only on loop-carried
// values must advance one of them on every path through an iteration; a path on which all
// of them keep their value (a `continue` that jumps over `b = b[n+1:]`) never terminates.
func (c *Check) loopProgress(rule string, fns []*ssa.Function) {
	p := c.P
	pure := map[string]bool{"bytes.IndexByte": true, "bytes.Index": true, "strings.Index": true, "strings.IndexByte": true, "bytes.IndexAny": true, "strings.IndexAny": true}
	n := 0
	for _, f := range fns {
		for _, hdr := range f.Blocks {
			isHdr := false
			for _, pred := range hdr.Preds {
				if hdr.Dominates(pred) {
					isHdr = true
				}
			}
			if !isHdr {
				continue
			}
			loop := naturalLoop(hdr)
			// header phis
			var phis []*ssa.Phi
			for _, ins := range hdr.Instrs {
				if ph, ok := ins.(*ssa.Phi); ok {
					phis = append(phis, ph)
				}
			}
			if len(phis) == 0 {
				continue
			}
			// may v keep the value its header phi had at the start of the iteration?
			var unchanged func(v ssa.Value, seen map[ssa.Value]bool) bool
			unchanged = func(v ssa.Value, seen map[ssa.Value]bool) bool {
				if seen[v] {
					return false
				}
				seen[v] = true
				switch x := v.(type) {
				case *ssa.Phi:
					if x.Block() == hdr {
						return true
					}
					if !loop[x.Block()] {
						return true // defined outside: the same on every iteration
					}
					for _, e := range x.Edges {
						if unchanged(e, seen) {
							return true
						}
					}
					return false
				case *ssa.Const:
					return true
				case *ssa.Call:
					if callee := x.Call.StaticCallee(); callee != nil && pure[callee.String()] {
						for _, a := range x.Call.Args {
							if _, isConst := a.(*ssa.Const); isConst {
								continue
							}
							if !unchanged(a, seen) {
								return false
							}
						}
						return true
					}
					if bi, ok := x.Call.Value.(*ssa.Builtin); ok && bi.Name() == "len" {
						return unchanged(x.Call.Args[0], seen)
					}
					return false
				case *ssa.Slice:
					if x.Low == nil && x.High == nil {
						return unchanged(x.X, seen)
					}
					return false
				case *ssa.Convert:
					return unchanged(x.X, seen)
				}
				if ins, ok := v.(ssa.Instruction); ok && !loop[ins.Block()] {
					return true
				}
				return false
			}
			// the exit tests inside the loop: conditions of Ifs with a successor outside the loop
			var condPhis []*ssa.Phi
			onlyPhis := true
			exits := 0
			for b := range loop {
				iff, ok := b.Instrs[len(b.Instrs)-1].(*ssa.If)
				if !ok || (loop[b.Succs[0]] && loop[b.Succs[1]]) {
					continue
				}
				exits++
				if b != hdr {
					continue // returns and breaks in the body do not make the head test true
				}
				var walk func(v ssa.Value, depth int)
				walk = func(v ssa.Value, depth int) {
					if depth > 6 {
						onlyPhis = false
						return
					}
					switch x := v.(type) {
					case *ssa.Phi:
						if x.Block() == hdr {
							condPhis = append(condPhis, x)
							return
						}
						onlyPhis = false
					case *ssa.BinOp:
						walk(x.X, depth+1)
						walk(x.Y, depth+1)
					case *ssa.UnOp:
						walk(x.X, depth+1)
					case *ssa.Const:
					case *ssa.Convert:
						walk(x.X, depth+1)
					case *ssa.Call:
						if bi, ok := x.Call.Value.(*ssa.Builtin); ok && bi.Name() == "len" {
							walk(x.Call.Args[0], depth+1)
							return
						}
						onlyPhis = false
					default:
						if ins, ok := v.(ssa.Instruction); ok && !loop[ins.Block()] {
							return // loop-invariant operand
						}
						onlyPhis = false
					}
				}
				walk(iff.Cond, 0)
			}
			if exits == 0 || !onlyPhis || len(condPhis) == 0 {
				continue
			}
			n++
			// some loop-carried value the test depends on must be advanced on every back edge
			progress := false
			for _, ph := range condPhis {
				adv := true
				for i, e := range ph.Edges {
					if !hdr.Dominates(hdr.Preds[i]) {
						continue
					}
					if unchanged(e, map[ssa.Value]bool{}) {
						adv = false
					}
				}
				if adv {
					progress = true
				}
			}
			pos := p.relFile(hdr.Instrs[len(hdr.Instrs)-1].Pos())
			if pos == "?" {
				pos = p.relFile(f.Pos())
			}
			key := fmt.Sprintf("progress:%s:%s", fnName(f), condPhis[0].Comment)
			if progress {
				c.ok(rule, key, pos, "the loop over "+condPhis[0].Comment+" in "+fnName(f)+" advances on every iteration", "a loop-carried value its exit test depends on is changed on every path back to the loop head")
			} else {
				c.bad(rule, key, pos, "a path through the loop in "+fnName(f)+" returns to the loop head with every value its exit test depends on ("+condPhis[0].Comment+") unchanged: on the input that takes that path the parser never returns")
			}
		}
	}
	c.Extra["loops_with_value_only_exit_test_"+rule] = n
}

// ---------------------------------------------------------------- C03: the key enumerates what the constructor copies

// enumeratedMaps: mapSample copies a sample's label maps by ranging over them; sampleKey
// must enumerate the same maps, or a label the constructor copies does not take part in
// the sample's identity (numeric labels without units when the key walks NumUnit).
func (c *Check) enumeratedMaps(ctor, key *ssa.Function) {
	p := c.P
	ranged := func(f *ssa.Function) map[string]bool {
		out := map[string]bool{}
		fns := withHelpers(f, 3)
		inSet := map[*ssa.Function]bool{}
		for _, g := range fns {
			inSet[g] = true
		}
		// origin: the Sample field a map value is read from, following parameters back to
		// the arguments of the calls made inside the function's own helpers
		var origin func(m ssa.Value, depth int) []string
		origin = func(m ssa.Value, depth int) []string {
			if depth > 3 {
				return nil
			}
			if ld, ok := m.(*ssa.UnOp); ok && ld.Op == token.MUL {
				if fa, ok := ld.X.(*ssa.FieldAddr); ok {
					if T, F := fieldOf(fa.X.Type(), fa.Field); T == "profile.Sample" {
						return []string{F}
					}
				}
			}
			if par, ok := m.(*ssa.Parameter); ok {
				idx := -1
				for i, q := range par.Parent().Params {
					if q == par {
						idx = i
					}
				}
				var fs []string
				for _, g := range fns {
					for _, b := range g.Blocks {
						for _, ins := range b.Instrs {
							if call, ok := ins.(ssa.CallInstruction); ok && call.Common().StaticCallee() == par.Parent() && idx >= 0 && idx < len(call.Common().Args) {
								fs = append(fs, origin(call.Common().Args[idx], depth+1)...)
							}
						}
					}
				}
				return fs
			}
			return nil
		}
		for _, g := range fns {
			for _, b := range g.Blocks {
				for _, ins := range b.Instrs {
					if x, ok := ins.(*ssa.Range); ok {
						for _, F := range origin(x.X, 0) {
							out[F] = true
						}
					}
				}
			}
		}
		return out
	}
	want, got := ranged(ctor), ranged(key)
	if len(want) == 0 {
		c.undecided("C03-R1", "enumerates", p.relFile(ctor.Pos()), "mapSample ranges over no map of the source sample")
		return
	}
	for _, F := range sortedBoolKeys(want) {
		k := "enumerates:Sample." + F
		if got[F] {
			c.ok("C03-R1", k, p.relFile(key.Pos()), "sampleKey enumerates Sample."+F+", which mapSample copies entry by entry", "both range over the same map")
		} else {
			c.bad("C03-R1", k, p.relFile(key.Pos()), "mapSample copies every entry of Sample."+F+" but sampleKey does not enumerate that map (it enumerates "+strings.Join(sortedBoolKeys(got), ", ")+"): an entry present there and absent from the enumerated map is not part of the sample's identity, so samples differing only in it are summed into one")
		}
	}
}

// ---------------------------------------------------------------- C09: TrimTree only on trees

// treeConditionAgreement: TrimTree panics on a graph that is not a forest; the graph is a
// forest exactly when Report.newGraph asked for a call tree.  The set of output formats for
// which newTrimmedGraph takes the TrimTree branch must equal the set for which newGraph sets
// Options.CallTree.
func (c *Check) treeConditionAgreement() {
	p := c.P
	ntg := c.anchorFn("C09-R1", "internal/report", "(*Report).newTrimmedGraph")
	ng := c.anchorFn("C09-R1", "internal/report", "(*Report).newGraph")
	if ntg == nil || ng == nil {
		return
	}
	formats := func(f0 *ssa.Function) (map[int64]bool, bool) {
		out := map[int64]bool{}
		// the block that tests the call_tree option; the format tests that refine it are those
		// reached only through its taken branch (the test may live in a predicate helper)
		var gate *ssa.BasicBlock
		f := f0
		for _, g := range withHelpers(f0, 2) {
			for _, b := range g.Blocks {
				if iff, ok := b.Instrs[len(b.Instrs)-1].(*ssa.If); ok && isFieldLoad(iff.Cond, "report.Options", "CallTree") && (gate == nil || g == f0) {
					gate, f = b, g
				}
			}
		}
		if gate == nil {
			return out, false
		}
		taken := gate.Succs[0]
		for _, b := range f.Blocks {
			if b != taken && !(taken.Dominates(b) && len(taken.Preds) == 1) {
				continue
			}
			for _, ins := range b.Instrs {
				cmp, ok := ins.(*ssa.BinOp)
				if ok && cmp.Op == token.EQL && isFieldLoad(cmp.X, "report.Options", "OutputFormat") {
					if k, ok := constInt(cmp.Y); ok {
						// only the tests of the same && / || expression: stop at the first block that is a join
						out[k] = true
					}
				}
			}
		}
		return out, true
	}
	a, ca := formats(ntg)
	b, cb := formats(ng)
	same := len(a) == len(b) && ca && cb
	for k := range a {
		if !b[k] {
			same = false
		}
	}
	if same && len(a) > 0 {
		c.ok("C09-R1", "panic:TrimTree:agreement", p.relFile(ntg.Pos()), "the formats trimmed as a tree are the formats built as a tree", fmt.Sprintf("newTrimmedGraph and newGraph test call_tree with the same %d output formats", len(a)))
	} else {
		c.bad("C09-R1", "panic:TrimTree:agreement", p.relFile(ntg.Pos()), fmt.Sprintf("newTrimmedGraph decides to trim as a tree for output formats %v but newGraph builds a call tree for %v: for the formats only in the first set an ordinary graph reaches TrimTree, which panics (\"TrimTree only works on trees\") as soon as a node with two callers is trimmed", keysOfInt(a), keysOfInt(b)))
	}
}

func keysOfInt(m map[int64]bool) []int64 {
	var out []int64
	for k := range m {
		out = append(out, k)
	}
	for i := range out {
		for j := i + 1; j < len(out); j++ {
			if out[j] < out[i] {
				out[i], out[j] = out[j], out[i]
			}
		}
	}
	return out
}

// ---------------------------------------------------------------- C18: nodelet identifiers

var nodeletRE = regexp.MustCompile(`N%d_%d`)

// nodeletIDs: in addNodelets a label nodelet is declared, linked to its node and handed to
// numericNodelets (as the source of nested nodelets) under the name N<node>_<k>; every
// occurrence within one iteration must be built from the same two values, or an edge starts
// at a node that was never declared.
func (c *Check) nodeletIDs() {
	p := c.P
	f := c.anchorFn("C18-R1", "internal/graph", "(*builder).addNodelets")
	if f == nil {
		return
	}
	type pair struct{ a, b ssa.Value }
	var pairs []pair
	var first token.Pos
	var declAt ssa.Instruction  // the call that writes the declaration "N<i>_<k> [..."
	var useAt []ssa.Instruction // the other calls that name the nodelet
	for _, b := range f.Blocks {
		for _, ins := range b.Instrs {
			call, ok := ins.(*ssa.Call)
			if !ok || call.Call.StaticCallee() == nil {
				continue
			}
			fi := 0
			switch call.Call.StaticCallee().String() {
			case "fmt.Sprintf":
			case "fmt.Fprintf":
				fi = 1
			default:
				continue
			}
			format, ok := constString(call.Call.Args[fi])
			if !ok || nestingDepth(b) == 0 {
				continue
			}
			args := variadicValues(call.Call.Args[fi+1])
			// map verbs to argument positions
			verbPos := []int{}
			for i := 0; i < len(format); i++ {
				if format[i] == '%' && i+1 < len(format) {
					if format[i+1] == '%' {
						i++
						continue
					}
					verbPos = append(verbPos, i)
				}
			}
			// the identifier put together in two steps and used by name: source := "N%d",
			// nodelet := "%s_%d" (one value, so all its uses agree by construction)
			if format == "%s_%d" && fi == 0 && len(args) == 2 {
				for n := valueUses(call); n > 0; n-- {
					pairs = append(pairs, pair{args[0], args[1]})
					useAt = append(useAt, call)
				}
				if first == token.NoPos {
					first = call.Pos()
				}
				continue
			}
			for _, loc := range nodeletRE.FindAllStringIndex(format, -1) {
				// which verbs are at loc[0]+1 and loc[0]+4
				ia, ib := -1, -1
				for vi, vp := range verbPos {
					if vp == loc[0]+1 {
						ia = vi
					}
					if vp == loc[0]+4 {
						ib = vi
					}
				}
				if ia >= 0 && ib >= 0 && ib < len(args) {
					pairs = append(pairs, pair{args[ia], args[ib]})
					if loc[0] == 0 && strings.HasPrefix(format[loc[1]:], " [") {
						if declAt == nil {
							declAt = call
						}
					} else {
						useAt = append(useAt, call)
					}
					if loc[0] == 0 && loc[1] == len(format) && fi == 0 {
						// the identifier built once and used by name: every further use counts
						for n := valueUses(call); n > 1; n-- {
							pairs = append(pairs, pair{args[ia], args[ib]})
						}
					}
					if first == token.NoPos {
						first = call.Pos()
					}
				}
			}
		}
	}
	if len(pairs) < 3 {
		c.undecided("C18-R1", "nodelet-ids", p.relFile(f.Pos()), fmt.Sprintf("expected the declaration, the edge and the nested-nodelet source of a label nodelet in addNodelets, found %d identifier uses", len(pairs)))
		return
	}
	for _, pr := range pairs[1:] {
		if pr.a != pairs[0].a || pr.b != pairs[0].b {
			c.bad("C18-R1", "nodelet-ids", p.relFile(first), "addNodelets builds the identifier of a label nodelet from different values at different places ("+describeValue(pairs[0].b)+" and "+describeValue(pr.b)+"): the node is declared under one name and an edge (to its nested numeric nodelets) starts at another, undeclared one")
			return
		}
	}
	// the declaration is written whenever the name is used: a use on a path that skipped the
	// declaration (a zero-weight tag whose nested numeric tags are still listed) is an edge
	// from a node that does not exist
	if declAt != nil {
		for _, u := range useAt {
			if u != declAt && !instrDominates(declAt, u) {
				c.bad("C18-R1", "nodelet-declared", p.relFile(u.Pos()), "addNodelets can name a label nodelet ("+p.relFile(u.Pos())+") on a path that did not write its declaration ("+p.relFile(declAt.Pos())+"): the edge to the nested numeric nodelets then starts at an undeclared node")
				return
			}
		}
		c.ok("C18-R1", "nodelet-declared", p.relFile(declAt.Pos()), "every use of a label nodelet's name follows its declaration on every path", fmt.Sprintf("the declaration dominates the %d other uses", len(useAt)))
	}
	c.ok("C18-R1", "nodelet-ids", p.relFile(first), "a label nodelet is declared, linked and referenced under one identifier", fmt.Sprintf("%d uses of N%%d_%%d in the nodelet loop are built from the same two values", len(pairs)))
}

// ---------------------------------------------------------------- C04: divisor unmodified; pseudo frames on every sample

// divisorUnmodified: the mean divisor of the report total is the plain sum of the counts:
// what computeTotal adds to a divisor accumulator is the value returned by the divisor
// function (or 0 when there is none), never a negated or otherwise adjusted value.
func (c *Check) divisorUnmodified() {
	p := c.P
	f := c.anchorFn("C04-R6", "internal/report", "computeTotal")
	if f == nil {
		return
	}
	// the divisor function is the parameter of function type that may be nil-tested
	var calls []*ssa.Call
	for _, b := range f.Blocks {
		for _, ins := range b.Instrs {
			if call, ok := ins.(*ssa.Call); ok && len(f.Params) >= 3 {
				isDiv := call.Call.Value == ssa.Value(f.Params[2])
				// `if meanDiv == nil { meanDiv = func(...) int64 { return 0 } }`: the parameter merged with a default
				if ph, isPhi := call.Call.Value.(*ssa.Phi); isPhi {
					for _, e := range ph.Edges {
						if e == ssa.Value(f.Params[2]) {
							isDiv = true
						}
					}
				}
				if isDiv {
					calls = append(calls, call)
				}
			}
		}
	}
	if len(calls) != 1 {
		c.undecided("C04-R6", "divisor-raw", p.relFile(f.Pos()), fmt.Sprintf("expected one call of the divisor function in computeTotal, found %d", len(calls)))
		return
	}
	d := calls[0]
	// everything the call result flows into through phis; additions must take it as it is
	bad := ""
	seen := map[ssa.Value]bool{}
	var follow func(v ssa.Value)
	follow = func(v ssa.Value) {
		if seen[v] || v.Referrers() == nil {
			return
		}
		seen[v] = true
		for _, r := range *v.Referrers() {
			switch x := r.(type) {
			case *ssa.Phi:
				follow(x)
			case *ssa.UnOp:
				if x.Op == token.SUB {
					bad = p.relFile(x.Pos())
				}
			case *ssa.BinOp:
				if x.Op == token.SUB || x.Op == token.MUL || x.Op == token.QUO {
					if x.X == v || x.Y == v {
						bad = p.relFile(x.Pos())
					}
				}
			}
		}
	}
	follow(d)
	if bad == "" {
		c.ok("C04-R6", "divisor-raw", p.relFile(d.Pos()), "the counts enter the total's divisor as they are", "the divisor function's result is only added, never negated or scaled")
	} else {
		c.bad("C04-R6", "divisor-raw", bad, "computeTotal changes the sign or scale of a sample's count before adding it to the divisor: with the mean option the total is divided by something other than the sum of counts, while every entry still is")
	}
}

// pseudoFramesOnEverySample: with tagroot/tagleaf every sample gets the pseudo frames of
// its label values, whatever its stack looks like; the only way past the re-assignment of
// Sample.Location in addLabelNodes is that no pseudo frame was produced for that sample.
func (c *Check) pseudoFramesOnEverySample() {
	p := c.P
	f := c.anchorFn("C04-R8", "internal/driver", "addLabelNodes")
	if f == nil {
		return
	}
	var st *ssa.Store
	for _, b := range f.Blocks {
		for _, ins := range b.Instrs {
			if s, ok := ins.(*ssa.Store); ok {
				if fa, ok := s.Addr.(*ssa.FieldAddr); ok {
					if T, F := fieldOf(fa.X.Type(), fa.Field); T == "profile.Sample" && F == "Location" {
						st = s
					}
				}
			}
		}
	}
	if st == nil {
		c.undecided("C04-R8", "pseudo-frames", p.relFile(f.Pos()), "addLabelNodes no longer assigns Sample.Location")
		return
	}
	// every branch that lets an iteration skip the store
	var hdr *ssa.BasicBlock
	for d := st.Block(); d != nil && hdr == nil; d = d.Idom() {
		for _, pred := range d.Preds {
			if d.Dominates(pred) && naturalLoop(d)[st.Block()] {
				hdr = d
			}
		}
	}
	if hdr == nil {
		c.undecided("C04-R8", "pseudo-frames", p.relFile(st.Pos()), "the assignment of Sample.Location is not inside the sample loop")
		return
	}
	loop := naturalLoop(hdr)
	bad := ""
	for b := range loop {
		iff, ok := b.Instrs[len(b.Instrs)-1].(*ssa.If)
		if !ok || !b.Dominates(st.Block()) || b == hdr {
			continue
		}
		// a successor from which the header is reachable without the store's block
		skips := false
		for _, sc := range b.Succs {
			// from this successor the assignment can no longer be reached in this iteration
			if sc != st.Block() && loop[sc] && (sc == hdr || !blockReachesAvoid(sc, st.Block(), hdr)) {
				skips = true
			}
		}
		if !skips {
			continue
		}
		// allowed: the test is about the pseudo frames produced (length of the lists from makeLabelLocs)
		okCond := false
		if cmp, ok := iff.Cond.(*ssa.BinOp); ok {
			if mustDepend(cmp.X, func(v ssa.Value) bool {
				ex, ok := v.(*ssa.Extract)
				return ok && ex.Index == 0
			}) {
				okCond = true
			}
		}
		if !okCond {
			bad = p.relFile(iff.Pos())
			if bad == "?" {
				bad = p.relFile(st.Pos())
			}
		}
	}
	if bad == "" {
		c.ok("C04-R8", "pseudo-frames", p.relFile(st.Pos()), "every sample for which tagroot/tagleaf produce pseudo frames receives them", "the only test that lets an iteration skip the re-assignment of Sample.Location is on the number of pseudo frames produced")
	} else {
		c.bad("C04-R8", "pseudo-frames", bad, "addLabelNodes skips a sample for a reason other than \"no pseudo frame produced\" (for instance an empty stack): labelled samples without frames lose their tagroot/tagleaf entry, so that entry's flat and cum no longer equal the sums over samples")
	}
}

// ---------------------------------------------------------------- C10: shared option metadata is read-only

// derivesFromGlobal: v is (part of) the contents of a package-level variable of the module:
// reached from a Global through loads, field and element selection, range copies and phis.
func derivesFromGlobal(v ssa.Value, seen map[ssa.Value]bool, depth int) *ssa.Global {
	if v == nil || seen[v] || depth > 25 {
		return nil
	}
	seen[v] = true
	switch x := v.(type) {
	case *ssa.Global:
		if x.Pkg != nil && inModule(x.Pkg.Pkg.Path()) {
			return x
		}
	case *ssa.UnOp:
		if x.Op == token.MUL {
			if g := derivesFromGlobal(x.X, seen, depth+1); g != nil {
				return g
			}
			// a local copy of an element (range variable spilled to a cell)
			if al, ok := x.X.(*ssa.Alloc); ok {
				whole, _ := allocStores(al)
				for _, w := range whole {
					if g := derivesFromGlobal(w, seen, depth+1); g != nil {
						return g
					}
				}
			}
		}
	case *ssa.FieldAddr:
		if g := derivesFromGlobal(x.X, seen, depth+1); g != nil {
			return g
		}
		if al, ok := x.X.(*ssa.Alloc); ok {
			whole, _ := allocStores(al)
			for _, w := range whole {
				if g := derivesFromGlobal(w, seen, depth+1); g != nil {
					return g
				}
			}
		}
	case *ssa.Field:
		return derivesFromGlobal(x.X, seen, depth+1)
	case *ssa.IndexAddr:
		return derivesFromGlobal(x.X, seen, depth+1)
	case *ssa.Index:
		return derivesFromGlobal(x.X, seen, depth+1)
	case *ssa.Lookup:
		return derivesFromGlobal(x.X, seen, depth+1)
	case *ssa.Slice:
		return derivesFromGlobal(x.X, seen, depth+1)
	case *ssa.Extract:
		if nx, ok := x.Tuple.(*ssa.Next); ok {
			if rg, ok := nx.Iter.(*ssa.Range); ok {
				return derivesFromGlobal(rg.X, seen, depth+1)
			}
		}
		return derivesFromGlobal(x.Tuple, seen, depth+1)
	case *ssa.Phi:
		for _, e := range x.Edges {
			if g := derivesFromGlobal(e, seen, depth+1); g != nil {
				return g
			}
		}
	case *ssa.ChangeType:
		return derivesFromGlobal(x.X, seen, depth+1)
	case *ssa.MakeInterface:
		return derivesFromGlobal(x.X, seen, depth+1)
	}
	return nil
}

// sharedTablesReadOnly: the option and command tables of package driver (configFields,
// configFieldMap, pprofCommands, …) are shared by every command and request of a session.
// Code that runs during a session must not reorder or overwrite slices that belong to them:
// an in-place sort of f.choices by one command changes what the next command prints.
func (c *Check) sharedTablesReadOnly() {
	p := c.P
	mutators := map[string]bool{"sort.Strings": true, "sort.Ints": true, "sort.Float64s": true, "sort.Sort": true, "sort.Stable": true, "sort.Slice": true, "sort.SliceStable": true,
		"slices.Sort": true, "slices.SortFunc": true, "slices.SortStableFunc": true, "slices.Reverse": true}
	var roots []*ssa.Function
	forAllPkgFuncs(p, "internal/driver", func(f *ssa.Function) {
		if f.Parent() != nil {
			return
		}
		if f.Name() == "interactive" || f.Name() == "serveWebInterface" || (f.Signature.Recv() != nil && structName(f.Signature.Recv().Type()) == "driver.webInterface") {
			roots = append(roots, f)
		}
	})
	parent, order := p.MG().Reach(roots, nil)
	n, nbad := 0, 0
	for _, f := range order {
		if !strings.HasSuffix(fnPkgPath(f), "internal/driver") {
			continue
		}
		for _, b := range f.Blocks {
			for _, ins := range b.Instrs {
				var target ssa.Value
				what := ""
				switch x := ins.(type) {
				case *ssa.Call:
					if callee := x.Call.StaticCallee(); callee != nil && mutators[callee.String()] && len(x.Call.Args) > 0 {
						target, what = x.Call.Args[0], callee.String()
					}
				case *ssa.Store:
					if ia, ok := x.Addr.(*ssa.IndexAddr); ok {
						target, what = ia.X, "element store"
					}
				}
				if target == nil {
					continue
				}
				n++
				if g := derivesFromGlobal(target, map[ssa.Value]bool{}, 0); g != nil {
					nbad++
					c.bad("C10-R3", "shared-table:"+fnName(f)+":"+g.Name(), p.relFile(ins.Pos()), fnName(f)+" ("+callPath(parent, f)+") applies "+what+" to a slice that belongs to the package-level table "+g.Pkg.Pkg.Name()+"."+g.Name()+": the table is shared by all commands and requests of the session, so this command changes what later ones see")
				}
			}
		}
	}
	if nbad == 0 {
		c.ok("C10-R3", "shared-table", "", "no command or request reorders or overwrites a slice of the shared option and command tables", fmt.Sprintf("%d in-place sorts and element stores in session code examined; none reaches a package-level variable", n))
	}
}

// ---------------------------------------------------------------- C16: chunk order, skip criterion, shared state

// chunkOrder: across chunk boundaries profiles stay in command-line order: combineProfiles
// receives the accumulated profile first and the new chunk second, and the mapping sources
// in the same order.
func (c *Check) chunkOrder() {
	p := c.P
	f := c.anchorFn("C16-R4", "internal/driver", "chunkedGrab")
	if f == nil {
		return
	}
	for _, b := range f.Blocks {
		for _, ins := range b.Instrs {
			call, ok := ins.(*ssa.Call)
			if !ok || call.Call.StaticCallee() == nil || call.Call.StaticCallee().Name() != "combineProfiles" {
				continue
			}
			okAll := true
			for ai := 0; ai < 2 && ai < len(call.Call.Args); ai++ {
				vals := variadicValues(call.Call.Args[ai])
				if len(vals) != 2 {
					okAll = false
					continue
				}
				_, firstIsAcc := vals[0].(*ssa.Phi)
				_, secondIsChunk := vals[1].(*ssa.Extract)
				if !firstIsAcc || !secondIsChunk {
					okAll = false
				}
			}
			if okAll {
				c.ok("C16-R4", "chunk-order", p.relFile(call.Pos()), "chunks are merged in command-line order", "combineProfiles([accumulated, chunk], [accumulated sources, chunk sources])")
			} else {
				c.bad("C16-R4", "chunk-order", p.relFile(call.Pos()), "chunkedGrab does not hand combineProfiles the accumulated profile first and the new chunk second (for profiles and mapping sources alike): with more than one chunk the merged profile's main binary, mapping and sample order come from a later source instead of the first")
			}
		}
	}
}

// mergedIffNoError: a source takes part in the merge exactly when its fetch returned no
// error: the append of its profile in concurrentGrab's collection loop is dominated by the
// err == nil side of a test of that source's err (a profile that failed validation is
// non-nil and has an error).
func (c *Check) mergedIffNoError() {
	p := c.P
	f := c.anchorFn("C16-R5", "internal/driver", "concurrentGrab")
	if f == nil {
		return
	}
	f = collectionFunction(f)
	n := 0
	for _, hs := range harvestSites(f) {
		{
			call := hs.ins
			b := call.Block()
			// puts the source's profile into the list to merge
			if !isFieldLoad(hs.val, "driver.profileSource", "p") {
				continue
			}
			n++
			guarded := false
			for d, child := b.Idom(), b; d != nil; child, d = d, d.Idom() {
				iff, ok := d.Instrs[len(d.Instrs)-1].(*ssa.If)
				if !ok || len(child.Preds) != 1 {
					continue
				}
				if cmp, ok := iff.Cond.(*ssa.BinOp); ok && (cmp.Op == token.NEQ || cmp.Op == token.EQL) && isNilConst(cmp.Y) && isFieldLoad(cmp.X, "driver.profileSource", "err") {
					if (cmp.Op == token.NEQ && d.Succs[1] == child) || (cmp.Op == token.EQL && d.Succs[0] == child) {
						guarded = true
					}
				}
			}
			if guarded {
				c.ok("C16-R5", "merged-iff-no-error", p.relFile(call.Pos()), "a source's profile is merged only when its err is nil", "the append is dominated by the err == nil side of the test of that source's err")
			} else {
				c.bad("C16-R5", "merged-iff-no-error", p.relFile(call.Pos()), "concurrentGrab merges a source's profile without having established that its err is nil: a profile that was fetched but failed validation (non-nil profile, non-nil error) is merged in and no error is printed for it")
			}
		}
	}
	if n == 0 {
		c.undecided("C16-R5", "merged-iff-no-error", p.relFile(f.Pos()), "the append of a source's profile was not found in concurrentGrab")
		return
	}
	// every source is looked at: the collecting loop is left only when the sources are
	// exhausted (a failed source is reported and skipped, it does not end the collection)
	for _, hs := range harvestSites(f) {
		if !isFieldLoad(hs.val, "driver.profileSource", "p") {
			continue
		}
		hdr := loopHeaderAround(hs.ins.Block())
		if hdr == nil {
			c.undecided("C16-R5", "collect-visits-all", p.relFile(hs.ins.Pos()), "the append of a source's profile is not inside a loop")
			continue
		}
		loop := naturalLoop(hdr)
		var exit *ssa.BasicBlock
		for blk := range loop {
			if blk == hdr {
				continue
			}
			for _, sc := range blk.Succs {
				if !loop[sc] && exit == nil {
					if _, isPanic := sc.Instrs[len(sc.Instrs)-1].(*ssa.Panic); !isPanic {
						exit = blk
					}
				}
			}
		}
		if exit != nil {
			pos := hs.ins.Pos()
			for _, ins := range exit.Instrs {
				if ins.Pos() != token.NoPos {
					pos = ins.Pos()
				}
			}
			c.bad("C16-R5", "collect-visits-all", p.relFile(pos), "the loop that collects the fetched profiles can be left before the last source was looked at (a break or return in its body): every source listed after the first failed one is fetched and then silently left out of the merge")
		} else {
			c.ok("C16-R5", "collect-visits-all", p.relFile(hs.ins.Pos()), "the collecting loop looks at every source", "the loop is left only through its header (sources exhausted)")
		}
	}
}

// fetchSharesNothing: what a fetch goroutine does on behalf of one source (grabProfile and
// everything it calls in package driver) does not write the command-line description shared
// by all goroutines (driver.source), directly or through a sync.Map/sync.Pool inside it.
func (c *Check) fetchSharesNothing(rule string) {
	p := c.P
	gp := c.anchorFn(rule, "internal/driver", "grabProfile")
	if gp == nil {
		return
	}
	parent, order := p.MG().Reach([]*ssa.Function{gp}, nil)
	bad := ""
	n := 0
	for _, f := range order {
		if !strings.HasSuffix(fnPkgPath(f), "internal/driver") {
			continue
		}
		n++
		for _, b := range f.Blocks {
			for _, ins := range b.Instrs {
				var addr ssa.Value
				switch x := ins.(type) {
				case *ssa.Store:
					addr = x.Addr
				case *ssa.Call:
					if callee := x.Call.StaticCallee(); callee != nil && len(x.Call.Args) > 0 {
						switch callee.String() {
						case "(*sync.Map).Store", "(*sync.Map).LoadOrStore", "(*sync.Map).Delete", "(*sync.Map).Swap", "(*sync.Map).CompareAndSwap", "(*sync.Map).LoadAndDelete":
							addr = x.Call.Args[0]
						}
					}
				case *ssa.MapUpdate:
					addr = x.Map
				}
				for a := addr; a != nil; {
					switch y := a.(type) {
					case *ssa.FieldAddr:
						if T, F := fieldOf(y.X.Type(), y.Field); T == "driver.source" {
							bad = fmt.Sprintf("%s writes source.%s at %s (%s)", fnName(f), F, p.relFile(ins.Pos()), callPath(parent, f))
						}
						a = y.X
					case *ssa.IndexAddr:
						a = y.X
					case *ssa.UnOp:
						a = y.X
					default:
						a = nil
					}
				}
			}
		}
	}
	if bad == "" {
		c.ok(rule, "fetch-shares-nothing", p.relFile(gp.Pos()), "the per-source work of a fetch goroutine never writes the shared command-line description", fmt.Sprintf("%d functions of package driver reachable from grabProfile: no store, map update or sync.Map write into driver.source", n))
	} else {
		c.bad(rule, "fetch-shares-nothing", p.relFile(gp.Pos()), "concurrently running fetches share mutable state: "+bad+"; which goroutine writes first decides what the others read, so the result depends on completion order")
	}
}

// ---------------------------------------------------------------- C13: nm lookup

// nmLookupPure: the nm table stores runtime addresses (link address + base), so the
// addr2line path hands the nm fallback the runtime address unchanged; and the lookup is a
// pure function of table and address (no field of the table object is written by it).
func (c *Check) nmLookupPure() {
	p := c.P
	if f := c.anchorFn("C13-R3", "internal/binutils", "(*addr2Liner).addrInfo"); f != nil {
		n := 0
		for _, b := range f.Blocks {
			for _, ins := range b.Instrs {
				call, ok := ins.(*ssa.Call)
				if !ok || call.Call.StaticCallee() == nil || fnName(call.Call.StaticCallee()) != "(*binutils.addr2LinerNM).addrInfo" {
					continue
				}
				n++
				if pr, ok := call.Call.Args[1].(*ssa.Parameter); ok && pr == f.Params[1] {
					c.ok("C13-R3", "nm:fallback-address", p.relFile(call.Pos()), "the nm fallback is asked about the runtime address", "the nm table was built with address+base, the lookup receives addrInfo's own argument")
				} else {
					c.bad("C13-R3", "nm:fallback-address", p.relFile(call.Pos()), "(*addr2Liner).addrInfo hands the nm fallback "+describeValue(call.Call.Args[1])+" instead of the runtime address it received: the nm table holds address+base, so the base is subtracted twice and the function name is repaired with the symbol `base` bytes lower (or not at all)")
				}
			}
		}
		if n == 0 {
			c.undecided("C13-R3", "nm:fallback-address", p.relFile(f.Pos()), "(*addr2Liner).addrInfo no longer consults the nm table")
		}
	}
	if f := c.anchorFn("C13-R5", "internal/binutils", "(*addr2LinerNM).addrInfo"); f != nil {
		bad := ""
		for _, b := range f.Blocks {
			for _, ins := range b.Instrs {
				st, ok := ins.(*ssa.Store)
				if !ok {
					continue
				}
				for a := st.Addr; a != nil; {
					switch y := a.(type) {
					case *ssa.FieldAddr:
						if y.X == ssa.Value(f.Params[0]) {
							_, F := fieldOf(y.X.Type(), y.Field)
							bad = "field " + F + " at " + p.relFile(st.Pos())
						}
						a = y.X
					case *ssa.IndexAddr:
						a = y.X
					case *ssa.UnOp:
						a = y.X
					default:
						a = nil
					}
				}
			}
		}
		if bad == "" {
			c.ok("C13-R5", "nm:pure", p.relFile(f.Pos()), "the nm lookup does not change the table object", "no store through the receiver in (*addr2LinerNM).addrInfo")
		} else {
			c.bad("C13-R5", "nm:pure", p.relFile(f.Pos()), "the nm symbol lookup writes its own receiver ("+bad+"): the answer for an address then depends on which addresses were looked up before (with overlapping symbols a cached hit is not the symbol with the greatest start), and concurrent lookups race")
		}
	}
}

// ---------------------------------------------------------------- C07: -normalize honoured whatever else is set

// normalizeUnconditional: when -normalize is given and there is a base, Normalize runs on
// every path to combineProfiles, independently of -diff_base.
func (c *Check) normalizeUnconditional() {
	p := c.P
	f, _, _ := c.wiringFunction("C07-R1")
	if f == nil {
		return
	}
	var norm, cmb *ssa.Call
	for _, b := range f.Blocks {
		for _, ins := range b.Instrs {
			if call, ok := ins.(*ssa.Call); ok && call.Call.StaticCallee() != nil {
				switch call.Call.StaticCallee().Name() {
				case "Normalize":
					norm = call
				case "combineProfiles":
					cmb = call
				}
			}
		}
	}
	if norm == nil || cmb == nil {
		return // reported by baseWiring
	}
	assume := func(cond ssa.Value) int {
		if fieldFlag(p, cond, "driver.source", "Normalize", 0) {
			return 1
		}
		if u, ok := cond.(*ssa.UnOp); ok && u.Op == token.NOT && fieldFlag(p, u.X, "driver.source", "Normalize", 0) {
			return -1
		}
		return 0
	}
	// can combineProfiles be reached from the entry without the Normalize block, when s.Normalize holds?
	avoid := false
	seen := map[*ssa.BasicBlock]bool{}
	var walk func(b *ssa.BasicBlock)
	walk = func(b *ssa.BasicBlock) {
		if avoid || seen[b] || b == norm.Block() {
			return
		}
		seen[b] = true
		if b == cmb.Block() {
			avoid = true
			return
		}
		succs := b.Succs
		if iff, ok := b.Instrs[len(b.Instrs)-1].(*ssa.If); ok {
			switch assume(iff.Cond) {
			case 1:
				succs = b.Succs[:1]
			case -1:
				succs = b.Succs[1:]
			}
		}
		for _, sc := range succs {
			walk(sc)
		}
	}
	walk(f.Blocks[0])
	if avoid {
		c.bad("C07-R1", "normalize:always", p.relFile(norm.Pos()), "with -normalize set, a path reaches combineProfiles without normalising the source (the call depends on something besides s.Normalize, for instance on -diff_base not being given): on that path the unscaled source is compared with the base")
	} else {
		c.ok("C07-R1", "normalize:always", p.relFile(norm.Pos()), "-normalize is honoured whatever the other base options are", "assuming s.Normalize, combineProfiles is unreachable without passing the Normalize call")
	}
}

// ---------------------------------------------------------------- C18: edges only between declared nodes

// dotEdgesDeclared: ComposeDot numbers the nodes of the graph it was given and looks the
// endpoints of every edge up in that numbering.  A node that was dropped from the graph
// (values that cancel in a diff, drop_negative) can still be the destination of an edge of a
// kept node; such an edge must be skipped, or its endpoint id is 0 - a node that is never
// declared.  Every edge that reaches addEdge must have passed a membership test of its
// destination in the id map.
func (c *Check) dotEdgesDeclared() {
	p := c.P
	f := c.anchorFn("C18-R1", "internal/graph", "ComposeDot")
	if f == nil {
		return
	}
	// the id map: the map[*Node]int whose lookups feed addEdge
	var idMap ssa.Value
	var addEdge *ssa.Call
	for _, b := range f.Blocks {
		for _, ins := range b.Instrs {
			if call, ok := ins.(*ssa.Call); ok && call.Call.StaticCallee() != nil && call.Call.StaticCallee().Name() == "addEdge" {
				addEdge = call
				for _, a := range call.Call.Args {
					// the id looked up directly, or the id field of a per-node record looked up
					if fld, ok := a.(*ssa.Field); ok {
						a = fld.X
					}
					if lk, ok := a.(*ssa.Lookup); ok {
						if mt, ok := lk.X.Type().Underlying().(*types.Map); ok && structName(mt.Key()) == "graph.Node" {
							switch et := mt.Elem().Underlying().(type) {
							case *types.Basic:
								if et.Kind() == types.Int {
									idMap = lk.X
								}
							case *types.Struct:
								idMap = lk.X
							}
						}
					}
				}
			}
		}
	}
	if addEdge == nil || idMap == nil {
		c.undecided("C18-R1", "edges-declared", p.relFile(f.Pos()), "ComposeDot no longer numbers edge endpoints through a node-id map")
		return
	}
	// a comma-ok lookup (or comparison of a lookup with 0) of an edge's Dest in the id map, anywhere
	// on the way of the edges from the nodes' Out maps to addEdge
	tested := false
	// the id map itself, or the parameter of a helper of ComposeDot that receives it
	isIDMap := func(x ssa.Value) bool {
		if x == idMap {
			return true
		}
		par, ok := x.(*ssa.Parameter)
		if !ok {
			return false
		}
		for i, q := range par.Parent().Params {
			if q != par {
				continue
			}
			for _, b := range f.Blocks {
				for _, ins := range b.Instrs {
					if call, ok := ins.(ssa.CallInstruction); ok && call.Common().StaticCallee() == par.Parent() && i < len(call.Common().Args) && call.Common().Args[i] == idMap {
						return true
					}
				}
			}
		}
		return false
	}
	for _, b := range helperBlocks(f, 2) {
		for _, ins := range b.Instrs {
			lk, ok := ins.(*ssa.Lookup)
			if !ok || !isIDMap(lk.X) {
				continue
			}
			if !isFieldLoad(lk.Index, "graph.Edge", "Dest") {
				continue
			}
			if lk.CommaOk {
				tested = true
			} else if lk.Referrers() != nil {
				for _, r := range *lk.Referrers() {
					if cmp, ok := r.(*ssa.BinOp); ok && (cmp.Op == token.EQL || cmp.Op == token.NEQ) {
						tested = true
					}
				}
			}
		}
	}
	if tested {
		c.ok("C18-R1", "edges-declared", p.relFile(addEdge.Pos()), "an edge is emitted only when its destination is a node of the graph being written", "the destination's membership in the node-id map is tested before the edge is collected or written")
	} else {
		c.bad("C18-R1", "edges-declared", p.relFile(addEdge.Pos()), "ComposeDot looks up the id of an edge's destination without testing that the destination is one of the graph's nodes: a node dropped from the graph (its values cancel in a diff, or drop_negative) is still the destination of edges of kept nodes, and those edges are written as `Nk -> N0`, a node that is never declared")
	}
}

// valueUses: how many operands the value v is (conversions to interface counted by their own uses).
func valueUses(v ssa.Value) int {
	n := 0
	if v.Referrers() == nil {
		return 0
	}
	for _, r := range *v.Referrers() {
		switch x := r.(type) {
		case *ssa.DebugRef:
		case *ssa.MakeInterface:
			n += valueUses(x)
		default:
			n++
		}
	}
	return n
}
