package main

import (
	"fmt"
	"go/ast"
	"go/token"
	"go/types"
	"reflect"
	"sort"
	"strconv"
	"strings"

	"golang.org/x/tools/go/ssa"
)

func init() { register("C19", true, runC19) }

func runC19(c *Check) {
	c.Explanation = "Decides the table, atomic-replace and serialisation clauses of C19 for every history, crash point and interleaving: the option tables agree (URL parameters name existing options, are pairwise distinct, and every option that is saved in settings.json also has a URL parameter, so a menu entry restores it; resetTransient covers exactly the options that are not saved) (R1); the settings file is never opened for in-place writing: the only write path is a temporary file created in the same directory, fully written and closed, then renamed over the final name (R2); the read-modify-write of editSettings runs entirely under one package-level mutex (R3); every loaded configuration gets its transient fields reset, applyURL ignores empty values and makeURL elides values equal to the computed default (R4). Also: floats are written in their exact 64-bit form (R5); the edit function of editSettings uses only the settings read under the lock (R6). Round-I additions: a named configuration is saved from a copy of the configuration in force plus the request. Not decided: fsync-level durability, races between different pprof processes, JSON fidelity of individual values."
	c.configTables()
	c.settingsWrites()
	c.settingsLock()
	c.settingsMisc()
	c.boolShortening()
	c.c19H()
	c.savedConfigFromCurrent()
}

// ---- R1

type cfgField struct {
	goName, jsonName string
}

func (c *Check) configFields() []cfgField {
	pk := c.P.Pkg("internal/driver")
	if pk == nil {
		return nil
	}
	obj := pk.Types.Scope().Lookup("config")
	if obj == nil {
		return nil
	}
	st, ok := obj.Type().Underlying().(*types.Struct)
	if !ok {
		return nil
	}
	var out []cfgField
	for i := 0; i < st.NumFields(); i++ {
		tag := reflect.StructTag(st.Tag(i)).Get("json")
		out = append(out, cfgField{st.Field(i).Name(), strings.Split(tag, ",")[0]})
	}
	return out
}

// stringMapLiteral extracts name := map[string]string{…} / map[string][]string{…} from fn.
func stringMapLiterals(c *Check, fd *ast.FuncDecl) map[string]map[string][]string {
	out := map[string]map[string][]string{}
	ast.Inspect(fd.Body, func(n ast.Node) bool {
		as, ok := n.(*ast.AssignStmt)
		if !ok || len(as.Lhs) != 1 || len(as.Rhs) != 1 {
			return true
		}
		id, ok := as.Lhs[0].(*ast.Ident)
		if !ok {
			return true
		}
		cl, ok := as.Rhs[0].(*ast.CompositeLit)
		if !ok {
			return true
		}
		if _, isMap := cl.Type.(*ast.MapType); !isMap {
			return true
		}
		m := map[string][]string{}
		for _, el := range cl.Elts {
			kv, ok := el.(*ast.KeyValueExpr)
			if !ok {
				continue
			}
			k, ok := litString(kv.Key)
			if !ok {
				continue
			}
			if v, ok := litString(kv.Value); ok {
				m[k] = append(m[k], v)
			} else if vl, ok := kv.Value.(*ast.CompositeLit); ok {
				for _, e := range vl.Elts {
					if s, ok := litString(e); ok {
						m[k] = append(m[k], s)
					}
				}
			}
			if _, dup := m[k]; !dup {
				m[k] = nil
			}
		}
		out[id.Name] = m
		return true
	})
	return out
}

func litString(e ast.Expr) (string, bool) {
	bl, ok := e.(*ast.BasicLit)
	if !ok || bl.Kind != token.STRING {
		return "", false
	}
	s, err := strconv.Unquote(bl.Value)
	return s, err == nil
}

func (c *Check) configTables() {
	p := c.P
	fields := c.configFields()
	if len(fields) < 20 {
		c.undecided("C19-R1", "anchor:config", "", "driver.config struct not found")
		return
	}
	pk := p.Pkg("internal/driver")
	var initFn *ast.FuncDecl
	for _, f := range pk.Syntax {
		for _, d := range f.Decls {
			if fd, ok := d.(*ast.FuncDecl); ok && fd.Name.Name == "init" && fd.Recv == nil && strings.HasSuffix(p.Fset.Position(fd.Pos()).Filename, "config.go") {
				initFn = fd
			}
		}
	}
	if initFn == nil {
		c.undecided("C19-R1", "anchor:init", "", "config.go init not found")
		return
	}
	tabs := stringMapLiterals(c, initFn)
	notSaved, urlparam, choices := tabs["notSaved"], tabs["urlparam"], tabs["choices"]
	if notSaved == nil || urlparam == nil || choices == nil {
		c.undecided("C19-R1", "anchor:tables", p.relFile(initFn.Pos()), "notSaved/urlparam/choices tables not found in init")
		return
	}
	names := map[string]bool{}      // every configurable option name
	savedNames := map[string]bool{} // options stored in settings.json
	transient := map[string]bool{}  // Go field names with json:"-"
	for _, f := range fields {
		switch {
		case f.jsonName == "-":
			transient[f.goName] = true
			if v := notSaved[f.goName]; len(v) == 1 {
				names[v[0]] = true
			}
		case f.jsonName != "":
			names[f.jsonName] = true
			savedNames[f.jsonName] = true
		}
	}
	pos := p.relFile(initFn.Pos())
	for _, k := range sortedMapKeys(urlparam) {
		if names[k] {
			c.ok("C19-R1", "urlparam:"+k, pos, "URL parameter entry for option "+k, "names an existing option; parameter "+strings.Join(urlparam[k], ","))
		} else {
			c.bad("C19-R1", "urlparam:"+k, pos, "urlparam table has an entry for "+k+", which is not an option name")
		}
	}
	seen := map[string]string{}
	for _, k := range sortedMapKeys(urlparam) {
		for _, v := range urlparam[k] {
			if other, dup := seen[v]; dup {
				c.bad("C19-R1", "urlparam-distinct:"+v, pos, fmt.Sprintf("options %s and %s share URL parameter %q: one overwrites the other when a configuration is restored", other, k, v))
			} else {
				seen[v] = k
			}
		}
		if len(urlparam[k]) != 1 {
			c.bad("C19-R1", "urlparam-dup:"+k, pos, "option "+k+" appears more than once in the urlparam table")
		}
	}
	c.ok("C19-R1", "urlparam-distinct", pos, "URL parameter names are pairwise distinct", fmt.Sprintf("%d parameters", len(seen)))
	for _, k := range sortedBoolKeys(savedNames) {
		if _, ok := urlparam[k]; ok {
			c.ok("C19-R1", "saved-has-url:"+k, pos, "saved option "+k+" can be restored from a menu URL", "has URL parameter "+urlparam[k][0])
		} else {
			c.bad("C19-R1", "saved-has-url:"+k, pos, "option "+k+" is saved in settings.json but has no URL parameter: selecting the saved configuration from the menu silently drops it")
		}
	}
	for _, k := range sortedMapKeys(notSaved) {
		if transient[k] {
			c.ok("C19-R1", "notsaved:"+k, pos, "notSaved entry "+k, "is a config field tagged json:\"-\"")
		} else {
			c.bad("C19-R1", "notsaved:"+k, pos, "notSaved lists "+k+", which is not a config field with json:\"-\"")
		}
	}
	for _, k := range sortedMapKeys(choices) {
		if names[k] {
			c.ok("C19-R1", "choices:"+k, pos, "choices entry "+k, "names an existing option")
		} else {
			c.bad("C19-R1", "choices:"+k, pos, "choices table has an entry for "+k+", which is not an option name")
		}
	}
	// resetTransient assigns exactly the transient fields
	rt := c.anchorFn("C19-R1", "internal/driver", "(*config).resetTransient")
	if rt != nil {
		assigned := map[string]bool{}
		// in resetTransient itself, or in a helper it hands its receiver to
		recvOf := map[*ssa.Function]ssa.Value{rt: rt.Params[0]}
		for _, b := range rt.Blocks {
			for _, ins := range b.Instrs {
				if h := helperCallee(rt, ins); h != nil {
					for i, a := range ins.(ssa.CallInstruction).Common().Args {
						if a == ssa.Value(rt.Params[0]) && i < len(h.Params) {
							recvOf[h] = h.Params[i]
						}
					}
				}
			}
		}
		for g, recv := range recvOf {
			for _, b := range g.Blocks {
				for _, ins := range b.Instrs {
					if st, ok := ins.(*ssa.Store); ok {
						if fa, ok := st.Addr.(*ssa.FieldAddr); ok && fa.X == recv {
							_, F := fieldOf(fa.X.Type(), fa.Field)
							assigned[F] = true
						}
					}
				}
			}
		}
		for _, k := range sortedBoolKeys(transient) {
			if assigned[k] {
				c.ok("C19-R1", "transient:"+k, p.relFile(rt.Pos()), "transient option "+k+" is re-initialised when a saved configuration is loaded", "assigned in resetTransient")
			} else {
				c.bad("C19-R1", "transient:"+k, p.relFile(rt.Pos()), "config."+k+" is not saved (json:\"-\") but resetTransient does not restore it: a loaded configuration would carry its zero value")
			}
		}
		for _, k := range sortedBoolKeys(assigned) {
			if !transient[k] {
				c.bad("C19-R1", "transient-extra:"+k, p.relFile(rt.Pos()), "resetTransient overwrites config."+k+", which is a saved option: the saved value is lost on load")
			}
		}
	}
	c.Floor("C19-R1", 60)
}

func sortedMapKeys(m map[string][]string) []string {
	var out []string
	for k := range m {
		out = append(out, k)
	}
	sort.Strings(out)
	return out
}

func sortedBoolKeys(m map[string]bool) []string {
	var out []string
	for k := range m {
		out = append(out, k)
	}
	sort.Strings(out)
	return out
}

// ---- R2: atomic replace

var fileWriteAPIs = map[string]int{ // function → index of the path argument
	"os.WriteFile": 0, "os.Create": 0, "os.OpenFile": 0, "io/ioutil.WriteFile": 0, "os.Truncate": 0,
}

func (c *Check) settingsWrites() {
	p := c.P
	// functions declared in settings.go, plus everything else in the package that touches a settings path
	var fns []*ssa.Function
	forAllPkgFuncs(p, "internal/driver", func(f *ssa.Function) {
		if strings.HasSuffix(p.Fset.Position(f.Pos()).Filename, "settings.go") {
			fns = append(fns, f)
		}
	})
	if len(fns) < 5 {
		c.undecided("C19-R2", "anchor:settings.go", "", "functions of settings.go not found")
		return
	}
	nWrites, nRename := 0, 0
	for _, f := range fns {
		for _, b := range f.Blocks {
			for _, ins := range b.Instrs {
				call, ok := ins.(ssa.CallInstruction)
				if !ok {
					continue
				}
				sc := call.Common().StaticCallee()
				if sc == nil {
					continue
				}
				name := sc.String()
				if _, isWrite := fileWriteAPIs[name]; isWrite {
					nWrites++
					c.bad("C19-R2", "inplace:"+fnName(f)+":"+name, p.relFile(call.Pos()), fmt.Sprintf("%s calls %s: the settings file is written in place, so a crash or a failed write leaves a truncated or partial file, and a concurrent reader can observe it", fnName(f), name))
				}
				if name == "os.Rename" {
					nRename++
					c.checkRename(f, call)
				}
			}
		}
	}
	ws := c.anchorFn("C19-R2", "internal/driver", "writeSettings")
	if ws != nil && nRename == 0 && nWrites == 0 {
		c.undecided("C19-R2", "write-path", p.relFile(ws.Pos()), "writeSettings neither writes in place nor renames a temporary file: write path not recognised")
	}
	if nWrites == 0 {
		c.ok("C19-R2", "inplace:none", "", "no truncating or in-place write API is used in settings.go", "os.WriteFile, os.Create, os.OpenFile and os.Truncate do not occur")
	}
}

// checkRename: os.Rename(tmp.Name(), fname) where tmp = os.CreateTemp(filepath.Dir(fname), …),
// tmp is written, its errors are checked, and it is closed before the rename.
func (c *Check) checkRename(f *ssa.Function, call ssa.CallInstruction) {
	p := c.P
	key := "rename:" + fnName(f)
	args := call.Common().Args
	dst := args[1]
	if _, isParam := dst.(*ssa.Parameter); !isParam {
		c.bad("C19-R2", key, p.relFile(call.Pos()), "os.Rename destination is not the settings file name parameter")
		return
	}
	// source: (*os.File).Name() of a CreateTemp result
	nameCall, ok := args[0].(*ssa.Call)
	if !ok || nameCall.Call.StaticCallee() == nil || nameCall.Call.StaticCallee().String() != "(*os.File).Name" {
		c.bad("C19-R2", key, p.relFile(call.Pos()), "os.Rename source is not the name of a temporary file")
		return
	}
	tmp := nameCall.Call.Args[0]
	ex, ok := tmp.(*ssa.Extract)
	var ct *ssa.Call
	if ok {
		ct, _ = ex.Tuple.(*ssa.Call)
	}
	if ct == nil || ct.Call.StaticCallee() == nil || ct.Call.StaticCallee().String() != "os.CreateTemp" {
		c.bad("C19-R2", key, p.relFile(call.Pos()), "the renamed file was not created by os.CreateTemp")
		return
	}
	// same directory
	sameDir := false
	if dc, ok := ct.Call.Args[0].(*ssa.Call); ok && dc.Call.StaticCallee() != nil && dc.Call.StaticCallee().String() == "path/filepath.Dir" && dc.Call.Args[0] == dst {
		sameDir = true
	}
	// the directory may be handed in by the caller together with the file name: then every
	// call site must pass filepath.Dir(<the file name argument>)
	if dp, ok := ct.Call.Args[0].(*ssa.Parameter); ok && !sameDir {
		if fp, ok := dst.(*ssa.Parameter); ok {
			di, fi := -1, -1
			for i, q := range f.Params {
				if q == dp {
					di = i
				}
				if q == fp {
					fi = i
				}
			}
			sites, good := 0, 0
			for g := range p.AllFns {
				if !fnInModule(g) || g.Blocks == nil {
					continue
				}
				for _, b := range g.Blocks {
					for _, ins := range b.Instrs {
						cl, ok := ins.(ssa.CallInstruction)
						if !ok || cl.Common().StaticCallee() != f || di < 0 || fi < 0 {
							continue
						}
						sites++
						if dc, ok := cl.Common().Args[di].(*ssa.Call); ok && dc.Call.StaticCallee() != nil && dc.Call.StaticCallee().String() == "path/filepath.Dir" && dc.Call.Args[0] == cl.Common().Args[fi] {
							good++
						}
					}
				}
			}
			sameDir = sites > 0 && good == sites
		}
	}
	// write + close dominate the rename
	wrote, closed := false, false
	for _, r := range *tmp.Referrers() {
		ci, ok := r.(*ssa.Call)
		if !ok || ci.Call.StaticCallee() == nil {
			continue
		}
		switch ci.Call.StaticCallee().String() {
		case "(*os.File).Write", "(*os.File).WriteString":
			if instrDominates(ci, call.(ssa.Instruction)) {
				wrote = true
			}
		case "(*os.File).Close":
			if instrDominates(ci, call.(ssa.Instruction)) {
				closed = true
			}
		}
	}
	// the file may be filled and closed by a helper that receives it: the helper call then
	// stands for the write and the close when, inside it, a write on the file precedes every
	// return and every return follows a close
	var fillers []*ssa.Call
	for _, r := range *tmp.Referrers() {
		ci, ok := r.(*ssa.Call)
		if !ok || ci.Call.StaticCallee() == nil || !fnInModule(ci.Call.StaticCallee()) || len(ci.Call.StaticCallee().Blocks) == 0 {
			continue
		}
		h := ci.Call.StaticCallee()
		for i, a := range ci.Call.Args {
			if a != tmp || i >= len(h.Params) {
				continue
			}
			hw, hc := helperWritesAndCloses(h, h.Params[i])
			if !instrDominates(ci, call.(ssa.Instruction)) {
				continue
			}
			if hw {
				wrote = true
			}
			if hc {
				closed = true
			}
			if hw || hc {
				fillers = append(fillers, ci)
			}
		}
	}
	switch {
	case !sameDir:
		c.bad("C19-R2", key, p.relFile(call.Pos()), "the temporary file is not created in filepath.Dir(fname): a rename across file systems is not atomic")
	case !wrote || !closed:
		c.bad("C19-R2", key, p.relFile(call.Pos()), fmt.Sprintf("the temporary file is not fully written and closed before the rename on every path (write dominates: %v, close dominates: %v)", wrote, closed))
	default:
		c.ok("C19-R2", key, p.relFile(call.Pos()), "settings are replaced by renaming a complete temporary file", "os.CreateTemp(filepath.Dir(fname)) → Write → Close → os.Rename(tmp.Name(), fname); write and close dominate the rename")
	}
	// errors of Write/Close are checked: their results are used
	for _, r := range *tmp.Referrers() {
		ci, ok := r.(*ssa.Call)
		if !ok || ci.Call.StaticCallee() == nil || !instrDominates(ci, call.(ssa.Instruction)) {
			continue
		}
		n := ci.Call.StaticCallee().String()
		if n != "(*os.File).Write" && n != "(*os.File).Close" {
			continue
		}
		// the error must prevent the rename: the rename is unreachable when it is non-nil
		var errv ssa.Value = ci
		if tup, isTuple := ci.Type().(*types.Tuple); isTuple {
			errv = nil
			for _, r2 := range *ci.Referrers() {
				if ex, ok := r2.(*ssa.Extract); ok && ex.Index == tup.Len()-1 {
					errv = ex
				}
			}
		}
		k2 := key + ":err:" + ci.Call.StaticCallee().Name()
		if errv == nil {
			c.bad("C19-R2", k2, p.relFile(ci.Pos()), "error of "+n+" is discarded: a short write would be renamed over the good file")
			continue
		}
		carriers := map[ssa.Value]bool{errv: true}
		for _, fl := range flowsOf(errv) {
			carriers[fl] = true
		}
		reach := reachUnder(f, func(cond ssa.Value) int {
			if cmp, ok := cond.(*ssa.BinOp); ok && (carriers[cmp.X] || carriers[cmp.Y]) {
				switch cmp.Op {
				case token.NEQ:
					return 1
				case token.EQL:
					return -1
				}
			}
			return 0
		})
		if reach[call.(ssa.Instruction).Block()] {
			c.bad("C19-R2", k2, p.relFile(ci.Pos()), "a failure of "+n+" does not stop the rename (its error is not tested before os.Rename): a partly written temporary file replaces the good settings file")
		} else {
			c.ok("C19-R2", k2, p.relFile(ci.Pos()), "error of "+n+" before the rename is examined", "the rename is unreachable when that error is non-nil")
		}
	}
	// a filling helper: its own error stops the rename, and inside it the errors of the write
	// and of the close reach its result
	for _, ci := range fillers {
		h := ci.Call.StaticCallee()
		k2 := key + ":err:" + h.Name()
		carriers := map[ssa.Value]bool{}
		for _, fl := range flowsOf(ci) {
			carriers[fl] = true
		}
		reach := reachUnder(f, func(cond ssa.Value) int {
			if cmp, ok := cond.(*ssa.BinOp); ok && (carriers[cmp.X] || carriers[cmp.Y]) {
				switch cmp.Op {
				case token.NEQ:
					return 1
				case token.EQL:
					return -1
				}
			}
			return 0
		})
		lost := helperDropsFileError(h)
		switch {
		case reach[call.(ssa.Instruction).Block()]:
			c.bad("C19-R2", k2, p.relFile(ci.Pos()), "a failure of "+h.Name()+" does not stop the rename (its error is not tested before os.Rename): a partly written temporary file replaces the good settings file")
		case lost != "":
			c.bad("C19-R2", k2, p.relFile(ci.Pos()), "error of "+lost+" inside "+h.Name()+" does not reach its result: a short write would be renamed over the good file")
		default:
			c.ok("C19-R2", k2, p.relFile(ci.Pos()), "errors of writing and closing the temporary file are examined before the rename", "they are returned by "+h.Name()+", and the rename is unreachable when its result is non-nil")
		}
	}
}

// ---- R3: read-modify-write under one lock
func (c *Check) settingsLock() {
	p := c.P
	es := c.anchorFn("C19-R3", "internal/driver", "editSettings")
	if es == nil {
		return
	}
	var rd, wr ssa.Instruction
	for _, b := range es.Blocks {
		for _, ins := range b.Instrs {
			if call, ok := ins.(*ssa.Call); ok && call.Call.StaticCallee() != nil {
				switch call.Call.StaticCallee().Name() {
				case "readSettings":
					rd = call
				case "writeSettings":
					wr = call
				}
			}
		}
	}
	if rd == nil || wr == nil {
		c.undecided("C19-R3", "rmw:editSettings", p.relFile(es.Pos()), "editSettings does not call both readSettings and writeSettings")
		return
	}
	hr, hw := heldAt(es, rd), heldAt(es, wr)
	var common []string
	for id := range hr {
		if hw[id] && strings.HasPrefix(id, "global:") {
			common = append(common, id)
		}
	}
	if len(common) > 0 {
		c.ok("C19-R3", "rmw:editSettings", p.relFile(es.Pos()), "editSettings reads, modifies and writes settings under one lock", "mutex "+strings.Join(common, ",")+" is held from before readSettings until after writeSettings")
	} else {
		c.bad("C19-R3", "rmw:editSettings", p.relFile(es.Pos()), "editSettings reads and rewrites the settings file without holding a package-level mutex across both: concurrent save/delete requests lose updates")
	}
	// every writer of settings goes through editSettings
	ws := c.anchorFn("C19-R3", "internal/driver", "writeSettings")
	if ws != nil {
		if bad := onlyCalledFrom(c, "internal/driver", "writeSettings", "editSettings"); bad == "" {
			c.ok("C19-R3", "rmw:writers", p.relFile(ws.Pos()), "writeSettings is reached only through editSettings", "single static caller")
		} else {
			c.bad("C19-R3", "rmw:writers", p.relFile(ws.Pos()), "settings can be written outside the serialised read-modify-write: "+bad)
		}
	}
}

// ---- R4
func (c *Check) settingsMisc() {
	p := c.P
	if rs := c.anchorFn("C19-R4", "internal/driver", "readSettings"); rs != nil {
		ok := false
		for _, b := range helperBlocks(rs, 2) {
			for _, ins := range b.Instrs {
				if call, isCall := ins.(*ssa.Call); isCall && call.Call.StaticCallee() != nil && call.Call.StaticCallee().Name() == "resetTransient" {
					// receiver: &settings.Configs[i].config with i a range index over Configs
					v := call.Call.Args[0]
					for {
						if fa, isFA := v.(*ssa.FieldAddr); isFA {
							v = fa.X
							continue
						}
						break
					}
					if ia, isIA := v.(*ssa.IndexAddr); isIA && isForwardIndex(ia.Index) {
						ok = true
					}
				}
			}
		}
		if ok {
			c.ok("C19-R4", "reset-all", p.relFile(rs.Pos()), "readSettings resets the transient fields of every loaded configuration", "resetTransient is applied to Configs[i] for the index of a full range loop")
		} else {
			c.bad("C19-R4", "reset-all", p.relFile(rs.Pos()), "readSettings does not apply resetTransient to every element of Configs")
		}
	}
	if au := c.anchorFn("C19-R4", "internal/driver", "(*config).applyURL"); au != nil {
		var setCall *ssa.Call
		for _, b := range au.Blocks {
			for _, ins := range b.Instrs {
				if call, ok := ins.(*ssa.Call); ok && call.Call.StaticCallee() != nil && call.Call.StaticCallee().Name() == "set" {
					setCall = call
				}
			}
		}
		if setCall == nil {
			c.undecided("C19-R4", "empty-unset", p.relFile(au.Pos()), "applyURL does not call set")
		} else {
			val := setCall.Call.Args[2]
			reach := reachUnder(au, func(cond ssa.Value) int {
				if b, ok := cond.(*ssa.BinOp); ok && (b.Op == token.EQL || b.Op == token.NEQ) {
					var other ssa.Value
					if b.X == val {
						other = b.Y
					} else if b.Y == val {
						other = b.X
					}
					if s, ok := constString2(other); ok && s == "" {
						if b.Op == token.EQL {
							return 1
						}
						return -1
					}
				}
				return 0
			})
			if reach[setCall.Block()] {
				c.bad("C19-R4", "empty-unset", p.relFile(setCall.Pos()), "applyURL can call set with an empty URL value: an option cleared to the empty string would overwrite the default instead of counting as unset")
			} else {
				c.ok("C19-R4", "empty-unset", p.relFile(setCall.Pos()), "an empty URL value counts as unset", "set is unreachable in applyURL when value == \"\"")
			}
		}
	}
	if mu := c.anchorFn("C19-R4", "internal/driver", "(*config).makeURL"); mu != nil {
		// some comparison of cfg.get(f) with f.defaultValue exists and guards v = ""
		ok := false
		for _, g := range withHelpers(mu, 2) {
			for _, b := range g.Blocks {
				for _, ins := range b.Instrs {
					cmp, isCmp := ins.(*ssa.BinOp)
					if !isCmp || cmp.Op != token.EQL {
						continue
					}
					a, bb := cmp.X, cmp.Y
					if (isGetCall(a) && isFieldOfValue(bb, "defaultValue")) || (isGetCall(bb) && isFieldOfValue(a, "defaultValue")) {
						ok = true
					}
				}
			}
		}
		for _, b := range mu.Blocks[:0] {
			for _, ins := range b.Instrs {
				if cmp, isCmp := ins.(*ssa.BinOp); isCmp && cmp.Op == token.EQL {
					a, bb := cmp.X, cmp.Y
					if (isGetCall(a) && isFieldOfValue(bb, "defaultValue")) || (isGetCall(bb) && isFieldOfValue(a, "defaultValue")) {
						ok = true
					}
				}
			}
		}
		if ok {
			c.ok("C19-R4", "default-elided", p.relFile(mu.Pos()), "makeURL elides values equal to the option's computed default", "cfg.get(f) == f.defaultValue test present")
		} else {
			c.bad("C19-R4", "default-elided", p.relFile(mu.Pos()), "makeURL does not compare the value with configField.defaultValue")
		}
	}
	c.Floor("C19-R4", 3)
}

func constString2(v ssa.Value) (string, bool) {
	if v == nil {
		return "", false
	}
	return constString(v)
}

func isGetCall(v ssa.Value) bool {
	call, ok := v.(*ssa.Call)
	return ok && call.Call.StaticCallee() != nil && call.Call.StaticCallee().Name() == "get"
}

func isFieldOfValue(v ssa.Value, field string) bool {
	switch x := v.(type) {
	case *ssa.Field:
		_, F := fieldOf(x.X.Type(), x.Field)
		return F == field
	case *ssa.UnOp:
		if fa, ok := x.X.(*ssa.FieldAddr); ok {
			_, F := fieldOf(fa.X.Type(), fa.Field)
			return F == field
		}
	}
	return false
}

// helperWritesAndCloses: in h, a Write on the file parameter precedes every return, and every
// return follows a Close of it (possibly a different Close per path, or `return f.Close()`).
func helperWritesAndCloses(h *ssa.Function, file *ssa.Parameter) (writes, closes bool) {
	var ws, cs []*ssa.Call
	for _, r := range *file.Referrers() {
		ci, ok := r.(*ssa.Call)
		if !ok || ci.Call.StaticCallee() == nil {
			continue
		}
		switch ci.Call.StaticCallee().String() {
		case "(*os.File).Write", "(*os.File).WriteString":
			ws = append(ws, ci)
		case "(*os.File).Close":
			cs = append(cs, ci)
		}
	}
	writes, closes = len(ws) > 0, len(cs) > 0
	for _, b := range h.Blocks {
		ret, ok := b.Instrs[len(b.Instrs)-1].(*ssa.Return)
		if !ok {
			continue
		}
		w, c := false, false
		for _, x := range ws {
			if instrDominates(x, ret) {
				w = true
			}
		}
		for _, x := range cs {
			if instrDominates(x, ret) {
				c = true
			}
		}
		writes, closes = writes && w, closes && c
	}
	return
}

// helperDropsFileError: the name of a Write/Close call on a file in h whose error cannot reach
// h's error result ("" when every such error is returned on some path: directly, or through
// the variable/phi that is returned).
func helperDropsFileError(h *ssa.Function) string {
	returned := map[ssa.Value]bool{}
	for _, b := range h.Blocks {
		if ret, ok := b.Instrs[len(b.Instrs)-1].(*ssa.Return); ok && len(ret.Results) > 0 {
			returned[ret.Results[len(ret.Results)-1]] = true
		}
	}
	for _, b := range h.Blocks {
		for _, ins := range b.Instrs {
			ci, ok := ins.(*ssa.Call)
			if !ok || ci.Call.StaticCallee() == nil {
				continue
			}
			n := ci.Call.StaticCallee().String()
			if n != "(*os.File).Write" && n != "(*os.File).Close" {
				continue
			}
			var errv ssa.Value = ci
			if tup, isTuple := ci.Type().(*types.Tuple); isTuple {
				errv = nil
				if ci.Referrers() != nil {
					for _, r2 := range *ci.Referrers() {
						if ex, ok := r2.(*ssa.Extract); ok && ex.Index == tup.Len()-1 {
							errv = ex
						}
					}
				}
			}
			if errv == nil {
				return n
			}
			ok2 := false
			for _, fl := range flowsOf(errv) {
				if returned[fl] {
					ok2 = true
				}
			}
			// a Close on a path that already returns an earlier error may drop its own
			if !ok2 && n == "(*os.File).Close" {
				for _, b2 := range h.Blocks {
					if ret, isRet := b2.Instrs[len(b2.Instrs)-1].(*ssa.Return); isRet && instrDominates(ci, ret) {
						if k, isConst := ret.Results[len(ret.Results)-1].(*ssa.Const); !isConst || !k.IsNil() {
							ok2 = true // the path reports another (non-constant-nil) error
						}
					}
				}
			}
			if !ok2 {
				return n
			}
		}
	}
	return ""
}
