package main

import (
	"fmt"
	"go/types"
	"sort"
	"strings"

	"golang.org/x/tools/go/ssa"
)

// frameSpec is a frame condition: starting from roots, no reachable module function may
// write a field of the tracked struct types other than the allowed ones.
type frameSpec struct {
	rule     string
	name     string // short name of the entry point(s), part of the obligation key
	roots    []*ssa.Function
	tracked  []*types.Named  // struct types whose fields are in the frame
	allowed  map[string]bool // "profile.Location.Line" (field or its elements)
	allowAll map[string]bool // struct types all of whose fields may be written
	stop     func(*ssa.Function) bool
	// elemSensitive: allowed["T.F"] permits re-assigning the field only; writing the
	// elements of the slice/map it holds additionally needs allowed["T.F[]"].
	elemSensitive bool
	// opsOnly restricts the element operations allowed on "T.F[]" (e.g. "delete").
	opsOnly map[string]string
	// okEffect can discharge an otherwise forbidden effect with a reason.
	okEffect func(e Effect) string
}

// structsOf lists the named struct types declared in module package rel.
func (p *Program) structsOf(rel string, names ...string) []*types.Named {
	pk := p.Pkg(rel)
	if pk == nil {
		return nil
	}
	var out []*types.Named
	scope := pk.Types.Scope()
	all := scope.Names()
	if len(names) > 0 {
		all = names
	}
	for _, n := range all {
		tn, ok := scope.Lookup(n).(*types.TypeName)
		if !ok {
			continue
		}
		nt, ok := tn.Type().(*types.Named)
		if !ok {
			continue
		}
		if _, ok := nt.Underlying().(*types.Struct); ok {
			out = append(out, nt)
		}
	}
	return out
}

func (c *Check) checkFrame(m *modAnalyzer, fs frameSpec) (effects []Effect, nfn int) {
	for _, r := range fs.roots {
		if r == nil {
			return nil, 0
		}
	}
	effects, parent, nfn := m.ModSet(fs.roots, fs.stop)
	trackedNames := map[string]bool{}
	for _, t := range fs.tracked {
		trackedNames[typeShort(t)] = true
	}
	isAllowed := func(k string, elem bool) bool {
		if elem {
			return fs.allowed[k+"[]"] || (!fs.elemSensitive && fs.allowed[k])
		}
		return fs.allowed[k]
	}
	byTarget := map[string][]Effect{}
	for _, e := range effects {
		if e.Root == rFresh {
			continue
		}
		if e.T != "" && trackedNames[e.T] {
			k := e.T + "." + e.F
			if e.Elem {
				k += "[]"
			}
			byTarget[k] = append(byTarget[k], e)
			continue
		}
		if e.T == "" {
			// a container or object of unknown origin: relevant if its type mentions a tracked type
			for tn := range trackedNames {
				if mentionsType(e.Ty, tn) {
					byTarget["?"+e.Ty] = append(byTarget["?"+e.Ty], e)
					break
				}
			}
		}
	}
	report := func(key, what string, es []Effect, onlyOp string) {
		var undis []Effect
		for _, e := range es {
			if onlyOp != "" && e.What == onlyOp {
				continue
			}
			if fs.okEffect != nil {
				if why := fs.okEffect(e); why != "" {
					continue
				}
			}
			undis = append(undis, e)
		}
		if len(undis) == 0 {
			how := fmt.Sprintf("no store, map update or mutating call on it in the %d module functions reachable from %s", nfn, fs.name)
			if onlyOp != "" {
				how = fmt.Sprintf("only %s operations on it in the %d module functions reachable from %s", onlyOp, nfn, fs.name)
			}
			c.ok(fs.rule, key, "", what, how)
			return
		}
		seen := map[string]bool{}
		for _, e := range undis {
			k := key + "@" + fnName(e.Fn)
			if seen[k] {
				continue
			}
			seen[k] = true
			c.bad(fs.rule, k, c.P.relFile(e.Pos), fmt.Sprintf("%s is written (%s, object root: %s) in %s, reachable from %s via %s", e.Target(), e.What, e.Root, fnName(e.Fn), fs.name, callPath(parent, e.Fn)))
		}
	}
	for _, t := range fs.tracked {
		tn := typeShort(t)
		st := t.Underlying().(*types.Struct)
		// whole-object stores (*p = T{...}) count against every field
		whole := byTarget[tn+".*"]
		for i := 0; i < st.NumFields(); i++ {
			fn := st.Field(i).Name()
			k := tn + "." + fn
			key := fs.name + ":" + k
			if fs.allowAll[tn] || isAllowed(k, false) {
				o := c.ok(fs.rule, key, "", k+" may be re-assigned by "+fs.name, "inside the documented frame")
				o.Trivial = len(byTarget[k]) == 0
			} else {
				es := append(append([]Effect{}, byTarget[k]...), whole...)
				report(key, k+" must not be assigned by "+fs.name, es, "")
			}
			switch st.Field(i).Type().Underlying().(type) {
			case *types.Slice, *types.Map:
			default:
				continue
			}
			if fs.allowAll[tn] || (isAllowed(k, true) && fs.opsOnly[k+"[]"] == "") {
				o := c.ok(fs.rule, key+"[]", "", "elements of "+k+" may be written by "+fs.name, "inside the documented frame")
				o.Trivial = len(byTarget[k+"[]"]) == 0
			} else if isAllowed(k, true) {
				report(key+"[]", "elements of "+k+" may only be removed ("+fs.opsOnly[k+"[]"]+") by "+fs.name, byTarget[k+"[]"], fs.opsOnly[k+"[]"])
			} else {
				report(key+"[]", "elements of "+k+" must not be written in place by "+fs.name, byTarget[k+"[]"], "")
			}
		}
	}
	var unk []string
	for k := range byTarget {
		if strings.HasPrefix(k, "?") {
			unk = append(unk, k)
		}
	}
	sort.Strings(unk)
	for _, k := range unk {
		report(fs.name+":"+k, "container "+k[1:]+" of unresolved origin must not be written by "+fs.name, byTarget[k], "")
	}
	return effects, nfn
}

func mentionsType(tyStr, name string) bool {
	i := strings.Index(tyStr, name)
	for i >= 0 {
		end := i + len(name)
		if end == len(tyStr) || !isIdentChar(tyStr[end]) {
			if i == 0 || !isIdentChar(tyStr[i-1]) {
				return true
			}
		}
		j := strings.Index(tyStr[end:], name)
		if j < 0 {
			break
		}
		i = end + j
	}
	return false
}

func isIdentChar(b byte) bool {
	return b == '_' || b == '.' || (b >= '0' && b <= '9') || (b >= 'a' && b <= 'z') || (b >= 'A' && b <= 'Z')
}
