package main

import (
	"fmt"
	"go/token"
	"go/types"
	"sort"
	"strings"

	"golang.org/x/tools/go/ssa"
)

// paramSliceBounds (R8): a count that comes from an option (nodecount, a number typed after a
// command, ?n= in a URL) may be any integer.  Wherever a function outside package profile
// slices with an integer parameter as the bound, after clamping it from above at most, the
// parameter is known not to be negative: by a test in the function, or because every call
// site passes a constant, a length, or a value that a dominating test makes positive (followed
// through the parameters of the callers).
func (c *Check) paramSliceBounds() {
	p := c.P
	g := newGuardEngine(p)
	// boundParams: the integer parameters among the possible values of bound v
	var boundParams func(v ssa.Value, seen map[ssa.Value]bool, out map[*ssa.Parameter]bool) bool
	boundParams = func(v ssa.Value, seen map[ssa.Value]bool, out map[*ssa.Parameter]bool) bool {
		if seen[v] {
			return true
		}
		seen[v] = true
		switch x := v.(type) {
		case *ssa.Parameter:
			if bt, ok := x.Type().Underlying().(*types.Basic); ok && bt.Info()&types.IsInteger != 0 && bt.Info()&types.IsUnsigned == 0 {
				out[x] = true
				return true
			}
			return false
		case *ssa.Phi:
			for _, e := range x.Edges {
				if nonNegInt(e, 0, map[ssa.Value]bool{}) || rangeIndex(e) {
					continue
				}
				if add, ok := e.(*ssa.BinOp); ok && add.Op == token.ADD && rangeIndex(add.X) && nonNegInt(add.Y, 0, map[ssa.Value]bool{}) {
					continue
				}
				if !boundParams(e, seen, out) {
					return false
				}
			}
			return true
		}
		return false
	}
	const lowest = -1 << 62
	var nonNegAt func(v ssa.Value, at *ssa.BasicBlock, depth int) string
	nonNegAt = func(v ssa.Value, at *ssa.BasicBlock, depth int) string {
		if nonNegInt(v, 0, map[ssa.Value]bool{}) {
			return "non-negative by construction"
		}
		if g.intMinFrom(v, at, lowest) >= 0 {
			return "a dominating test makes it non-negative"
		}
		par, ok := v.(*ssa.Parameter)
		if !ok || depth > 3 {
			return ""
		}
		fn := par.Parent()
		idx := -1
		for i, q := range fn.Params {
			if q == par {
				idx = i
			}
		}
		calls, ok := allCallSites(p, fn)
		if !ok || idx < 0 {
			return ""
		}
		n := 0
		for _, cs := range calls {
			args := cs.Common().Args
			if idx >= len(args) {
				return ""
			}
			if nonNegAt(args[idx], cs.Block(), depth+1) == "" {
				return ""
			}
			n++
		}
		if n == 0 {
			if fn.Object() != nil && fn.Object().Exported() {
				return "" // exported and never called inside the module: callers unknown
			}
			return "never called"
		}
		return fmt.Sprintf("every one of the %d call sites passes a non-negative value", n)
	}
	type site struct {
		f   *ssa.Function
		sl  *ssa.Slice
		par *ssa.Parameter
		lo  bool
	}
	var sites []site
	for f := range p.AllFns {
		if !fnInModule(f) || f.Blocks == nil || f.Synthetic != "" {
			continue
		}
		pk := fnPkgPath(f)
		if pk == modPath+"/profile" || pk == modPath+"/internal/proftest" {
			continue
		}
		for _, b := range f.Blocks {
			for _, ins := range b.Instrs {
				sl, ok := ins.(*ssa.Slice)
				if !ok {
					continue
				}
				for k, bd := range []ssa.Value{sl.High, sl.Low} {
					if bd == nil {
						continue
					}
					ps := map[*ssa.Parameter]bool{}
					if !boundParams(bd, map[ssa.Value]bool{}, ps) {
						continue
					}
					for par := range ps {
						if par.Parent() == f {
							sites = append(sites, site{f, sl, par, k == 1})
						}
					}
				}
			}
		}
	}
	sort.Slice(sites, func(i, j int) bool {
		if sites[i].sl.Pos() != sites[j].sl.Pos() {
			return sites[i].sl.Pos() < sites[j].sl.Pos()
		}
		return sites[i].par.Name() < sites[j].par.Name()
	})
	for i, s := range sites {
		which := "upper"
		if s.lo {
			which = "lower"
		}
		key := fmt.Sprintf("param-bound:%s:%s#%d", fnName(s.f), which, i)
		if why := nonNegAt(s.par, s.sl.Block(), 0); why != "" {
			c.ok("C09-R8", key, p.relFile(s.sl.Pos()), "the "+which+" slice bound taken from parameter "+s.par.Name()+" of "+fnName(s.f)+" is never negative", why)
		} else {
			c.bad("C09-R8", key, p.relFile(s.sl.Pos()), fnName(s.f)+" slices with its parameter "+s.par.Name()+" as the "+which+" bound, which is clamped from above only, and a caller can pass a negative value (an option such as nodecount=-5 reaches it): slice bounds out of range")
		}
	}
	c.Extra["param_slice_bounds"] = len(sites)
	// the same for a parameter used directly as an index: an upper-bound test in the callee
	// (index >= len(x)) does not protect against the -1 a caller computes as len(y)-1
	type isite struct {
		f   *ssa.Function
		ia  ssa.Instruction
		par *ssa.Parameter
	}
	var isites []isite
	for f := range p.AllFns {
		if !fnInModule(f) || f.Blocks == nil || f.Synthetic != "" {
			continue
		}
		pk := fnPkgPath(f)
		if pk == modPath+"/profile" || pk == modPath+"/internal/proftest" || strings.Contains(pk, "third_party") {
			continue
		}
		for _, b := range f.Blocks {
			for _, ins := range b.Instrs {
				var idx ssa.Value
				switch x := ins.(type) {
				case *ssa.IndexAddr:
					if _, isSlice := x.X.Type().Underlying().(*types.Slice); isSlice {
						idx = x.Index
					}
				}
				par, ok := idx.(*ssa.Parameter)
				if !ok || par.Parent() != f {
					continue
				}
				if bt, ok := par.Type().Underlying().(*types.Basic); !ok || bt.Info()&types.IsInteger == 0 || bt.Info()&types.IsUnsigned != 0 {
					continue
				}
				// only where the function itself tests the parameter against a length: it does
				// not trust its callers with the upper bound, so the lower one is owed too
				// (sort callbacks and the like, which test nothing, are the caller's business)
				tested := false
				for _, b2 := range f.Blocks {
					for _, i2 := range b2.Instrs {
						if cmp, ok := i2.(*ssa.BinOp); ok {
							if (cmp.X == ssa.Value(par) && lenArg(cmp.Y) != nil) || (cmp.Y == ssa.Value(par) && lenArg(cmp.X) != nil) {
								tested = true
							}
						}
					}
				}
				if !tested {
					continue
				}
				isites = append(isites, isite{f, ins, par})
			}
		}
	}
	sort.Slice(isites, func(i, j int) bool { return isites[i].ia.Pos() < isites[j].ia.Pos() })
	for i, s := range isites {
		key := fmt.Sprintf("param-index:%s:%s#%d", fnName(s.f), s.par.Name(), i)
		if why := nonNegAt(s.par, s.ia.Block(), 0); why != "" {
			c.ok("C09-R8", key, p.relFile(s.ia.Pos()), "the index taken from parameter "+s.par.Name()+" of "+fnName(s.f)+" is never negative", why)
		} else {
			c.bad("C09-R8", key, p.relFile(s.ia.Pos()), fnName(s.f)+" indexes with its parameter "+s.par.Name()+", which is tested against the length only, and a caller can pass a negative value (len(list)-1 of an empty list): index out of range [-1]")
		}
	}
	c.Extra["param_index_sites"] = len(isites)
	if len(sites) == 0 {
		c.undecided("C09-R8", "param-bound", "", "no slice expression bounded by an integer parameter found outside package profile (selectTopNodes was one)")
	}
}

// workListsTerminate (R9): a loop that runs while a work list is not empty, takes elements
// off it and appends new ones terminates on every graph only if each element is appended at
// most once: the append is made only after a membership test of a "seen" set came out
// negative, and the element is put into that set on the same path.  (A recursive profile
// gives a cyclic caller graph; without the mark the walk never ends.)
func (c *Check) workListsTerminate() {
	p := c.P
	g := newGuardEngine(p)
	n := 0
	for f := range p.AllFns {
		if !fnInModule(f) || f.Blocks == nil || f.Synthetic != "" {
			continue
		}
		pk := fnPkgPath(f)
		if pk == modPath+"/profile" || pk == modPath+"/internal/proftest" {
			continue
		}
		for _, hdr := range f.Blocks {
			iff, ok := hdr.Instrs[len(hdr.Instrs)-1].(*ssa.If)
			if !ok {
				continue
			}
			cmp, ok := iff.Cond.(*ssa.BinOp)
			if !ok {
				continue
			}
			var q *ssa.Phi
			for _, side := range []ssa.Value{cmp.X, cmp.Y} {
				if la := lenArg(side); la != nil {
					if ph, ok := la.(*ssa.Phi); ok && ph.Block() == hdr {
						q = ph
					}
				}
			}
			if q == nil {
				continue
			}
			if _, isSlice := q.Type().Underlying().(*types.Slice); !isSlice {
				continue
			}
			loop := naturalLoop(hdr)
			if len(loop) < 2 {
				continue
			}
			// values derived from the list inside the loop
			derived := map[ssa.Value]bool{q: true}
			var pops []*ssa.Slice
			var apps []*ssa.Call
			for changed := true; changed; {
				changed = false
				for b := range loop {
					for _, ins := range b.Instrs {
						switch x := ins.(type) {
						case *ssa.Slice:
							if derived[x.X] && !derived[x] {
								derived[x] = true
								pops = append(pops, x)
								changed = true
							}
						case *ssa.Phi:
							if !derived[x] {
								for _, e := range x.Edges {
									if derived[e] {
										derived[x] = true
										changed = true
									}
								}
							}
						case *ssa.Call:
							if bi, ok := x.Call.Value.(*ssa.Builtin); ok && bi.Name() == "append" && len(x.Call.Args) == 2 && derived[x.Call.Args[0]] && !derived[x] {
								derived[x] = true
								apps = append(apps, x)
								changed = true
							}
						}
					}
				}
			}
			_ = pops // the list may be consumed by re-slicing or through a cursor that runs up to len(list)
			if len(apps) == 0 {
				continue
			}
			for _, ap := range apps {
				n++
				key := fmt.Sprintf("worklist:%s#%d", fnName(f), n)
				elems := variadicValues(ap.Call.Args[1])
				if len(elems) != 1 || elems[0] == nil {
					c.undecided("C09-R9", key, p.relFile(ap.Pos()), "work-list append with more than one element")
					continue
				}
				e := elems[0]
				// (a) a negative membership test of e dominates the append
				var set ssa.Value
				for d, child := ap.Block().Idom(), ap.Block(); d != nil && loop[d]; child, d = d, d.Idom() {
					dif, ok := d.Instrs[len(d.Instrs)-1].(*ssa.If)
					if !ok {
						continue
					}
					var lk *ssa.Lookup
					pol := true
					cond := dif.Cond
					if un, ok := cond.(*ssa.UnOp); ok && un.Op == token.NOT {
						cond, pol = un.X, false
					}
					switch x := cond.(type) {
					case *ssa.Lookup:
						lk = x
					case *ssa.Extract:
						if l2, ok := x.Tuple.(*ssa.Lookup); ok && x.Index == 1 {
							lk = l2
						}
					}
					if lk == nil || !(lk.Index == e || g.same(lk.Index, e)) {
						continue
					}
					// the append is on the "not in the set" side
					notIn := d.Succs[1]
					if !pol {
						notIn = d.Succs[0]
					}
					if notIn == child || notIn.Dominates(ap.Block()) {
						set = lk.X
					}
				}
				if set == nil {
					c.bad("C09-R9", key, p.relFile(ap.Pos()), fnName(f)+" appends to its work list an element that was not tested against a seen-set on this path: on a cyclic graph (a recursive profile) the same node is queued again and again and the loop never ends")
					continue
				}
				// (b) e is put into that set in a block that dominates the append (or in its block)
				marked := false
				for b := range loop {
					for _, ins := range b.Instrs {
						mu, ok := ins.(*ssa.MapUpdate)
						if !ok || mu.Map != set || !(mu.Key == e || g.same(mu.Key, e)) {
							continue
						}
						if b == ap.Block() || b.Dominates(ap.Block()) {
							marked = true
						}
					}
				}
				if marked {
					c.ok("C09-R9", key, p.relFile(ap.Pos()), "the work list of "+fnName(f)+" receives every element at most once", "the append follows a negative membership test of the element in a set, and the element is put into the set on the same path")
				} else {
					c.bad("C09-R9", key, p.relFile(ap.Pos()), fnName(f)+" tests a seen-set before appending to its work list but never marks the appended element as seen on that path: on a cyclic graph (a recursive profile) the walk never ends — pprof hangs at full CPU on a valid profile")
				}
			}
		}
	}
	if n == 0 {
		c.undecided("C09-R9", "worklist", "", "no work-list loop found outside package profile (isRedundantEdge had one)")
	}
}
