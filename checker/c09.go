package main

import (
	"fmt"
	"go/ast"
	"go/token"
	"go/types"
	"html/template"
	"os"
	"path/filepath"
	"regexp"
	"sort"
	"strings"

	"golang.org/x/tools/go/packages"
	"golang.org/x/tools/go/ssa"
)

func init() { register("C09", true, runC09) }

// c09GuardExceptions: index/slice sites outside package profile whose bound rests on an
// invariant the guard engine cannot see; each was confirmed by reading.
var c09GuardExceptions = map[string]string{
	"idx:(*graph.builder).tagGroupLabel:param#1 []*graph.Tag[0]#2":                                                  "only called from collapsedTags with groups that were created with one element",
	"idx:report.getSourceFromFile:param#2 graph.Nodes[0]":                                                           "both callers pass a group taken from a map whose entries are created by append (fileNodes[file] / functionNodes), hence non-empty",
	"idx:report.getSourceFromFile:param#2 graph.Nodes[0]#4":                                                         "both callers pass a group taken from a map whose entries are created by append, hence non-empty",
	"idx:driver.parseCommandLine:param#0 []string[high=1]":                                                          "the only caller (interactive) passes strings.Fields(input) after checking len(tokens) != 0",
	"idx:driver.parseCommandLine:*&param#0 []string[:][…][high=len(*&param#0 []string[:][…])-len(call FindString)]": "d is a substring of name found by tailDigitsRE.FindString(name), so len(d) <= len(name)",
	"idx:driver.parseCommandLine:*&var []string[…][0]":                                                              "args are tokens produced by strings.Fields, which never yields an empty string",
	"idx:driver.generateRawReport:param#1 []string[0]":                                                              "every caller passes a non-empty command: literal slices in the web handlers, input[:1] of non-empty tokens in parseCommandLine, []string{name} from outputFormat",
	"idx:(*graph.builder).collapsedTags:make[0]":                                                                    "tagGroups has `count` elements and count is the positive constant maxNodelets at every call site; the function returns early unless len(ts) > count",
	"idx:(*graph.builder).collapsedTags:*&make[…][0]":                                                               "every tagGroups[i] is initialised with one element ([]*Tag{t}) by the preceding loop over ts[:count]",
	"idx:(*graph.builder).collapsedTags:*&make[…][0]#2":                                                             "every tagGroups[i] is initialised with one element ([]*Tag{t}) by the preceding loop over ts[:count]",
	"idx:(*graph.builder).tagGroupLabel:param g[0]#2":                                                               "only called from collapsedTags with groups that were created with one element",
	"idx:(*graph.builder).tagGroupLabel:param g[0]#3":                                                               "only called from collapsedTags with groups that were created with one element",
	"idx:(*graph.builder).tagGroupLabel:param g[low=1]":                                                             "only called from collapsedTags with groups that were created with one element",
	"idx:elfexec.parseNotes:call ReadString#0[high=len(call ReadString#0)-1]":                                       "bufio.Reader.ReadString returned err == nil (both error branches return), so the result ends with the delimiter and has length >= 1",
	"idx:report.getSourceFromFile:param fns[0]#3":                                                                   "both callers pass a group taken from a map whose entries are created by append, hence non-empty",
	"idx:report.getSourceFromFile:param fns[0]#4":                                                                   "both callers pass a group taken from a map whose entries are created by append, hence non-empty",
	"idx:(*report.StackSet).makeInitialStacks:report.Stack.Sources[len(report.Stack.Sources)-1]":                    "every Stack is created with Sources: []int{0} (the synthetic root) before frames are appended",
	"idx:report.PrintAssembly:plugin.Sym.Name[0]":                                                                   "plugin contract: an ObjFile returns symbols with at least one name (binutils.findSymbols only emits a Sym after appending a name)",
	"idx:report.PrintAssembly:plugin.Sym.Name[low=1]":                                                               "plugin contract: Sym.Name is non-empty",
	"idx:report.PrintAssembly$1:plugin.Sym.Name[0]":                                                                 "plugin contract: Sym.Name is non-empty",
	"idx:report.PrintAssembly$1:plugin.Sym.Name[0]#2":                                                               "plugin contract: Sym.Name is non-empty",
	"idx:driver.parseCommandLine:param input[low=1]":                                                                "the only caller (interactive) passes strings.Fields(input) after checking len(tokens) != 0",
	"idx:driver.generateRawReport:param cmd[0]#2":                                                                   "every caller passes a non-empty command",
	"idx:(*driver.webInterface).stackView:make[0]":                                                                  "Report.Stacks always creates the root source first, so len(stacks.Sources) >= 1",
	"idx:(*driver.config).makeURL:call get[high=1]":                                                                 "taken only for reflect.Bool fields, whose get() value is fmt.Sprint(bool): \"true\" or \"false\"",
}

// c09ExceptionHooks re-verify, on every run, the part of a reviewed invariant that is
// visible in the code: the set of callers the review covered, constants handed in, or the
// producer the invariant names.  A hook that fails turns the exception back into a
// violation, so a new call site or a changed producer has to be reviewed again.
var c09ExceptionHooks = map[string]func(c *Check) string{
	"(*graph.builder).tagGroupLabel": func(c *Check) string {
		return callersExactly(c, "internal/graph", "(*builder).tagGroupLabel", "collapsedTags")
	},
	"(*graph.builder).collapsedTags": func(c *Check) string {
		if bad := callersExactly(c, "internal/graph", "(*builder).collapsedTags", "numericNodelets"); bad != "" {
			return bad
		}
		// the group count handed in is a positive constant (possibly through one forwarding parameter)
		f := c.P.Func("internal/graph", "(*builder).collapsedTags")
		var positiveAtAllSites func(callee *ssa.Function, idx, depth int) string
		positiveAtAllSites = func(callee *ssa.Function, idx, depth int) string {
			msg := ""
			sites := 0
			forAllPkgFuncs(c.P, "internal/graph", func(g *ssa.Function) {
				for _, b := range g.Blocks {
					for _, ins := range b.Instrs {
						call, ok := ins.(*ssa.Call)
						if !ok || call.Call.StaticCallee() != callee || idx >= len(call.Call.Args) {
							continue
						}
						sites++
						a := call.Call.Args[idx]
						if k, ok := constInt(a); ok && k > 0 {
							continue
						}
						if pr, ok := a.(*ssa.Parameter); ok && depth < 2 {
							for i, q := range g.Params {
								if q == pr {
									if m := positiveAtAllSites(g, i, depth+1); m != "" {
										msg = m
									}
								}
							}
							continue
						}
						msg = callee.Name() + " receives a group count that is not a positive constant in " + fnName(g)
					}
				}
			})
			if sites == 0 {
				return "no call site of " + callee.Name() + " found"
			}
			return msg
		}
		idx := -1
		for i, pr := range f.Params {
			if bt, ok := pr.Type().Underlying().(*types.Basic); ok && bt.Kind() == types.Int {
				idx = i
			}
		}
		if idx < 0 {
			return "collapsedTags has no int parameter"
		}
		return positiveAtAllSites(f, idx, 0)
	},
	"report.getSourceFromFile": func(c *Check) string {
		return callersExactly(c, "internal/report", "getSourceFromFile", "printSource")
	},
	"driver.parseCommandLine": func(c *Check) string {
		return callersExactly(c, "internal/driver", "parseCommandLine", "interactive")
	},
	"driver.generateRawReport": func(c *Check) string {
		return callersExactly(c, "internal/driver", "generateRawReport", "generateReport", "makeReport")
	},
	"(*report.StackSet).makeInitialStacks": func(c *Check) string { return rootSourceFirst(c) },
	"(*driver.webInterface).stackView":     func(c *Check) string { return rootSourceFirst(c) },
}

// callersExactly: the functions that reference fn are exactly the named ones.
func callersExactly(c *Check, rel, fn string, callers ...string) string {
	f := c.P.Func(rel, fn)
	if f == nil {
		return fn + " not found"
	}
	want := map[string]bool{}
	for _, x := range callers {
		want[x] = true
	}
	got := map[string]bool{}
	for g := range c.P.AllFns {
		if !fnInModule(g) || g.Blocks == nil {
			continue
		}
		top := g
		for top.Parent() != nil {
			top = top.Parent()
		}
		for _, b := range g.Blocks {
			for _, ins := range b.Instrs {
				var ops []*ssa.Value
				for _, op := range ins.Operands(ops) {
					if op != nil && *op == ssa.Value(f) {
						got[top.Name()] = true
					}
				}
			}
		}
	}
	pieces := 0
	for x := range got {
		if !want[x] {
			// a piece split out of a reviewed caller (only ever called from reviewed callers)
			if g := c.P.Func(rel, x); g != nil && allowedCaller(c.P, g, want, 0) {
				pieces++
				continue
			}
			if g := methodByName(c.P, rel, x); g != nil && allowedCaller(c.P, g, want, 0) {
				pieces++
				continue
			}
			return fn + " is now also used by " + x + ", a caller the review of this invariant did not cover"
		}
	}
	for x := range want {
		if !got[x] {
			// the reviewed caller may now reach fn through one of the pieces split out of it
			if pieces > 0 && (c.P.Func(rel, x) != nil || methodByName(c.P, rel, x) != nil) {
				continue
			}
			return "reviewed caller " + x + " of " + fn + " no longer exists"
		}
	}
	return ""
}

// rootSourceFirst: makeInitialStacks gives every Stack a Sources list with at least one
// element and installs a non-empty StackSet.Sources before any sample is processed.
func rootSourceFirst(c *Check) string {
	f := c.P.Func("internal/report", "(*StackSet).makeInitialStacks")
	if f == nil {
		return "makeInitialStacks not found"
	}
	g := newGuardEngine(c.P)
	stackOK, setOK := false, false
	for _, b := range f.Blocks {
		for _, ins := range b.Instrs {
			st, ok := ins.(*ssa.Store)
			if !ok {
				continue
			}
			fa, ok := st.Addr.(*ssa.FieldAddr)
			if !ok {
				continue
			}
			T, F := fieldOf(fa.X.Type(), fa.Field)
			if F != "Sources" || g.minLenByConstruction(st.Val, 0) < 1 {
				continue
			}
			switch T {
			case "report.Stack":
				stackOK = true
			case "report.StackSet":
				setOK = true
			}
		}
	}
	switch {
	case !stackOK:
		return "makeInitialStacks no longer creates each Stack with a non-empty Sources list"
	case !setOK:
		return "makeInitialStacks no longer installs a non-empty StackSet.Sources (root first)"
	}
	return ""
}

func runC09(c *Check) {
	c.Explanation = "Decides structural necessary conditions of C09 over everything outside package profile (the parser is C02): every explicit panic is in an inventory and is either discharged by an argument the checker re-verifies (config fields have only the four supported types; web handlers only pass command names that are keys of pprofCommands and parseCommandLine rejects unknown names; demangler modes assigned in Symbolize are cases of demanglerModeToOptions) or is an internal-invariant assertion supported by another rule (R1); every index or slice with constant bounds or len-k bounds is protected by a dominating length check, by its producer, or by a reviewed invariant (R2); no pointer obtained together with a discarded error is dereferenced unchecked (R3); errors of report generation reach PrintErr / http.Error and never a return or exit of the session loop (R4); every constant regular expression and every embedded HTML template compiles (R5). Also: variable index sites of the typed-command parser (R2), integer parameters used as slice bounds are non-negative at every caller (R8), work-list loops mark what they queue (R9). Round-I additions: an index handed back by a call needs a lower bound as well; a self-call on a negated integer parameter is guarded against the minimum value; a nil chunk result is never merged (shared with C16-R7). Not decided: hangs, arithmetic panics, nil maps in general, option values rejected late, plug-in behaviour."
	c.panicInventory()
	// the functions that take a typed command line apart index their tokens with running
	// positions: there every index and slice expression is a site, not only the constant ones
	c.varIdxScope = func(f *ssa.Function) bool {
		return fnPkgPath(f) == modPath+"/internal/driver" && strings.HasSuffix(c.P.Fset.Position(f.Pos()).Filename, "/interactive.go")
	}
	c.guardRule("C09-R2", func(f *ssa.Function) bool {
		pk := fnPkgPath(f)
		return pk != modPath+"/profile" && pk != modPath+"/internal/proftest" && !strings.Contains(pk, "third_party") && !strings.Contains(c.P.Fset.Position(f.Pos()).Filename, "/testdata/")
	}, true, c09GuardExceptions, c09ExceptionHooks)
	c.Floor("C09-R2", 120)
	c.paramSliceBounds()
	c.workListsTerminate()
	c.discardedErrDeref()
	c.treeConditionAgreement()
	c.lockRelease()
	c.divisionGuards()
	c.errorsContinue()
	c.constantPatterns()
	c.negationRecursionGuarded()
	c.resumeInsideShortenedString()
	// a profile that no source of a chunk produced is never merged (shared with C16-R7)
	c.relabel(c.combineNonNil, "C16-R7", "C09-R11", nil)
}

// guardRule runs A-GUARD over the selected functions.
func (c *Check) guardRule(rule string, sel func(*ssa.Function) bool, constOnly bool, exceptions map[string]string, hookTabs ...map[string]func(c *Check) string) {
	hooks := map[string]func(c *Check) string{}
	for _, t := range hookTabs {
		for k, v := range t {
			hooks[k] = v
		}
	}
	hookRes := map[string]string{}
	hooksUsed := 0
	p := c.P
	g := newGuardEngine(p)
	var fns []*ssa.Function
	for f := range p.AllFns {
		if fnInModule(f) && f.Blocks != nil && f.Synthetic == "" && sel(f) {
			fns = append(fns, f)
		}
	}
	sortFns(fns)
	used := map[string]bool{}
	seenKeys := map[string]bool{}
	for _, f := range fns {
		constOnly := constOnly && !(c.varIdxScope != nil && c.varIdxScope(f))
		for _, s := range g.collectSites(f, constOnly) {
			seenKeys["idx:"+fnName(f)+":"+s.desc] = true
			key := "idx:" + fnName(f) + ":" + s.desc
			pos := p.relFile(s.ins.Pos())
			dbgGuard = os.Getenv("DEBUG_FN") != "" && strings.Contains(fnName(f), os.Getenv("DEBUG_FN"))
			if how := g.discharge(s); how != "" {
				if d := os.Getenv("DEBUG_FN"); d != "" && strings.Contains(fnName(f), d) {
					fmt.Printf("DEBUG %s %s: %s\n", pos, s.desc, how)
				}
				c.ok(rule, key, pos, "index/slice "+s.desc+" in "+fnName(f), how)
				continue
			}
			o := c.bad(rule, key, pos, fmt.Sprintf("index/slice %s in %s is not protected by a dominating length check, by its producer, or by a reviewed invariant: a short value panics", s.desc, fnName(f)))
			why, ok := exceptions[o.Key]
			hookFn := fnName(f)
			if !ok {
				// code moved into a helper: a reviewed invariant recorded for a function of the same
				// package that calls this one directly still applies to the moved site
				for _, caller := range directCallers(p, f) {
					k2 := strings.Replace(o.Key, "idx:"+fnName(f)+":", "idx:"+fnName(caller)+":", 1)
					if w, found := exceptions[k2]; found && !seenKeys[k2] {
						why, ok, hookFn = w+" [site now in helper "+fnName(f)+"]", true, fnName(caller)
						break
					}
					// the value was a local of the caller and is a parameter of the helper (or the
					// reverse): compare the keys with roots reduced to their types
					for k3, w := range exceptions {
						if !seenKeys[k3] && strings.HasPrefix(k3, "idx:"+fnName(caller)+":") && looseSiteKey(k3) == looseSiteKey(k2) {
							why, ok, hookFn = w+" [site now in helper "+fnName(f)+"]", true, fnName(caller)
						}
					}
					if ok {
						break
					}
					// the value is built differently in the helper (make+index ↔ append, local ↔
					// parameter): match on the index shape alone, provided it identifies one site
					// of the helper and one entry of the caller
					// the site with its root (make / local / parameter and its type) blanked out
					shape := func(k string) string {
						d := k[strings.Index(k[4:], ":")+5:] // after "idx:<function>:"
						return rootRE.ReplaceAllString(d, "$1·")
					}
					base := func(k string) string { return seqSuffixRE.ReplaceAllString(shape(k), "") }
					nHelper := 0
					for _, s2 := range g.collectSites(f, constOnly) {
						if g.discharge(s2) == "" && base("idx:"+fnName(f)+":"+s2.desc) == base(o.Key) {
							nHelper++
						}
					}
					var cands []string
					for k3 := range exceptions {
						if !seenKeys[k3] && strings.HasPrefix(k3, "idx:"+fnName(caller)+":") && base(k3) == base(o.Key) {
							cands = append(cands, k3)
						}
					}
					sort.Strings(cands)
					// as many unproved sites of that shape in the helper as reviewed entries in the caller
					if nHelper >= 1 && len(cands) == nHelper && len(directCallers(p, f)) == 1 {
						why, ok, hookFn = exceptions[cands[0]]+" [site now in helper "+fnName(f)+"]", true, fnName(caller)
						break
					}
				}
			}
			if !ok {
				// last resort, only for invariants that a hook re-verifies on every run: the
				// helper has a single caller, that caller has exactly one reviewed site that no
				// longer exists there, and the helper has exactly one site the engine cannot prove
				if callers := directCallers(p, f); len(callers) == 1 {
					caller := callers[0]
					if _, hasHook := hooks[fnName(caller)]; hasHook {
						var cands []string
						for k3 := range exceptions {
							if !seenKeys[k3] && !used[k3] && strings.HasPrefix(k3, "idx:"+fnName(caller)+":") {
								cands = append(cands, k3)
							}
						}
						// (keys of the caller seen later in this run are excluded below)
						callerKeys := map[string]bool{}
						for _, s2 := range g.collectSites(caller, constOnly) {
							callerKeys["idx:"+fnName(caller)+":"+s2.desc] = true
						}
						var gone []string
						for _, k3 := range cands {
							if !callerKeys[k3] {
								gone = append(gone, k3)
							}
						}
						unproved := 0
						for _, s2 := range g.collectSites(f, constOnly) {
							if g.discharge(s2) == "" {
								unproved++
							}
						}
						if len(gone) == 1 && unproved == 1 {
							why, ok, hookFn = exceptions[gone[0]]+" [site now in helper "+fnName(f)+", written differently]", true, fnName(caller)
						}
					}
				}
			}
			if os.Getenv("MIGRATE_KEYS") != "" && !ok {
				fmt.Printf("MIGRATE\t%s\t%s\t%s\n", rule, "idx:"+fnName(f)+":"+s.old, o.Key)
			}
			if ok {
				used[o.Key] = true
				if h, hasHook := hooks[hookFn]; hasHook {
					res, done := hookRes[hookFn]
					if !done {
						res = h(c)
						hookRes[hookFn] = res
					}
					hooksUsed++
					if res != "" {
						o.Desc += " — the reviewed invariant (" + why + ") is no longer verified: " + res
						continue
					}
					why += " [re-verified on this run]"
				}
				o.Status, o.How = "discharged", "reviewed invariant: "+why
			}
		}
	}
	var unused []string
	for k := range exceptions {
		if !used[k] {
			unused = append(unused, k)
		}
	}
	sort.Strings(unused)
	c.Extra["exceptions_not_needed_"+rule] = unused // sites the engine now proves, or that no longer exist
	c.Extra["exception_hooks_evaluated_"+rule] = hooksUsed
}

// ---- R1
func (c *Check) panicInventory() {
	p := c.P
	type entry struct {
		why    string
		verify func() string
	}
	inv := map[string]entry{
		"(*profile.Profile).Copy":        {why: "Copy re-parses bytes it has just serialized; unreachable if serialization round-trips (property C01, checked separately)"},
		"(driver.profileCopier).newCopy": {why: "re-parses the bytes WriteUncompressed produced for the same profile; unreachable if serialization round-trips (C01)"},
		"(*graph.Node).AddToEdgeDiv":     {why: "asserts In/Out symmetry, which every edge-map update preserves (pairing rule C05-R4)"},
		"(*graph.Graph).TrimTree": {why: "asserts the forest shape produced by newTree (each node is created under exactly one parent map); only reached with call_tree graphs", verify: func() string {
			// TrimTree is only called from newTrimmedGraph under callTree
			return onlyCalledFrom(c, "internal/graph", "(*Graph).TrimTree", "newTrimmedGraph")
		}},
		"(*driver.config).get":              {why: "default branch of the type switch over config field pointers", verify: c.configFieldTypes},
		"(*driver.config).set":              {why: "default branch of the type switch over config field pointers", verify: c.configFieldTypes},
		"driver.generateRawReport":          {why: "nil command: web handlers pass literal names that are keys of pprofCommands; parseCommandLine and the flag parser only return names found in pprofCommands", verify: c.commandNamesKnown},
		"(*report.synthCode).address":       {why: "asserts loc.Address == 0; the only caller passes locations selected by that test", verify: c.synthCallers},
		"symbolizer.demanglerModeToOptions": {why: "every demangler mode Symbolize can pass is a case of the switch", verify: c.demanglerModes},
	}
	n := 0
	// number of explicit panics each reviewed entry covers on the reviewed tree
	reviewed := map[string]int{"(*profile.Profile).Copy": 2, "(driver.profileCopier).newCopy": 1, "(*graph.Node).AddToEdgeDiv": 1, "(*graph.Graph).TrimTree": 2,
		"(*driver.config).get": 1, "(*driver.config).set": 2, "driver.generateRawReport": 1, "(*report.synthCode).address": 1, "symbolizer.demanglerModeToOptions": 1}
	perEntry := map[string]int{}
	var fns []*ssa.Function
	for f := range p.AllFns {
		if fnInModule(f) && f.Blocks != nil {
			fns = append(fns, f)
		}
	}
	sortFns(fns)
	for _, f := range fns {
		pk := fnPkgPath(f)
		if strings.Contains(pk, "/proftest") || strings.Contains(pk, "third_party") || strings.Contains(pk, "browsertests") || strings.Contains(p.Fset.Position(f.Pos()).Filename, "/testdata/") {
			continue
		}
		for _, b := range f.Blocks {
			for _, ins := range b.Instrs {
				pn, ok := ins.(*ssa.Panic)
				if !ok {
					continue
				}
				if !pn.Pos().IsValid() {
					continue // inserted by the compiler front end (misuse check of a range-over-function loop), not an assertion of the program
				}
				n++
				key := "panic:" + fnName(f)
				owner := fnName(f)
				e, ok := inv[owner]
				if !ok {
					// an assertion moved into a helper of the same package keeps the discharge argument
					// of the inventoried function that calls the helper (the number of panics covered
					// by one entry may not grow)
					level := []*ssa.Function{f}
					for depth := 0; depth < 3 && !ok; depth++ {
						var next []*ssa.Function
						for _, g := range level {
							for _, caller := range directCallers(p, g) {
								if e2, found := inv[fnName(caller)]; found && !ok {
									e, ok, owner = e2, true, fnName(caller)
									e.why += " [assertion now in helper " + fnName(f) + "]"
								}
								next = append(next, caller)
							}
						}
						level = next
					}
				}
				if !ok {
					c.bad("C09-R1", key, p.relFile(pn.Pos()), "explicit panic in "+fnName(f)+" is not in the inventory of discharged assertions: bad input reaching it crashes pprof instead of producing an error")
					continue
				}
				perEntry[owner]++
				if perEntry[owner] > reviewed[owner] {
					c.bad("C09-R1", key, p.relFile(pn.Pos()), fmt.Sprintf("%s (with its helpers) now contains %d explicit panics, the reviewed discharge argument covers %d: the additional assertion has not been reviewed", owner, perEntry[owner], reviewed[owner]))
					continue
				}
				if e.verify != nil {
					if broken := e.verify(); broken != "" {
						c.bad("C09-R1", key, p.relFile(pn.Pos()), "panic in "+fnName(f)+" is reachable: "+broken)
						continue
					}
				}
				c.ok("C09-R1", key, p.relFile(pn.Pos()), "panic in "+fnName(f), e.why)
			}
		}
	}
	c.Extra["explicit_panics"] = n
	c.Floor("C09-R1", 8)
}

func (c *Check) configFieldTypes() string {
	pk := c.P.Pkg("internal/driver")
	obj := pk.Types.Scope().Lookup("config")
	if obj == nil {
		return "config type not found"
	}
	st := obj.Type().Underlying().(*types.Struct)
	for i := 0; i < st.NumFields(); i++ {
		bt, ok := st.Field(i).Type().(*types.Basic)
		if !ok {
			return "config." + st.Field(i).Name() + " has a type other than string, int, float64, bool"
		}
		switch bt.Kind() {
		case types.String, types.Int, types.Float64, types.Bool:
		default:
			return "config." + st.Field(i).Name() + " has type " + bt.String() + ", which get/set do not support"
		}
	}
	return ""
}

// commandNamesKnown: literal command names handed to makeReport/generateRawReport are keys of pprofCommands.
func (c *Check) commandNamesKnown() string {
	p := c.P
	pk := p.Pkg("internal/driver")
	keys := map[string]bool{}
	for _, f := range pk.Syntax {
		ast.Inspect(f, func(n ast.Node) bool {
			vs, ok := n.(*ast.ValueSpec)
			if !ok || len(vs.Names) != 1 || vs.Names[0].Name != "pprofCommands" || len(vs.Values) != 1 {
				return true
			}
			if cl, ok := vs.Values[0].(*ast.CompositeLit); ok {
				for _, el := range cl.Elts {
					if kv, ok := el.(*ast.KeyValueExpr); ok {
						if s, ok := litString(kv.Key); ok {
							keys[s] = true
						}
					}
				}
			}
			return false
		})
	}
	if len(keys) < 20 {
		return "pprofCommands literal not found"
	}
	bad := ""
	for _, f := range pk.Syntax {
		ast.Inspect(f, func(n ast.Node) bool {
			call, ok := n.(*ast.CallExpr)
			if !ok {
				return true
			}
			name := exprStr(p.Fset, call.Fun)
			if !strings.HasSuffix(name, "makeReport") {
				return true
			}
			// third argument: []string{"cmd", …} or an identifier bound to such a literal just above
			if len(call.Args) < 3 {
				return true
			}
			var lit *ast.CompositeLit
			switch a := call.Args[2].(type) {
			case *ast.CompositeLit:
				lit = a
			case *ast.Ident:
				if a.Obj != nil {
					if as, ok := a.Obj.Decl.(*ast.AssignStmt); ok && len(as.Rhs) == 1 {
						lit, _ = as.Rhs[0].(*ast.CompositeLit)
					}
				}
			}
			if lit == nil || len(lit.Elts) == 0 {
				bad = "a makeReport call passes a command that is not a literal at " + p.relFile(call.Pos())
				return true
			}
			if s, ok := litString(lit.Elts[0]); !ok || !keys[s] {
				bad = "web handler passes command " + exprStr(p.Fset, lit.Elts[0]) + ", which is not a key of pprofCommands, at " + p.relFile(call.Pos())
			}
			return true
		})
	}
	if bad != "" {
		return bad
	}
	// parseCommandLine returns an error when the name is unknown
	pcl := p.Func("internal/driver", "parseCommandLine")
	if pcl == nil {
		return "parseCommandLine not found"
	}
	okNil := false
	for _, b := range pcl.Blocks {
		for _, ins := range b.Instrs {
			if cmp, ok := ins.(*ssa.BinOp); ok && cmp.Op == token.EQL {
				if k, ok := cmp.Y.(*ssa.Const); ok && k.IsNil() && strings.Contains(typeShort(cmp.X.Type()), "command") {
					okNil = true
				}
			}
		}
	}
	if !okNil {
		return "parseCommandLine no longer rejects names that are not in pprofCommands"
	}
	return ""
}

func (c *Check) synthCallers() string {
	p := c.P
	f := p.Func("internal/report", "(*synthCode).address")
	if f == nil {
		return "synthCode.address not found"
	}
	n := 0
	bad := ""
	forAllPkgFuncs(p, "internal/report", func(g *ssa.Function) {
		for _, b := range g.Blocks {
			for _, ins := range b.Instrs {
				call, ok := ins.(*ssa.Call)
				if !ok || call.Call.StaticCallee() != f {
					continue
				}
				n++
				// on every path to the call, loc.Address == 0 holds: the call is unreachable when Address != 0
				loc := call.Call.Args[1]
				reach := reachUnder(g, func(cond ssa.Value) int {
					cmp, ok := cond.(*ssa.BinOp)
					if !ok || (cmp.Op != token.EQL && cmp.Op != token.NEQ) {
						return 0
					}
					isAddr := func(v ssa.Value) bool {
						ld, ok := v.(*ssa.UnOp)
						if !ok {
							return false
						}
						fa, ok := ld.X.(*ssa.FieldAddr)
						if !ok {
							return false
						}
						_, F := fieldOf(fa.X.Type(), fa.Field)
						return F == "Address" && (fa.X == loc || sameNode(fa.X, loc))
					}
					var other ssa.Value
					if isAddr(cmp.X) {
						other = cmp.Y
					} else if isAddr(cmp.Y) {
						other = cmp.X
					} else {
						return 0
					}
					if k, ok := constInt(other); ok && k == 0 {
						// assume Address != 0
						if cmp.Op == token.EQL {
							return -1
						}
						return 1
					}
					return 0
				})
				if reach[call.Block()] {
					bad = "synthCode.address is called in " + fnName(g) + " on a path where loc.Address may be non-zero"
				}
			}
		}
	})
	if n == 0 {
		return "no caller of synthCode.address found"
	}
	return bad
}

func (c *Check) demanglerModes() string {
	p := c.P
	dm := p.Func("internal/symbolizer", "demanglerModeToOptions")
	if dm == nil || len(dm.Blocks) == 0 {
		return "demanglerModeToOptions not found"
	}
	mode := -1
	for i, par := range dm.Params {
		if bt, ok := par.Type().Underlying().(*types.Basic); ok && bt.Kind() == types.String {
			mode = i
		}
	}
	if mode < 0 {
		return "demanglerModeToOptions has no string parameter"
	}
	// every value the mode can take at a call: constants assigned to it, or a computed string
	// stored only where it was compared equal to a constant
	vals, ok := possibleStrings(p, dm.Params[mode], 0, map[ssa.Value]bool{})
	if !ok {
		return "the demangler mode handed to demanglerModeToOptions is not a set of constants the checker can enumerate"
	}
	vals[""] = true // the zero value of the option
	var panics []*ssa.BasicBlock
	for _, b := range dm.Blocks {
		for _, ins := range b.Instrs {
			if _, isPanic := ins.(*ssa.Panic); isPanic {
				panics = append(panics, b)
			}
		}
	}
	for _, v := range sortedBoolKeys(vals) {
		reach := reachUnder(dm, func(cond ssa.Value) int {
			// the modes may be the keys of a package-level table: `opts, ok := table[mode]`
			if ex, ok := cond.(*ssa.Extract); ok && ex.Index == 1 {
				if lk, ok := ex.Tuple.(*ssa.Lookup); ok && lk.CommaOk && lk.Index == ssa.Value(dm.Params[mode]) {
					if ld, ok := lk.X.(*ssa.UnOp); ok {
						if gl, ok := ld.X.(*ssa.Global); ok {
							for _, k := range stringsStoredInGlobal(p, gl) {
								if k == v {
									return 1
								}
							}
							return -1
						}
					}
				}
			}
			cmp, ok := cond.(*ssa.BinOp)
			if !ok || (cmp.Op != token.EQL && cmp.Op != token.NEQ) {
				return 0
			}
			var k string
			var isK bool
			if cmp.X == ssa.Value(dm.Params[mode]) {
				k, isK = constString(cmp.Y)
			} else if cmp.Y == ssa.Value(dm.Params[mode]) {
				k, isK = constString(cmp.X)
			}
			if !isK {
				return 0
			}
			if (k == v) == (cmp.Op == token.EQL) {
				return 1
			}
			return -1
		})
		for _, pb := range panics {
			if reach[pb] {
				return "Symbolize can pass demangler mode " + fmt.Sprintf("%q", v) + ", which demanglerModeToOptions does not handle"
			}
		}
	}
	return ""
}

// possibleStrings enumerates the constant strings v can hold: constants, phis, variables and
// struct fields assigned from such values, parameters (over all call sites) and results of
// module functions; a computed string counts with the constants it was compared equal to,
// provided it is stored only where one of those comparisons succeeded.
func possibleStrings(p *Program, v ssa.Value, depth int, seen map[ssa.Value]bool) (res map[string]bool, okRes bool) {
	if os.Getenv("DEBUG_PS") != "" {
		defer func() {
			if !okRes {
				fmt.Printf("DEBUG_PS fail depth=%d %T %s\n", depth, v, describeValue(v))
			}
		}()
	}
	out := map[string]bool{}
	if seen[v] {
		return out, true
	}
	seen[v] = true
	if depth > 8 {
		return nil, false
	}
	union := func(vals []ssa.Value) bool {
		for _, e := range vals {
			sub, ok := possibleStrings(p, e, depth+1, seen)
			if !ok {
				return false
			}
			for k := range sub {
				out[k] = true
			}
		}
		return true
	}
	switch x := v.(type) {
	case *ssa.Const:
		if s, ok := constString(x); ok {
			out[s] = true
			return out, true
		}
		return nil, false
	case *ssa.Phi:
		return out, union(x.Edges)
	case *ssa.Parameter:
		fn := x.Parent()
		idx := -1
		for i, q := range fn.Params {
			if q == x {
				idx = i
			}
		}
		calls, okCalls := allCallSites(p, fn)
		if idx < 0 || !okCalls || len(calls) == 0 {
			return nil, false
		}
		var args []ssa.Value
		for _, call := range calls {
			if idx >= len(call.Common().Args) {
				return nil, false
			}
			args = append(args, call.Common().Args[idx])
		}
		return out, union(args)
	case *ssa.Field:
		vals, ok := fieldValues(x.X, x.Field, 0)
		if !ok {
			return nil, false
		}
		out[""] = true // a field that was never assigned
		return out, union(vals)
	case *ssa.UnOp:
		if x.Op != token.MUL {
			return nil, false
		}
		if vals, ok := cellValues(x.X); ok {
			out[""] = true
			return out, union(vals)
		}
		if fa, ok := x.X.(*ssa.FieldAddr); ok {
			if al, ok := fa.X.(*ssa.Alloc); ok {
				if vals, ok := fieldValues(&ssa.UnOp{Op: token.MUL, X: al}, fa.Field, 0); ok {
					out[""] = true
					return out, union(vals)
				}
			}
		}
		return nil, false
	}
	// a computed string: the constants it is compared with, if every store of it happens only
	// after one of those comparisons succeeded
	ins, ok := v.(ssa.Instruction)
	if !ok || v.Referrers() == nil {
		return nil, false
	}
	fn := ins.Parent()
	for _, r := range *v.Referrers() {
		if cmp, ok := r.(*ssa.BinOp); ok && cmp.Op == token.EQL {
			if k, ok := constString(cmp.Y); ok && cmp.X == v {
				out[k] = true
			}
			if k, ok := constString(cmp.X); ok && cmp.Y == v {
				out[k] = true
			}
		}
	}
	if len(out) == 0 {
		return nil, false
	}
	reach := reachUnder(fn, func(cond ssa.Value) int {
		cmp, ok := cond.(*ssa.BinOp)
		if !ok || (cmp.X != v && cmp.Y != v) {
			return 0
		}
		if _, isK := constString(cmp.X); !isK {
			if _, isK2 := constString(cmp.Y); !isK2 {
				return 0
			}
		}
		switch cmp.Op {
		case token.EQL:
			return -1
		case token.NEQ:
			return 1
		}
		return 0
	})
	for _, r := range *v.Referrers() {
		switch y := r.(type) {
		case *ssa.Store:
			if y.Val == v && reach[y.Block()] {
				return nil, false
			}
		case *ssa.BinOp, *ssa.DebugRef:
		case *ssa.Phi:
			// assigned to a variable: only on edges that follow a successful comparison
			for i, e := range y.Edges {
				if e == v && reach[y.Block().Preds[i]] {
					return nil, false
				}
			}
		}
	}
	// keep only the constants with which an assignment is actually reached
	for k := range out {
		reachK := reachUnder(fn, func(cond ssa.Value) int {
			cmp, ok := cond.(*ssa.BinOp)
			if !ok || (cmp.Op != token.EQL && cmp.Op != token.NEQ) {
				return 0
			}
			var c string
			var isK bool
			if cmp.X == v {
				c, isK = constString(cmp.Y)
			} else if cmp.Y == v {
				c, isK = constString(cmp.X)
			}
			if !isK {
				return 0
			}
			if (c == k) == (cmp.Op == token.EQL) {
				return 1
			}
			return -1
		})
		used := false
		for _, r := range *v.Referrers() {
			switch y := r.(type) {
			case *ssa.Store:
				if y.Val == v && reachK[y.Block()] {
					used = true
				}
			case *ssa.Phi:
				for i, e := range y.Edges {
					if e == v && reachK[y.Block().Preds[i]] {
						used = true
					}
				}
			}
		}
		if !used {
			delete(out, k)
		}
	}
	return out, true
}

// ---- R3: v, _ := f() returning (*T, error), then v dereferenced
func (c *Check) discardedErrDeref() {
	p := c.P
	n := 0
	var fns []*ssa.Function
	for f := range p.AllFns {
		if fnInModule(f) && f.Blocks != nil && !strings.Contains(fnPkgPath(f), "/proftest") && !strings.Contains(p.Fset.Position(f.Pos()).Filename, "/testdata/") {
			fns = append(fns, f)
		}
	}
	sortFns(fns)
	for _, f := range fns {
		for _, b := range f.Blocks {
			for _, ins := range b.Instrs {
				call, ok := ins.(*ssa.Call)
				if !ok {
					continue
				}
				tup, ok := call.Type().(*types.Tuple)
				if !ok || tup.Len() != 2 || !types.Identical(tup.At(1).Type(), types.Universe.Lookup("error").Type()) {
					continue
				}
				if _, isPtr := tup.At(0).Type().Underlying().(*types.Pointer); !isPtr {
					continue
				}
				var val, errv *ssa.Extract
				for _, r := range *call.Referrers() {
					if ex, ok := r.(*ssa.Extract); ok {
						if ex.Index == 0 {
							val = ex
						} else {
							errv = ex
						}
					}
				}
				if val == nil || errv != nil && len(*errv.Referrers()) > 0 {
					continue
				}
				// error discarded; is the pointer dereferenced without a nil test?
				deref := ""
				for _, r := range *val.Referrers() {
					switch x := r.(type) {
					case *ssa.UnOp:
						if x.Op == token.MUL && !nilChecked(val, x) {
							deref = "load"
						}
					case *ssa.FieldAddr:
						if !nilChecked(val, x) {
							deref = "field access"
						}
					}
				}
				n++
				key := "discard:" + fnName(f) + ":" + call.Call.Value.Name()
				if deref != "" {
					c.bad("C09-R3", key, p.relFile(call.Pos()), fmt.Sprintf("%s discards the error of %s and then dereferences the returned pointer (%s): a failing call makes it nil and pprof crashes", fnName(f), call.Call.Value.Name(), deref))
				} else {
					c.ok("C09-R3", key, p.relFile(call.Pos()), fnName(f)+" discards the error of "+call.Call.Value.Name(), "the returned pointer is not dereferenced unchecked")
				}
			}
		}
	}
	c.Extra["discarded_error_sites"] = n
}

func nilChecked(v ssa.Value, use ssa.Instruction) bool {
	// a dominating `v != nil` / `v == nil` branch
	for d := use.Block(); d != nil; d = d.Idom() {
		id := d.Idom()
		if id == nil {
			break
		}
		if iff, ok := id.Instrs[len(id.Instrs)-1].(*ssa.If); ok {
			if cmp, ok := iff.Cond.(*ssa.BinOp); ok && (cmp.X == v || cmp.Y == v) {
				return true
			}
		}
	}
	return false
}

// ---- R4: report errors continue the session
func (c *Check) errorsContinue() {
	p := c.P
	f := c.anchorFn("C09-R4", "internal/driver", "interactive")
	if f != nil {
		// the error of generateReportWrapper / parseCommandLine only reaches PrintErr
		wrapper := p.SSAPkg("internal/driver").Var("generateReportWrapper")
		found := false
		for _, b := range f.Blocks {
			for _, ins := range b.Instrs {
				call, ok := ins.(*ssa.Call)
				if !ok {
					continue
				}
				ld, ok := call.Call.Value.(*ssa.UnOp)
				if !ok || ld.X != ssa.Value(wrapper) {
					continue
				}
				found = true
				bad := ""
				seen := map[ssa.Value]bool{}
				var follow func(v ssa.Value)
				follow = func(v ssa.Value) {
					if seen[v] || v.Referrers() == nil {
						return
					}
					seen[v] = true
					for _, r := range *v.Referrers() {
						switch x := r.(type) {
						case *ssa.Phi:
							follow(x)
						case *ssa.MakeInterface:
							follow(x)
						case *ssa.BinOp, *ssa.DebugRef:
						case *ssa.Store:
							// stored into the varargs array of PrintErr
							if ia, ok := x.Addr.(*ssa.IndexAddr); ok {
								follow(ia.X)
							} else {
								bad = "stored"
							}
						case *ssa.Slice:
							follow(x)
						case *ssa.IndexAddr:
						case *ssa.Return:
							bad = "returned from the command loop"
						case *ssa.Panic:
							bad = "turned into a panic"
						case ssa.CallInstruction:
							if x.Common().IsInvoke() && x.Common().Method.Name() == "PrintErr" {
								continue
							}
							bad = "passed to " + x.Common().Value.Name()
						}
					}
				}
				follow(call)
				if bad == "" {
					c.ok("C09-R4", "continue:interactive", p.relFile(call.Pos()), "a failing command leaves the interactive session usable", "the error of the report generator only flows to UI.PrintErr")
				} else {
					c.bad("C09-R4", "continue:interactive", p.relFile(call.Pos()), "the error of a failing interactive command is "+bad)
				}
			}
		}
		if !found {
			c.undecided("C09-R4", "continue:interactive", p.relFile(f.Pos()), "call of generateReportWrapper not found in interactive")
		}
	}
	// os.Exit / log.Fatal inventory outside main
	allowed := map[string]string{
		"github.com/google/pprof.main": "command exit status of the pprof binary itself",
	}
	var fns []*ssa.Function
	for g := range p.AllFns {
		if fnInModule(g) && g.Blocks != nil {
			fns = append(fns, g)
		}
	}
	sortFns(fns)
	for _, g := range fns {
		if strings.Contains(fnPkgPath(g), "/proftest") || strings.Contains(p.Fset.Position(g.Pos()).Filename, "/testdata/") || strings.Contains(fnPkgPath(g), "browsertests") {
			continue
		}
		for _, b := range g.Blocks {
			for _, ins := range b.Instrs {
				call, ok := ins.(ssa.CallInstruction)
				if !ok || call.Common().StaticCallee() == nil {
					continue
				}
				switch call.Common().StaticCallee().String() {
				case "os.Exit", "log.Fatal", "log.Fatalf", "log.Fatalln":
					key := "exit:" + fnName(g)
					if why, ok := allowed[fnName(g)]; ok {
						c.ok("C09-R4", key, p.relFile(call.Pos()), "process exit in "+fnName(g), why)
					} else if onlyOnMissingEmbeddedFile(g, b) {
						c.ok("C09-R4", key, p.relFile(call.Pos()), "process exit in "+fnName(g), "reached only when reading a go:embed file fails: impossible for a built binary because the files are compiled in (their presence is checked by R5)")
					} else {
						c.bad("C09-R4", key, p.relFile(call.Pos()), "process exit in "+fnName(g)+": an error inside a session would terminate pprof")
					}
				}
			}
		}
	}
	// web handlers report errors with http.Error: makeReport's error path
	if mr := c.anchorFn("C09-R4", "internal/driver", "(*webInterface).makeReport"); mr != nil {
		isHTTPError := func(ins ssa.Instruction) bool {
			call, ok := ins.(*ssa.Call)
			return ok && call.Call.StaticCallee() != nil && call.Call.StaticCallee().String() == "net/http.Error"
		}
		sites := effectiveSites(mr, isHTTPError, 2)
		// every return without a report follows an http.Error call (made in makeReport or in a
		// helper it calls on that path)
		n, silent := len(sites), 0
		for _, b := range mr.Blocks {
			ret, ok := b.Instrs[len(b.Instrs)-1].(*ssa.Return)
			if !ok || len(ret.Results) == 0 || !isNilConst(ret.Results[0]) {
				continue
			}
			covered := false
			for _, es := range sites {
				if instrDominates(es.at, ret) {
					covered = true
				}
			}
			if !covered {
				silent++
			}
		}
		if n >= 1 && silent == 0 {
			c.ok("C09-R4", "continue:makeReport", p.relFile(mr.Pos()), "report errors in web handlers become HTTP error responses", fmt.Sprintf("%d http.Error calls; every return of makeReport without a report is preceded by one", n))
		} else {
			c.bad("C09-R4", "continue:makeReport", p.relFile(mr.Pos()), "makeReport no longer turns option and report errors into HTTP errors")
		}
	}
}

// ---- R5: constant patterns compile
func (c *Check) constantPatterns() {
	p := c.P
	nre := 0
	for _, pk := range p.Pkgs {
		if strings.Contains(pk.PkgPath, "/proftest") {
			continue
		}
		for _, f := range pk.Syntax {
			ast.Inspect(f, func(n ast.Node) bool {
				call, ok := n.(*ast.CallExpr)
				if !ok {
					return true
				}
				name := exprStr(p.Fset, call.Fun)
				if name != "regexp.MustCompile" || len(call.Args) != 1 {
					return true
				}
				tv, ok := pk.TypesInfo.Types[call.Args[0]]
				key := "regexp:" + typeShortPkg(pk) + ":" + truncate(exprStr(p.Fset, call.Args[0]), 40)
				if !ok || tv.Value == nil {
					if pat, ok := evalStringExpr(pk, call.Args[0], 0); ok {
						nre++
						if _, err := regexp.Compile(pat); err != nil {
							c.bad("C09-R5", key, p.relFile(call.Pos()), "pattern built from package-level strings does not compile: "+err.Error())
						} else {
							c.ok("C09-R5", key, p.relFile(call.Pos()), "regexp built from package-level string variables compiles", truncate(pat, 60))
						}
						return true
					}
					// non-constant pattern: must be built from quoted pieces
					src := exprStr(p.Fset, call.Args[0])
					if strings.Contains(src, "quotedNames") {
						c.ok("C09-R5", key, p.relFile(call.Pos()), "MustCompile of an alternation of regexp.QuoteMeta'd names", "quoted literals joined with | always compile")
					} else {
						c.bad("C09-R5", key, p.relFile(call.Pos()), "regexp.MustCompile on a non-constant pattern "+src+": an invalid pattern panics")
					}
					return true
				}
				nre++
				pat := constantStringVal(tv)
				if _, err := regexp.Compile(pat); err != nil {
					c.bad("C09-R5", key, p.relFile(call.Pos()), "constant pattern does not compile: "+err.Error())
				} else {
					c.ok("C09-R5", key, p.relFile(call.Pos()), "constant regexp compiles", truncate(pat, 60))
				}
				return true
			})
		}
	}
	c.Extra["constant_regexps"] = nre
	// embedded templates
	pk := p.Pkg("internal/driver")
	dir := filepath.Join(p.RepoDir, "internal", "driver")
	for _, f := range pk.Syntax {
		ast.Inspect(f, func(n ast.Node) bool {
			call, ok := n.(*ast.CallExpr)
			if !ok || exprStr(p.Fset, call.Fun) != "def" || len(call.Args) != 2 {
				return true
			}
			name, _ := litString(call.Args[0])
			inner, ok := call.Args[1].(*ast.CallExpr)
			if !ok || len(inner.Args) != 1 {
				return true
			}
			file, ok := litString(inner.Args[0])
			if !ok {
				return true
			}
			key := "template:" + name
			data, err := os.ReadFile(filepath.Join(dir, file))
			if err != nil {
				c.bad("C09-R5", key, p.relFile(call.Pos()), "embedded file "+file+" is missing: pprof exits when the web UI starts")
				return true
			}
			contents := string(data)
			switch exprStr(p.Fset, inner.Fun) {
			case "loadCSS":
				contents = `<style type="text/css">` + "\n" + contents + `</style>` + "\n"
			case "loadJS":
				contents = `<script>` + "\n" + contents + `</script>` + "\n"
			}
			if _, err := template.New(name).Parse(contents); err != nil {
				c.bad("C09-R5", key, p.relFile(call.Pos()), "embedded template "+file+" does not parse (template.Must panics at first page load): "+err.Error())
			} else {
				c.ok("C09-R5", key, p.relFile(call.Pos()), "embedded template "+file+" parses", "html/template.Parse succeeded in the checker")
			}
			return true
		})
	}
	c.Floor("C09-R5", 30)
}

func constantStringVal(tv types.TypeAndValue) string {
	s := tv.Value.ExactString()
	if u, err := unquoteGo(s); err == nil {
		return u
	}
	return s
}

// evalStringExpr evaluates a string expression made of literals, constants, + and
// package-level string variables that are initialised once and never assigned again.
func evalStringExpr(pk *packages.Package, e ast.Expr, depth int) (string, bool) {
	if depth > 60 {
		return "", false
	}
	if tv, ok := pk.TypesInfo.Types[e]; ok && tv.Value != nil {
		return constantStringVal(tv), true
	}
	switch x := e.(type) {
	case *ast.ParenExpr:
		return evalStringExpr(pk, x.X, depth+1)
	case *ast.BinaryExpr:
		if x.Op != token.ADD {
			return "", false
		}
		a, ok1 := evalStringExpr(pk, x.X, depth+1)
		b, ok2 := evalStringExpr(pk, x.Y, depth+1)
		return a + b, ok1 && ok2
	case *ast.Ident:
		obj, ok := pk.TypesInfo.Uses[x].(*types.Var)
		if !ok || obj.Parent() != pk.Types.Scope() {
			return "", false
		}
		// find its initialiser and make sure nothing assigns it
		var init ast.Expr
		assigned := false
		for _, f := range pk.Syntax {
			ast.Inspect(f, func(n ast.Node) bool {
				switch y := n.(type) {
				case *ast.ValueSpec:
					for i, nm := range y.Names {
						if pk.TypesInfo.Defs[nm] == obj && i < len(y.Values) {
							init = y.Values[i]
						}
					}
				case *ast.AssignStmt:
					for _, l := range y.Lhs {
						if id, ok := l.(*ast.Ident); ok && pk.TypesInfo.Uses[id] == obj {
							assigned = true
						}
					}
				case *ast.UnaryExpr:
					if y.Op == token.AND {
						if id, ok := y.X.(*ast.Ident); ok && pk.TypesInfo.Uses[id] == obj {
							assigned = true
						}
					}
				}
				return true
			})
		}
		if init == nil || assigned {
			return "", false
		}
		return evalStringExpr(pk, init, depth+1)
	}
	return "", false
}

// lockRelease (R6): "never hangs": every mutex taken without a deferred unlock is released
// on every path to a return.
func (c *Check) lockRelease() {
	p := c.P
	n := 0
	var fns []*ssa.Function
	for f := range p.AllFns {
		if fnInModule(f) && f.Blocks != nil {
			fns = append(fns, f)
		}
	}
	sortFns(fns)
	for _, f := range fns {
		lcs := lockCalls(f)
		if len(lcs) == 0 {
			continue
		}
		n++
		leaks := lockLeaks(f)
		if len(leaks) == 0 {
			c.ok("C09-R6", "release:"+fnName(f), p.relFile(f.Pos()), fnName(f)+" releases every mutex it takes", "deferred Unlock, or an Unlock on every path from Lock to return")
			continue
		}
		for _, lk := range leaks {
			c.bad("C09-R6", "release:"+fnName(f)+":"+lk.id, p.relFile(lk.ins.Pos()), fnName(f)+" can return with "+lk.id+" still locked: the session hangs at the next use of that mutex")
		}
	}
	if n < 6 {
		c.undecided("C09-R6", "release:count", "", "fewer locking functions than expected")
	}
}

// divisionGuards (R7): integer division by a value that is not a constant is guarded by a
// comparison of the divisor with zero.
func (c *Check) divisionGuards() {
	p := c.P
	g := newGuardEngine(p)
	var fns []*ssa.Function
	for f := range p.AllFns {
		pk := fnPkgPath(f)
		if fnInModule(f) && f.Blocks != nil && f.Synthetic == "" && pk != modPath+"/profile" && !strings.Contains(pk, "proftest") && !strings.Contains(pk, "third_party") && !strings.Contains(p.Fset.Position(f.Pos()).Filename, "/testdata/") {
			fns = append(fns, f)
		}
	}
	sortFns(fns)
	for _, f := range fns {
		for _, b := range f.Blocks {
			for _, ins := range b.Instrs {
				bo, ok := ins.(*ssa.BinOp)
				if !ok || (bo.Op != token.QUO && bo.Op != token.REM) {
					continue
				}
				if bt, ok := bo.X.Type().Underlying().(*types.Basic); !ok || bt.Info()&types.IsInteger == 0 {
					continue
				}
				if _, isConst := bo.Y.(*ssa.Const); isConst {
					continue
				}
				key := "div:" + fnName(f) + ":" + describeValue(bo.Y)
				if nonZeroGuard(g, f, bo) {
					c.ok("C09-R7", key, p.relFile(bo.Pos()), "integer division in "+fnName(f), "the divisor is compared with 0 on a dominating branch")
				} else if why, ok := c09DivExceptions[key]; ok {
					c.ok("C09-R7", key, p.relFile(bo.Pos()), "integer division in "+fnName(f), "reviewed invariant: "+why)
				} else {
					c.bad("C09-R7", key, p.relFile(bo.Pos()), "integer division in "+fnName(f)+" by "+describeValue(bo.Y)+" without a zero test: a zero divisor panics")
				}
			}
		}
	}
}

var c09DivExceptions = map[string]string{}

// directCallers: the functions of the same package that call f statically (or create it as
// a closure).
func directCallers(p *Program, f *ssa.Function) []*ssa.Function {
	var out []*ssa.Function
	if par := f.Parent(); par != nil {
		out = append(out, par)
	}
	for g := range p.AllFns {
		if g == f || g.Blocks == nil || fnPkgPath(g) != fnPkgPath(f) {
			continue
		}
		found := false
		for _, b := range g.Blocks {
			for _, ins := range b.Instrs {
				if call, ok := ins.(ssa.CallInstruction); ok && call.Common().StaticCallee() == f {
					found = true
				}
			}
		}
		if found {
			out = append(out, g)
		}
	}
	sortFns(out)
	return out
}

// rootRE: the root of a site description: optional dereference prefix, then `make`, or an
// optional `param#N ` / `var ` followed by a type.
var rootRE = regexp.MustCompile(`^((?:\*&)*)(?:make|(?:param#\d+ |var |param \w+)?(?:\[\])*\*?[A-Za-z_][\w.]*)`)

var seqSuffixRE = regexp.MustCompile(`#\d+$`)

var looseRootRE = regexp.MustCompile(`(param#\d+ |var )`)

// looseSiteKey: a site key with `param#N T` and `var T` roots reduced to `T`.
func looseSiteKey(k string) string { return looseRootRE.ReplaceAllString(k, "") }

// methodByName: the function or method of package rel whose bare name is name (unique).
func methodByName(p *Program, rel, name string) *ssa.Function {
	var found *ssa.Function
	n := 0
	forAllPkgFuncs(p, rel, func(f *ssa.Function) {
		if f.Name() == name && f.Parent() == nil {
			found = f
			n++
		}
	})
	if n == 1 {
		return found
	}
	return nil
}

// onlyOnMissingEmbeddedFile: block blk of g is unreachable when every (embed.FS).ReadFile
// call of g succeeds.
func onlyOnMissingEmbeddedFile(g *ssa.Function, blk *ssa.BasicBlock) bool {
	errs := map[ssa.Value]bool{}
	for _, b := range g.Blocks {
		for _, ins := range b.Instrs {
			call, ok := ins.(*ssa.Call)
			if !ok || call.Call.StaticCallee() == nil || call.Call.StaticCallee().String() != "(embed.FS).ReadFile" || call.Referrers() == nil {
				continue
			}
			for _, r := range *call.Referrers() {
				if ex, ok := r.(*ssa.Extract); ok && ex.Index == 1 {
					for _, fl := range flowsOf(ex) {
						errs[fl] = true
					}
				}
			}
		}
	}
	if len(errs) == 0 {
		return false
	}
	reach := reachUnder(g, func(cond ssa.Value) int {
		if cmp, ok := cond.(*ssa.BinOp); ok && (errs[cmp.X] || errs[cmp.Y]) {
			switch cmp.Op {
			case token.NEQ:
				return -1
			case token.EQL:
				return 1
			}
		}
		return 0
	})
	return !reach[blk]
}
